//! Split DWARF through the read -> write converter: `ConvertUnit::convert_split` (C12) and
//! `FilterUnitSection::new_split` + `ConvertUnit::convert_split_with_filter` (C19).
//!
//! Inputs are a MAIN file with a skeleton unit (+ .debug_addr, .debug_line, GNU: .debug_ranges)
//! and a .dwo with the split full unit, built by `gen::build_split` from an abstract unit model;
//! DWARF 5 standard layout and the GNU DebugFission layout of DWARF 4. They are loaded the way a
//! consumer loads them (`Dwarf::load` with the .dwo section names, `Dwarf::make_dwo`).
use super::c12;
use super::c19::{self, Backend, Carrier, Case, Class};
use super::dump::{self, DwarfD, RefNaming};
use super::dw::*;
use super::gen::*;
use super::run::{self, Api, ConvOut, SplitApi};
use mcx::space::{self, Mix};
use mcx::{Ctx, Sub, Tier};

pub const DWO_ID: u64 = 0x1122_3344_a5a6_a7a8;

const ROUTES: [SplitApi; 3] = [SplitApi::StepRow, SplitApi::StepSeq, SplitApi::Bulk];

fn entry_c12(a: SplitApi) -> &'static str {
    match a {
        SplitApi::StepRow => "ConvertUnit::convert_split+stepwise_read_row",
        SplitApi::StepSeq => "ConvertUnit::convert_split+stepwise_read_sequence",
        SplitApi::Bulk => "ConvertUnit::convert_split+ConvertUnit::convert",
    }
}
fn entry_c19(a: SplitApi) -> &'static str {
    match a {
        SplitApi::StepRow => "convert_split_with_filter+stepwise_read_row",
        SplitApi::StepSeq => "convert_split_with_filter+stepwise_read_sequence",
        SplitApi::Bulk => "convert_split_with_filter+ConvertUnit::convert",
    }
}

/// version {4 (GNU), 5} x format {32, 64} x address size {4, 8} x byte order
pub fn cfgs_split() -> Vec<Cfg> {
    let mut v = vec![];
    for version in [4u16, 5] {
        for fmt64 in [false, true] {
            for asz in [4u8, 8] {
                for big in [false, true] {
                    v.push(Cfg { version, fmt64, asz, big });
                }
            }
        }
    }
    v
}

/// every version/format/address size/byte order value occurs, not their product
fn cfgs_diag() -> Vec<Cfg> {
    vec![Cfg { version: 4, fmt64: false, asz: 8, big: false }, Cfg { version: 5, fmt64: true, asz: 4, big: true }, Cfg { version: 4, fmt64: true, asz: 4, big: true }, Cfg { version: 5, fmt64: false, asz: 8, big: false }]
}

// ---------------------------------------------------------------------------
// abstract split unit under construction

struct SB {
    cfg: Cfg,
    unit: UnitM,
    skel_attrs: Vec<Attr>,
    skel_rnglists: Vec<Vec<Rle>>,
}

impl SB {
    fn new(cfg: Cfg) -> SB {
        let mut unit = UnitM::new(TAG_COMPILE_UNIT);
        // two unrelated entries first: no index used by the unit is 0
        unit.strs = vec![b"unused-str".to_vec()];
        unit.addrs = vec![0x00dd_0000, 0x00ee_0000];
        SB { cfg, unit, skel_attrs: vec![], skel_rnglists: vec![] }
    }
    fn v5(&self) -> bool {
        self.cfg.version >= 5
    }
    fn sx(&mut self, s: &[u8]) -> u64 {
        if let Some(i) = self.unit.strs.iter().position(|x| x == s) {
            return i as u64;
        }
        self.unit.strs.push(s.to_vec());
        self.unit.strs.len() as u64 - 1
    }
    fn ax(&mut self, a: u64) -> u64 {
        if let Some(i) = self.unit.addrs.iter().position(|x| *x == a) {
            return i as u64;
        }
        self.unit.addrs.push(a);
        self.unit.addrs.len() as u64 - 1
    }
    /// k-th string form of this version (DWARF 5: strx, strx1, strx2, strx4, strx3; GNU 4: GNU_str_index)
    fn strform(&self, k: usize) -> u64 {
        if self.v5() {
            [FORM_STRX, FORM_STRX1, FORM_STRX2, FORM_STRX4, FORM_STRX3][k % 5]
        } else {
            FORM_GNU_STR_INDEX
        }
    }
    fn addrform(&self, k: usize) -> u64 {
        if self.v5() {
            [FORM_ADDRX, FORM_ADDRX1, FORM_ADDRX2, FORM_ADDRX4, FORM_ADDRX3][k % 5]
        } else {
            FORM_GNU_ADDR_INDEX
        }
    }
    fn strx(&mut self, k: usize, s: &[u8]) -> AV {
        let i = self.sx(s);
        AV::Strx(self.strform(k), i)
    }
    fn addrx(&mut self, k: usize, a: u64) -> AV {
        let i = self.ax(a);
        AV::Addrx(self.addrform(k), i)
    }
    fn op_addrx(&mut self, a: u64) -> Op {
        let i = self.ax(a);
        if self.v5() {
            Op::Addrx(i)
        } else {
            Op::GnuAddrIndex(i)
        }
    }
    fn op_constx(&mut self, a: u64) -> Op {
        let i = self.ax(a);
        if self.v5() {
            Op::Constx(i)
        } else {
            Op::GnuConstIndex(i)
        }
    }
    fn push(&mut self, d: usize, name: u64, val: AV) {
        self.unit.dies[d].attrs.push(at(name, val));
    }
    fn has(&self, d: usize, name: u64) -> bool {
        self.unit.dies[d].attrs.iter().any(|a| a.name == name)
    }
    fn skel_has(&self, name: u64) -> bool {
        self.skel_attrs.iter().any(|a| a.name == name)
    }
    fn root_attrs(&mut self) {
        let n = self.strx(0, b"r0");
        let p = self.strx(1, b"gv-split");
        self.unit.dies[0].attrs.insert(0, at(AT_NAME, n));
        self.push(0, AT_PRODUCER, p);
        self.push(0, AT_LANGUAGE, AV::Data(FORM_DATA1, 0x0c));
    }
    fn line(&mut self) {
        if self.unit.line.is_none() {
            self.unit.line = Some(c12::std_line(self.cfg, vec![LI::SetAddress(0x1000), LI::Copy, LI::AdvancePc(4), LI::SetFile(2), LI::AdvanceLine(3), LI::Copy, LI::AdvancePc(4), LI::EndSequence]));
        }
    }
    fn finish(self) -> SplitM {
        SplitM { cfg: self.cfg, dwo_id: DWO_ID, unit: self.unit, skel_attrs: self.skel_attrs, skel_rnglists: self.skel_rnglists }
    }
}

#[derive(Clone, Copy, Debug, PartialEq, Eq)]
pub struct Variant {
    /// the skeleton carries a line program (with rows); the first entry gets a DW_AT_decl_file
    pub line: bool,
    /// the skeleton carries DW_AT_low_pc (the base address the split unit inherits)
    pub skel_low_pc: bool,
    /// DWARF 5: list attributes use DW_FORM_loclistx / rnglistx instead of DW_FORM_sec_offset
    pub listx: bool,
}
impl Variant {
    fn name(&self) -> String {
        format!("{}{}{}", if self.line { "line-program " } else { "" }, if self.skel_low_pc { "skeleton-low_pc " } else { "" }, if self.listx { "listx" } else { "sec_offset" })
    }
}
const VARIANTS: [Variant; 2] = [Variant { line: false, skel_low_pc: false, listx: false }, Variant { line: true, skel_low_pc: true, listx: true }];

/// Turn the single ordinary unit produced by `c19::build_case` (names as inline strings, one
/// optional reference carrier) into a split compilation: names become string-table indices,
/// subprogram definitions get DW_AT_low_pc/high_pc and variables a DW_AT_location through the
/// address table, location-list entries become *x entries.
fn to_split(model: &Model, var: Variant) -> (SplitM, Vec<String>) {
    assert!(model.units.len() == 1);
    let cfg = model.cfg;
    let mut b = SB::new(cfg);
    b.unit.dies = model.units[0].dies.clone();
    b.unit.dies[0].attrs.retain(|a| a.name != AT_NAME);
    b.root_attrs();
    let n = b.unit.dies.len();
    let mut expect = vec!["at0x3=string \"r0\"".to_string(), "at0x25=string \"gv-split\"".to_string()];
    for d in 1..n {
        expect.push(format!("at0x3=string \"e{}\"", d));
        let attrs = std::mem::take(&mut b.unit.dies[d].attrs);
        let mut out = vec![];
        for a in attrs {
            let val = match a.val {
                AV::Str(FORM_STRING, s) if a.name == AT_NAME => b.strx(d, &s),
                AV::Locs(_, i) => AV::Locs(if b.v5() && var.listx { FORM_LOCLISTX } else { FORM_SEC_OFFSET }, i),
                v => v,
            };
            out.push(at(a.name, val));
        }
        b.unit.dies[d].attrs = out;
        let tag = b.unit.dies[d].tag;
        if tag == TAG_SUBPROGRAM && !b.has(d, AT_DECLARATION) {
            let lo = b.addrx(d, 0x2000 + 0x100 * d as u64);
            b.push(d, AT_LOW_PC, lo);
            b.push(d, AT_HIGH_PC, AV::Data(FORM_DATA4, 0x10));
            expect.push(format!("at0x11=addr {:#x} | at0x12=udata 16", 0x2000 + 0x100 * d));
        }
        if tag == TAG_VARIABLE && !b.has(d, AT_LOCATION) {
            let op = b.op_addrx(0x5000 + 8 * d as u64);
            b.push(d, AT_LOCATION, AV::Expr(FORM_EXPRLOC, vec![op]));
            expect.push(format!("at0x2=expr[addr {:#x}]", 0x5000 + 8 * d));
        }
    }
    let lists = model.units[0].loclists.clone();
    for l in lists {
        let mut nl = vec![];
        for e in l {
            nl.push(match e {
                Lle::Pair(s, e, ops) => {
                    let i = b.ax(s);
                    expect.push(format!("loclist{{[{:#x},{:#x}) expr[", s, e));
                    Lle::StartxLength(i, e - s, ops)
                }
                Lle::StartEnd(s, e, ops) => {
                    let (i, j) = (b.ax(s), b.ax(e));
                    expect.push(format!("loclist{{[{:#x},{:#x}) expr[", s, e));
                    Lle::StartxEndx(i, j, ops)
                }
                other => other,
            });
        }
        b.unit.loclists.push(nl);
    }
    if var.line {
        b.line();
        if n > 1 {
            b.push(1, AT_DECL_FILE, AV::Data(FORM_DATA1, 2));
            expect.push("at0x3a=file \"inc\"/\"b.h\"".to_string());
        }
        expect.push("L row addr=0x1004 ".to_string());
        expect.push("at0x10=lineprogram".to_string());
    }
    if var.skel_low_pc {
        b.skel_attrs.push(at(AT_LOW_PC, AV::Addr(0x1000)));
        expect.push("at0x11=addr 0x1000".to_string());
    }
    expect.push("at0x1b=string \"/cwd\"".to_string());
    (b.finish(), expect)
}

// ---------------------------------------------------------------------------
// reader-side views

/// The dump the OUTPUT of a split conversion must have: the split unit read through gimli's reader
/// with the skeleton's relocated attributes applied; the unit is an ordinary compile unit; the root
/// carries the split root's attributes and the skeleton root's (which the split unit inherits).
fn expected_dump(sb: &SplitBuilt, cfg: Cfg, naming: RefNaming) -> Result<DwarfD, String> {
    let r = mcx::guard(|| -> Result<DwarfD, String> {
        let parent = dump::load(&sb.main, cfg.big);
        let dwo = dump::load_dwo(&sb.dwo, cfg.big, &parent);
        let (mut d, m) = dump::dump_split(&dwo, &parent, naming)?;
        if d.units.len() != 1 || m.units.len() != 1 {
            return Err("generator: one skeleton and one split unit expected".into());
        }
        let u = &mut d.units[0];
        u.head = format!("v{} addr{} compile", cfg.version, cfg.asz);
        let num = |s: &str| -> Result<u64, String> {
            let h = s.strip_prefix("at0x").and_then(|r| r.split('=').next()).ok_or(format!("attribute rendering {}", s))?;
            u64::from_str_radix(h, 16).map_err(|e| format!("{}: {}", s, e))
        };
        let mut attrs: Vec<(u64, String)> = vec![];
        for a in &u.entries[0].attrs {
            attrs.push((num(a)?, a.clone()));
        }
        for a in &m.units[0].entries[0].attrs {
            let n = num(a)?;
            if n == AT_STMT_LIST {
                continue;
            }
            if attrs.iter().any(|x| x.0 == n) {
                return Err(format!("generator: attribute {:#x} on the split root and on the skeleton root", n));
            }
            attrs.push((n, a.clone()));
        }
        if u.line.is_some() {
            // the line program is the skeleton's; the writer refers to it from the output root
            attrs.push((AT_STMT_LIST, format!("at{:#x}=lineprogram", AT_STMT_LIST)));
        }
        attrs.sort();
        u.entries[0].attrs = attrs.into_iter().map(|x| x.1).collect();
        Ok(d)
    });
    match r {
        Ok(r) => r,
        Err(p) => Err(format!("reader panicked: {:?}", p)),
    }
}

// ---------------------------------------------------------------------------
// C12 oracle

/// `expect`: renderings the expected dump must contain, computed from the abstract model alone
/// (addresses through the address table and the skeleton's base, strings through the string
/// table, list entries resolved by hand): guards against the reader-side view and the converter
/// sharing a mistake about how a split unit is resolved.
fn check_split(ctx: &mut Ctx, sb: &SplitBuilt, cfg: Cfg, routes: &[SplitApi], tag: &str, feat: &str, expect: &[String], case: &dyn Fn() -> String) {
    let fk = |k: &str| if feat.is_empty() { k.to_string() } else { format!("{}[{}]", k, feat) };
    let big = cfg.big;
    let din = match expected_dump(sb, cfg, RefNaming::Index) {
        Ok(d) => d,
        Err(e) => {
            ctx.machinery(format!("generated split input is not readable: {} ({})", e, case()));
            return;
        }
    };
    let tin = din.text();
    if ctx.verbose {
        ctx.log(&format!("INPUT {}\nEXPECTED DUMP (split unit read with the skeleton's relocated attributes; root = split root + skeleton root)\n{}", case(), tin));
    }
    if tin.contains("UNRESOLVED") || tin.contains("UNREADABLE") || tin.contains("ERR ") || tin.contains("DANGLING") || tin.contains("UNDECODABLE") || tin.contains("OTHER ") || tin.contains("?file(") || tin.contains("?dir(") || tin.contains("file ?") {
        ctx.machinery(format!("generated split input does not resolve: {}\n{}", case(), tin));
        return;
    }
    for x in expect {
        if !tin.contains(x.as_str()) {
            ctx.machinery(format!("gimli's reader does not give the split input the meaning the generator's model gives it: expected to find `{}` in\n{}\ncase: {}", x, tin, case()));
            return;
        }
    }
    ctx.outcome(&format!("{}:input-reads-as-modelled", tag));
    for &api in routes {
        ctx.eval(1);
        let entry = entry_c12(api);
        let out = match run::convert_split(&sb.main, &sb.dwo, big, api, None) {
            Ok(o) => o,
            Err(p) => {
                ctx.outcome(&format!("{}:panic", tag));
                ctx.fail_panic(entry, &p, case());
                continue;
            }
        };
        let osecs = match out {
            ConvOut::Ok(s) => s,
            ConvOut::ConvErr(e) => {
                ctx.outcome(&format!("{}:convert-err:{}", tag, run::err_class(&e)));
                if ctx.verbose {
                    ctx.log(&format!("{}: conversion error {}", entry, e));
                }
                continue;
            }
            ConvOut::WriteErr(e) => {
                ctx.outcome(&format!("{}:write-err:{}", tag, run::err_class(&e)));
                if ctx.verbose {
                    ctx.log(&format!("{}: write error {}", entry, e));
                }
                continue;
            }
        };
        ctx.outcome(&format!("{}:ok", tag));
        let dout = match c12::dump_secs(&osecs, big) {
            Ok(Ok(d)) => d,
            Ok(Err(e)) => {
                ctx.fail(entry, "output-readable", &fk("output-not-readable"), format!("{}\n  reading the converted output failed: {}\n  output: {}", case(), e, render_secs(&osecs)));
                continue;
            }
            Err(p) => {
                ctx.fail(entry, "output-readable", &fk("output-read-panics"), format!("{}\n  reading the converted output panicked: {:?}\n  output: {}", case(), p, render_secs(&osecs)));
                continue;
            }
        };
        let tout = dout.text();
        if ctx.verbose {
            ctx.log(&format!("{} OUTPUT {}\nOUTPUT DUMP\n{}", entry, render_secs(&osecs), tout));
        }
        if tin != tout {
            let (kind, d) = c12::diff_kind(&tin, &tout);
            ctx.fail(entry, "semantic-dump-equal", &fk(&kind), format!("{}\n  {}\n  output: {}", case(), d, render_secs(&osecs)));
            continue;
        }
        // Converting the output (an ordinary, non-split file) again reproduces its meaning.
        ctx.eval(1);
        match run::convert(&osecs, big, Api::From) {
            Err(p) => ctx.fail_panic(&format!("{}(second:Dwarf::from)", entry), &p, format!("second conversion of the output of {}", case())),
            Ok(ConvOut::Ok(s2)) => {
                let t2 = c12::dump_secs(&s2, big).ok().and_then(|r| r.ok()).map(|d| d.text()).unwrap_or_default();
                if t2 != tout {
                    ctx.fail(entry, "reconvert-reproduces", &fk("second-conversion-changes-meaning"), format!("{}\n  first output : {}\n  second output: {}", case(), render_secs(&osecs), render_secs(&s2)));
                } else {
                    ctx.outcome(&format!("{}:reconvert-same-meaning", tag));
                }
            }
            Ok(ConvOut::ConvErr(e)) | Ok(ConvOut::WriteErr(e)) => {
                ctx.fail(entry, "reconvert-reproduces", &fk(&format!("second-conversion-error-{}", run::err_class(&e))), format!("{}\n  output {} converts with error {}", case(), render_secs(&osecs), e));
            }
        }
    }
}

// ---------------------------------------------------------------------------
// shared forest space (C12 unfiltered, C19 filtered)

const ALPHA4: [Class; 4] = [Class::N, Class::S, Class::M, Class::X];
const ALPHA3: [Class; 3] = [Class::N, Class::S, Class::M];
const SPLIT_CARRIERS: [Carrier; 4] = [Carrier::None, Carrier::AttrRef4, Carrier::ExprCall4, Carrier::LocListCall4];

struct ForestSpace {
    n: usize,
    shapes: Vec<Vec<usize>>,
    alphabet: &'static [Class],
    cfgs: Vec<Cfg>,
    variants: Vec<Variant>,
}
impl ForestSpace {
    fn new(n: usize, alphabet: &'static [Class], cfgs: Vec<Cfg>, variants: Vec<Variant>) -> ForestSpace {
        ForestSpace { n, shapes: if n == 0 { vec![vec![]] } else { space::forests(n) }, alphabet, cfgs, variants }
    }
    fn nclass(&self) -> u64 {
        (self.alphabet.len() as u64).pow(self.n as u32)
    }
    fn pairs(&self) -> u64 {
        ((self.n + 1) * (self.n + 1)) as u64
    }
    fn len(&self) -> u64 {
        self.shapes.len() as u64 * self.nclass() * SPLIT_CARRIERS.len() as u64 * self.pairs() * self.cfgs.len() as u64 * self.variants.len() as u64
    }
    fn bound(&self) -> String {
        format!(
            "every forest with exactly {} non-root entries ({} shapes) x every assignment of tag classes {:?} (tags rotate through namespace / structure_type, base_type, subprogram definition, typedef / member, formal_parameter, variable, lexical_block, subprogram declaration / label) x reference carrier in {:?} x every (source, target) pair incl. the split root as source and as target x {} configs {:?} x variants {:?}; names are string-table indices (strx/strx1/strx2/strx4/strx3 or GNU_str_index), subprogram definitions carry low_pc (addrx* / GNU_addr_index) + high_pc, variables a DW_OP_addrx / DW_OP_GNU_addr_index location, location-list entries are startx_endx / startx_length",
            self.n,
            self.shapes.len(),
            self.alphabet,
            SPLIT_CARRIERS,
            self.cfgs.len(),
            self.cfgs.iter().map(|c| c.name()).collect::<Vec<_>>(),
            self.variants.iter().map(|v| v.name()).collect::<Vec<_>>()
        )
    }
    /// None: the carrier cannot express the pair
    fn decode(&self, i: u64) -> (Case, Variant) {
        let n = self.n;
        let mut x = Mix(i);
        let var = *x.pick(&self.variants);
        let pair = x.take(self.pairs()) as usize;
        let (src, dst) = (pair / (n + 1), pair % (n + 1));
        let carrier = *x.pick(&SPLIT_CARRIERS);
        let mut cl = x.take(self.nclass());
        let shape_idx = x.take(self.shapes.len() as u64) as usize;
        let cfg = *x.pick(&self.cfgs);
        let rot = (cl as usize + shape_idx + pair) % 5;
        let mut class = vec![Class::N; n + 1];
        for k in 1..=n {
            class[k] = self.alphabet[(cl % self.alphabet.len() as u64) as usize];
            cl /= self.alphabet.len() as u64;
        }
        let shape = &self.shapes[shape_idx];
        let mut parent = vec![0usize; n + 1];
        for k in 1..=n {
            parent[k] = if shape[k - 1] == usize::MAX { 0 } else { shape[k - 1] + 1 };
        }
        (Case { cfg, n, parent, class, unit_of: vec![0; n + 1], nunits: 1, carrier, src, dst, second: None, edges: vec![], invalid_src: vec![], rot }, var)
    }
}

fn render_forest_case(c: &Case, var: Variant, sb: &SplitBuilt) -> String {
    format!("split[{}] {} {}", var.name(), c19::render_entries(c), render_split(sb))
}

fn sub_forest_c12(n: usize, alphabet: &'static [Class], cfgs: Vec<Cfg>) -> Sub {
    let sp = ForestSpace::new(n, alphabet, cfgs, VARIANTS.to_vec());
    let bound = format!("{}; each case through convert_split + {{stepwise read_row, stepwise read_sequence, ConvertUnit::convert}}, plus a second conversion (Dwarf::from) of every output", sp.bound());
    Sub::new(&format!("split-forest-refs-n{}", n), sp.len(), &bound, move |ctx, i| {
        let (mut c, var) = sp.decode(i);
        let Some(model) = c19::build_case(&mut c) else {
            ctx.outcome("split:carrier-not-expressible-for-pair");
            return;
        };
        ctx.nontriv(1);
        let (sm, expect) = to_split(&model, var);
        let sb = build_split(&sm);
        let case = || render_forest_case(&c, var, &sb);
        if ctx.want_sample() {
            ctx.sample(case());
        }
        ctx.outcome(&format!("split:carrier:{:?}", c.carrier));
        ctx.outcome(&format!("split:v{}", c.cfg.version));
        check_split(ctx, &sb, c.cfg, &ROUTES, "split", "", &expect, &case);
    })
}

fn sub_forest_c19(n: usize, alphabet: &'static [Class], cfgs: Vec<Cfg>, routes: &'static [SplitApi], variants: Vec<Variant>) -> Sub {
    let sp = ForestSpace::new(n, alphabet, cfgs, variants);
    let nroutes = routes.len() as u64;
    let bound = format!("{} x routes {:?}; inside each case EVERY subset of required entries (2^{}) through FilterUnitSection::new_split + convert_split_with_filter, and the unfiltered convert_split as the attribute reference", sp.bound(), routes.iter().map(|r| r.name()).collect::<Vec<_>>(), n);
    Sub::new(&format!("split-filter-n{}", n), sp.len() * nroutes, &bound, move |ctx, i| {
        let api = routes[(i % nroutes) as usize];
        let (mut c, var) = sp.decode(i / nroutes);
        let Some(model) = c19::build_case(&mut c) else {
            ctx.outcome("c19split:carrier-not-expressible-for-pair");
            return;
        };
        ctx.nontriv(1);
        let (sm, expect) = to_split(&model, var);
        let sb = build_split(&sm);
        let big = c.cfg.big;
        let input = expected_dump(&sb, c.cfg, RefNaming::ByName);
        if let Ok(d) = &input {
            let t = d.text();
            if let Some(x) = expect.iter().find(|x| !t.contains(x.as_str())) {
                ctx.machinery(format!("gimli's reader does not give the split input the meaning the generator's model gives it: expected to find `{}` in\n{}\ncase: {}", x, t, render_forest_case(&c, var, &sb)));
                return;
            }
        }
        ctx.outcome(&format!("c19split:carrier:{:?}", c.carrier));
        ctx.outcome(&format!("c19split:v{}", c.cfg.version));
        let be = Backend {
            entry: entry_c19(api),
            api: api.name(),
            tag: "c19split",
            rendered: render_forest_case(&c, var, &sb),
            input,
            unfiltered: &|| run::convert_split(&sb.main, &sb.dwo, big, api, None),
            filtered: &|required: &[String]| run::convert_split(&sb.main, &sb.dwo, big, api, Some(required)),
        };
        c19::check_with(ctx, &c, &be);
    })
}

// ---------------------------------------------------------------------------
// attribute kits on a fixed forest: root -> e1 (subprogram) -> e2 (variable)

pub const NKITS: u64 = 40;

/// Apply kit `k` to entry `d` (1 or 2). None: the kit does not exist in this DWARF version or
/// conflicts with what the unit already has.
/// rendering expected in the dump, given the unit's base address (the skeleton's DW_AT_low_pc)
type Exp = Box<dyn Fn(u64) -> String>;
fn fixed(s: String) -> Exp {
    Box::new(move |_| s.clone())
}

fn apply_kit(k: u64, b: &mut SB, d: usize, ex: &mut Vec<Exp>) -> Option<&'static str> {
    let v5 = b.v5();
    let lo = 0x2000 + 0x40 * d as u64;
    let mut fx: Vec<String> = vec![];
    let mut rel: Vec<Exp> = vec![];
    let other = T::Die(0, if d == 1 { 2 } else { 1 });
    let strx = |b: &mut SB, form: u64, s: &[u8]| {
        let i = b.sx(s);
        b.push(d, AT_LINKAGE_NAME, AV::Strx(form, i));
    };
    let addrx = |b: &mut SB, form: u64| {
        let i = b.ax(0x2000 + 0x40 * d as u64);
        b.push(d, AT_LOW_PC, AV::Addrx(form, i));
    };
    let xform = if v5 { FORM_ADDRX } else { FORM_GNU_ADDR_INDEX };
    let name = match k {
        0 if v5 => {
            strx(b, FORM_STRX, b"sx");
            fx.push("at0x6e=string \"sx\"".into());
            "strx"
        }
        1 if v5 => {
            strx(b, FORM_STRX1, b"sx1");
            fx.push("at0x6e=string \"sx1\"".into());
            "strx1"
        }
        2 if v5 => {
            strx(b, FORM_STRX2, b"sx2");
            fx.push("at0x6e=string \"sx2\"".into());
            "strx2"
        }
        3 if v5 => {
            strx(b, FORM_STRX3, b"sx3");
            fx.push("at0x6e=string \"sx3\"".into());
            "strx3"
        }
        4 if v5 => {
            strx(b, FORM_STRX4, b"sx4");
            fx.push("at0x6e=string \"sx4\"".into());
            "strx4"
        }
        5 if !v5 => {
            strx(b, FORM_GNU_STR_INDEX, b"gsx");
            fx.push("at0x6e=string \"gsx\"".into());
            "GNU_str_index"
        }
        6 => {
            b.push(d, AT_LINKAGE_NAME, AV::Str(FORM_STRP, b"in-debug_str.dwo".to_vec()));
            fx.push("at0x6e=string \"in-debug_str.dwo\"".into());
            "strp(.debug_str.dwo)"
        }
        7 => {
            b.push(d, AT_LINKAGE_NAME, AV::Str(FORM_STRING, b"inl".to_vec()));
            fx.push("at0x6e=string \"inl\"".into());
            "string"
        }
        8 if v5 => {
            addrx(b, FORM_ADDRX);
            fx.push(format!("at0x11=addr {:#x}", lo));
            "addrx"
        }
        9 if v5 => {
            addrx(b, FORM_ADDRX1);
            fx.push(format!("at0x11=addr {:#x}", lo));
            "addrx1"
        }
        10 if v5 => {
            addrx(b, FORM_ADDRX2);
            fx.push(format!("at0x11=addr {:#x}", lo));
            "addrx2"
        }
        11 if v5 => {
            addrx(b, FORM_ADDRX3);
            fx.push(format!("at0x11=addr {:#x}", lo));
            "addrx3"
        }
        12 if v5 => {
            addrx(b, FORM_ADDRX4);
            fx.push(format!("at0x11=addr {:#x}", lo));
            "addrx4"
        }
        13 if !v5 => {
            addrx(b, FORM_GNU_ADDR_INDEX);
            fx.push(format!("at0x11=addr {:#x}", lo));
            "GNU_addr_index"
        }
        14 => {
            addrx(b, xform);
            b.push(d, AT_HIGH_PC, AV::Data(FORM_DATA4, 0x20));
            fx.push(format!("at0x11=addr {:#x} | at0x12=udata 32", lo));
            "low_pc:addrx+high_pc:data4"
        }
        15 => {
            addrx(b, xform);
            let i = b.ax(0x2000 + 0x40 * d as u64 + 0x30);
            b.push(d, AT_HIGH_PC, AV::Addrx(xform, i));
            fx.push(format!("at0x11=addr {:#x} | at0x12=addr {:#x}", lo, lo + 0x30));
            "low_pc:addrx+high_pc:addrx"
        }
        16 => {
            b.push(d, AT_LOW_PC, AV::Addr(0x2468));
            fx.push("at0x11=addr 0x2468".into());
            "addr(unrelocated-in-dwo)"
        }
        17 if v5 => {
            let (i, j, base) = (b.ax(0x3000), b.ax(0x3010), b.ax(0x4000));
            b.unit.rnglists.push(vec![Rle::StartxLength(i, 2)]);
            b.unit.rnglists.push(vec![Rle::StartxEndx(i, j), Rle::StartxLength(j, 8), Rle::BaseAddressx(base), Rle::OffsetPair(0x10, 0x20)]);
            let idx = b.unit.rnglists.len() - 1;
            b.push(d, AT_RANGES, AV::Ranges(FORM_RNGLISTX, idx));
            fx.push("at0x55=ranges{[0x3000,0x3010) [0x3010,0x3018) [0x4010,0x4020)}".into());
            "rnglistx"
        }
        18 => {
            if v5 {
                let (i, j) = (b.ax(0x3000), b.ax(0x3010));
                b.unit.rnglists.push(vec![Rle::StartLength(0x10, 2)]);
                b.unit.rnglists.push(vec![Rle::StartxEndx(i, j), Rle::StartEnd(0x6000, 0x6008), Rle::StartLength(0x6100, 4)]);
            } else {
                b.unit.rnglists.push(vec![Rle::Pair(0x10, 0x12)]);
                b.unit.rnglists.push(vec![Rle::Base(0x3000), Rle::Pair(0, 0x10), Rle::Pair(0x20, 0x28)]);
            }
            let idx = b.unit.rnglists.len() - 1;
            b.push(d, AT_RANGES, AV::Ranges(FORM_SEC_OFFSET, idx));
            fx.push(if v5 { "at0x55=ranges{[0x3000,0x3010) [0x6000,0x6008) [0x6100,0x6104)}".into() } else { "at0x55=ranges{[0x3000,0x3010) [0x3020,0x3028)}".into() });
            "ranges:sec_offset"
        }
        19 => {
            // offsets relative to the unit's base address = the SKELETON's DW_AT_low_pc (0 if absent)
            if v5 {
                b.unit.rnglists.push(vec![Rle::OffsetPair(0x10, 0x20), Rle::OffsetPair(0x40, 0x44)]);
            } else {
                b.unit.rnglists.push(vec![Rle::Pair(0x10, 0x20), Rle::Pair(0x40, 0x44)]);
            }
            let idx = b.unit.rnglists.len() - 1;
            b.push(d, AT_RANGES, AV::Ranges(if v5 { FORM_RNGLISTX } else { FORM_SEC_OFFSET }, idx));
            rel.push(Box::new(|b| format!("at0x55=ranges{{[{:#x},{:#x}) [{:#x},{:#x})}}", b + 0x10, b + 0x20, b + 0x40, b + 0x44)));
            "ranges:offsets-from-skeleton-base"
        }
        20 if v5 => {
            let (i, j) = (b.ax(0x3000), b.ax(0x3010));
            b.unit.loclists.push(vec![Lle::StartxLength(i, 2, vec![Op::Reg(7)])]);
            b.unit.loclists.push(vec![Lle::StartxEndx(i, j, vec![Op::Reg(1)]), Lle::StartxLength(j, 8, vec![Op::Fbreg(-8)]), Lle::DefaultLocation(vec![Op::Reg(2)])]);
            let idx = b.unit.loclists.len() - 1;
            b.push(d, AT_LOCATION, AV::Locs(FORM_LOCLISTX, idx));
            fx.push("at0x2=loclist{[0x3000,0x3010) expr[".into());
            fx.push(" [0x3010,0x3018) expr[".into());
            "loclistx"
        }
        21 => {
            let (i, j) = (b.ax(0x3000), b.ax(0x3010));
            b.unit.loclists.push(vec![Lle::StartxLength(i, 2, vec![Op::Reg(7)])]);
            if v5 {
                b.unit.loclists.push(vec![Lle::StartxEndx(i, j, vec![Op::Reg(1)]), Lle::StartEnd(0x6000, 0x6008, vec![Op::Reg(4)]), Lle::StartLength(0x6100, 4, vec![Op::Fbreg(-16)])]);
            } else {
                b.unit.loclists.push(vec![Lle::StartxEndx(i, j, vec![Op::Reg(1)]), Lle::StartxLength(j, 8, vec![Op::Fbreg(-8)])]);
            }
            let idx = b.unit.loclists.len() - 1;
            b.push(d, AT_LOCATION, AV::Locs(FORM_SEC_OFFSET, idx));
            fx.push("at0x2=loclist{[0x3000,0x3010) expr[".into());
            fx.push(if v5 { " [0x6000,0x6008) expr[".into() } else { " [0x3010,0x3018) expr[".into() });
            if v5 {
                fx.push(" [0x6100,0x6104) expr[".into());
            }
            "loclist:sec_offset"
        }
        22 if v5 => {
            let base = b.ax(0x4000);
            b.unit.loclists.push(vec![Lle::OffsetPair(0x10, 0x20, vec![Op::Reg(3)]), Lle::BaseAddressx(base), Lle::OffsetPair(0x4, 0x8, vec![Op::Reg(5)])]);
            let idx = b.unit.loclists.len() - 1;
            b.push(d, AT_LOCATION, AV::Locs(FORM_LOCLISTX, idx));
            rel.push(Box::new(|b| format!("at0x2=loclist{{[{:#x},{:#x}) expr[", b + 0x10, b + 0x20)));
            fx.push(" [0x4004,0x4008) expr[".into());
            "loclist:offsets-from-skeleton-base"
        }
        23 if v5 => {
            let op = b.op_addrx(0x5008);
            b.push(d, AT_LOCATION, AV::Expr(FORM_EXPRLOC, vec![op]));
            fx.push("at0x2=expr[addr 0x5008]".into());
            "op:addrx"
        }
        24 if v5 => {
            let op = b.op_constx(0x77);
            b.push(d, AT_LOCATION, AV::Expr(FORM_EXPRLOC, vec![op, Op::Simple(OP_STACK_VALUE)]));
            fx.push("at0x2=expr[constu 119; ".into());
            "op:constx"
        }
        25 if !v5 => {
            let op = b.op_addrx(0x5008);
            b.push(d, AT_LOCATION, AV::Expr(FORM_EXPRLOC, vec![op]));
            fx.push("at0x2=expr[addr 0x5008]".into());
            "op:GNU_addr_index"
        }
        26 if !v5 => {
            let op = b.op_constx(0x77);
            b.push(d, AT_LOCATION, AV::Expr(FORM_EXPRLOC, vec![op, Op::Simple(OP_STACK_VALUE)]));
            fx.push("at0x2=expr[constu 119; ".into());
            "op:GNU_const_index"
        }
        27 => {
            let (i, j) = (b.ax(0x3000), b.ax(0x3010));
            let op = b.op_addrx(0x5010);
            b.unit.loclists.push(vec![Lle::StartxEndx(i, j, vec![op, Op::Simple(OP_DEREF)])]);
            let idx = b.unit.loclists.len() - 1;
            b.push(d, AT_LOCATION, AV::Locs(FORM_SEC_OFFSET, idx));
            fx.push("at0x2=loclist{[0x3000,0x3010) expr[addr 0x5010; ".into());
            "op:addrx-in-location-list"
        }
        28 => {
            b.line();
            b.push(d, AT_DECL_FILE, AV::Data(FORM_DATA1, 2));
            fx.push("at0x3a=file \"inc\"/\"b.h\"".into());
            "decl_file(skeleton-line-program)"
        }
        29 => {
            b.push(d, AT_TYPE, AV::Ref(FORM_REF4, other));
            "ref4"
        }
        30 => {
            if b.skel_has(AT_LOW_PC) || b.skel_has(AT_HIGH_PC) {
                return None;
            }
            b.skel_attrs.push(at(AT_LOW_PC, AV::Addr(0x1800)));
            b.skel_attrs.push(at(AT_HIGH_PC, AV::Data(FORM_DATA4, 0x400)));
            fx.push("at0x11=addr 0x1800 | at0x12=udata 1024".into());
            "skeleton:low_pc+high_pc"
        }
        31 => {
            if b.skel_has(AT_RANGES) {
                return None;
            }
            b.skel_rnglists.push(if v5 { vec![Rle::StartEnd(0x1000, 0x1010), Rle::StartLength(0x2000, 8)] } else { vec![Rle::Base(0x1000), Rle::Pair(0, 0x10), Rle::Pair(0x1000, 0x1008)] });
            let idx = b.skel_rnglists.len() - 1;
            b.skel_attrs.push(at(AT_RANGES, AV::Ranges(FORM_SEC_OFFSET, idx)));
            fx.push("at0x55=ranges{[0x1000,0x1010) [0x2000,0x2008)}".into());
            "skeleton:ranges"
        }
        32 => {
            if b.skel_has(AT_LOW_PC) {
                return None;
            }
            // the skeleton's own low_pc through its own address table (main file)
            let i = b.ax(0x1400);
            b.skel_attrs.push(at(AT_LOW_PC, AV::Addrx(xform, i)));
            fx.push("at0x11=addr 0x1400".into());
            "skeleton:low_pc:addrx"
        }
        33 => {
            b.push(d, AT_FRAME_BASE, AV::Expr(FORM_EXPRLOC, vec![Op::Simple(OP_CALL_FRAME_CFA)]));
            "frame_base"
        }
        34 => {
            b.push(d, AT_LOCATION, AV::Expr(FORM_EXPRLOC, vec![Op::Addr(0x1357)]));
            fx.push("at0x2=expr[addr 0x1357]".into());
            "op:addr(unrelocated-in-dwo)"
        }
        35 => {
            b.push(d, AT_LOCATION, AV::Expr(FORM_EXPRLOC, vec![Op::Call4(if d == 2 { T::Die(0, 1) } else { T::Die(0, 0) })]));
            "op:call4-backward"
        }
        36 => {
            b.line();
            b.push(d, AT_CALL_FILE, AV::Data(FORM_UDATA, 1));
            fx.push("at0x58=file \"/cwd\"/\"a.c\"".into());
            "call_file(skeleton-line-program)"
        }
        37 => {
            b.push(d, AT_BYTE_SIZE, AV::Data(FORM_DATA2, 0x1234));
            fx.push("at0xb=udata 4660".into());
            "data2"
        }
        38 if v5 => {
            b.push(d, AT_DECL_LINE, AV::Implicit(-5));
            "implicit_const"
        }
        39 if v5 => {
            // range list whose addresses are all indexed, referenced by offset
            let (i, j) = (b.ax(0x3000), b.ax(0x3010));
            b.unit.rnglists.push(vec![Rle::BaseAddressx(i), Rle::OffsetPair(0, 4), Rle::StartxLength(j, 0x10)]);
            let idx = b.unit.rnglists.len() - 1;
            b.push(d, AT_RANGES, AV::Ranges(FORM_SEC_OFFSET, idx));
            fx.push("at0x55=ranges{[0x3000,0x3004) [0x3010,0x3020)}".into());
            "ranges:sec_offset:base_addressx"
        }
        _ => return None,
    };
    ex.extend(fx.into_iter().map(fixed));
    ex.extend(rel);
    Some(name)
}

/// the unit's base address according to the model: the skeleton's DW_AT_low_pc, 0 if absent
fn model_base(b: &SB) -> u64 {
    match b.skel_attrs.iter().find(|a| a.name == AT_LOW_PC).map(|a| &a.val) {
        Some(AV::Addr(x)) => *x,
        Some(AV::Addrx(_, i)) => b.unit.addrs[*i as usize],
        _ => 0,
    }
}

fn kit_base(cfg: Cfg, var: Variant) -> SB {
    let mut b = SB::new(cfg);
    b.root_attrs();
    let n1 = b.strx(2, b"e1");
    let n2 = b.strx(3, b"e2");
    let e1 = b.unit.add(0, TAG_SUBPROGRAM, vec![at(AT_NAME, n1)]);
    b.unit.add(e1, TAG_VARIABLE, vec![at(AT_NAME, n2)]);
    if var.line {
        b.line();
    }
    if var.skel_low_pc {
        b.skel_attrs.push(at(AT_LOW_PC, AV::Addr(0x1000)));
    }
    b
}

const KIT_VARIANTS: [Variant; 4] = [
    Variant { line: false, skel_low_pc: false, listx: false },
    Variant { line: true, skel_low_pc: false, listx: false },
    Variant { line: false, skel_low_pc: true, listx: false },
    Variant { line: true, skel_low_pc: true, listx: false },
];

fn sub_kits() -> Sub {
    let cfgs = cfgs_split();
    let len = NKITS * 2 * KIT_VARIANTS.len() as u64 * cfgs.len() as u64;
    let bound = format!("{} attribute/form kits (every indexed form once: strx, strx1-4, GNU_str_index, addrx, addrx1-4, GNU_addr_index, rnglistx, loclistx, DW_OP_addrx, DW_OP_constx, DW_OP_GNU_addr_index, DW_OP_GNU_const_index; strp into .debug_str.dwo; low_pc/high_pc; range and location lists by offset and by index, with *x entries, with offsets relative to the skeleton's base address; file attributes through the skeleton's line program; skeleton low_pc/high_pc/ranges) on entry 1 or 2 of the fixed forest root -> subprogram -> variable x (skeleton line program?, skeleton DW_AT_low_pc?) x {} configs; through the three convert_split routes plus a second conversion", NKITS, cfgs.len());
    Sub::new("split-kits", len, &bound, move |ctx, i| {
        let mut x = Mix(i);
        let k = x.take(NKITS);
        let d = 1 + x.take(2) as usize;
        let var = *x.pick(&KIT_VARIANTS);
        let cfg = *x.pick(&cfgs);
        let mut b = kit_base(cfg, var);
        let mut ex: Vec<Exp> = vec![];
        let Some(kit) = apply_kit(k, &mut b, d, &mut ex) else {
            ctx.outcome("splitkit:kit-not-in-version");
            return;
        };
        ctx.nontriv(1);
        let base = model_base(&b);
        let expect: Vec<String> = ex.iter().map(|f| f(base)).collect();
        let sb = build_split(&b.finish());
        let case = || format!("split[{}] {} kit={} on entry e{} of root -> e1 subprogram -> e2 variable; {}", var.name(), cfg.name(), kit, d, render_split(&sb));
        if ctx.want_sample() {
            ctx.sample(case());
        }
        ctx.outcome(&format!("splitkit:{}", kit));
        check_split(ctx, &sb, cfg, &ROUTES, "splitkit", kit, &expect, &case);
    })
}

fn sub_kit_pairs(tier: Tier) -> Sub {
    let cfgs = tier.pick(cfgs_diag(), cfgs_split());
    let len = NKITS * NKITS * KIT_VARIANTS.len() as u64 * cfgs.len() as u64;
    let bound = format!("every ordered pair of the {} split kits, the first on e1 (subprogram) and the second on e2 (variable) (interactions: two users of one address/string/list table, list offsets x skeleton base address, file attributes x line program) x (skeleton line program?, skeleton DW_AT_low_pc?) x {} configs; routes stepwise read_sequence and ConvertUnit::convert", NKITS, cfgs.len());
    Sub::new("split-kit-pairs", len, &bound, move |ctx, i| {
        let mut x = Mix(i);
        let ka = x.take(NKITS);
        let kb = x.take(NKITS);
        let var = *x.pick(&KIT_VARIANTS);
        let cfg = *x.pick(&cfgs);
        let mut b = kit_base(cfg, var);
        let mut ex: Vec<Exp> = vec![];
        let Some(a) = apply_kit(ka, &mut b, 1, &mut ex) else {
            ctx.outcome("splitpair:kit-not-in-version-or-conflict");
            return;
        };
        let Some(bb) = apply_kit(kb, &mut b, 2, &mut ex) else {
            ctx.outcome("splitpair:kit-not-in-version-or-conflict");
            return;
        };
        ctx.nontriv(1);
        let base = model_base(&b);
        let expect: Vec<String> = ex.iter().map(|f| f(base)).collect();
        let sb = build_split(&b.finish());
        let case = || format!("split[{}] {} kit {} on e1 (subprogram), kit {} on e2 (variable, child of e1); {}", var.name(), cfg.name(), a, bb, render_split(&sb));
        if ctx.want_sample() {
            ctx.sample(case());
        }
        check_split(ctx, &sb, cfg, &[SplitApi::StepSeq, SplitApi::Bulk], "splitpair", &format!("{}&{}", a, bb), &expect, &case);
    })
}

// ---------------------------------------------------------------------------

pub fn subs_c12(tier: Tier) -> Vec<Sub> {
    // the full version x format x address size x byte order product up to 2 (quick) / 3 (thorough)
    // entries; one more entry under a diagonal of 4 configs in which every value occurs
    let mut v = vec![sub_forest_c12(0, &ALPHA3, cfgs_split()), sub_forest_c12(1, &ALPHA4, cfgs_split()), sub_forest_c12(2, &ALPHA4, cfgs_split()), sub_forest_c12(3, &ALPHA3, tier.pick(cfgs_diag(), cfgs_split())), sub_kits(), sub_kit_pairs(tier)];
    if tier == Tier::Thorough {
        v.push(sub_forest_c12(4, &ALPHA3, cfgs_diag()));
    }
    v
}

pub fn required_c12() -> Vec<String> {
    let mut r: Vec<String> = ["split:ok", "split:input-reads-as-modelled", "splitkit:input-reads-as-modelled", "splitpair:input-reads-as-modelled", "split:reconvert-same-meaning", "split:v4", "split:v5", "split:carrier:AttrRef4", "split:carrier:ExprCall4", "split:carrier:LocListCall4", "splitkit:ok", "splitkit:reconvert-same-meaning", "splitpair:ok"].iter().map(|s| s.to_string()).collect();
    for k in ["strx", "strx1", "strx2", "strx3", "strx4", "GNU_str_index", "addrx", "addrx1", "addrx2", "addrx3", "addrx4", "GNU_addr_index", "rnglistx", "loclistx", "op:addrx", "op:constx", "op:GNU_addr_index", "op:GNU_const_index", "ranges:sec_offset", "loclist:sec_offset", "ranges:offsets-from-skeleton-base", "loclist:offsets-from-skeleton-base", "decl_file(skeleton-line-program)", "skeleton:ranges", "skeleton:low_pc+high_pc"] {
        r.push(format!("splitkit:{}", k));
    }
    r
}

pub fn assumptions_c12() -> Vec<String> {
    vec![
        "split DWARF (subs split-*): the input is a main file with a skeleton unit and a .dwo with the split full unit, DWARF 5 layout (DW_UT_skeleton / DW_UT_split_compile with dwo_id, DW_TAG_skeleton_unit, DW_AT_dwo_name, DW_AT_addr_base, .debug_str_offsets.dwo / .debug_rnglists.dwo / .debug_loclists.dwo with headers and no base attribute) and GNU DebugFission layout of DWARF 4 (DW_AT_GNU_dwo_name/dwo_id/addr_base/ranges_base, headerless .debug_addr and .debug_str_offsets.dwo, DW_FORM_GNU_str_index/addr_index, DW_OP_GNU_addr_index/const_index, DW_LLE_GNU_* entries in .debug_loc.dwo, range lists in the main file's .debug_ranges relative to DW_AT_GNU_ranges_base); loaded with Dwarf::load + SectionId::dwo_name + Dwarf::make_dwo".into(),
        "split DWARF: the expected dump is the split unit read through gimli's reader with the skeleton's relocated attributes (Unit::copy_relocated_attributes), so strings, addresses, range and location lists appear resolved; file indices and line rows are those of the skeleton's line program (DWARF 5 3.1.3: DW_AT_stmt_list, DW_AT_comp_dir, DW_AT_low_pc ... are inherited from the skeleton); the output must be one ordinary compile unit of the same version and address size".into(),
        "split DWARF: the drivers follow crates/examples/src/bin/convert.rs: after the split root's attributes the skeleton root's attributes are converted onto the output root (with ConvertUnit::convert_attribute_value and the skeleton as read_unit); the expected root is the union of both roots' attributes (the generator never puts one attribute on both). Whether ConvertUnit::convert alone should merge the skeleton's attributes is a design decision the property does not fix and is not checked".into(),
        "split DWARF: attributes that only make sense in split form (DW_AT_dwo_name, DW_AT_GNU_dwo_name, DW_AT_GNU_dwo_id, DW_AT_addr_base, DW_AT_GNU_addr_base, DW_AT_GNU_ranges_base, DW_AT_rnglists_base, DW_AT_str_offsets_base) and the unit type / dwo_id of the headers are not part of the dump".into(),
        "split DWARF: DW_LLE_GNU_offset_pair_entry is not generated (GCC never emits it; binutils and LLVM disagree about its operand encoding); the second conversion is Dwarf::from on the (non-split) output and only its meaning is compared, not its bytes (the first conversion goes through a different route)".into(),
    ]
}

const C19_ROUTES: [SplitApi; 2] = [SplitApi::StepSeq, SplitApi::Bulk];
const C19_ROUTES_ALL: [SplitApi; 3] = [SplitApi::StepRow, SplitApi::StepSeq, SplitApi::Bulk];

pub fn subs_c19(tier: Tier) -> Vec<Sub> {
    match tier {
        Tier::Quick => vec![
            sub_forest_c19(1, &ALPHA4, cfgs_split(), &C19_ROUTES_ALL, VARIANTS.to_vec()),
            sub_forest_c19(2, &ALPHA4, cfgs_split(), &C19_ROUTES, VARIANTS.to_vec()),
            sub_forest_c19(3, &ALPHA3, cfgs_diag(), &C19_ROUTES, VARIANTS.to_vec()),
        ],
        Tier::Thorough => vec![
            sub_forest_c19(1, &ALPHA4, cfgs_split(), &C19_ROUTES_ALL, VARIANTS.to_vec()),
            sub_forest_c19(2, &ALPHA4, cfgs_split(), &C19_ROUTES_ALL, VARIANTS.to_vec()),
            sub_forest_c19(3, &ALPHA4, cfgs_split(), &C19_ROUTES, VARIANTS.to_vec()),
            sub_forest_c19(4, &ALPHA3, cfgs_diag(), &C19_ROUTES, vec![VARIANTS[1]]),
        ],
    }
}

pub fn required_c19() -> Vec<String> {
    ["c19split:ok", "c19split:exact-set-verified", "c19split:set-within-band", "c19split:proper-nonempty-subset-retained", "c19split:unfiltered-ok", "c19split:unfiltered-err", "c19split:v4", "c19split:v5", "c19split:carrier:AttrRef4", "c19split:carrier:ExprCall4", "c19split:carrier:LocListCall4"].iter().map(|s| s.to_string()).collect()
}

pub fn assumptions_c19() -> Vec<String> {
    vec![
        "split-unit filters (subs split-filter-n*): the same closure model on the forest of the split full unit of a skeleton/.dwo pair (layouts as in C12's split subs: DWARF 5 and GNU DWARF 4); the filter is FilterUnitSection::new_split(dwo, skeleton unit) with require_entry by DW_AT_name (resolved with UnitRef::attr_string, the names are string-table indices), the conversion ConvertUnit::convert_split_with_filter; reference carriers {none, DW_AT_type ref4, DW_OP_call4 in an exprloc, DW_OP_call4 in a location-list entry}".into(),
        "split-unit filters: attribute equality is against the unfiltered ConvertUnit::convert_split through the same route when that succeeds, otherwise against the split unit read with the skeleton's relocated attributes; the skeleton root's attributes are converted onto the output root as crates/examples/src/bin/convert.rs does".into(),
    ]
}
