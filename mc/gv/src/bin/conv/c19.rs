//! C19: conversion with an entry filter yields output that is
//! dependency-closed, complete and minimal.
use super::dump::{self, DwarfD, RefNaming};
use super::dw::*;
use super::gen::*;
use super::run::{self, ConvOut};
use mcx::space::{self, Mix};
use mcx::{CheckDef, Ctx, Sub, Tier};
use std::collections::BTreeMap;

/// Tag classes with respect to the filter's parent -> child ("back") edge.
#[derive(Clone, Copy, PartialEq, Eq, Debug)]
pub(super) enum Class {
    /// namespace: structural, its children are never pulled in by it
    N,
    /// standalone entity (type, subprogram definition): only kept when required or referenced
    S,
    /// member-like (member, parameter, local variable, block, subprogram declaration):
    /// must be kept when its non-namespace parent is kept
    M,
    /// a tag the property does not categorise (DW_TAG_label): may or may not follow its parent
    X,
}

const TAG_LABEL: u64 = 0x0a;

/// Further tags that only make sense as part of their parent ("and the like" in the property):
/// unspecified_parameters, variant, inheritance, inlined_subroutine, catch_block, enumerator,
/// friend, template_type_parameter, template_value_parameter, thrown_type, try_block,
/// variant_part, call_site, call_site_parameter.
/// Further stand-alone entities that are no namespaces (kept only when required or referenced,
/// but keeping their member-like children when kept): array_type, class_type, enumeration_type,
/// subroutine_type, union_type, common_block, module, interface_type.
pub(super) const MORE_STANDALONE: [u64; 8] = [0x01, 0x02, 0x04, 0x15, 0x17, 0x1a, 0x1e, 0x38];
pub(super) const MORE_MEMBER_LIKE: [u64; 14] = [0x18, 0x19, 0x1c, 0x1d, 0x25, 0x28, 0x2a, 0x2f, 0x30, 0x31, 0x32, 0x33, 0x48, 0x49];

/// (tag, is_declaration) for class `c` at entry number `k` (rotates through the class's tags
/// so that all ten tags of the property's quantifier occur).
pub(super) fn tag_for(c: Class, k: usize, rot: usize) -> (u64, bool) {
    // rot >= 200 selects one of the further stand-alone container tags for every class S entry
    if rot >= 200 {
        if c == Class::S {
            return (MORE_STANDALONE[(rot - 200) % MORE_STANDALONE.len()], false);
        }
        return tag_for(c, k, rot - 200);
    }
    // rot >= 100 selects one of the further member-like tags for every class M entry
    if rot >= 100 {
        if c == Class::M {
            return (MORE_MEMBER_LIKE[(rot - 100) % MORE_MEMBER_LIKE.len()], false);
        }
        return tag_for(c, k, rot - 100);
    }
    let k = k + rot;
    match c {
        Class::N => (TAG_NAMESPACE, false),
        Class::S => [(TAG_STRUCTURE_TYPE, false), (TAG_BASE_TYPE, false), (TAG_SUBPROGRAM, false), (TAG_TYPEDEF, false)][k % 4],
        Class::M => [(TAG_MEMBER, false), (TAG_FORMAL_PARAMETER, false), (TAG_VARIABLE, false), (TAG_LEXICAL_BLOCK, false), (TAG_SUBPROGRAM, true)][k % 5],
        Class::X => (TAG_LABEL, false),
    }
}

#[derive(Clone, Copy, PartialEq, Eq, Debug)]
pub(super) enum Carrier {
    None,
    AttrRef4,
    AttrRefAddr,
    ExprCallRef,
    ExprCall4,
    ExprConstType,
    LocListCallRef,
    LocListCall4,
    OutOfBounds,
    MidEntry,
    CycleRef4,
    CycleRefAddrExpr,
    // further reference-carrying operations and location-list entry kinds (added after an
    // independent review of the filter listed operations it does not scan)
    ExprImplicitPointer,
    ExprEntryValueNested,
    ExprParameterRef,
    ExprRegvalType,
    ExprDerefType,
    ExprConvert,
    ExprReinterpret,
    LocListDefault,
    LocListEmptyRange,
    LocListTombstone,
    LocListSecondEntry,
    /// one location list (one offset) shared by the source and by every other entry of its unit
    LocListShared,
    /// DW_FORM_ref_addr / DW_OP_call_ref to the ROOT entry of the other unit (dwz-style
    /// DW_AT_import of a partial unit): the target unit may have nothing else retained
    AttrRefAddrOtherUnitRoot,
    ExprCallRefOtherUnitRoot,
    /// DW_AT_sibling (a reference-class attribute that is navigation data, dropped by the
    /// converter): must NOT make the next sibling a dependency
    SiblingAttr,
    /// DW_FORM_ref4 whose value is past the end of the source's unit and lands exactly on an
    /// entry of the NEXT unit (an invalid reference: it designates no entry of its own unit)
    OutOfBoundsIntoNextUnit,
}
const MORE_CARRIERS: [Carrier; 16] = [
    Carrier::SiblingAttr,
    Carrier::OutOfBoundsIntoNextUnit,
    Carrier::AttrRefAddrOtherUnitRoot,
    Carrier::ExprCallRefOtherUnitRoot,
    Carrier::ExprImplicitPointer,
    Carrier::ExprEntryValueNested,
    Carrier::ExprParameterRef,
    Carrier::ExprRegvalType,
    Carrier::ExprDerefType,
    Carrier::ExprConvert,
    Carrier::ExprReinterpret,
    Carrier::LocListDefault,
    Carrier::LocListEmptyRange,
    Carrier::LocListTombstone,
    Carrier::LocListSecondEntry,
    Carrier::LocListShared,
];
fn is_more(c: Carrier) -> bool {
    MORE_CARRIERS.contains(&c)
}
const CARRIERS: [Carrier; 12] = [
    Carrier::None,
    Carrier::AttrRef4,
    Carrier::AttrRefAddr,
    Carrier::ExprCallRef,
    Carrier::ExprCall4,
    Carrier::ExprConstType,
    Carrier::LocListCallRef,
    Carrier::LocListCall4,
    Carrier::OutOfBounds,
    Carrier::MidEntry,
    Carrier::CycleRef4,
    Carrier::CycleRefAddrExpr,
];

pub(super) struct Case {
    pub cfg: Cfg,
    pub n: usize,
    /// parent of entry k (1..=n); 0 = the root of its unit
    pub parent: Vec<usize>,
    pub class: Vec<Class>,
    /// unit of entry k
    pub unit_of: Vec<usize>,
    pub nunits: usize,
    pub carrier: Carrier,
    pub src: usize,
    pub dst: usize,
    /// optional second, independent reference (carrier, source, target)
    pub second: Option<(Carrier, usize, usize)>,
    /// valid reference edges (src entry, dst entry); dst 0 = a unit root
    pub edges: Vec<(usize, usize)>,
    /// entries carrying a reference that does not designate an entry
    pub invalid_src: Vec<usize>,
    /// rotation of the tag lists, so that every tag occurs at every position
    pub rot: usize,
}

/// The code under test and the reader-side views of one case, so that the oracle below serves
/// both the ordinary filter (`convert_with_filter`) and the split-unit filter
/// (`convert_split_with_filter`, conv/split.rs).
pub(super) struct Backend<'x> {
    /// VIOLATION key entry
    pub entry: &'x str,
    /// route name shown in the rendered case
    pub api: &'x str,
    /// prefix of the outcome classes
    pub tag: &'x str,
    /// entries + carrier + input sections
    pub rendered: String,
    /// by-name dump of the input
    pub input: Result<DwarfD, String>,
    pub unfiltered: &'x dyn Fn() -> Result<ConvOut, mcx::Panic>,
    pub filtered: &'x dyn Fn(&[String]) -> Result<ConvOut, mcx::Panic>,
}

pub(super) fn name_of(k: usize) -> String {
    format!("e{}", k)
}

/// Build the model; None when the carrier cannot express this (src, dst) pair.
pub(super) fn build_case(c: &mut Case) -> Option<Model> {
    let cfg = c.cfg;
    let mut units: Vec<UnitM> = (0..c.nunits)
        .map(|u| {
            let mut m = UnitM::new(TAG_COMPILE_UNIT);
            m.dies[0].attrs.push(at(AT_NAME, AV::Str(FORM_STRING, format!("r{}", u).into_bytes())));
            m
        })
        .collect();
    // (unit, die index) of every entry
    let mut loc: Vec<(usize, usize)> = vec![(0, 0); c.n + 1];
    for k in 1..=c.n {
        let u = c.unit_of[k];
        let (tag, decl) = tag_for(c.class[k], k, c.rot);
        let mut attrs = vec![at(AT_NAME, AV::Str(FORM_STRING, name_of(k).into_bytes()))];
        if decl {
            attrs.push(at(AT_DECLARATION, AV::Flag(if cfg.version >= 4 { FORM_FLAG_PRESENT } else { FORM_FLAG }, true)));
        }
        let p = if c.parent[k] == 0 { 0 } else { loc[c.parent[k]].1 };
        let d = units[u].add(p, tag, attrs);
        loc[k] = (u, d);
    }
    let secoff = if cfg.version >= 4 {
        FORM_SEC_OFFSET
    } else if cfg.fmt64 {
        FORM_DATA8
    } else {
        FORM_DATA4
    };
    let exprform = if cfg.version >= 4 { FORM_EXPRLOC } else { FORM_BLOCK1 };
    c.edges.clear();
    c.invalid_src.clear();
    let mut slots = vec![(c.carrier, c.src, c.dst)];
    if let Some(e) = c.second {
        slots.push(e);
    }
    for (slot, (carrier, src, dst)) in slots.into_iter().enumerate() {
        // the second reference uses other attribute names, so that no entry carries an attribute twice
        let (at_ref, at_loc) = if slot == 0 { (AT_TYPE, AT_LOCATION) } else { (AT_SPECIFICATION, AT_FRAME_BASE) };
        let same_unit = dst == 0 || c.unit_of[src] == c.unit_of[dst];
        let tgt = |k: usize, from_unit: usize| -> T {
            if k == 0 {
                T::Die(from_unit, 0)
            } else {
                T::Die(loc[k].0, loc[k].1)
            }
        };
        let su = c.unit_of[src];
        let (sd, dd) = (loc[src].1, dst);
        let push = |units: &mut Vec<UnitM>, u: usize, d: usize, a: Attr| units[u].dies[d].attrs.push(a);
        let loclist = |units: &mut Vec<UnitM>, u: usize, d: usize, ops: Vec<Op>| {
            let l = if cfg.version >= 5 { vec![Lle::StartEnd(0x1000, 0x1010, ops)] } else { vec![Lle::Pair(0x1000, 0x1010, ops)] };
            units[u].loclists.push(l);
            let idx = units[u].loclists.len() - 1;
            units[u].dies[d].attrs.push(at(at_loc, AV::Locs(secoff, idx)));
        };
        if src == 0 && dst == 0 && carrier != Carrier::None {
            return None;
        }
        match carrier {
            Carrier::None => {
                if src != 0 || dst != 0 {
                    return None;
                }
            }
            Carrier::AttrRef4 => {
                if !same_unit {
                    return None;
                }
                push(&mut units, su, sd, at(at_ref, AV::Ref(FORM_REF4, tgt(dd, su))));
                c.edges.push((src, dst));
            }
            Carrier::AttrRefAddr => {
                push(&mut units, su, sd, at(at_ref, AV::Ref(FORM_REF_ADDR, tgt(dd, su))));
                c.edges.push((src, dst));
            }
            Carrier::ExprCallRef => {
                push(&mut units, su, sd, at(at_loc, AV::Expr(exprform, vec![Op::CallRef(tgt(dd, su)), Op::Simple(OP_STACK_VALUE)])));
                c.edges.push((src, dst));
            }
            Carrier::ExprCall4 => {
                if !same_unit {
                    return None;
                }
                push(&mut units, su, sd, at(at_loc, AV::Expr(exprform, vec![Op::Call4(tgt(dd, su))])));
                c.edges.push((src, dst));
            }
            Carrier::ExprConstType => {
                if !same_unit {
                    return None;
                }
                push(&mut units, su, sd, at(at_loc, AV::Expr(exprform, vec![Op::ConstType(tgt(dd, su), vec![1, 2]), Op::Simple(OP_STACK_VALUE)])));
                c.edges.push((src, dst));
            }
            Carrier::LocListCallRef => {
                loclist(&mut units, su, sd, vec![Op::CallRef(tgt(dd, su))]);
                c.edges.push((src, dst));
            }
            Carrier::LocListCall4 => {
                if !same_unit {
                    return None;
                }
                loclist(&mut units, su, sd, vec![Op::Call4(tgt(dd, su))]);
                c.edges.push((src, dst));
            }
            Carrier::LocListShared => {
                if src == 0 {
                    return None;
                }
                loclist(&mut units, su, sd, vec![Op::CallRef(tgt(dd, su))]);
                c.edges.push((src, dst));
                let idx = units[su].loclists.len() - 1;
                for k in 1..=c.n {
                    if k != src && c.unit_of[k] == su {
                        units[su].dies[loc[k].1].attrs.push(at(at_loc, AV::Locs(secoff, idx)));
                        c.edges.push((k, dst));
                    }
                }
            }
            Carrier::OutOfBoundsIntoNextUnit => {
                if c.nunits != 2 || src == 0 || dst == 0 || c.unit_of[src] != 0 || c.unit_of[dst] != 1 {
                    return None;
                }
                // unit 0 starts at section offset 0, so the section offset of the target is the
                // (out-of-bounds) unit-relative value
                push(&mut units, su, sd, at(at_ref, AV::Ref(FORM_REF4, tgt(dd, su))));
                c.invalid_src.push(src);
            }
            Carrier::SiblingAttr => {
                // only a real sibling pointer: dst is the next entry with the same parent
                if src == 0 || dst <= src || c.parent[dst] != c.parent[src] || (src + 1..dst).any(|k| c.parent[k] == c.parent[src]) || !same_unit {
                    return None;
                }
                push(&mut units, su, sd, at(AT_SIBLING, AV::Ref(FORM_REF4, tgt(dd, su))));
                // no edge: the attribute is not a dependency
            }
            Carrier::AttrRefAddrOtherUnitRoot | Carrier::ExprCallRefOtherUnitRoot => {
                if c.nunits != 2 || dst != 0 || src == 0 {
                    return None;
                }
                let other = T::Die(1 - su, 0);
                if carrier == Carrier::AttrRefAddrOtherUnitRoot {
                    push(&mut units, su, sd, at(at_ref, AV::Ref(FORM_REF_ADDR, other)));
                } else {
                    push(&mut units, su, sd, at(at_loc, AV::Expr(exprform, vec![Op::CallRef(other), Op::Simple(OP_STACK_VALUE)])));
                }
                // a unit root is never subject to the filter: no edge for the closure model
            }
            Carrier::ExprImplicitPointer => {
                push(&mut units, su, sd, at(at_loc, AV::Expr(exprform, vec![Op::ImplicitPointer(tgt(dd, su), 0)])));
                c.edges.push((src, dst));
            }
            Carrier::ExprEntryValueNested => {
                if !same_unit {
                    return None;
                }
                push(&mut units, su, sd, at(at_loc, AV::Expr(exprform, vec![Op::EntryValue(vec![Op::RegvalType(1, tgt(dd, su))]), Op::Simple(OP_STACK_VALUE)])));
                c.edges.push((src, dst));
            }
            Carrier::ExprParameterRef | Carrier::ExprRegvalType | Carrier::ExprDerefType | Carrier::ExprConvert | Carrier::ExprReinterpret => {
                if !same_unit {
                    return None;
                }
                let t = tgt(dd, su);
                let ops = match carrier {
                    Carrier::ExprParameterRef => vec![Op::ParameterRef(t), Op::Simple(OP_STACK_VALUE)],
                    Carrier::ExprRegvalType => vec![Op::RegvalType(2, t), Op::Simple(OP_STACK_VALUE)],
                    Carrier::ExprDerefType => vec![Op::Breg(1, 0), Op::DerefType(4, t), Op::Simple(OP_STACK_VALUE)],
                    Carrier::ExprConvert => vec![Op::Lit(1), Op::Convert(Some(t)), Op::Simple(OP_STACK_VALUE)],
                    _ => vec![Op::Lit(1), Op::Reinterpret(Some(t)), Op::Simple(OP_STACK_VALUE)],
                };
                push(&mut units, su, sd, at(at_loc, AV::Expr(exprform, ops)));
                c.edges.push((src, dst));
            }
            Carrier::LocListDefault | Carrier::LocListEmptyRange | Carrier::LocListTombstone | Carrier::LocListSecondEntry => {
                let ops = vec![Op::CallRef(tgt(dd, su))];
                let plain = vec![Op::Reg(3)];
                let top = if cfg.asz >= 8 { u64::MAX } else { (1u64 << (8 * cfg.asz as u32)) - 1 };
                let l = match (carrier, cfg.version >= 5) {
                    (Carrier::LocListDefault, true) => vec![Lle::StartEnd(0x1000, 0x1010, plain), Lle::DefaultLocation(ops)],
                    (Carrier::LocListDefault, false) => return None,
                    (Carrier::LocListEmptyRange, true) => vec![Lle::StartEnd(0x1000, 0x1000, ops), Lle::StartEnd(0x1000, 0x1010, plain)],
                    (Carrier::LocListEmptyRange, false) => vec![Lle::Pair(0x1000, 0x1000, ops), Lle::Pair(0x1000, 0x1010, plain)],
                    (Carrier::LocListTombstone, true) => vec![Lle::StartEnd(top - 1, top, ops), Lle::StartEnd(0x1000, 0x1010, plain)],
                    (Carrier::LocListTombstone, false) => vec![Lle::Pair(top - 1, top, ops), Lle::Pair(0x1000, 0x1010, plain)],
                    (_, true) => vec![Lle::StartEnd(0x1000, 0x1010, plain), Lle::StartLength(0x2000, 0x10, ops)],
                    (_, false) => vec![Lle::Pair(0x1000, 0x1010, plain), Lle::Pair(0x2000, 0x2010, ops)],
                };
                units[su].loclists.push(l);
                let idx = units[su].loclists.len() - 1;
                units[su].dies[sd].attrs.push(at(at_loc, AV::Locs(secoff, idx)));
                c.edges.push((src, dst));
            }
            Carrier::OutOfBounds => {
                if dst != 0 {
                    return None;
                }
                push(&mut units, su, sd, at(at_ref, AV::Ref(FORM_REF4, T::Raw(0x7fff_0000))));
                c.invalid_src.push(src);
            }
            Carrier::MidEntry => {
                if !same_unit {
                    return None;
                }
                let t = if dd == 0 { T::Mid(su, 0) } else { T::Mid(loc[dd].0, loc[dd].1) };
                push(&mut units, su, sd, at(at_ref, AV::Ref(FORM_REF4, t)));
                c.invalid_src.push(src);
            }
            Carrier::CycleRef4 => {
                if !same_unit || dst == 0 {
                    return None;
                }
                push(&mut units, su, sd, at(at_ref, AV::Ref(FORM_REF4, tgt(dd, su))));
                c.edges.push((src, dst));
                if src != dst {
                    let (du, ddie) = loc[dst];
                    push(&mut units, du, ddie, at(at_ref, AV::Ref(FORM_REF4, tgt(src, du))));
                    c.edges.push((dst, src));
                }
            }
            Carrier::CycleRefAddrExpr => {
                if dst == 0 || src == dst {
                    return None;
                }
                push(&mut units, su, sd, at(at_ref, AV::Ref(FORM_REF_ADDR, tgt(dd, su))));
                c.edges.push((src, dst));
                let (du, ddie) = loc[dst];
                push(&mut units, du, ddie, at(at_loc, AV::Expr(exprform, vec![Op::CallRef(tgt(src, du))])));
                c.edges.push((dst, src));
            }
        }
    }
    Some(Model { cfg, units })
}

/// Reference model of the closure (DESIGN, C19): least set containing `req`
/// closed under parent, reference target and member-like child of a retained
/// non-namespace entry. `upper` additionally follows children of
/// uncategorised tags.
fn closure(c: &Case, req: u32, upper: bool) -> u32 {
    let mut set = req;
    loop {
        let before = set;
        // the root of unit 0 is an ancestor of every retained entry of unit 0: its references count
        // as soon as one entry of that unit is retained
        if (1..=c.n).any(|k| set & (1 << k) != 0 && c.unit_of[k] == 0) {
            for &(s, d) in &c.edges {
                if s == 0 && d != 0 {
                    set |= 1 << d;
                }
            }
        }
        for k in 1..=c.n {
            if set & (1 << k) == 0 {
                continue;
            }
            if c.parent[k] != 0 {
                set |= 1 << c.parent[k];
            }
            for &(s, d) in &c.edges {
                if s == k && d != 0 {
                    set |= 1 << d;
                }
            }
            if c.class[k] != Class::N {
                for ch in 1..=c.n {
                    if c.parent[ch] == k && (c.class[ch] == Class::M || (upper && c.class[ch] == Class::X)) {
                        set |= 1 << ch;
                    }
                }
            }
        }
        if set == before {
            return set;
        }
    }
}

fn names(mask: u32, n: usize) -> Vec<String> {
    (1..=n).filter(|k| mask & (1 << k) != 0).map(name_of).collect()
}

fn entry_map(d: &DwarfD) -> BTreeMap<String, (String, String, Vec<String>)> {
    // name -> (parent name, attrs joined, dangling)
    let mut m = BTreeMap::new();
    for u in &d.units {
        for e in &u.entries {
            let Some(n) = &e.name else { continue };
            let parent = e.parent.and_then(|p| u.entries[p].name.clone()).unwrap_or_default();
            m.insert(n.clone(), (parent, format!("tag {:#x} | {}", e.tag, e.attrs.join(" | ")), e.dangling.clone()));
        }
    }
    m
}

pub(super) fn dump_by_name(secs: &Secs, big: bool) -> Result<DwarfD, String> {
    match mcx::guard(|| {
        let d = dump::load(secs, big);
        dump::dump_dwarf(&d, RefNaming::ByName)
    }) {
        Ok(r) => r,
        Err(p) => Err(format!("reader panicked: {:?}", p)),
    }
}

pub(super) fn render_entries(c: &Case) -> String {
    let ents: Vec<String> = (1..=c.n).map(|k| format!("e{}(parent={}, class={:?}, tag={:#x}{}, unit={})", k, if c.parent[k] == 0 { "root".to_string() } else { name_of(c.parent[k]) }, c.class[k], tag_for(c.class[k], k, c.rot).0, if tag_for(c.class[k], k, c.rot).1 { " declaration" } else { "" }, c.unit_of[k])).collect();
    format!("{} entries [{}] carrier {:?} from {} to {}{}", c.cfg.name(), ents.join(", "), c.carrier, if c.src == 0 { "the root of unit 0".to_string() } else { name_of(c.src) }, if c.dst == 0 { "unit root".to_string() } else { name_of(c.dst) }, match c.second { Some((k, s2, d2)) => format!(" and {:?} from e{} to {}", k, s2, if d2 == 0 { "unit root".to_string() } else { name_of(d2) }), None => String::new() })
}

fn render_case(c: &Case, b: &Built) -> String {
    format!("{} sections: {}", render_entries(c), render_secs(&b.secs))
}

fn check_case(ctx: &mut Ctx, c: &mut Case, stepwise: bool) {
    let Some(model) = build_case(c) else {
        ctx.outcome("c19:carrier-not-expressible-for-pair");
        return;
    };
    ctx.nontriv(1);
    let b = build(&model);
    let big = c.cfg.big;
    let be = Backend {
        entry: if stepwise { "convert_with_filter+stepwise" } else { "convert_with_filter+ConvertUnit::convert" },
        api: if stepwise { "stepwise" } else { "ConvertUnit::convert" },
        tag: "c19",
        rendered: render_case(c, &b),
        input: dump_by_name(&b.secs, big),
        unfiltered: &|| run::convert(&b.secs, big, if stepwise { run::Api::StepSeq } else { run::Api::From }),
        filtered: &|required: &[String]| run::convert_filtered(&b.secs, big, required, stepwise),
    };
    check_with(ctx, c, &be);
    // the same through two further call patterns of the API
    if !stepwise && c.n <= 2 {
        // every required entry is passed to require_entry BEFORE the unit's entries are read
        // (documented as valid: "either before or after")
        run::EARLY_REQUIRE.with(|e| e.set(true));
        let be = Backend {
            entry: "convert_with_filter+ConvertUnit::convert(require_entry-before-read_entry)",
            api: "ConvertUnit::convert, require_entry before read_entry",
            tag: "c19",
            rendered: render_case(c, &b),
            input: dump_by_name(&b.secs, big),
            unfiltered: &|| run::convert(&b.secs, big, run::Api::From),
            filtered: &|required: &[String]| run::convert_filtered(&b.secs, big, required, false),
        };
        check_with(ctx, c, &be);
        run::EARLY_REQUIRE.with(|e| e.set(false));
        ctx.outcome("c19:route:require-before-read");
    }
    if stepwise && !c.invalid_src.is_empty() {
        // a caller that skips attributes it cannot convert (crates/examples/src/bin/convert.rs):
        // the invalid reference is dropped, so the retained set itself can be judged
        run::LENIENT.with(|l| l.set(true));
        let be = Backend {
            entry: "convert_with_filter+stepwise(skipping-unconvertible-attributes)",
            api: "stepwise, unconvertible attributes skipped",
            tag: "c19",
            rendered: render_case(c, &b),
            input: dump_by_name(&b.secs, big),
            unfiltered: &|| run::convert(&b.secs, big, run::Api::StepSeq),
            filtered: &|required: &[String]| run::convert_filtered(&b.secs, big, required, true),
        };
        check_with(ctx, c, &be);
        run::LENIENT.with(|l| l.set(false));
        ctx.outcome("c19:route:skip-unconvertible-attributes");
    }
}

pub(super) fn check_with(ctx: &mut Ctx, c: &Case, be: &Backend) {
    let big = c.cfg.big;
    let tag = be.tag;
    let case = |req: u32| format!("{} required {{{}}} api={}", be.rendered, names(req, c.n).join(","), be.api);
    if ctx.want_sample() {
        ctx.sample(case(1 << 1));
    }
    let entry = be.entry;
    // generator-side trigger tag (see c12::check_dwarf): a recorded finding only covers inputs with it
    let root_src = c.src == 0 && c.carrier != Carrier::None || matches!(c.second, Some((_, 0, _)));
    let more = is_more(c.carrier);
    let carrier_tag = format!("{:?}", c.carrier);
    let fk = |k: &str| if root_src { format!("{}[reference-from-unit-root]", k) } else if more { format!("{}[{}]", k, carrier_tag) } else { k.to_string() };
    let din = match &be.input {
        Ok(d) => d,
        Err(e) => {
            ctx.machinery(format!("generated C19 input is not readable: {} ({})", e, be.rendered));
            return;
        }
    };
    let in_map = entry_map(din);
    // unfiltered conversion (same route), the reference for attribute equality
    ctx.eval(1);
    let unfiltered: Result<BTreeMap<String, (String, String, Vec<String>)>, String> = match (be.unfiltered)() {
        Ok(ConvOut::Ok(s)) => dump_by_name(&s, big).map(|d| entry_map(&d)),
        Ok(ConvOut::ConvErr(e)) | Ok(ConvOut::WriteErr(e)) => Err(run::err_class(&e)),
        Err(p) => {
            ctx.fail_panic("unfiltered-conversion", &p, case(0));
            Err("panic".into())
        }
    };
    ctx.outcome(&format!("{}:{}", tag, if unfiltered.is_ok() { "unfiltered-ok" } else { "unfiltered-err" }));
    let reference = unfiltered.as_ref().unwrap_or(&in_map);
    for req in 0..(1u32 << c.n) {
        let req = req << 1; // bit k = entry k
        ctx.eval(1);
        let lower = closure(c, req, false);
        let upper = closure(c, req, true);
        let required = names(req, c.n);
        let invalid_in_lower = c.invalid_src.iter().any(|s| *s == 0 || lower & (1 << s) != 0);
        let invalid_in_upper = c.invalid_src.iter().any(|s| *s == 0 || upper & (1 << s) != 0);
        // a reference carried by the root of unit 0 while no entry of unit 0 is retained: the property
        // does not say whether that root (which the filter cannot remove) pulls its target in; both the
        // target's presence and a reference error are accepted then
        let unit0_retained = (1..=c.n).any(|k| lower & (1 << k) != 0 && c.unit_of[k] == 0);
        let dormant_root_targets: u32 = if unit0_retained { 0 } else { c.edges.iter().filter(|e| e.0 == 0 && e.1 != 0).fold(0, |a, e| a | (1 << e.1)) };
        let upper = if dormant_root_targets != 0 { closure(c, req | dormant_root_targets, true) } else { upper };
        let out = match (be.filtered)(&required) {
            Ok(o) => o,
            Err(p) => {
                ctx.outcome(&format!("{}:panic", tag));
                ctx.fail_panic(entry, &p, case(req));
                continue;
            }
        };
        if ctx.verbose {
            ctx.log(&format!("required {{{}}}: L={{{}}} U={{{}}} -> {:?}", required.join(","), names(lower, c.n).join(","), names(upper, c.n).join(","), match &out {
                ConvOut::Ok(_) => "Ok".to_string(),
                ConvOut::ConvErr(e) => format!("ConvErr {}", e),
                ConvOut::WriteErr(e) => format!("WriteErr {}", e),
            }));
        }
        let osecs = match out {
            ConvOut::Ok(s) => s,
            ConvOut::WriteErr(e) if e.contains("InvalidReference") => {
                ctx.fail(entry, "write-never-fails-for-missing-reference", &fk("write-error-InvalidReference"), format!("{}\n  Dwarf::write failed with {} (a retained entry refers to an entry that was not kept)", case(req), e));
                continue;
            }
            ConvOut::ConvErr(e) | ConvOut::WriteErr(e) => {
                let cls = run::err_class(&e);
                let ref_err = cls == "InvalidUnitRef" || cls == "InvalidDebugInfoRef";
                if invalid_in_lower && ref_err {
                    ctx.outcome(&format!("{}:err-expected(invalid-reference-in-retained-entry):{}", tag, cls));
                } else if dormant_root_targets != 0 && ref_err {
                    ctx.outcome(&format!("{}:err-allowed(reference-from-root-of-unit-without-retained-entries)", tag));
                } else if invalid_in_upper && ref_err {
                    // the entry with the invalid reference is in the band U \ L: keeping it is allowed
                    ctx.outcome(&format!("{}:err-allowed(invalid-reference-in-band-entry):{}", tag, cls));
                } else if !ref_err && unfiltered.as_ref().err() == Some(&cls) {
                    // the input cannot be converted at all for a reason unrelated to the filter
                    // (writer limitation, e.g. forward reference in an expression)
                    ctx.outcome(&format!("{}:err-as-unfiltered:{}", tag, cls));
                } else {
                    ctx.fail(entry, "error-only-for-invalid-references", &fk(&format!("unexpected-error-{}", cls)), format!("{}\n  filtered conversion failed with {} although every reference of every entry that may be retained is valid (unfiltered conversion: {})", case(req), e, match &unfiltered { Ok(_) => "Ok".to_string(), Err(c) => format!("Err {}", c) }));
                }
                continue;
            }
        };
        ctx.outcome(&format!("{}:ok", tag));
        let dout = match dump_by_name(&osecs, big) {
            Ok(d) => d,
            Err(e) => {
                ctx.fail(entry, "output-readable", &fk("output-not-readable"), format!("{}\n  {}\n  output: {}", case(req), e, render_secs(&osecs)));
                continue;
            }
        };
        let out_map = entry_map(&dout);
        let mut present: u32 = 0;
        for k in 1..=c.n {
            if out_map.contains_key(&name_of(k)) {
                present |= 1 << k;
            }
        }
        if ctx.verbose {
            ctx.log(&format!("   output entries {{{}}}\n{}", names(present, c.n).join(","), dout.text()));
        }
        let missing = lower & !present;
        if missing != 0 {
            // which clause pulls the first missing entry in?
            let m = (1..=c.n).find(|k| missing & (1 << k) != 0).unwrap();
            let why = if req & (1 << m) != 0 {
                "required-entry"
            } else if (1..=c.n).any(|k| present & (1 << k) != 0 && c.parent[k] == m) {
                "ancestor-of-retained"
            } else if c.edges.iter().any(|&(s, d)| d == m && s == 0) {
                "referenced-by-unit-root"
            } else if c.edges.iter().any(|&(s, d)| d == m && lower & (1 << s) != 0) {
                match c.carrier {
                    Carrier::AttrRef4 | Carrier::AttrRefAddr | Carrier::CycleRef4 => "referenced-by-attribute",
                    Carrier::LocListCallRef | Carrier::LocListCall4 | Carrier::LocListShared => "referenced-from-location-list",
                    _ => "referenced-from-expression-or-attribute",
                }
            } else {
                "member-like-child-of-retained"
            };
            ctx.fail(entry, "complete(L-subset-of-output)", &fk(&format!("missing-{}", why)), format!("{}\n  expected at least {{{}}}, output has {{{}}}: {} is missing\n  output: {}", case(req), names(lower, c.n).join(","), names(present, c.n).join(","), name_of(m), render_secs(&osecs)));
            continue;
        }
        let extra = present & !upper;
        if extra != 0 {
            let m = (1..=c.n).find(|k| extra & (1 << k) != 0).unwrap();
            let why = if c.parent[m] != 0 && c.class[c.parent[m]] == Class::N { "child-of-namespace-pulled-in" } else if c.parent[m] != 0 && present & (1 << c.parent[m]) != 0 { "standalone-child-pulled-in" } else { "unconnected-entry" };
            ctx.fail(entry, "minimal(output-subset-of-U)", &fk(&format!("extra-{}", why)), format!("{}\n  expected at most {{{}}}, output has {{{}}}: {} is not connected to a required entry\n  output: {}", case(req), names(upper, c.n).join(","), names(present, c.n).join(","), name_of(m), render_secs(&osecs)));
            continue;
        }
        if invalid_in_lower {
            // Ok although a retained entry carries a reference to no entry
            ctx.outcome(&format!("{}:ok-with-invalid-reference-in-retained-entry", tag));
        }
        let mut bad = false;
        for (n, (parent, attrs, dangling)) in &out_map {
            if !dangling.is_empty() {
                ctx.fail(entry, "no-dangling-reference", &fk("dangling-reference-in-output"), format!("{}\n  entry {} of the output refers to {:?}\n  output: {}", case(req), n, dangling, render_secs(&osecs)));
                bad = true;
                break;
            }
            if let Some((rp, ra, _)) = reference.get(n) {
                if ra != attrs {
                    ctx.fail(entry, "same-attributes-as-unfiltered", &fk("retained-entry-attributes-differ"), format!("{}\n  entry {}:\n   unfiltered: {}\n   filtered  : {}\n  output: {}", case(req), n, ra, attrs, render_secs(&osecs)));
                    bad = true;
                    break;
                }
                if rp != parent {
                    ctx.fail(entry, "same-parent-as-unfiltered", &fk("retained-entry-reparented"), format!("{}\n  entry {} has parent '{}' in the unfiltered conversion and '{}' in the filtered one\n  output: {}", case(req), n, rp, parent, render_secs(&osecs)));
                    bad = true;
                    break;
                }
            }
        }
        if bad {
            continue;
        }
        // units: the rustdoc of `new_with_filter` says units with no reachable entries are skipped
        let empty_units = dout.units.iter().filter(|u| u.entries.len() <= 1).count();
        if empty_units > 0 && present != 0 {
            ctx.outcome(&format!("{}:note:unit-without-retained-entries-is-emitted", tag));
        }
        if lower == upper {
            ctx.outcome(&format!("{}:exact-set-verified", tag));
        } else {
            ctx.outcome(&format!("{}:set-within-band", tag));
        }
        if present.count_ones() as usize != c.n && present != 0 {
            ctx.outcome(&format!("{}:proper-nonempty-subset-retained", tag));
        }
    }
}

fn class_assignments(n: usize, alphabet: &[Class]) -> u64 {
    (alphabet.len() as u64).pow(n as u32)
}

fn sub_n(tier: Tier, n: usize, alphabet: &'static [Class], carriers: &'static [Carrier], cfgs: Vec<Cfg>, max_split: u64, routes: &'static [bool], only_pair: Option<(usize, usize)>) -> Sub {
    sub_named(&format!("filter-n{}", n), tier, n, alphabet, carriers, cfgs, max_split, routes, only_pair)
}

fn sub_named(name: &str, tier: Tier, n: usize, alphabet: &'static [Class], carriers: &'static [Carrier], cfgs: Vec<Cfg>, max_split: u64, routes: &'static [bool], only_pair: Option<(usize, usize)>) -> Sub {
    sub_named_rots(name, tier, n, alphabet, carriers, cfgs, max_split, routes, only_pair, None)
}

/// `rots`: explicit list of tag rotations (values >= 100 select a tag of MORE_MEMBER_LIKE for
/// the class M entries) instead of the default rotation dimension.
#[allow(clippy::too_many_arguments)]
fn sub_named_rots(name: &str, tier: Tier, n: usize, alphabet: &'static [Class], carriers: &'static [Carrier], cfgs: Vec<Cfg>, max_split: u64, routes: &'static [bool], only_pair: Option<(usize, usize)>, rots: Option<Vec<usize>>) -> Sub {
    let shapes = space::forests(n);
    let nclass = class_assignments(n, alphabet);
    // unit split: 0 = one unit; t >= 1 = top-level trees from the t-th on go to a second unit
    let pairs = if only_pair.is_some() { 1 } else { ((n + 1) * (n + 1)) as u64 };
    let full_rot = n <= tier.pick(2, 3);
    let nrot: u64 = match &rots {
        Some(r) => r.len() as u64,
        None => {
            if full_rot {
                5
            } else {
                1
            }
        }
    };
    let len = shapes.len() as u64 * nclass * (max_split + 1) * carriers.len() as u64 * pairs * routes.len() as u64 * cfgs.len() as u64 * nrot;
    let bound = format!(
        "every forest with exactly {} non-root entries ({} shapes) x every assignment of tag classes {:?} (tags rotate through namespace / structure_type, base_type, subprogram definition, typedef / member, formal_parameter, variable, lexical_block, subprogram declaration / label; {}) x unit split in 0..={} (0 = one unit, t = top-level trees from the t-th on in a second unit) x carrier kind in {:?} x {} x routes (stepwise?) {:?} x {} configs; inside each case EVERY subset of required entries (2^{})",
        n,
        shapes.len(),
        alphabet,
        match &rots {
            Some(r) if r[0] >= 200 => format!("x every class S entry carrying, in turn, each of the {} further stand-alone container tags {:x?}", r.len(), MORE_STANDALONE),
            Some(r) => format!("x every class M entry carrying, in turn, each of the {} further member-like tags {:x?}", r.len(), MORE_MEMBER_LIKE),
            None => (if full_rot { "x all 5 rotations of the tag lists" } else { "rotation derived from the other dimensions" }).to_string(),
        },
        max_split,
        carriers,
        match only_pair { Some(p) => format!("the (source, target) pair {:?}", p), None => "every (source, target) pair incl. the root of unit 0 as source and the source's unit root as target".to_string() },
        routes,
        cfgs.len(),
        n
    );
    Sub::new(name, len, &bound, move |ctx, i| {
        let mut x = Mix(i);
        let rot_digit = x.take(nrot) as usize;
        let stepwise = *x.pick(routes);
        let pair = x.take(pairs) as usize;
        let (src, dst) = only_pair.unwrap_or((pair / (n + 1), pair % (n + 1)));
        let carrier = *x.pick(carriers);
        let split = x.take(max_split + 1) as usize;
        let mut cl = x.take(nclass);
        let shape_idx = x.take(shapes.len() as u64) as usize;
        let shape = shapes[shape_idx].clone();
        let cfg = *x.pick(&cfgs);
        // n <= 3: every rotation of the tag lists is a dimension; larger n: the rotation is derived from
        // the other digits (every tag still occurs at every position, not in full product)
        let rot = match &rots {
            Some(r) => r[rot_digit],
            None => {
                if nrot > 1 {
                    rot_digit
                } else {
                    (cl as usize + shape_idx + pair + split) % 5
                }
            }
        };
        let mut class = vec![Class::N; n + 1];
        for k in 1..=n {
            class[k] = alphabet[(cl % alphabet.len() as u64) as usize];
            cl /= alphabet.len() as u64;
        }
        let mut parent = vec![0usize; n + 1];
        for k in 1..=n {
            parent[k] = if shape[k - 1] == usize::MAX { 0 } else { shape[k - 1] + 1 };
        }
        // top-level trees in order
        let tops: Vec<usize> = (1..=n).filter(|&k| parent[k] == 0).collect();
        if split >= tops.len() && split != 0 {
            ctx.outcome("c19:split-not-available");
            return;
        }
        let mut unit_of = vec![0usize; n + 1];
        if split > 0 {
            let first_in_second = tops[split];
            for k in 1..=n {
                // preorder numbering: everything from the split tree on is in unit 1
                if k >= first_in_second {
                    unit_of[k] = 1;
                }
            }
        }
        let mut c = Case { cfg, n, parent, class, unit_of, nunits: if split > 0 { 2 } else { 1 }, carrier, src, dst, second: None, edges: vec![], invalid_src: vec![], rot };
        ctx.outcome(&format!("c19:carrier:{:?}", carrier));
        check_case(ctx, &mut c, stepwise);
    })
}

const TWO_CARRIERS: [Carrier; 4] = [Carrier::AttrRef4, Carrier::AttrRefAddr, Carrier::ExprCallRef, Carrier::LocListCallRef];

/// Two independent references in one forest of 3 entries.
fn sub_two_edges(cfg: Cfg) -> Sub {
    let n = 3usize;
    let shapes = space::forests(n);
    let nclass = class_assignments(n, &ALPHA3);
    let pairs = (n * (n + 1)) as u64;
    let edge = TWO_CARRIERS.len() as u64 * pairs;
    let len = shapes.len() as u64 * nclass * 2 * edge * edge;
    let bound = format!("two independent references: every forest with 3 non-root entries ({} shapes) x every assignment of tag classes {{N,S,M}} x unit split {{0,1}} x every ordered pair of (carrier in {:?}, source, target) = {}^2 x route ConvertUnit::convert x 1 config; inside each case every subset of required entries (2^3)", shapes.len(), TWO_CARRIERS, edge);
    Sub::new("filter-n3-two-references", len, &bound, move |ctx, i| {
        let mut x = Mix(i);
        let e1 = x.take(edge);
        let e2 = x.take(edge);
        let split = x.take(2) as usize;
        let mut cl = x.take(nclass);
        let shape = x.pick(&shapes).clone();
        let dec = |e: u64| -> (Carrier, usize, usize) {
            let p = (e % pairs) as usize;
            (TWO_CARRIERS[(e / pairs) as usize], p / (n + 1) + 1, p % (n + 1))
        };
        let mut class = vec![Class::N; n + 1];
        for k in 1..=n {
            class[k] = ALPHA3[(cl % 3) as usize];
            cl /= 3;
        }
        let mut parent = vec![0usize; n + 1];
        for k in 1..=n {
            parent[k] = if shape[k - 1] == usize::MAX { 0 } else { shape[k - 1] + 1 };
        }
        let tops: Vec<usize> = (1..=n).filter(|&k| parent[k] == 0).collect();
        if split >= tops.len() && split != 0 {
            ctx.outcome("c19:split-not-available");
            return;
        }
        let mut unit_of = vec![0usize; n + 1];
        if split > 0 {
            for k in 1..=n {
                if k >= tops[split] {
                    unit_of[k] = 1;
                }
            }
        }
        let (carrier, src, dst) = dec(e1);
        let mut c = Case { cfg, n, parent, class, unit_of, nunits: if split > 0 { 2 } else { 1 }, carrier, src, dst, second: Some(dec(e2)), edges: vec![], invalid_src: vec![], rot: (e1 + e2) as usize % 5 };
        ctx.outcome("c19:two-references");
        check_case(ctx, &mut c, false);
    })
}

const ALPHA4: [Class; 4] = [Class::N, Class::S, Class::M, Class::X];
const ALPHA3: [Class; 3] = [Class::N, Class::S, Class::M];
const CORE_CARRIERS: [Carrier; 6] = [Carrier::None, Carrier::AttrRef4, Carrier::AttrRefAddr, Carrier::ExprCallRef, Carrier::LocListCallRef, Carrier::OutOfBounds];

pub fn def(tier: Tier) -> CheckDef {
    let c4 = Cfg { version: 4, fmt64: false, asz: 8, big: false };
    let c5 = Cfg { version: 5, fmt64: true, asz: 4, big: true };
    let c3 = Cfg { version: 3, fmt64: false, asz: 4, big: false };
    let mut subs = vec![];
    const BOTH: [bool; 2] = [false, true];
    const ONE: [bool; 1] = [false];
    const NOREF: [Carrier; 1] = [Carrier::None];
    const TAG_CARRIERS: [Carrier; 2] = [Carrier::None, Carrier::AttrRef4];
    const N5_CARRIERS: [Carrier; 3] = [Carrier::AttrRef4, Carrier::ExprCallRef, Carrier::LocListCallRef];
    match tier {
        Tier::Quick => {
            subs.push(sub_n(tier, 1, &ALPHA4, &CARRIERS, vec![c4, c5], 1, &BOTH, None));
            subs.push(sub_n(tier, 2, &ALPHA4, &CARRIERS, vec![c4, c5], 2, &BOTH, None));
            subs.push(sub_n(tier, 3, &ALPHA4, &CARRIERS, vec![c4, c5], 3, &BOTH, None));
            subs.push(sub_n(tier, 4, &ALPHA3, &CORE_CARRIERS, vec![c4], 4, &ONE, None));
            subs.push(sub_named("filter-more-carriers-n1", tier, 1, &ALPHA3, &MORE_CARRIERS, vec![c3, c4, c5], 1, &BOTH, None));
            subs.push(sub_named("filter-more-carriers-n2", tier, 2, &ALPHA3, &MORE_CARRIERS, vec![c3, c4, c5], 2, &BOTH, None));
            subs.push(sub_named_rots("filter-more-member-like-tags-n2", tier, 2, &ALPHA3, &TAG_CARRIERS, vec![c4, c5], 1, &BOTH, None, Some((100..114).collect())));
            subs.push(sub_named_rots("filter-more-container-tags-n2", tier, 2, &ALPHA3, &TAG_CARRIERS, vec![c4, c5], 1, &BOTH, None, Some((200..208).collect())));
        }
        Tier::Thorough => {
            subs.push(sub_named_rots("filter-more-member-like-tags-n2", tier, 2, &ALPHA3, &TAG_CARRIERS, vec![c3, c4, c5], 1, &BOTH, None, Some((100..114).collect())));
            subs.push(sub_named_rots("filter-more-member-like-tags-n3", tier, 3, &ALPHA3, &TAG_CARRIERS, vec![c4], 1, &ONE, None, Some((100..114).collect())));
            subs.push(sub_named_rots("filter-more-container-tags-n2", tier, 2, &ALPHA3, &TAG_CARRIERS, vec![c3, c4, c5], 1, &BOTH, None, Some((200..208).collect())));
            subs.push(sub_named_rots("filter-more-container-tags-n3", tier, 3, &ALPHA3, &TAG_CARRIERS, vec![c4], 1, &ONE, None, Some((200..208).collect())));
            subs.push(sub_n(tier, 1, &ALPHA4, &CARRIERS, vec![c3, c4, c5], 1, &BOTH, None));
            subs.push(sub_n(tier, 2, &ALPHA4, &CARRIERS, vec![c3, c4, c5], 2, &BOTH, None));
            subs.push(sub_n(tier, 3, &ALPHA4, &CARRIERS, vec![c3, c4, c5], 3, &BOTH, None));
            subs.push(sub_n(tier, 4, &ALPHA4, &CARRIERS, vec![c5], 4, &BOTH, None));
            subs.push(sub_n(tier, 5, &ALPHA3, &N5_CARRIERS, vec![c4], 1, &ONE, None));
            subs.push(sub_n(tier, 6, &ALPHA3, &NOREF, vec![c4], 0, &ONE, Some((0, 0))));
            subs.push(sub_two_edges(c5));
            subs.push(sub_named("filter-more-carriers-n1", tier, 1, &ALPHA4, &MORE_CARRIERS, vec![c3, c4, c5], 1, &BOTH, None));
            subs.push(sub_named("filter-more-carriers-n2", tier, 2, &ALPHA4, &MORE_CARRIERS, vec![c3, c4, c5], 2, &BOTH, None));
            subs.push(sub_named("filter-more-carriers-n3", tier, 3, &ALPHA3, &MORE_CARRIERS, vec![c3, c4, c5], 3, &BOTH, None));
        }
    }
    CheckDef {
        level: "exploration",
        rule: "one case = (forest shape, tag-class assignment, unit split, reference carrier, source/target pair, conversion route, config); inside it every subset of required entries is converted with FilterUnitSection/convert_with_filter and written; evaluations count conversions. Distinct by construction; non-trivial = the carrier can express the pair (in-unit carriers need source and target in one unit)".into(),
        assumptions: vec![
            "closure model (DESIGN C19): L = least set containing the required entries closed under parent (the unit root excluded), reference target (attribute, expression, location-list entry) and child-of-retained-non-namespace for member-like tags {member, formal_parameter, variable, lexical_block, subprogram declaration; in the filter-more-member-like-tags sub-spaces also unspecified_parameters, variant, inheritance, inlined_subroutine, catch_block, enumerator, friend, template type/value parameter, thrown_type, try_block, variant_part, call_site, call_site_parameter}; U additionally follows children with a tag the property does not categorise (DW_TAG_label); children of the unit root are never pulled in by the root; required: L subset-of output subset-of U".into(),
            "entries are identified by a DW_AT_name identity tag; references are compared by the identity of their target".into(),
            "attribute equality is against the unfiltered conversion through the same route when that succeeds, otherwise (inputs with out-of-bounds / mid-entry references or expression forward references, which cannot be converted unfiltered) against the input's dump".into(),
            "an error is accepted when a retained entry (member of L) carries a reference that designates no entry, or when the unfiltered conversion of the same input fails too (writer limitation: UnsupportedExpressionForwardReference); a write error InvalidReference is never accepted".into(),
            "sibling order is not compared (the property does not define it; base types are moved first by design)".into(),
            "the root entry of a unit without retained entries is still emitted (the rustdoc of new_with_filter says such units are skipped): counted as outcome 'c19:note:unit-without-retained-entries-is-emitted', not treated as a violation because the property speaks about entries selected by the filter, and roots are not subject to it".into(),
        ]
        .into_iter()
        .chain(super::split::assumptions_c19())
        .collect(),
        subs: {
            subs.extend(super::split::subs_c19(tier));
            subs
        },
        required_outcomes: vec![
            "c19:ok".into(),
            "c19:exact-set-verified".into(),
            "c19:set-within-band".into(),
            "c19:proper-nonempty-subset-retained".into(),
            "c19:unfiltered-ok".into(),
            "c19:unfiltered-err".into(),
            "c19:err-expected(invalid-reference-in-retained-entry):InvalidUnitRef".into(),
            "c19:carrier:CycleRef4".into(),
            "c19:carrier:LocListCallRef".into(),
            "c19:carrier:OutOfBounds".into(),
            "c19:carrier:ExprImplicitPointer".into(),
            "c19:carrier:ExprEntryValueNested".into(),
            "c19:carrier:LocListDefault".into(),
            "c19:carrier:LocListTombstone".into(),
            "c19:carrier:AttrRefAddrOtherUnitRoot".into(),
            "c19:carrier:SiblingAttr".into(),
            "c19:carrier:OutOfBoundsIntoNextUnit".into(),
            "c19:route:require-before-read".into(),
            "c19:route:skip-unconvertible-attributes".into(),
        ]
        .into_iter()
        .chain(super::split::required_c19())
        .collect(),
    }
}
