//! Abstract DWARF inputs and their byte encoders (independent of gimli).
//! Everything is written with `mcx::enc::Enc`; layouts follow DWARF 2-5
//! section 7 and the LSB .eh_frame chapter.
#![allow(dead_code)]
use super::dw::*;
use mcx::enc::Enc;
use std::collections::BTreeMap;

#[derive(Clone, Copy, Debug, PartialEq, Eq)]
pub struct Cfg {
    pub version: u16,
    pub fmt64: bool,
    pub asz: u8,
    pub big: bool,
}
impl Cfg {
    pub fn word(&self) -> usize {
        if self.fmt64 {
            8
        } else {
            4
        }
    }
    pub fn name(&self) -> String {
        format!("v{}/{}bit/addr{}/{}", self.version, if self.fmt64 { 64 } else { 32 }, self.asz, if self.big { "BE" } else { "LE" })
    }
    pub fn addr_max(&self) -> u64 {
        if self.asz >= 8 {
            u64::MAX
        } else {
            (1u64 << (8 * self.asz as u32)) - 1
        }
    }
}

pub type Secs = BTreeMap<&'static str, Vec<u8>>;

pub fn render_secs(s: &Secs) -> String {
    let mut out = String::new();
    for (k, v) in s {
        if v.is_empty() {
            continue;
        }
        out.push_str(&format!("{}={} ", k, mcx::hex(v)));
    }
    out
}

/// Reference target.
#[derive(Clone, Copy, Debug, PartialEq, Eq)]
pub enum T {
    /// (unit index, die index in preorder; 0 = root)
    Die(usize, usize),
    /// one byte past the start of the die (inside the entry)
    Mid(usize, usize),
    /// raw operand value
    Raw(u64),
}

#[derive(Clone, Debug, PartialEq)]
pub enum Br {
    /// branch to the start of operation `i` of the same expression (i == len: end)
    ToOp(usize),
    Raw(i16),
}

#[derive(Clone, Debug, PartialEq)]
pub enum Op {
    /// single-byte operation without operands
    Simple(u8),
    Lit(u8),
    Const1u(u8),
    Const1s(i8),
    Const2u(u16),
    Const2s(i16),
    Const4u(u32),
    Const8u(u64),
    Constu(u64),
    Consts(i64),
    Addr(u64),
    Addrx(u64),
    Constx(u64),
    /// DW_OP_GNU_addr_index / DW_OP_GNU_const_index (GNU DebugFission, DWARF 4 split units)
    GnuAddrIndex(u64),
    GnuConstIndex(u64),
    Reg(u8),
    Regx(u64),
    Breg(u8, i64),
    Bregx(u64, i64),
    Fbreg(i64),
    Pick(u8),
    DerefSize(u8),
    XderefSize(u8),
    PlusUconst(u64),
    Bra(Br),
    Skip(Br),
    Call2(T),
    Call4(T),
    CallRef(T),
    ConstType(T, Vec<u8>),
    RegvalType(u64, T),
    DerefType(u8, T),
    Convert(Option<T>),
    Reinterpret(Option<T>),
    Piece(u64),
    BitPiece(u64, u64),
    ImplicitValue(Vec<u8>),
    ImplicitPointer(T, i64),
    EntryValue(Vec<Op>),
    ParameterRef(T),
}

#[derive(Clone, Debug, PartialEq)]
pub enum Rle {
    /// DWARF <= 4 pair (also base selection when begin is all-ones), raw values
    Pair(u64, u64),
    /// DWARF <= 4 base address selection entry
    Base(u64),
    BaseAddressx(u64),
    StartxEndx(u64, u64),
    StartxLength(u64, u64),
    OffsetPair(u64, u64),
    BaseAddress(u64),
    StartEnd(u64, u64),
    StartLength(u64, u64),
}

#[derive(Clone, Debug, PartialEq)]
pub enum Lle {
    Pair(u64, u64, Vec<Op>),
    Base(u64),
    BaseAddressx(u64),
    StartxEndx(u64, u64, Vec<Op>),
    StartxLength(u64, u64, Vec<Op>),
    OffsetPair(u64, u64, Vec<Op>),
    DefaultLocation(Vec<Op>),
    BaseAddress(u64),
    StartEnd(u64, u64, Vec<Op>),
    StartLength(u64, u64, Vec<Op>),
}

#[derive(Clone, Debug, PartialEq)]
pub enum AV {
    /// inline / strp / line_strp string
    Str(u64, Vec<u8>),
    /// strx* form, index into the unit's string table
    Strx(u64, u64),
    Addr(u64),
    /// addrx* form, index into the unit's address table
    Addrx(u64, u64),
    /// data1/2/4/8/udata
    Data(u64, u64),
    Sdata(i64),
    Data16([u8; 16]),
    /// implicit_const (value lives in the abbreviation)
    Implicit(i64),
    Block(u64, Vec<u8>),
    Flag(u64, bool),
    Ref(u64, T),
    Sig8(u64),
    /// exprloc / block* carrying an expression
    Expr(u64, Vec<Op>),
    /// form, index into the unit's range lists
    Ranges(u64, usize),
    /// form, index into the unit's location lists
    Locs(u64, usize),
    /// reference to the unit's line program
    StmtList(u64),
    Indirect(Box<AV>),
    StrOffsetsBase,
    AddrBase,
    RnglistsBase,
    LoclistsBase,
    /// (form, raw value) for fixed-size raw offsets (ref_sup4, strp_sup, ...)
    RawWord(u64, u64),
}

#[derive(Clone, Debug, PartialEq)]
pub struct Attr {
    pub name: u64,
    pub val: AV,
}
pub fn at(name: u64, val: AV) -> Attr {
    Attr { name, val }
}

#[derive(Clone, Debug, PartialEq)]
pub struct Die {
    pub tag: u64,
    pub attrs: Vec<Attr>,
    /// parent die index (None only for the root, index 0)
    pub parent: Option<usize>,
}

#[derive(Clone, Debug, PartialEq)]
pub enum UnitKind {
    Compile,
    Partial,
    Type { signature: u64, type_die: usize },
    /// skeleton unit of a split compilation (DWARF 5 7.5.1.2: DW_UT_skeleton + dwo_id; GNU v4: ordinary header)
    Skeleton { dwo_id: u64 },
    /// split full compilation unit in a .dwo (DWARF 5: DW_UT_split_compile + dwo_id; GNU v4: ordinary header)
    SplitCompile { dwo_id: u64 },
}

#[derive(Clone, Debug, PartialEq)]
pub struct UnitM {
    pub kind: UnitKind,
    pub dies: Vec<Die>,
    pub strs: Vec<Vec<u8>>,
    pub addrs: Vec<u64>,
    pub rnglists: Vec<Vec<Rle>>,
    pub loclists: Vec<Vec<Lle>>,
    pub line: Option<LineM>,
}
impl UnitM {
    pub fn new(root_tag: u64) -> UnitM {
        UnitM { kind: UnitKind::Compile, dies: vec![Die { tag: root_tag, attrs: vec![], parent: None }], strs: vec![], addrs: vec![], rnglists: vec![], loclists: vec![], line: None }
    }
    pub fn add(&mut self, parent: usize, tag: u64, attrs: Vec<Attr>) -> usize {
        self.dies.push(Die { tag, attrs, parent: Some(parent) });
        self.dies.len() - 1
    }
}

#[derive(Clone, Debug, PartialEq)]
pub struct Model {
    pub cfg: Cfg,
    pub units: Vec<UnitM>,
}

#[derive(Clone, Debug, Default)]
pub struct Built {
    pub secs: Secs,
    /// section offset of every die, per unit
    pub die_off: Vec<Vec<usize>>,
    pub unit_off: Vec<usize>,
    pub unit_end: Vec<usize>,
    pub line_off: Vec<Option<usize>>,
    /// section offset of every range list, per unit
    pub range_off: Vec<Vec<u64>>,
    /// value of the unit's DW_AT_addr_base / DW_AT_GNU_addr_base
    pub addr_base: Vec<u64>,
}

/// Layout variations needed for split DWARF (everything false/empty = the ordinary layout).
#[derive(Clone, Debug, Default)]
pub struct Flavour {
    /// the sections are those of a .dwo file: no .debug_addr / .debug_line; DWARF 5: the index
    /// tables carry their header and the unit no *_base attribute (the base is implicitly right
    /// after the header); GNU DWARF 4: .debug_str_offsets.dwo has no header, location lists use
    /// the DW_LLE_GNU_* entry format in .debug_loc.dwo, range lists live in the main file
    pub dwo: bool,
    /// GNU DWARF 4 main file: .debug_addr has no header
    pub addr_headerless: bool,
    /// bytes of unrelated data in front of the unit's .debug_addr contribution
    pub addr_pad: usize,
    /// GNU DWARF 4 main file: DW_AT_GNU_ranges_base (AV::RnglistsBase) = offset of this range list of the unit
    pub gnu_ranges_base_list: Option<usize>,
    /// GNU DWARF 4 .dwo: value of DW_AT_ranges (DW_FORM_sec_offset) for range list i (relative to the
    /// skeleton's DW_AT_GNU_ranges_base; the lists themselves are in the main file's .debug_ranges)
    pub ext_range_off: Vec<u64>,
}

struct Tables {
    str_: Vec<u8>,
    line_str: Vec<u8>,
    str_offsets: Vec<u8>,
    addr: Vec<u8>,
    ranges: Vec<u8>,
    rnglists: Vec<u8>,
    loc: Vec<u8>,
    loclists: Vec<u8>,
    line: Vec<u8>,
}

struct UnitCtx {
    unit: usize,
    str_offsets_base: u64,
    addr_base: u64,
    rnglists_base: u64,
    loclists_base: u64,
    range_off: Vec<u64>,
    loc_off: Vec<u64>,
    line_off: Option<u64>,
}

struct Offs<'a> {
    die_off: &'a Vec<Vec<usize>>,
    unit_off: &'a Vec<usize>,
}
impl Offs<'_> {
    fn sec(&self, t: T) -> u64 {
        match t {
            T::Die(u, d) => self.die_off.get(u).and_then(|v| v.get(d)).cloned().unwrap_or(0) as u64,
            T::Mid(u, d) => self.die_off.get(u).and_then(|v| v.get(d)).cloned().unwrap_or(0) as u64 + 1,
            T::Raw(v) => v,
        }
    }
    fn rel(&self, t: T, cur: usize) -> u64 {
        match t {
            T::Raw(v) => v,
            _ => self.sec(t).wrapping_sub(self.unit_off.get(cur).cloned().unwrap_or(0) as u64),
        }
    }
}

pub fn uleb_len(v: u64) -> usize {
    mcx::leb::uleb_len(v)
}

fn op_bytes(cfg: Cfg, ops: &[Op], offs: &Offs, cur: usize) -> Vec<u8> {
    // two passes: sizes (with a dummy branch operand), then real branch operands
    let enc_one = |op: &Op, br: i16| -> Vec<u8> {
        let mut e = Enc::new(cfg.big);
        match op {
            Op::Simple(b) => {
                e.u8(*b);
            }
            Op::Lit(n) => {
                e.u8(OP_LIT0 + n);
            }
            Op::Const1u(v) => {
                e.u8(OP_CONST1U).u8(*v);
            }
            Op::Const1s(v) => {
                e.u8(OP_CONST1S).u8(*v as u8);
            }
            Op::Const2u(v) => {
                e.u8(OP_CONST2U).u16(*v);
            }
            Op::Const2s(v) => {
                e.u8(OP_CONST2S).u16(*v as u16);
            }
            Op::Const4u(v) => {
                e.u8(OP_CONST4U).u32(*v);
            }
            Op::Const8u(v) => {
                e.u8(OP_CONST8U).u64(*v);
            }
            Op::Constu(v) => {
                e.u8(OP_CONSTU).uleb(*v);
            }
            Op::Consts(v) => {
                e.u8(OP_CONSTS).sleb(*v);
            }
            Op::Addr(v) => {
                e.u8(OP_ADDR).addr(*v, cfg.asz);
            }
            Op::Addrx(i) => {
                e.u8(OP_ADDRX).uleb(*i);
            }
            Op::Constx(i) => {
                e.u8(OP_CONSTX).uleb(*i);
            }
            Op::GnuAddrIndex(i) => {
                e.u8(OP_GNU_ADDR_INDEX).uleb(*i);
            }
            Op::GnuConstIndex(i) => {
                e.u8(OP_GNU_CONST_INDEX).uleb(*i);
            }
            Op::Reg(r) => {
                e.u8(OP_REG0 + r);
            }
            Op::Regx(r) => {
                e.u8(OP_REGX).uleb(*r);
            }
            Op::Breg(r, o) => {
                e.u8(OP_BREG0 + r).sleb(*o);
            }
            Op::Bregx(r, o) => {
                e.u8(OP_BREGX).uleb(*r).sleb(*o);
            }
            Op::Fbreg(o) => {
                e.u8(OP_FBREG).sleb(*o);
            }
            Op::Pick(i) => {
                e.u8(OP_PICK).u8(*i);
            }
            Op::DerefSize(s) => {
                e.u8(OP_DEREF_SIZE).u8(*s);
            }
            Op::XderefSize(s) => {
                e.u8(OP_XDEREF_SIZE).u8(*s);
            }
            Op::PlusUconst(v) => {
                e.u8(OP_PLUS_UCONST).uleb(*v);
            }
            Op::Bra(_) => {
                e.u8(OP_BRA).u16(br as u16);
            }
            Op::Skip(_) => {
                e.u8(OP_SKIP).u16(br as u16);
            }
            Op::Call2(t) => {
                e.u8(OP_CALL2).u16(offs.rel(*t, cur) as u16);
            }
            Op::Call4(t) => {
                e.u8(OP_CALL4).u32(offs.rel(*t, cur) as u32);
            }
            Op::CallRef(t) => {
                e.u8(OP_CALL_REF).offset(offs.sec(*t), cfg.fmt64);
            }
            Op::ConstType(t, b) => {
                e.u8(OP_CONST_TYPE).uleb(offs.rel(*t, cur)).u8(b.len() as u8).bytes(b);
            }
            Op::RegvalType(r, t) => {
                e.u8(OP_REGVAL_TYPE).uleb(*r).uleb(offs.rel(*t, cur));
            }
            Op::DerefType(s, t) => {
                e.u8(OP_DEREF_TYPE).u8(*s).uleb(offs.rel(*t, cur));
            }
            Op::Convert(t) => {
                e.u8(OP_CONVERT).uleb(t.map(|t| offs.rel(t, cur)).unwrap_or(0));
            }
            Op::Reinterpret(t) => {
                e.u8(OP_REINTERPRET).uleb(t.map(|t| offs.rel(t, cur)).unwrap_or(0));
            }
            Op::Piece(s) => {
                e.u8(OP_PIECE).uleb(*s);
            }
            Op::BitPiece(s, o) => {
                e.u8(OP_BIT_PIECE).uleb(*s).uleb(*o);
            }
            Op::ImplicitValue(b) => {
                e.u8(OP_IMPLICIT_VALUE).uleb(b.len() as u64).bytes(b);
            }
            Op::ImplicitPointer(t, o) => {
                // DWARF 5 2.6.1.1.4: offset size = address size in version 2, else the format word
                e.u8(OP_IMPLICIT_POINTER);
                if cfg.version == 2 {
                    e.addr(offs.sec(*t), cfg.asz);
                } else {
                    e.offset(offs.sec(*t), cfg.fmt64);
                }
                e.sleb(*o);
            }
            Op::EntryValue(inner) => {
                let b = op_bytes(cfg, inner, offs, cur);
                e.u8(OP_ENTRY_VALUE).uleb(b.len() as u64).bytes(&b);
            }
            Op::ParameterRef(t) => {
                e.u8(OP_GNU_PARAMETER_REF).u32(offs.rel(*t, cur) as u32);
            }
        }
        e.buf
    };
    let sizes: Vec<usize> = ops.iter().map(|o| enc_one(o, 0).len()).collect();
    let mut starts = vec![0usize; ops.len() + 1];
    for i in 0..ops.len() {
        starts[i + 1] = starts[i] + sizes[i];
    }
    let mut out = vec![];
    for (i, op) in ops.iter().enumerate() {
        let br = match op {
            Op::Bra(b) | Op::Skip(b) => match b {
                Br::Raw(v) => *v,
                Br::ToOp(j) => (starts[(*j).min(ops.len())] as i64 - starts[i + 1] as i64) as i16,
            },
            _ => 0,
        };
        out.extend(enc_one(op, br));
    }
    out
}

pub fn expr_bytes_standalone(cfg: Cfg, ops: &[Op]) -> Vec<u8> {
    let d = vec![];
    let u = vec![];
    op_bytes(cfg, ops, &Offs { die_off: &d, unit_off: &u }, 0)
}

fn enc_ranges_v4(cfg: Cfg, l: &[Rle]) -> Vec<u8> {
    let mut e = Enc::new(cfg.big);
    for r in l {
        match r {
            Rle::Pair(b, en) => {
                e.addr(*b, cfg.asz).addr(*en, cfg.asz);
            }
            Rle::Base(a) => {
                e.addr(cfg.addr_max(), cfg.asz).addr(*a, cfg.asz);
            }
            _ => panic!("v5 range entry in v<=4 list"),
        }
    }
    e.addr(0, cfg.asz).addr(0, cfg.asz);
    e.buf
}

fn enc_ranges_v5(cfg: Cfg, l: &[Rle]) -> Vec<u8> {
    let mut e = Enc::new(cfg.big);
    for r in l {
        match r {
            Rle::BaseAddressx(i) => {
                e.u8(RLE_BASE_ADDRESSX).uleb(*i);
            }
            Rle::StartxEndx(a, b) => {
                e.u8(RLE_STARTX_ENDX).uleb(*a).uleb(*b);
            }
            Rle::StartxLength(a, l) => {
                e.u8(RLE_STARTX_LENGTH).uleb(*a).uleb(*l);
            }
            Rle::OffsetPair(a, b) => {
                e.u8(RLE_OFFSET_PAIR).uleb(*a).uleb(*b);
            }
            Rle::BaseAddress(a) => {
                e.u8(RLE_BASE_ADDRESS).addr(*a, cfg.asz);
            }
            Rle::StartEnd(a, b) => {
                e.u8(RLE_START_END).addr(*a, cfg.asz).addr(*b, cfg.asz);
            }
            Rle::StartLength(a, l) => {
                e.u8(RLE_START_LENGTH).addr(*a, cfg.asz).uleb(*l);
            }
            _ => panic!("v<=4 range entry in v5 list"),
        }
    }
    e.u8(RLE_END_OF_LIST);
    e.buf
}

fn enc_locs_v4(cfg: Cfg, l: &[Lle], offs: &Offs, cur: usize) -> Vec<u8> {
    let mut e = Enc::new(cfg.big);
    for r in l {
        match r {
            Lle::Pair(b, en, ops) => {
                let x = op_bytes(cfg, ops, offs, cur);
                e.addr(*b, cfg.asz).addr(*en, cfg.asz).u16(x.len() as u16).bytes(&x);
            }
            Lle::Base(a) => {
                e.addr(cfg.addr_max(), cfg.asz).addr(*a, cfg.asz);
            }
            _ => panic!("v5 location entry in v<=4 list"),
        }
    }
    e.addr(0, cfg.asz).addr(0, cfg.asz);
    e.buf
}

/// GNU DebugFission .debug_loc.dwo (https://gcc.gnu.org/wiki/DebugFission, "Location lists"):
/// every entry starts with a one-byte kind; start_end: two ULEB128 .debug_addr indices;
/// start_length: a ULEB128 index and a 4-byte length; base_address_selection: a ULEB128 index;
/// a location entry is followed by a 2-byte expression length and the expression.
/// (DW_LLE_GNU_offset_pair_entry is not generated: GCC never emits it and consumers disagree
/// about its operand encoding.)
fn enc_locs_gnu_dwo(cfg: Cfg, l: &[Lle], offs: &Offs, cur: usize) -> Vec<u8> {
    let mut e = Enc::new(cfg.big);
    let ex = |e: &mut Enc, ops: &[Op]| {
        let x = op_bytes(cfg, ops, offs, cur);
        e.u16(x.len() as u16).bytes(&x);
    };
    for r in l {
        match r {
            Lle::BaseAddressx(i) => {
                e.u8(LLE_GNU_BASE_ADDRESS_SELECTION).uleb(*i);
            }
            Lle::StartxEndx(a, b, o) => {
                e.u8(LLE_GNU_START_END).uleb(*a).uleb(*b);
                ex(&mut e, o);
            }
            Lle::StartxLength(a, l, o) => {
                e.u8(LLE_GNU_START_LENGTH).uleb(*a).u32(*l as u32);
                ex(&mut e, o);
            }
            _ => panic!("location entry kind not available in GNU .debug_loc.dwo"),
        }
    }
    e.u8(LLE_GNU_END_OF_LIST);
    e.buf
}

fn enc_locs_v5(cfg: Cfg, l: &[Lle], offs: &Offs, cur: usize) -> Vec<u8> {
    let mut e = Enc::new(cfg.big);
    let ex = |e: &mut Enc, ops: &[Op]| {
        let x = op_bytes(cfg, ops, offs, cur);
        e.uleb(x.len() as u64).bytes(&x);
    };
    for r in l {
        match r {
            Lle::BaseAddressx(i) => {
                e.u8(LLE_BASE_ADDRESSX).uleb(*i);
            }
            Lle::StartxEndx(a, b, o) => {
                e.u8(LLE_STARTX_ENDX).uleb(*a).uleb(*b);
                ex(&mut e, o);
            }
            Lle::StartxLength(a, l, o) => {
                e.u8(LLE_STARTX_LENGTH).uleb(*a).uleb(*l);
                ex(&mut e, o);
            }
            Lle::OffsetPair(a, b, o) => {
                e.u8(LLE_OFFSET_PAIR).uleb(*a).uleb(*b);
                ex(&mut e, o);
            }
            Lle::DefaultLocation(o) => {
                e.u8(LLE_DEFAULT_LOCATION);
                ex(&mut e, o);
            }
            Lle::BaseAddress(a) => {
                e.u8(LLE_BASE_ADDRESS).addr(*a, cfg.asz);
            }
            Lle::StartEnd(a, b, o) => {
                e.u8(LLE_START_END).addr(*a, cfg.asz).addr(*b, cfg.asz);
                ex(&mut e, o);
            }
            Lle::StartLength(a, l, o) => {
                e.u8(LLE_START_LENGTH).addr(*a, cfg.asz).uleb(*l);
                ex(&mut e, o);
            }
            _ => panic!("v<=4 location entry in v5 list"),
        }
    }
    e.u8(LLE_END_OF_LIST);
    e.buf
}

fn form_of(av: &AV, cfg: Cfg) -> u64 {
    match av {
        AV::Str(f, _) | AV::Strx(f, _) | AV::Addrx(f, _) | AV::Data(f, _) | AV::Block(f, _) | AV::Flag(f, _) | AV::Ref(f, _) | AV::Expr(f, _) | AV::Ranges(f, _) | AV::Locs(f, _) | AV::StmtList(f) | AV::RawWord(f, _) => *f,
        AV::Addr(_) => FORM_ADDR,
        AV::Sdata(_) => FORM_SDATA,
        AV::Data16(_) => FORM_DATA16,
        AV::Implicit(_) => FORM_IMPLICIT_CONST,
        AV::Sig8(_) => FORM_REF_SIG8,
        AV::Indirect(_) => FORM_INDIRECT,
        AV::StrOffsetsBase | AV::AddrBase | AV::RnglistsBase | AV::LoclistsBase => {
            let _ = cfg;
            FORM_SEC_OFFSET
        }
    }
}

fn pool_add(pool: &mut Vec<u8>, s: &[u8]) -> u64 {
    let off = pool.len() as u64;
    pool.extend_from_slice(s);
    pool.push(0);
    off
}

fn emit_av(e: &mut Enc, av: &AV, cfg: Cfg, t: &mut Tables, ctx: &UnitCtx, offs: &Offs) {
    let sized = |e: &mut Enc, form: u64, v: u64| match form {
        FORM_DATA1 | FORM_REF1 | FORM_STRX1 | FORM_ADDRX1 => {
            e.u8(v as u8);
        }
        FORM_DATA2 | FORM_REF2 | FORM_STRX2 | FORM_ADDRX2 => {
            e.u16(v as u16);
        }
        FORM_STRX3 | FORM_ADDRX3 => {
            e.uint(v, 3);
        }
        FORM_DATA4 | FORM_REF4 | FORM_STRX4 | FORM_ADDRX4 | FORM_REF_SUP4 => {
            e.u32(v as u32);
        }
        FORM_DATA8 | FORM_REF8 | FORM_REF_SUP8 => {
            e.u64(v);
        }
        FORM_UDATA | FORM_REF_UDATA | FORM_STRX | FORM_ADDRX | FORM_LOCLISTX | FORM_RNGLISTX | FORM_GNU_STR_INDEX | FORM_GNU_ADDR_INDEX => {
            e.uleb(v);
        }
        FORM_SEC_OFFSET | FORM_STRP | FORM_LINE_STRP | FORM_STRP_SUP => {
            e.offset(v, cfg.fmt64);
        }
        _ => panic!("sized: unsupported form {:#x}", form),
    };
    match av {
        AV::Str(f, s) => match *f {
            FORM_STRING => {
                e.cstr(s);
            }
            FORM_STRP => {
                let o = pool_add(&mut t.str_, s);
                e.offset(o, cfg.fmt64);
            }
            FORM_LINE_STRP => {
                let o = pool_add(&mut t.line_str, s);
                e.offset(o, cfg.fmt64);
            }
            _ => panic!("bad string form"),
        },
        AV::Strx(f, i) | AV::Addrx(f, i) => sized(e, *f, *i),
        AV::Addr(a) => {
            e.addr(*a, cfg.asz);
        }
        AV::Data(f, v) => sized(e, *f, *v),
        AV::Sdata(v) => {
            e.sleb(*v);
        }
        AV::Data16(b) => {
            e.bytes(b);
        }
        AV::Implicit(_) => {}
        AV::Block(f, b) => {
            match *f {
                FORM_BLOCK1 => {
                    e.u8(b.len() as u8);
                }
                FORM_BLOCK2 => {
                    e.u16(b.len() as u16);
                }
                FORM_BLOCK4 => {
                    e.u32(b.len() as u32);
                }
                FORM_BLOCK | FORM_EXPRLOC => {
                    e.uleb(b.len() as u64);
                }
                _ => panic!("bad block form"),
            }
            e.bytes(b);
        }
        AV::Flag(f, v) => {
            if *f == FORM_FLAG {
                e.u8(*v as u8);
            }
        }
        AV::Ref(f, tg) => match *f {
            FORM_REF_ADDR => {
                // DWARF 2: address-sized; DWARF 3+: offset-sized
                if cfg.version == 2 {
                    e.addr(offs.sec(*tg), cfg.asz);
                } else {
                    e.offset(offs.sec(*tg), cfg.fmt64);
                }
            }
            _ => sized(e, *f, offs.rel(*tg, ctx.unit)),
        },
        AV::Sig8(v) => {
            e.u64(*v);
        }
        AV::Expr(f, ops) => {
            let b = op_bytes(cfg, ops, offs, ctx.unit);
            emit_av(e, &AV::Block(*f, b), cfg, t, ctx, offs);
        }
        AV::Ranges(f, i) => {
            if *f == FORM_RNGLISTX {
                e.uleb(*i as u64);
            } else {
                sized(e, *f, ctx.range_off[*i]);
            }
        }
        AV::Locs(f, i) => {
            if *f == FORM_LOCLISTX {
                e.uleb(*i as u64);
            } else {
                sized(e, *f, ctx.loc_off[*i]);
            }
        }
        AV::StmtList(f) => sized(e, *f, ctx.line_off.unwrap_or(0)),
        AV::Indirect(inner) => {
            e.uleb(form_of(inner, cfg));
            emit_av(e, inner, cfg, t, ctx, offs);
        }
        AV::StrOffsetsBase => {
            e.offset(ctx.str_offsets_base, cfg.fmt64);
        }
        AV::AddrBase => {
            e.offset(ctx.addr_base, cfg.fmt64);
        }
        AV::RnglistsBase => {
            e.offset(ctx.rnglists_base, cfg.fmt64);
        }
        AV::LoclistsBase => {
            e.offset(ctx.loclists_base, cfg.fmt64);
        }
        AV::RawWord(f, v) => sized(e, *f, *v),
    }
}

fn with_len(cfg: Cfg, body: &Enc) -> Vec<u8> {
    let mut e = Enc::new(cfg.big);
    e.with_length(cfg.fmt64, body);
    e.buf
}

fn build_once(m: &Model, guess: &Built, fl: &Flavour) -> Built {
    let cfg = m.cfg;
    let offs = Offs { die_off: &guess.die_off, unit_off: &guess.unit_off };
    let mut t = Tables { str_: b"pad\0".to_vec(), line_str: b"lpad\0".to_vec(), str_offsets: vec![], addr: vec![0xa5; fl.addr_pad], ranges: vec![], rnglists: vec![], loc: vec![], loclists: vec![], line: vec![] };
    let mut info: Vec<u8> = vec![];
    let mut abbrev: Vec<u8> = vec![];
    let mut out = Built::default();
    for (ui, u) in m.units.iter().enumerate() {
        // ---- side tables of this unit
        let mut ctx = UnitCtx { unit: ui, str_offsets_base: 0, addr_base: 0, rnglists_base: 0, loclists_base: 0, range_off: vec![], loc_off: vec![], line_off: None };
        if !u.strs.is_empty() {
            // DWARF 5 7.26: unit_length, version(2), padding(2), offsets
            let mut body = Enc::new(cfg.big);
            let headerless = fl.dwo && cfg.version < 5;
            if !headerless {
                body.u16(5).u16(0);
            }
            for s in &u.strs {
                let o = pool_add(&mut t.str_, s);
                body.offset(o, cfg.fmt64);
            }
            if headerless {
                // GNU DebugFission: .debug_str_offsets.dwo is a bare array of offsets
                ctx.str_offsets_base = t.str_offsets.len() as u64;
                t.str_offsets.extend(&body.buf);
            } else {
                ctx.str_offsets_base = (t.str_offsets.len() + if cfg.fmt64 { 12 } else { 4 } + 4) as u64;
                t.str_offsets.extend(with_len(cfg, &body));
            }
        }
        if !u.addrs.is_empty() {
            // DWARF 5 7.27: unit_length, version(2), address_size, segment_selector_size, addresses
            assert!(!fl.dwo, "a .dwo file has no .debug_addr");
            let mut body = Enc::new(cfg.big);
            if !fl.addr_headerless {
                body.u16(5).u8(cfg.asz).u8(0);
            }
            for a in &u.addrs {
                body.addr(*a, cfg.asz);
            }
            if fl.addr_headerless {
                // GNU DebugFission: .debug_addr is a bare array of addresses
                ctx.addr_base = t.addr.len() as u64;
                t.addr.extend(&body.buf);
            } else {
                ctx.addr_base = (t.addr.len() + if cfg.fmt64 { 12 } else { 4 } + 4) as u64;
                t.addr.extend(with_len(cfg, &body));
            }
        }
        if !u.rnglists.is_empty() {
            if cfg.version >= 5 {
                // DWARF 5 7.28: unit_length, version, address_size, seg size, offset_entry_count(4), offsets, lists
                let lists: Vec<Vec<u8>> = u.rnglists.iter().map(|l| enc_ranges_v5(cfg, l)).collect();
                let n = lists.len();
                let mut body = Enc::new(cfg.big);
                body.u16(5).u8(cfg.asz).u8(0).u32(n as u32);
                let mut rel = n * cfg.word();
                let mut rels = vec![];
                for l in &lists {
                    rels.push(rel);
                    body.offset(rel as u64, cfg.fmt64);
                    rel += l.len();
                }
                for l in &lists {
                    body.bytes(l);
                }
                let base = t.rnglists.len() + if cfg.fmt64 { 12 } else { 4 } + 8;
                ctx.rnglists_base = base as u64;
                ctx.range_off = rels.iter().map(|r| (base + r) as u64).collect();
                t.rnglists.extend(with_len(cfg, &body));
            } else if fl.dwo {
                // GNU DebugFission: the lists are in the main file
                assert!(fl.ext_range_off.len() == u.rnglists.len());
                ctx.range_off = fl.ext_range_off.clone();
            } else {
                for l in &u.rnglists {
                    ctx.range_off.push(t.ranges.len() as u64);
                    t.ranges.extend(enc_ranges_v4(cfg, l));
                }
                if let Some(i) = fl.gnu_ranges_base_list {
                    ctx.rnglists_base = ctx.range_off[i];
                }
            }
        }
        if !u.loclists.is_empty() {
            if cfg.version >= 5 {
                let lists: Vec<Vec<u8>> = u.loclists.iter().map(|l| enc_locs_v5(cfg, l, &offs, ui)).collect();
                let n = lists.len();
                let mut body = Enc::new(cfg.big);
                body.u16(5).u8(cfg.asz).u8(0).u32(n as u32);
                let mut rel = n * cfg.word();
                let mut rels = vec![];
                for l in &lists {
                    rels.push(rel);
                    body.offset(rel as u64, cfg.fmt64);
                    rel += l.len();
                }
                for l in &lists {
                    body.bytes(l);
                }
                let base = t.loclists.len() + if cfg.fmt64 { 12 } else { 4 } + 8;
                ctx.loclists_base = base as u64;
                ctx.loc_off = rels.iter().map(|r| (base + r) as u64).collect();
                t.loclists.extend(with_len(cfg, &body));
            } else {
                for l in &u.loclists {
                    ctx.loc_off.push(t.loc.len() as u64);
                    t.loc.extend(if fl.dwo { enc_locs_gnu_dwo(cfg, l, &offs, ui) } else { enc_locs_v4(cfg, l, &offs, ui) });
                }
            }
        }
        if let Some(lp) = &u.line {
            assert!(!fl.dwo, "the generator puts the line program into the main file");
            ctx.line_off = Some(t.line.len() as u64);
            let b = enc_line(cfg, lp, &mut t.line_str, &mut t.str_);
            t.line.extend(b);
        }
        out.line_off.push(ctx.line_off.map(|x| x as usize));
        out.range_off.push(ctx.range_off.clone());
        out.addr_base.push(ctx.addr_base);

        // ---- abbreviations: one per die, code = index + 1
        let abbrev_off = abbrev.len();
        let mut children: Vec<Vec<usize>> = vec![vec![]; u.dies.len()];
        for (i, d) in u.dies.iter().enumerate() {
            if let Some(p) = d.parent {
                children[p].push(i);
            }
        }
        {
            let mut a = Enc::new(cfg.big);
            for (i, d) in u.dies.iter().enumerate() {
                a.uleb(i as u64 + 1).uleb(d.tag).u8(!children[i].is_empty() as u8);
                for at in &d.attrs {
                    a.uleb(at.name).uleb(form_of(&at.val, cfg));
                    if let AV::Implicit(v) = &at.val {
                        a.sleb(*v);
                    }
                }
                a.u8(0).u8(0);
            }
            a.u8(0);
            abbrev.extend(a.buf);
        }

        // ---- unit header + dies
        let unit_off = info.len();
        let hdr_len_field = if cfg.fmt64 { 12 } else { 4 };
        let mut body = Enc::new(cfg.big);
        body.u16(cfg.version);
        if cfg.version >= 5 {
            let ut = match u.kind {
                UnitKind::Compile => UT_COMPILE,
                UnitKind::Partial => UT_PARTIAL,
                UnitKind::Type { .. } => UT_TYPE,
                UnitKind::Skeleton { .. } => UT_SKELETON,
                UnitKind::SplitCompile { .. } => UT_SPLIT_COMPILE,
            };
            body.u8(ut).u8(cfg.asz).offset(abbrev_off as u64, cfg.fmt64);
            if let UnitKind::Skeleton { dwo_id } | UnitKind::SplitCompile { dwo_id } = u.kind {
                // DWARF 5 7.5.1.2: unit_length, version, unit_type, address_size, debug_abbrev_offset, dwo_id (8 bytes)
                body.u64(dwo_id);
            }
            if let UnitKind::Type { signature, type_die } = u.kind {
                body.u64(signature).offset(offs.rel(T::Die(ui, type_die), ui), cfg.fmt64);
            }
        } else {
            body.offset(abbrev_off as u64, cfg.fmt64).u8(cfg.asz);
        }
        let mut die_off = vec![0usize; u.dies.len()];
        fn emit_die(i: usize, u: &UnitM, children: &Vec<Vec<usize>>, body: &mut Enc, base: usize, die_off: &mut Vec<usize>, cfg: Cfg, t: &mut Tables, ctx: &UnitCtx, offs: &Offs) {
            die_off[i] = base + body.len();
            body.uleb(i as u64 + 1);
            for a in &u.dies[i].attrs {
                emit_av(body, &a.val, cfg, t, ctx, offs);
            }
            if !children[i].is_empty() {
                for &c in &children[i] {
                    emit_die(c, u, children, body, base, die_off, cfg, t, ctx, offs);
                }
                body.u8(0);
            }
        }
        emit_die(0, u, &children, &mut body, unit_off + hdr_len_field, &mut die_off, cfg, &mut t, &ctx, &offs);
        info.extend(with_len(cfg, &body));
        out.die_off.push(die_off);
        out.unit_off.push(unit_off);
        out.unit_end.push(info.len());
    }
    out.secs.insert(".debug_info", info);
    out.secs.insert(".debug_abbrev", abbrev);
    out.secs.insert(".debug_str", t.str_);
    out.secs.insert(".debug_line_str", t.line_str);
    out.secs.insert(".debug_str_offsets", t.str_offsets);
    out.secs.insert(".debug_addr", t.addr);
    out.secs.insert(".debug_ranges", t.ranges);
    out.secs.insert(".debug_rnglists", t.rnglists);
    out.secs.insert(".debug_loc", t.loc);
    out.secs.insert(".debug_loclists", t.loclists);
    out.secs.insert(".debug_line", t.line);
    out
}

/// Encode the model; die offsets are found by iterating to a fixed point
/// (reference operands of variable width can move later entries).
pub fn build(m: &Model) -> Built {
    build_with(m, &Flavour::default())
}

pub fn build_with(m: &Model, fl: &Flavour) -> Built {
    let mut cur = Built::default();
    for _ in 0..8 {
        let next = build_once(m, &cur, fl);
        if next.die_off == cur.die_off && next.unit_off == cur.unit_off {
            return next;
        }
        cur = next;
    }
    panic!("generator: die offsets did not converge");
}

// ---------------------------------------------------------------------------
// Line programs (DWARF 5 6.2.4, DWARF 2-4 6.2.4)

#[derive(Clone, Debug, PartialEq)]
pub struct FileM {
    pub name: Vec<u8>,
    pub dir: u64,
    pub mtime: u64,
    pub size: u64,
    pub md5: Option<[u8; 16]>,
}

#[derive(Clone, Debug, PartialEq)]
pub enum LI {
    Copy,
    Special(u8),
    AdvancePc(u64),
    AdvanceLine(i64),
    SetFile(u64),
    SetColumn(u64),
    NegateStmt,
    SetBasicBlock,
    ConstAddPc,
    FixedAdvancePc(u16),
    SetPrologueEnd,
    SetEpilogueBegin,
    SetIsa(u64),
    EndSequence,
    SetAddress(u64),
    DefineFile(Vec<u8>, u64, u64, u64),
    SetDiscriminator(u64),
    UnknownExt(u8, Vec<u8>),
}

#[derive(Clone, Debug, PartialEq)]
pub struct LineM {
    pub version: u16,
    pub min_inst: u8,
    pub max_ops: u8,
    pub default_is_stmt: bool,
    pub line_base: i8,
    pub line_range: u8,
    pub opcode_base: u8,
    /// v<=4: include directories (index 1..); v5: all directories (index 0..)
    pub dirs: Vec<Vec<u8>>,
    /// v<=4: files (index 1..); v5: files (index 0..)
    pub files: Vec<FileM>,
    /// form of v5 path strings: string / line_strp / strp
    pub path_form: u64,
    pub insns: Vec<LI>,
}

fn enc_line(cfg: Cfg, lp: &LineM, line_str: &mut Vec<u8>, str_: &mut Vec<u8>) -> Vec<u8> {
    let mut hdr = Enc::new(cfg.big);
    hdr.u8(lp.min_inst);
    if lp.version >= 4 {
        hdr.u8(lp.max_ops);
    }
    hdr.u8(lp.default_is_stmt as u8).u8(lp.line_base as u8).u8(lp.line_range).u8(lp.opcode_base);
    let std_len: [u8; 12] = [0, 1, 1, 1, 1, 0, 0, 0, 1, 0, 0, 1];
    for i in 1..lp.opcode_base {
        hdr.u8(std_len.get(i as usize - 1).cloned().unwrap_or(0));
    }
    if lp.version <= 4 {
        for d in &lp.dirs {
            hdr.cstr(d);
        }
        hdr.u8(0);
        for f in &lp.files {
            hdr.cstr(&f.name).uleb(f.dir).uleb(f.mtime).uleb(f.size);
        }
        hdr.u8(0);
    } else {
        let mut path = |hdr: &mut Enc, s: &[u8]| match lp.path_form {
            FORM_STRING => {
                hdr.cstr(s);
            }
            FORM_LINE_STRP => {
                let o = pool_add(line_str, s);
                hdr.offset(o, cfg.fmt64);
            }
            FORM_STRP => {
                let o = pool_add(str_, s);
                hdr.offset(o, cfg.fmt64);
            }
            _ => panic!("bad path form"),
        };
        hdr.u8(1).uleb(LNCT_PATH).uleb(lp.path_form);
        hdr.uleb(lp.dirs.len() as u64);
        for d in &lp.dirs {
            path(&mut hdr, d);
        }
        let has_md5 = lp.files.iter().any(|f| f.md5.is_some());
        let has_ts = lp.files.iter().any(|f| f.mtime != 0);
        let has_size = lp.files.iter().any(|f| f.size != 0);
        hdr.u8(2 + has_md5 as u8 + has_ts as u8 + has_size as u8);
        hdr.uleb(LNCT_PATH).uleb(lp.path_form).uleb(LNCT_DIRECTORY_INDEX).uleb(FORM_UDATA);
        if has_ts {
            hdr.uleb(LNCT_TIMESTAMP).uleb(FORM_UDATA);
        }
        if has_size {
            hdr.uleb(LNCT_SIZE).uleb(FORM_UDATA);
        }
        if has_md5 {
            hdr.uleb(LNCT_MD5).uleb(FORM_DATA16);
        }
        hdr.uleb(lp.files.len() as u64);
        for f in &lp.files {
            path(&mut hdr, &f.name);
            hdr.uleb(f.dir);
            if has_ts {
                hdr.uleb(f.mtime);
            }
            if has_size {
                hdr.uleb(f.size);
            }
            if has_md5 {
                hdr.bytes(&f.md5.unwrap_or([0; 16]));
            }
        }
    }
    let mut prog = Enc::new(cfg.big);
    for i in &lp.insns {
        match i {
            LI::Copy => {
                prog.u8(LNS_COPY);
            }
            LI::Special(op) => {
                prog.u8(*op);
            }
            LI::AdvancePc(v) => {
                prog.u8(LNS_ADVANCE_PC).uleb(*v);
            }
            LI::AdvanceLine(v) => {
                prog.u8(LNS_ADVANCE_LINE).sleb(*v);
            }
            LI::SetFile(v) => {
                prog.u8(LNS_SET_FILE).uleb(*v);
            }
            LI::SetColumn(v) => {
                prog.u8(LNS_SET_COLUMN).uleb(*v);
            }
            LI::NegateStmt => {
                prog.u8(LNS_NEGATE_STMT);
            }
            LI::SetBasicBlock => {
                prog.u8(LNS_SET_BASIC_BLOCK);
            }
            LI::ConstAddPc => {
                prog.u8(LNS_CONST_ADD_PC);
            }
            LI::FixedAdvancePc(v) => {
                prog.u8(LNS_FIXED_ADVANCE_PC).u16(*v);
            }
            LI::SetPrologueEnd => {
                prog.u8(LNS_SET_PROLOGUE_END);
            }
            LI::SetEpilogueBegin => {
                prog.u8(LNS_SET_EPILOGUE_BEGIN);
            }
            LI::SetIsa(v) => {
                prog.u8(LNS_SET_ISA).uleb(*v);
            }
            LI::EndSequence => {
                prog.u8(0).uleb(1).u8(LNE_END_SEQUENCE);
            }
            LI::SetAddress(a) => {
                prog.u8(0).uleb(1 + cfg.asz as u64).u8(LNE_SET_ADDRESS).addr(*a, cfg.asz);
            }
            LI::DefineFile(n, d, m, s) => {
                let mut b = Enc::new(cfg.big);
                b.u8(LNE_DEFINE_FILE).cstr(n).uleb(*d).uleb(*m).uleb(*s);
                prog.u8(0).uleb(b.len() as u64).bytes(&b.buf);
            }
            LI::SetDiscriminator(v) => {
                prog.u8(0).uleb(1 + uleb_len(*v) as u64).u8(LNE_SET_DISCRIMINATOR).uleb(*v);
            }
            LI::UnknownExt(op, data) => {
                prog.u8(0).uleb(1 + data.len() as u64).u8(*op).bytes(data);
            }
        }
    }
    let mut body = Enc::new(cfg.big);
    body.u16(lp.version);
    if lp.version >= 5 {
        body.u8(cfg.asz).u8(0);
    }
    body.offset(hdr.len() as u64, cfg.fmt64);
    body.bytes(&hdr.buf).bytes(&prog.buf);
    with_len(cfg, &body)
}

// ---------------------------------------------------------------------------
// Call frame information (DWARF 5 6.4.1, 7.24; LSB eh_frame)

#[derive(Clone, Debug, PartialEq)]
pub enum Cfa {
    AdvanceLoc(u8),
    AdvanceLoc1(u8),
    AdvanceLoc2(u16),
    AdvanceLoc4(u32),
    SetLoc(u64),
    DefCfa(u64, u64),
    DefCfaSf(u64, i64),
    DefCfaRegister(u64),
    DefCfaOffset(u64),
    DefCfaOffsetSf(i64),
    DefCfaExpression(Vec<Op>),
    /// primary opcode form (register < 64)
    Offset(u8, u64),
    OffsetExtended(u64, u64),
    OffsetExtendedSf(u64, i64),
    ValOffset(u64, u64),
    ValOffsetSf(u64, i64),
    Undefined(u64),
    SameValue(u64),
    Register(u64, u64),
    Expression(u64, Vec<Op>),
    ValExpression(u64, Vec<Op>),
    Restore(u8),
    RestoreExtended(u64),
    RememberState,
    RestoreState,
    GnuArgsSize(u64),
    Nop,
}

#[derive(Clone, Debug, PartialEq)]
pub struct Aug {
    /// 'R' pointer encoding for FDE addresses
    pub fde_enc: Option<u8>,
    /// 'L' encoding (FDEs then carry an LSDA pointer)
    pub lsda_enc: Option<u8>,
    /// 'P' (encoding, address)
    pub personality: Option<(u8, u64)>,
    pub signal: bool,
}
impl Aug {
    pub fn none() -> Aug {
        Aug { fde_enc: None, lsda_enc: None, personality: None, signal: false }
    }
    pub fn any(&self) -> bool {
        self.fde_enc.is_some() || self.lsda_enc.is_some() || self.personality.is_some() || self.signal
    }
}

#[derive(Clone, Debug, PartialEq)]
pub struct CieM {
    pub version: u8,
    pub aug: Aug,
    pub caf: u64,
    pub daf: i64,
    pub ra: u64,
    pub init: Vec<Cfa>,
}
#[derive(Clone, Debug, PartialEq)]
pub struct FdeM {
    pub cie: usize,
    pub addr: u64,
    pub len: u64,
    pub lsda: Option<u64>,
    pub insns: Vec<Cfa>,
}
#[derive(Clone, Debug, PartialEq)]
pub struct FrameM {
    pub eh: bool,
    pub cfg: Cfg,
    pub cies: Vec<CieM>,
    pub fdes: Vec<FdeM>,
}

fn enc_cfa(cfg: Cfg, e: &mut Enc, insns: &[Cfa]) {
    let ex = |e: &mut Enc, ops: &[Op]| {
        let b = expr_bytes_standalone(cfg, ops);
        e.uleb(b.len() as u64).bytes(&b);
    };
    for i in insns {
        match i {
            Cfa::AdvanceLoc(d) => {
                e.u8(CFA_ADVANCE_LOC | (d & 0x3f));
            }
            Cfa::AdvanceLoc1(d) => {
                e.u8(CFA_ADVANCE_LOC1).u8(*d);
            }
            Cfa::AdvanceLoc2(d) => {
                e.u8(CFA_ADVANCE_LOC2).u16(*d);
            }
            Cfa::AdvanceLoc4(d) => {
                e.u8(CFA_ADVANCE_LOC4).u32(*d);
            }
            Cfa::SetLoc(a) => {
                e.u8(CFA_SET_LOC).addr(*a, cfg.asz);
            }
            Cfa::DefCfa(r, o) => {
                e.u8(CFA_DEF_CFA).uleb(*r).uleb(*o);
            }
            Cfa::DefCfaSf(r, o) => {
                e.u8(CFA_DEF_CFA_SF).uleb(*r).sleb(*o);
            }
            Cfa::DefCfaRegister(r) => {
                e.u8(CFA_DEF_CFA_REGISTER).uleb(*r);
            }
            Cfa::DefCfaOffset(o) => {
                e.u8(CFA_DEF_CFA_OFFSET).uleb(*o);
            }
            Cfa::DefCfaOffsetSf(o) => {
                e.u8(CFA_DEF_CFA_OFFSET_SF).sleb(*o);
            }
            Cfa::DefCfaExpression(x) => {
                e.u8(CFA_DEF_CFA_EXPRESSION);
                ex(e, x);
            }
            Cfa::Offset(r, o) => {
                e.u8(CFA_OFFSET | (r & 0x3f)).uleb(*o);
            }
            Cfa::OffsetExtended(r, o) => {
                e.u8(CFA_OFFSET_EXTENDED).uleb(*r).uleb(*o);
            }
            Cfa::OffsetExtendedSf(r, o) => {
                e.u8(CFA_OFFSET_EXTENDED_SF).uleb(*r).sleb(*o);
            }
            Cfa::ValOffset(r, o) => {
                e.u8(CFA_VAL_OFFSET).uleb(*r).uleb(*o);
            }
            Cfa::ValOffsetSf(r, o) => {
                e.u8(CFA_VAL_OFFSET_SF).uleb(*r).sleb(*o);
            }
            Cfa::Undefined(r) => {
                e.u8(CFA_UNDEFINED).uleb(*r);
            }
            Cfa::SameValue(r) => {
                e.u8(CFA_SAME_VALUE).uleb(*r);
            }
            Cfa::Register(a, b) => {
                e.u8(CFA_REGISTER).uleb(*a).uleb(*b);
            }
            Cfa::Expression(r, x) => {
                e.u8(CFA_EXPRESSION).uleb(*r);
                ex(e, x);
            }
            Cfa::ValExpression(r, x) => {
                e.u8(CFA_VAL_EXPRESSION).uleb(*r);
                ex(e, x);
            }
            Cfa::Restore(r) => {
                e.u8(CFA_RESTORE | (r & 0x3f));
            }
            Cfa::RestoreExtended(r) => {
                e.u8(CFA_RESTORE_EXTENDED).uleb(*r);
            }
            Cfa::RememberState => {
                e.u8(CFA_REMEMBER_STATE);
            }
            Cfa::RestoreState => {
                e.u8(CFA_RESTORE_STATE);
            }
            Cfa::GnuArgsSize(s) => {
                e.u8(CFA_GNU_ARGS_SIZE).uleb(*s);
            }
            Cfa::Nop => {
                e.u8(CFA_NOP);
            }
        }
    }
}

/// Encode an eh_frame pointer with encoding `pe` for target `value`, the
/// field being at section offset `field_off` (section loaded at address 0).
fn eh_ptr(e: &mut Enc, cfg: Cfg, pe: u8, value: u64, field_off: usize) {
    let v = if pe & 0x70 == EH_PE_PCREL { value.wrapping_sub(field_off as u64) } else { value };
    match pe & 0x0f {
        EH_PE_ABSPTR => {
            e.addr(v, cfg.asz);
        }
        EH_PE_UDATA4 | EH_PE_SDATA4 => {
            e.u32(v as u32);
        }
        _ => panic!("unsupported pointer encoding in generator"),
    }
}

pub fn build_frame(m: &FrameM) -> Vec<u8> {
    let cfg = m.cfg;
    let mut sec: Vec<u8> = vec![];
    let lenf = if cfg.fmt64 { 12 } else { 4 };
    for (ci, c) in m.cies.iter().enumerate() {
        let cie_off = sec.len();
        let mut b = Enc::new(cfg.big);
        // CIE id
        if m.eh {
            b.u32(0);
        } else if cfg.fmt64 {
            b.u64(u64::MAX);
        } else {
            b.u32(0xffff_ffff);
        }
        b.u8(c.version);
        let mut aug = vec![];
        if c.aug.any() {
            aug.push(b'z');
            if c.aug.lsda_enc.is_some() {
                aug.push(b'L');
            }
            if c.aug.personality.is_some() {
                aug.push(b'P');
            }
            if c.aug.fde_enc.is_some() {
                aug.push(b'R');
            }
            if c.aug.signal {
                aug.push(b'S');
            }
        }
        b.cstr(&aug);
        if c.version >= 4 {
            b.u8(cfg.asz).u8(0);
        }
        b.uleb(c.caf).sleb(c.daf);
        if c.version == 1 {
            b.u8(c.ra as u8);
        } else {
            b.uleb(c.ra);
        }
        if c.aug.any() {
            // augmentation data: its length is small, so a 1-byte uleb
            let mut d = Enc::new(cfg.big);
            let data_off = cie_off + lenf + b.len() + 1;
            if let Some(l) = c.aug.lsda_enc {
                d.u8(l);
            }
            if let Some((pe, addr)) = c.aug.personality {
                d.u8(pe);
                let fo = data_off + d.len();
                eh_ptr(&mut d, cfg, pe, addr, fo);
            }
            if let Some(r) = c.aug.fde_enc {
                d.u8(r);
            }
            b.uleb(d.len() as u64).bytes(&d.buf);
        }
        enc_cfa(cfg, &mut b, &c.init);
        while (lenf + b.len()) % cfg.asz as usize != 0 {
            b.u8(CFA_NOP);
        }
        sec.extend(with_len(cfg, &b));
        for f in m.fdes.iter().filter(|f| f.cie == ci) {
            let fde_off = sec.len();
            let mut b = Enc::new(cfg.big);
            if m.eh {
                b.u32((fde_off + lenf - cie_off) as u32);
            } else {
                b.offset(cie_off as u64, cfg.fmt64);
            }
            match c.aug.fde_enc {
                Some(pe) => {
                    let fo = fde_off + lenf + b.len();
                    eh_ptr(&mut b, cfg, pe, f.addr, fo);
                    // the range is encoded with the value format only
                    eh_ptr(&mut b, cfg, pe & 0x0f, f.len, 0);
                }
                None => {
                    b.addr(f.addr, cfg.asz).addr(f.len, cfg.asz);
                }
            }
            if c.aug.any() {
                let mut d = Enc::new(cfg.big);
                if let (Some(pe), Some(l)) = (c.aug.lsda_enc, f.lsda) {
                    let fo = fde_off + lenf + b.len() + 1;
                    eh_ptr(&mut d, cfg, pe, l, fo);
                }
                b.uleb(d.len() as u64).bytes(&d.buf);
            }
            enc_cfa(cfg, &mut b, &f.insns);
            while (lenf + b.len()) % cfg.asz as usize != 0 {
                b.u8(CFA_NOP);
            }
            sec.extend(with_len(cfg, &b));
        }
    }
    sec
}

// ---------------------------------------------------------------------------
// Split DWARF (DWARF 5 sections 3.1.2, 3.1.3, 7.3.2, 7.5.1.2, appendix F; GNU DebugFission
// for DWARF 4)

/// One split compilation: a skeleton unit in the main file and the split full unit in a .dwo.
#[derive(Clone, Debug, PartialEq)]
pub struct SplitM {
    pub cfg: Cfg,
    pub dwo_id: u64,
    /// The split full unit (`kind` is ignored). Its tables are distributed as a producer does:
    /// `strs` -> .debug_str_offsets.dwo + .debug_str.dwo (DW_FORM_strx* / DW_FORM_GNU_str_index),
    /// `addrs` -> the MAIN file's .debug_addr at the skeleton's DW_AT_addr_base / DW_AT_GNU_addr_base
    /// (DW_FORM_addrx* / DW_FORM_GNU_addr_index, DW_OP_addrx / DW_OP_GNU_addr_index, *x list entries),
    /// `rnglists` -> DWARF 5: .debug_rnglists.dwo; GNU 4: the MAIN file's .debug_ranges, DW_AT_ranges
    /// being relative to the skeleton's DW_AT_GNU_ranges_base,
    /// `loclists` -> DWARF 5: .debug_loclists.dwo; GNU 4: .debug_loc.dwo in DW_LLE_GNU_* format,
    /// `line` -> the MAIN file's .debug_line, referenced by the skeleton's DW_AT_stmt_list.
    pub unit: UnitM,
    /// further attributes of the skeleton root (DW_AT_low_pc, DW_AT_high_pc, DW_AT_ranges ...)
    pub skel_attrs: Vec<Attr>,
    /// range lists of the skeleton itself (for a DW_AT_ranges in `skel_attrs`; the AV::Ranges index
    /// counts these lists only)
    pub skel_rnglists: Vec<Vec<Rle>>,
}

#[derive(Clone, Debug, Default)]
pub struct SplitBuilt {
    /// main file sections under their ordinary names
    pub main: Secs,
    /// .dwo sections under their `.dwo` names
    pub dwo: Secs,
    /// offset of every entry of the split unit in .debug_info.dwo
    pub die_off: Vec<usize>,
}

pub fn render_split(b: &SplitBuilt) -> String {
    format!("MAIN {}DWO {}", render_secs(&b.main), render_secs(&b.dwo))
}

pub fn build_split(m: &SplitM) -> SplitBuilt {
    let cfg = m.cfg;
    let v5 = cfg.version >= 5;
    assert!(cfg.version >= 4, "split DWARF exists for DWARF 5 and as a GNU extension of DWARF 4");
    // ---- main file: the skeleton unit
    let mut sk = UnitM::new(if v5 { TAG_SKELETON_UNIT } else { TAG_COMPILE_UNIT });
    sk.kind = UnitKind::Skeleton { dwo_id: m.dwo_id };
    sk.addrs = m.unit.addrs.clone();
    sk.line = m.unit.line.clone();
    // GNU 4: an unrelated list first, so that DW_AT_GNU_ranges_base is not 0
    let npad = if !v5 && !m.unit.rnglists.is_empty() { 1 } else { 0 };
    let nskel = npad + m.skel_rnglists.len();
    sk.rnglists = vec![vec![Rle::Pair(0x7000, 0x7004)]; npad];
    sk.rnglists.extend(m.skel_rnglists.iter().cloned());
    let mut fl_main = Flavour { addr_headerless: !v5, addr_pad: if v5 { 0 } else { 3 * cfg.asz as usize }, ..Flavour::default() };
    if !v5 && !m.unit.rnglists.is_empty() {
        // GNU 4: the split unit's range lists live in the main file behind the skeleton's own
        sk.rnglists.extend(m.unit.rnglists.iter().cloned());
        fl_main.gnu_ranges_base_list = Some(nskel);
    }
    {
        let a = &mut sk.dies[0].attrs;
        a.push(at(if v5 { AT_DWO_NAME } else { AT_GNU_DWO_NAME }, AV::Str(FORM_STRP, b"a.dwo".to_vec())));
        a.push(at(AT_COMP_DIR, AV::Str(if v5 { FORM_LINE_STRP } else { FORM_STRING }, b"/cwd".to_vec())));
        if !v5 {
            a.push(at(AT_GNU_DWO_ID, AV::Data(FORM_DATA8, m.dwo_id)));
        }
        if !sk.addrs.is_empty() {
            a.push(at(if v5 { AT_ADDR_BASE } else { AT_GNU_ADDR_BASE }, AV::AddrBase));
        }
        if fl_main.gnu_ranges_base_list.is_some() {
            a.push(at(AT_GNU_RANGES_BASE, AV::RnglistsBase));
        }
        if v5 && nskel > 0 && m.skel_attrs.iter().any(|x| matches!(x.val, AV::Ranges(FORM_RNGLISTX, _))) {
            a.push(at(AT_RNGLISTS_BASE, AV::RnglistsBase));
        }
        if sk.line.is_some() {
            a.push(at(AT_STMT_LIST, AV::StmtList(FORM_SEC_OFFSET)));
        }
        for x in &m.skel_attrs {
            a.push(match &x.val {
                AV::Ranges(f, i) => at(x.name, AV::Ranges(*f, i + npad)),
                _ => x.clone(),
            });
        }
    }
    let main = build_with(&Model { cfg, units: vec![sk] }, &fl_main);
    // ---- .dwo file: the split full unit
    let mut su = m.unit.clone();
    su.kind = UnitKind::SplitCompile { dwo_id: m.dwo_id };
    su.addrs = vec![];
    su.line = None;
    let mut fl_dwo = Flavour { dwo: true, ..Flavour::default() };
    if !v5 {
        let base = main.range_off[0].get(nskel).cloned().unwrap_or(0);
        fl_dwo.ext_range_off = main.range_off[0][nskel..].iter().map(|o| o - base).collect();
        if !su.dies[0].attrs.iter().any(|a| a.name == AT_GNU_DWO_ID) {
            su.dies[0].attrs.push(at(AT_GNU_DWO_ID, AV::Data(FORM_DATA8, m.dwo_id)));
        }
    }
    let dwo = build_with(&Model { cfg, units: vec![su] }, &fl_dwo);
    let mut out = SplitBuilt { main: main.secs, dwo: Secs::new(), die_off: dwo.die_off[0].clone() };
    for (k, v) in dwo.secs {
        let name: &'static str = match k {
            ".debug_info" => ".debug_info.dwo",
            ".debug_abbrev" => ".debug_abbrev.dwo",
            ".debug_str" => ".debug_str.dwo",
            ".debug_str_offsets" => ".debug_str_offsets.dwo",
            ".debug_rnglists" => ".debug_rnglists.dwo",
            ".debug_loclists" => ".debug_loclists.dwo",
            ".debug_loc" => ".debug_loc.dwo",
            // a .dwo has no .debug_addr, .debug_ranges, .debug_line, .debug_line_str
            _ => {
                assert!(v.is_empty() || k == ".debug_line_str", "generator: .dwo build produced {}", k);
                continue;
            }
        };
        out.dwo.insert(name, v);
    }
    out
}
