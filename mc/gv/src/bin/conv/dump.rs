//! Canonical SEMANTIC DUMP computed with gimli's *reader* (decided by the
//! read-side properties C02-C08). It contains only encoding-independent
//! meaning: forms, abbreviation codes, section offsets, string/address table
//! indices, list encodings, line-program opcodes and alignment factors do not
//! appear; references are resolved to the identity of their target entry.
#![allow(dead_code)]
use super::gen::Secs;
use gimli::read::{self, AttributeValue as RAV, Reader, UnwindSection};
use gimli::{EndianSlice, RunTimeEndian};
use std::collections::BTreeMap;

pub type RD<'a> = EndianSlice<'a, RunTimeEndian>;

pub fn endian(big: bool) -> RunTimeEndian {
    if big {
        RunTimeEndian::Big
    } else {
        RunTimeEndian::Little
    }
}

pub fn load<'a>(secs: &'a Secs, big: bool) -> read::Dwarf<RD<'a>> {
    read::Dwarf::load(|id| -> Result<RD<'a>, ()> {
        let b: &'a [u8] = secs.get(id.name()).map(|v| &v[..]).unwrap_or(&[]);
        Ok(EndianSlice::new(b, endian(big)))
    })
    .unwrap()
}

/// Load the sections of a .dwo file (keys are the `.dwo` section names) and attach it to the
/// main file that holds its skeleton unit, the way a consumer does.
pub fn load_dwo<'a>(secs: &'a Secs, big: bool, parent: &read::Dwarf<RD<'a>>) -> read::Dwarf<RD<'a>> {
    let mut d = read::Dwarf::load(|id| -> Result<RD<'a>, ()> {
        let b: &'a [u8] = id.dwo_name().and_then(|n| secs.get(n)).map(|v| &v[..]).unwrap_or(&[]);
        Ok(EndianSlice::new(b, endian(big)))
    })
    .unwrap();
    d.make_dwo(parent);
    d
}

#[derive(Clone, Copy, PartialEq, Eq, Debug)]
pub enum RefNaming {
    /// (unit number, canonical preorder number)
    Index,
    /// DW_AT_name of the target entry (identity tags, used by C19)
    ByName,
}

#[derive(Clone, Debug)]
pub struct EntryD {
    pub depth: isize,
    pub tag: u64,
    pub name: Option<String>,
    pub sec_off: usize,
    pub parent: Option<usize>,
    /// rendered attributes, sorted by attribute number
    pub attrs: Vec<String>,
    /// identities of every entry this entry references (any carrier)
    pub refs: Vec<String>,
    /// references that do not land on the start of an entry
    pub dangling: Vec<String>,
}

#[derive(Clone, Debug)]
pub struct UnitD {
    pub head: String,
    pub entries: Vec<EntryD>,
    pub line: Option<Vec<String>>,
}

#[derive(Clone, Debug)]
pub struct DwarfD {
    pub units: Vec<UnitD>,
}

impl DwarfD {
    pub fn text(&self) -> String {
        let mut s = String::new();
        for (i, u) in self.units.iter().enumerate() {
            s.push_str(&format!("unit {} {}\n", i, u.head));
            for e in &u.entries {
                s.push_str(&format!("  {}tag {:#x}", " ".repeat(e.depth.max(0) as usize), e.tag));
                for a in &e.attrs {
                    s.push_str(" | ");
                    s.push_str(a);
                }
                s.push('\n');
            }
            if let Some(l) = &u.line {
                for r in l {
                    s.push_str("  L ");
                    s.push_str(r);
                    s.push('\n');
                }
            }
        }
        s
    }
}

pub fn hexs(b: &[u8]) -> String {
    // printable strings as text, anything else as hex
    if !b.is_empty() && b.iter().all(|c| (0x20..0x7f).contains(c) && *c != b'"') {
        format!("\"{}\"", String::from_utf8_lossy(b))
    } else {
        format!("x{}", mcx::hex(b))
    }
}

const AT_SIBLING: u16 = 0x01;
const AT_NAME: u16 = 0x03;
const AT_STMT_LIST: u16 = 0x10;
/// Attributes `ConvertUnitEntry::filter_attributes` drops by design (DWARF
/// encoding metadata the writer regenerates or cannot represent).
pub const DROPPED_BY_DESIGN: [u16; 10] = [0x01, 0x72, 0x73, 0x74, 0x8c, 0x76, 0x2133, 0x2132, 0x2130, 0x2131];

struct RawEntry<'a> {
    depth: isize,
    tag: u64,
    off: usize,
    parent: Option<usize>,
    attrs: Vec<read::Attribute<RD<'a>>>,
}

type Ident = BTreeMap<usize, (usize, usize, Option<String>)>;

struct Rend<'a, 'b> {
    dwarf: &'b read::Dwarf<RD<'a>>,
    unit: &'b read::Unit<RD<'a>>,
    /// where the unit's line program lives (the unit itself, or the skeleton unit of a split unit)
    ldwarf: &'b read::Dwarf<RD<'a>>,
    lunit: &'b read::Unit<RD<'a>>,
    ident: &'b Ident,
    naming: RefNaming,
    refs: Vec<String>,
    dangling: Vec<String>,
}

impl<'a, 'b> Rend<'a, 'b> {
    fn target(&mut self, sec_off: Option<usize>, raw: String) -> String {
        match sec_off.and_then(|o| self.ident.get(&o)) {
            Some((u, i, name)) => {
                let id = match self.naming {
                    RefNaming::Index => format!("u{}e{}", u, i),
                    RefNaming::ByName => name.clone().unwrap_or_else(|| format!("u{}e{}", u, i)),
                };
                self.refs.push(id.clone());
                format!("->{}", id)
            }
            None => {
                self.dangling.push(raw.clone());
                format!("->DANGLING({})", raw)
            }
        }
    }
    fn unit_ref(&mut self, o: read::UnitOffset<usize>) -> String {
        let sec = o.to_debug_info_offset(&self.unit.header).map(|d| d.0);
        self.target(sec, format!("unit+{:#x}", o.0))
    }
    fn info_ref(&mut self, o: gimli::DebugInfoOffset<usize>) -> String {
        self.target(Some(o.0), format!("info+{:#x}", o.0))
    }

    fn expr(&mut self, e: read::Expression<RD<'a>>) -> String {
        let enc = self.unit.encoding();
        let mut ops = e.clone().operations(enc);
        let mut items: Vec<(usize, usize, read::Operation<RD<'a>>)> = vec![];
        let mut start = 0usize;
        loop {
            match ops.next() {
                Ok(Some(op)) => {
                    let end = ops.offset_from(&e);
                    items.push((start, end, op));
                    start = end;
                }
                Ok(None) => break,
                Err(err) => return format!("expr[UNDECODABLE {:?} in {}]", err, mcx::hex(e.0.slice())),
            }
        }
        let total = e.0.len();
        let mut out = vec![];
        for (_s, end, op) in items.iter() {
            let idx_of = |target: i16| -> String {
                let t = *end as i64 + target as i64;
                if t == total as i64 {
                    return "end".to_string();
                }
                match items.iter().position(|(s, _, _)| *s as i64 == t) {
                    Some(i) => format!("op{}", i),
                    None => format!("INVALID({})", t),
                }
            };
            use read::Operation as O;
            let s = match op {
                O::Deref { base_type, size, space } => {
                    let b = if base_type.0 == 0 { String::new() } else { format!(" type{}", self.unit_ref(*base_type)) };
                    format!("deref size={} space={}{}", size, space, b)
                }
                O::Bra { target } => format!("bra {}", idx_of(*target)),
                O::Skip { target } => format!("skip {}", idx_of(*target)),
                O::RegisterOffset { register, offset, base_type } => {
                    if base_type.0 == 0 {
                        format!("breg r{} {}", register.0, offset)
                    } else {
                        format!("regval r{} type{}", register.0, self.unit_ref(*base_type))
                    }
                }
                O::Call { offset } => match offset {
                    read::DieReference::UnitRef(o) => format!("call{}", self.unit_ref(*o)),
                    read::DieReference::DebugInfoRef(o) => format!("call{}", self.info_ref(*o)),
                },
                O::VariableValue { offset } => format!("variable_value{}", self.info_ref(*offset)),
                O::ImplicitValue { data } => format!("implicit_value {}", mcx::hex(data.slice())),
                O::ImplicitPointer { value, byte_offset } => format!("implicit_pointer{} +{}", self.info_ref(*value), byte_offset),
                O::EntryValue { expression } => format!("entry_value {}", self.expr(read::Expression(*expression))),
                O::ParameterRef { offset } => format!("parameter_ref{}", self.unit_ref(*offset)),
                O::Address { address } => format!("addr {:#x}", address),
                O::UnsignedConstant { value } => format!("constu {}", value),
                O::AddressIndex { index } => match self.dwarf.address(self.unit, *index) {
                    Ok(a) => format!("addr {:#x}", a),
                    Err(e) => format!("addrx[{}] UNRESOLVED {:?}", index.0, e),
                },
                O::ConstantIndex { index } => match self.dwarf.address(self.unit, *index) {
                    Ok(a) => format!("constu {}", a),
                    Err(e) => format!("constx[{}] UNRESOLVED {:?}", index.0, e),
                },
                O::TypedLiteral { base_type, value } => format!("const_type{} {}", self.unit_ref(*base_type), mcx::hex(value.slice())),
                O::Convert { base_type } => {
                    if base_type.0 == 0 {
                        "convert generic".to_string()
                    } else {
                        format!("convert{}", self.unit_ref(*base_type))
                    }
                }
                O::Reinterpret { base_type } => {
                    if base_type.0 == 0 {
                        "reinterpret generic".to_string()
                    } else {
                        format!("reinterpret{}", self.unit_ref(*base_type))
                    }
                }
                other => format!("{:?}", other),
            };
            out.push(s);
        }
        format!("expr[{}]", out.join("; "))
    }

    fn string(&self, v: RAV<RD<'a>>) -> String {
        match self.dwarf.attr_string(self.unit, v) {
            Ok(s) => format!("string {}", hexs(s.slice())),
            Err(e) => format!("string UNRESOLVED {:?}", e),
        }
    }

    fn file(&self, idx: u64) -> String {
        if idx == 0 && self.unit.encoding().version <= 4 {
            return "file none".to_string();
        }
        let Some(lp) = &self.lunit.line_program else { return format!("file ?noprogram({})", idx) };
        match lp.header().file(idx) {
            Some(f) => format!("file {}", file_ident(self.ldwarf, self.lunit, lp.header(), f)),
            None => format!("file ?invalid({})", idx),
        }
    }

    fn ranges(&self, off: gimli::RangeListsOffset<usize>) -> String {
        let mut it = match self.dwarf.ranges(self.unit, off) {
            Ok(i) => i,
            Err(e) => return format!("ranges UNREADABLE {:?}", e),
        };
        let mut v = vec![];
        loop {
            match it.next() {
                Ok(Some(r)) => v.push(format!("[{:#x},{:#x})", r.begin, r.end)),
                Ok(None) => break,
                Err(e) => {
                    v.push(format!("ERR {:?}", e));
                    break;
                }
            }
        }
        format!("ranges{{{}}}", v.join(" "))
    }

    fn locs(&mut self, off: gimli::LocationListsOffset<usize>) -> String {
        let mut it = match self.dwarf.locations(self.unit, off) {
            Ok(i) => i,
            Err(e) => return format!("loclist UNREADABLE {:?}", e),
        };
        let mut v = vec![];
        loop {
            match it.next() {
                Ok(Some(l)) => {
                    let x = self.expr(l.data);
                    v.push(format!("[{:#x},{:#x}) {}", l.range.begin, l.range.end, x));
                }
                Ok(None) => break,
                Err(e) => {
                    v.push(format!("ERR {:?}", e));
                    break;
                }
            }
        }
        format!("loclist{{{}}}", v.join(" "))
    }

    fn attr(&mut self, a: &read::Attribute<RD<'a>>, line_in_use: bool) -> Option<String> {
        let n = a.name().0;
        if DROPPED_BY_DESIGN.contains(&n) {
            return None;
        }
        let v = a.value();
        let body = match v {
            RAV::Addr(x) => format!("addr {:#x}", x),
            RAV::DebugAddrIndex(i) => match self.dwarf.address(self.unit, i) {
                Ok(x) => format!("addr {:#x}", x),
                Err(e) => format!("addr UNRESOLVED {:?}", e),
            },
            RAV::Block(b) => format!("block {}", mcx::hex(b.slice())),
            RAV::Data1(x) => format!("data1 {:#x}", x),
            RAV::Data2(x) => format!("data2 {:#x}", x),
            RAV::Data4(x) => format!("data4 {:#x}", x),
            RAV::Data8(x) => format!("data8 {:#x}", x),
            RAV::Data16(x) => format!("data16 {:#x}", x),
            RAV::Sdata(x) => format!("sdata {}", x),
            RAV::Udata(x) => format!("udata {}", x),
            RAV::Exprloc(e) => self.expr(e),
            RAV::Flag(b) => format!("flag {}", b),
            RAV::UnitRef(o) => format!("ref{}", self.unit_ref(o)),
            RAV::DebugInfoRef(o) => format!("ref{}", self.info_ref(o)),
            RAV::DebugInfoRefSup(o) => format!("ref_sup {:#x}", o.0),
            RAV::DebugLineRef(o) => {
                let own = self.unit.line_program.as_ref().map(|p| p.header().offset());
                if own == Some(o) {
                    if n == AT_STMT_LIST && !line_in_use {
                        // by design: a line program without rows that no entry refers to is not emitted
                        return None;
                    }
                    "lineprogram".to_string()
                } else {
                    format!("lineref OTHER {:#x}", o.0)
                }
            }
            RAV::LocationListsRef(o) => self.locs(o),
            RAV::DebugLocListsIndex(i) => match self.dwarf.locations_offset(self.unit, i) {
                Ok(o) => self.locs(o),
                Err(e) => format!("loclistx UNRESOLVED {:?}", e),
            },
            RAV::RangeListsRef(o) => {
                let o = self.dwarf.ranges_offset_from_raw(self.unit, o);
                self.ranges(o)
            }
            RAV::DebugRngListsIndex(i) => match self.dwarf.ranges_offset(self.unit, i) {
                Ok(o) => self.ranges(o),
                Err(e) => format!("rnglistx UNRESOLVED {:?}", e),
            },
            RAV::DebugTypesRef(s) => format!("sig8 {:#x}", s.0),
            RAV::DebugStrRef(_) | RAV::DebugStrOffsetsIndex(_) | RAV::DebugLineStrRef(_) | RAV::String(_) => self.string(v),
            RAV::DebugStrRefSup(o) => format!("strp_sup {:#x}", o.0),
            RAV::FileIndex(i) => self.file(i),
            RAV::Encoding(c) => format!("ate {:#x}", c.0),
            RAV::DecimalSign(c) => format!("ds {:#x}", c.0),
            RAV::Endianity(c) => format!("end {:#x}", c.0),
            RAV::Accessibility(c) => format!("access {:#x}", c.0),
            RAV::Visibility(c) => format!("vis {:#x}", c.0),
            RAV::Virtuality(c) => format!("virt {:#x}", c.0),
            RAV::Language(c) => format!("lang {:#x}", c.0),
            RAV::AddressClass(c) => format!("addrclass {:#x}", c.0),
            RAV::IdentifierCase(c) => format!("idcase {:#x}", c.0),
            RAV::CallingConvention(c) => format!("cc {:#x}", c.0),
            RAV::Inline(c) => format!("inl {:#x}", c.0),
            RAV::Ordering(c) => format!("ord {:#x}", c.0),
            other => format!("OTHER {:?}", other),
        };
        Some(format!("at{:#x}={}", n, body))
    }
}

pub fn file_ident<'a>(dwarf: &read::Dwarf<RD<'a>>, unit: &read::Unit<RD<'a>>, h: &read::LineProgramHeader<RD<'a>>, f: &read::FileEntry<RD<'a>>) -> String {
    let s = |v: RAV<RD<'a>>| match dwarf.attr_string(unit, v) {
        Ok(s) => hexs(s.slice()),
        Err(e) => format!("UNRESOLVED {:?}", e),
    };
    let dir = match f.directory(h) {
        Some(d) => s(d),
        None => {
            if f.directory_index() == 0 {
                "<nodir>".to_string()
            } else {
                format!("?dir({})", f.directory_index())
            }
        }
    };
    let mut out = format!("{}/{} mtime={} size={}", dir, s(f.path_name()), f.timestamp(), f.size());
    if h.file_has_md5() {
        out.push_str(&format!(" md5={}", mcx::hex(f.md5())));
    }
    out
}

fn dump_line<'a>(dwarf: &read::Dwarf<RD<'a>>, unit: &read::Unit<RD<'a>>) -> Result<(Vec<String>, usize), String> {
    let Some(lp) = unit.line_program.clone() else { return Ok((vec![], 0)) };
    let mut out = vec![];
    let mut rows = lp.rows();
    let mut n = 0;
    // rows of the current sequence; a sequence without any row but the end_sequence row
    // covers no address and is dropped (it has no meaning)
    let mut seq: Vec<String> = vec![];
    loop {
        match rows.next_row() {
            Ok(Some((h, r))) => {
                if r.end_sequence() {
                    if !seq.is_empty() {
                        n += seq.len() + 1;
                        out.append(&mut seq);
                        out.push(format!("end addr={:#x} op={}", r.address(), r.op_index()));
                    }
                } else {
                    let file = match r.file(h) {
                        Some(f) => file_ident(dwarf, unit, h, f),
                        None => format!("?file({})", r.file_index()),
                    };
                    let col = match r.column() {
                        read::ColumnType::LeftEdge => 0,
                        read::ColumnType::Column(c) => c.get(),
                    };
                    seq.push(format!(
                        "row addr={:#x} op={} file=({}) line={} col={} stmt={} bb={} pe={} eb={} isa={} disc={}",
                        r.address(),
                        r.op_index(),
                        file,
                        r.line().map(|l| l.get()).unwrap_or(0),
                        col,
                        r.is_stmt(),
                        r.basic_block(),
                        r.prologue_end(),
                        r.epilogue_begin(),
                        r.isa(),
                        r.discriminator()
                    ));
                }
            }
            Ok(None) => break,
            Err(e) => return Err(format!("line rows: {:?}", e)),
        }
    }
    if !seq.is_empty() {
        n += seq.len();
        out.append(&mut seq);
        out.push("UNTERMINATED".to_string());
    }
    // file table after execution, so that files added by DW_LNE_define_file are included
    let h = rows.header();
    let mut files: Vec<String> = h.file_names().iter().map(|f| file_ident(dwarf, unit, h, f)).collect();
    files.sort();
    files.dedup();
    out.insert(0, format!("files {{{}}}", files.join(", ")));
    Ok((out, n))
}

/// Semantic dump of everything reachable from .debug_info.
pub fn dump_dwarf<'a>(dwarf: &read::Dwarf<RD<'a>>, naming: RefNaming) -> Result<DwarfD, String> {
    let mut units: Vec<read::Unit<RD<'a>>> = vec![];
    let mut it = dwarf.units();
    loop {
        match it.next() {
            Ok(Some(h)) => units.push(dwarf.unit(h).map_err(|e| format!("unit: {:?}", e))?),
            Ok(None) => break,
            Err(e) => return Err(format!("unit headers: {:?}", e)),
        }
    }
    dump_units(dwarf, units, naming, None)
}

/// Semantic dump of the split full unit of `dwo` (a .dwo attached to `parent` with `make_dwo`):
/// the unit is read as a consumer reads it, i.e. with the skeleton's relocated attributes
/// (`Unit::copy_relocated_attributes`: DW_AT_low_pc, DW_AT_addr_base, DW_AT_GNU_ranges_base), and
/// file indices / line rows come from the skeleton's line program (DWARF 5 3.1.3: DW_AT_stmt_list
/// is inherited from the skeleton). Returns (dump of the split unit, dump of the main file).
pub fn dump_split<'a>(dwo: &read::Dwarf<RD<'a>>, parent: &read::Dwarf<RD<'a>>, naming: RefNaming) -> Result<(DwarfD, DwarfD), String> {
    let sh = parent.units().next().map_err(|e| format!("skeleton header: {:?}", e))?.ok_or("no skeleton unit")?;
    let skeleton = parent.unit(sh).map_err(|e| format!("skeleton unit: {:?}", e))?;
    let h = dwo.units().next().map_err(|e| format!("split unit header: {:?}", e))?.ok_or("no split unit")?;
    let mut unit = dwo.unit(h).map_err(|e| format!("split unit: {:?}", e))?;
    if unit.dwo_id.is_none() || unit.dwo_id != skeleton.dwo_id {
        return Err(format!("dwo ids: skeleton {:?} split {:?}", skeleton.dwo_id, unit.dwo_id));
    }
    unit.copy_relocated_attributes(&skeleton);
    let d = dump_units(dwo, vec![unit], naming, Some((parent, &skeleton)))?;
    let m = dump_dwarf(parent, naming)?;
    Ok((d, m))
}

/// Dump the given units of `dwarf`. `line_src`: the (file, unit) holding the line program of
/// the (single) unit when that is not the unit itself.
pub fn dump_units<'a>(dwarf: &read::Dwarf<RD<'a>>, units: Vec<read::Unit<RD<'a>>>, naming: RefNaming, line_src: Option<(&read::Dwarf<RD<'a>>, &read::Unit<RD<'a>>)>) -> Result<DwarfD, String> {
    // pass 1: structure
    let mut raw: Vec<Vec<RawEntry<'a>>> = vec![];
    let mut order: Vec<Vec<usize>> = vec![];
    let mut ident: Ident = BTreeMap::new();
    for (ui, unit) in units.iter().enumerate() {
        let base = unit.header.debug_info_offset().map(|o| o.0).unwrap_or(0);
        let mut v: Vec<RawEntry<'a>> = vec![];
        let mut stack: Vec<(isize, usize)> = vec![];
        let mut c = unit.entries();
        loop {
            match c.next_dfs() {
                Ok(Some(e)) => {
                    let d = e.depth();
                    while let Some(&(pd, _)) = stack.last() {
                        if pd < d {
                            break;
                        }
                        stack.pop();
                    }
                    let parent = stack.last().map(|x| x.1);
                    let idx = v.len();
                    v.push(RawEntry { depth: d, tag: e.tag().0 as u64, off: base + e.offset().0, parent, attrs: e.attrs().to_vec() });
                    stack.push((d, idx));
                }
                Ok(None) => break,
                Err(e) => return Err(format!("entries: {:?}", e)),
            }
        }
        // canonical order: the writer moves DW_TAG_base_type children of the root in front
        // of their siblings (documented in write::Unit::reorder_base_types); apply the same
        // stable partition so that sibling order at the top level is compared modulo it.
        let mut children: Vec<Vec<usize>> = vec![vec![]; v.len()];
        for (i, e) in v.iter().enumerate() {
            if let Some(p) = e.parent {
                children[p].push(i);
            }
        }
        if !v.is_empty() {
            let (mut a, b): (Vec<usize>, Vec<usize>) = children[0].iter().partition(|&&c| v[c].tag == 0x24);
            a.extend(b);
            children[0] = a;
        }
        let mut ord = vec![];
        fn dfs(i: usize, ch: &Vec<Vec<usize>>, out: &mut Vec<usize>) {
            out.push(i);
            for &c in &ch[i] {
                dfs(c, ch, out);
            }
        }
        if !v.is_empty() {
            dfs(0, &children, &mut ord);
        }
        for (ci, &ri) in ord.iter().enumerate() {
            let name = v[ri].attrs.iter().find(|a| a.name().0 == AT_NAME).and_then(|a| dwarf.attr_string(unit, a.value()).ok()).map(|s| String::from_utf8_lossy(s.slice()).to_string());
            ident.insert(v[ri].off, (ui, ci, name));
        }
        raw.push(v);
        order.push(ord);
    }
    // pass 2: meaning
    let mut out = DwarfD { units: vec![] };
    for (ui, unit) in units.iter().enumerate() {
        let (ldwarf, lunit) = line_src.unwrap_or((dwarf, unit));
        let (line, nrows) = dump_line(ldwarf, lunit)?;
        let ver = unit.encoding().version;
        let file_attr_used = raw[ui].iter().any(|e| e.attrs.iter().any(|a| matches!(a.value(), RAV::FileIndex(i) if i != 0 || ver >= 5)));
        let line_in_use = lunit.line_program.is_some() && (nrows > 0 || file_attr_used);
        let ty = match unit.header.type_() {
            read::UnitType::Compilation => "compile".to_string(),
            read::UnitType::Partial => "partial".to_string(),
            read::UnitType::Type { type_signature, type_offset } => format!("type sig={:#x} type_die=unit+{:#x}", type_signature.0, type_offset.0),
            other => format!("{:?}", other),
        };
        let head = format!("v{} addr{} {}", ver, unit.encoding().address_size, ty);
        let mut entries = vec![];
        let pos_of: BTreeMap<usize, usize> = order[ui].iter().enumerate().map(|(ci, &ri)| (ri, ci)).collect();
        for &ri in &order[ui] {
            let e = &raw[ui][ri];
            let mut r = Rend { dwarf, unit, ldwarf, lunit, ident: &ident, naming, refs: vec![], dangling: vec![] };
            let mut attrs: Vec<(u16, String)> = vec![];
            for a in &e.attrs {
                if let Some(s) = r.attr(a, line_in_use) {
                    attrs.push((a.name().0, s));
                }
            }
            attrs.sort();
            let name = ident.get(&e.off).and_then(|x| x.2.clone());
            entries.push(EntryD { depth: e.depth, tag: e.tag, name, sec_off: e.off, parent: e.parent.map(|p| pos_of[&p]), attrs: attrs.into_iter().map(|x| x.1).collect(), refs: r.refs, dangling: r.dangling });
        }
        out.units.push(UnitD { head, entries, line: if line_in_use { Some(line) } else { None } });
    }
    Ok(out)
}

// ---------------------------------------------------------------------------
// Frames

fn cfi_expr<'a>(e: read::Expression<RD<'a>>, enc: gimli::Encoding) -> String {
    let mut ops = e.clone().operations(enc);
    let mut v = vec![];
    loop {
        match ops.next() {
            Ok(Some(op)) => v.push(format!("{:?}", op)),
            Ok(None) => break,
            Err(err) => {
                v.push(format!("UNDECODABLE {:?}", err));
                break;
            }
        }
    }
    format!("expr[{}]", v.join("; "))
}

fn dump_frame_generic<'a, S>(sec: &S, bases: &read::BaseAddresses) -> Result<Vec<String>, String>
where
    S: UnwindSection<RD<'a>>,
    S::Offset: read::UnwindOffset<usize>,
{
    let mut out = vec![];
    let mut entries = sec.entries(bases);
    let mut ctx = read::UnwindContext::new();
    loop {
        let ent = match entries.next() {
            Ok(Some(e)) => e,
            Ok(None) => break,
            Err(e) => return Err(format!("cfi entries: {:?}", e)),
        };
        let read::CieOrFde::Fde(p) = ent else { continue };
        let fde = p.parse(S::cie_from_offset).map_err(|e| format!("fde parse: {:?}", e))?;
        let cie = fde.cie();
        let ptr = |p: Option<read::Pointer>| match p {
            None => "none".to_string(),
            Some(read::Pointer::Direct(a)) => format!("direct {:#x}", a),
            Some(read::Pointer::Indirect(a)) => format!("indirect {:#x}", a),
        };
        out.push(format!(
            "fde addr={:#x} len={:#x} lsda={} | cie ra=r{} personality={} signal={}",
            fde.initial_address(),
            fde.len(),
            ptr(fde.lsda()),
            cie.return_address_register().0,
            ptr(cie.personality()),
            cie.is_signal_trampoline()
        ));
        let enc = cie.encoding();
        let mut table = read::UnwindTable::new(sec, bases, &mut ctx, &fde).map_err(|e| format!("unwind table: {:?}", e))?;
        // (start, end, rules); adjacent rows with identical rules are one row: where the
        // boundary between two identical rule sets lies is encoding, not meaning
        let mut rows: Vec<(u64, u64, String)> = vec![];
        let mut err = None;
        loop {
            match table.next_row() {
                Ok(Some(row)) => {
                    let cfa = match row.cfa() {
                        read::CfaRule::RegisterAndOffset { register, offset } => format!("r{}{:+}", register.0, offset),
                        read::CfaRule::Expression(x) => match x.get(sec) {
                            Ok(e) => cfi_expr(e, enc),
                            Err(e) => format!("expr UNREADABLE {:?}", e),
                        },
                    };
                    let mut regs: Vec<(u16, String)> = vec![];
                    for (r, rule) in row.registers() {
                        let s = match rule {
                            read::RegisterRule::Expression(x) => match x.get(sec) {
                                Ok(e) => format!("at {}", cfi_expr(e, enc)),
                                Err(e) => format!("expr UNREADABLE {:?}", e),
                            },
                            read::RegisterRule::ValExpression(x) => match x.get(sec) {
                                Ok(e) => format!("val {}", cfi_expr(e, enc)),
                                Err(e) => format!("expr UNREADABLE {:?}", e),
                            },
                            other => format!("{:?}", other),
                        };
                        regs.push((r.0, s));
                    }
                    regs.sort();
                    let rules = format!("cfa={} args={} {}", cfa, row.saved_args_size(), regs.iter().map(|(r, s)| format!("r{}={}", r, s)).collect::<Vec<_>>().join(" "));
                    let (s, e) = (row.start_address(), row.end_address());
                    if s == e {
                        continue;
                    }
                    match rows.last_mut() {
                        Some(last) if last.2 == rules && last.1 == s => last.1 = e,
                        _ => rows.push((s, e, rules)),
                    }
                }
                Ok(None) => break,
                Err(e) => {
                    err = Some(format!("  rows ERR {:?}", e));
                    break;
                }
            }
        }
        for (s, e, r) in rows {
            out.push(format!("  row [{:#x},{:#x}) {}", s, e, r));
        }
        if let Some(e) = err {
            out.push(e);
        }
    }
    Ok(out)
}

pub fn dump_frame(bytes: &[u8], eh: bool, big: bool, asz: u8) -> Result<Vec<String>, String> {
    let bases = read::BaseAddresses::default().set_eh_frame(0);
    if eh {
        let mut s = read::EhFrame::new(bytes, endian(big));
        s.set_address_size(asz);
        dump_frame_generic(&s, &bases)
    } else {
        let mut s = read::DebugFrame::new(bytes, endian(big));
        s.set_address_size(asz);
        dump_frame_generic(&s, &bases)
    }
}
