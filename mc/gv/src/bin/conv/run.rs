//! Drivers around the code under test: read -> write conversion through the
//! three public routes, serialisation, and extraction of the output sections.
#![allow(dead_code)]
use super::dump::{endian, load, load_dwo, RD};
use super::gen::Secs;
use gimli::write::{self, Address, ConvertError, EndianVec, Writer};
use gimli::RunTimeEndian;
use mcx::Panic;

#[derive(Clone, Copy, Debug, PartialEq, Eq)]
pub enum Api {
    /// `write::Dwarf::from`
    From,
    /// `Dwarf::convert` + `ConvertUnit::read_line_program`/`read_row` + per-entry
    /// `read_entry`/`add_entry`/`convert_attribute_value`, written by `Dwarf::write`
    StepRow,
    /// as crates/examples/src/bin/convert.rs: `read_sequence`, per-unit `ConvertUnit::write`
    StepSeq,
    /// like StepRow, but the k-th call on the ConvertLineProgram is `read_sequence` when bit k of
    /// the schedule is set and `read_row` otherwise (calls beyond bit 63: `read_row`)
    Sched(u64),
    /// like StepRow, but the line program is re-encoded in another DWARF version
    /// (`read_line_program(Some(encoding with that version), None)`)
    Reenc(u16),
}

thread_local! {
    /// number of read_row/read_sequence calls made by the last `Api::Sched` conversion on this thread
    pub static SCHED_CALLS: std::cell::Cell<u32> = const { std::cell::Cell::new(0) };
}
impl Api {
    pub fn name(self) -> &'static str {
        match self {
            Api::From => "Dwarf::from",
            Api::StepRow => "stepwise(read_row)",
            Api::StepSeq => "stepwise(read_sequence)",
            Api::Sched(_) => "stepwise(read_row/read_sequence schedule)",
            Api::Reenc(_) => "stepwise(read_row, line program re-encoded in another version)",
        }
    }
}

#[derive(Debug, Clone)]
pub enum ConvOut {
    Ok(Secs),
    /// conversion returned an error (allowed by C12)
    ConvErr(String),
    /// serialisation returned an error (allowed by C12)
    WriteErr(String),
}

fn addr(a: u64) -> Option<Address> {
    Some(Address::Constant(a))
}

fn take(sections: &write::Sections<EndianVec<RunTimeEndian>>) -> Secs {
    let mut out = Secs::new();
    let _ = sections.for_each(|id, w| -> Result<(), ()> {
        out.insert(id.name(), w.slice().to_vec());
        Ok(())
    });
    out
}

thread_local! {
    /// stepwise routes skip attributes that cannot be converted (as crates/examples/src/bin/convert.rs does)
    pub static LENIENT: std::cell::Cell<bool> = const { std::cell::Cell::new(false) };
    /// `convert_filtered` calls `require_entry` for every required entry of a unit BEFORE reading
    /// the unit's entries (offsets from an earlier pass), instead of while reading them
    pub static EARLY_REQUIRE: std::cell::Cell<bool> = const { std::cell::Cell::new(false) };
}

fn convert_attributes<'a>(unit: &mut write::ConvertUnit<'_, RD<'a>>, id: write::UnitEntryId, entry: &write::ConvertUnitEntry<'_, RD<'a>>) -> Result<(), ConvertError> {
    let lenient = LENIENT.with(|l| l.get());
    for attr in &entry.attrs {
        let value = match unit.convert_attribute_value(entry.read_unit, attr, &addr) {
            Ok(v) => v,
            Err(_) if lenient => continue,
            Err(e) => return Err(e),
        };
        unit.unit.get_mut(id).set(attr.name(), value);
    }
    Ok(())
}

fn step_unit<'u, 'a>(unit: &mut write::ConvertUnit<'u, RD<'a>>, root_entry: write::ConvertUnitEntry<'u, RD<'a>>, api: Api, sections: &mut write::Sections<EndianVec<RunTimeEndian>>) -> Result<Result<(), write::Error>, ConvertError> {
    step_unit_with(unit, root_entry, None, api, sections)
}

/// `skeleton_root`: for a split unit, the root entry of its skeleton unit, whose attributes
/// (DW_AT_low_pc, DW_AT_comp_dir ... which the split unit inherits) are converted onto the output
/// root after the split root's own, as crates/examples/src/bin/convert.rs does.
fn step_unit_with<'u, 'a>(unit: &mut write::ConvertUnit<'u, RD<'a>>, root_entry: write::ConvertUnitEntry<'u, RD<'a>>, skeleton_root: Option<&write::ConvertUnitEntry<'_, RD<'a>>>, api: Api, sections: &mut write::Sections<EndianVec<RunTimeEndian>>) -> Result<Result<(), write::Error>, ConvertError> {
    let line_encoding = match api {
        Api::Reenc(version) => {
            let e = unit.read_unit.encoding();
            Some(gimli::Encoding { version, format: e.format, address_size: e.address_size })
        }
        _ => None,
    };
    if let Some(mut cp) = unit.read_line_program(line_encoding, None)? {
        match api {
            Api::StepSeq => {
                while let Some(sequence) = cp.read_sequence()? {
                    if let Some(start) = sequence.start {
                        cp.set_address(Address::Constant(start));
                    }
                    for row in sequence.rows {
                        cp.generate_row(row);
                    }
                    if let write::ConvertLineSequenceEnd::Length(length) = sequence.end {
                        cp.end_sequence(length);
                    }
                }
            }
            Api::Sched(bits) => {
                let mut k = 0u32;
                SCHED_CALLS.with(|c| c.set(0));
                loop {
                    let use_seq = k < 64 && (bits >> k) & 1 == 1;
                    k += 1;
                    SCHED_CALLS.with(|c| c.set(k));
                    if use_seq {
                        let Some(sequence) = cp.read_sequence()? else { break };
                        if let Some(start) = sequence.start {
                            cp.set_address(Address::Constant(start));
                        }
                        for row in sequence.rows {
                            cp.generate_row(row);
                        }
                        if let write::ConvertLineSequenceEnd::Length(length) = sequence.end {
                            cp.end_sequence(length);
                        }
                    } else {
                        let Some(row) = cp.read_row()? else { break };
                        match row {
                            write::ConvertLineRow::SetAddress(a) => cp.set_address(Address::Constant(a)),
                            write::ConvertLineRow::Row(row) => cp.generate_row(row),
                            write::ConvertLineRow::EndSequence(l) => cp.end_sequence(l),
                        }
                    }
                }
                if cp.in_sequence() {
                    return Err(ConvertError::MissingLineEndSequence);
                }
            }
            _ => {
                while let Some(row) = cp.read_row()? {
                    match row {
                        write::ConvertLineRow::SetAddress(a) => cp.set_address(Address::Constant(a)),
                        write::ConvertLineRow::Row(row) => cp.generate_row(row),
                        write::ConvertLineRow::EndSequence(l) => cp.end_sequence(l),
                    }
                }
                if cp.in_sequence() {
                    return Err(ConvertError::MissingLineEndSequence);
                }
            }
        }
        let (program, files) = cp.program();
        unit.set_line_program(program, files);
    }
    let root_id = unit.unit.root();
    convert_attributes(unit, root_id, &root_entry)?;
    if let Some(sr) = skeleton_root {
        convert_attributes(unit, root_id, sr)?;
    }
    let mut entry = root_entry;
    while let Some(id) = unit.read_entry(&mut entry)? {
        if id.is_none() {
            continue;
        }
        let id = unit.add_entry(id, &entry);
        convert_attributes(unit, id, &entry)?;
    }
    if api == Api::StepSeq {
        if let Err(e) = unit.write(sections) {
            return Ok(Err(e));
        }
    }
    Ok(Ok(()))
}

/// Convert all of `secs` and serialise the result.
pub fn convert(secs: &Secs, big: bool, api: Api) -> Result<ConvOut, Panic> {
    mcx::guard(|| {
        let rd = load(secs, big);
        let mut sections = write::Sections::new(EndianVec::new(endian(big)));
        let mut dwarf = match api {
            Api::From => match write::Dwarf::from(&rd, &addr) {
                Ok(d) => d,
                Err(e) => return ConvOut::ConvErr(format!("{:?}", e)),
            },
            _ => {
                let mut dwarf = write::Dwarf::default();
                let r = (|| -> Result<Result<(), write::Error>, ConvertError> {
                    let mut convert = dwarf.convert(&rd)?;
                    while let Some((mut unit, root_entry)) = convert.read_unit()? {
                        if let Err(e) = step_unit(&mut unit, root_entry, api, &mut sections)? {
                            return Ok(Err(e));
                        }
                    }
                    Ok(Ok(()))
                })();
                match r {
                    Ok(Ok(())) => {}
                    Ok(Err(e)) => return ConvOut::WriteErr(format!("{:?}", e)),
                    Err(e) => return ConvOut::ConvErr(format!("{:?}", e)),
                }
                dwarf
            }
        };
        match dwarf.write(&mut sections) {
            Ok(()) => ConvOut::Ok(take(&sections)),
            Err(e) => ConvOut::WriteErr(format!("{:?}", e)),
        }
    })
}

/// Filtered conversion: entries whose DW_AT_name (inline string) is in
/// `required` are marked with `FilterUnit::require_entry`.
pub fn convert_filtered(secs: &Secs, big: bool, required: &[String], stepwise: bool) -> Result<ConvOut, Panic> {
    mcx::guard(|| {
        let rd = load(secs, big);
        let mut sections = write::Sections::new(EndianVec::new(endian(big)));
        let mut dwarf = write::Dwarf::default();
        let r = (|| -> Result<Result<(), write::Error>, ConvertError> {
            let early = EARLY_REQUIRE.with(|e| e.get());
            // first pass (early mode only): offsets of the required entries, per unit
            let mut wanted: Vec<Vec<gimli::UnitOffset>> = vec![];
            if early {
                let mut scout = write::FilterUnitSection::new(&rd)?;
                while let Some(mut unit) = scout.read_unit()? {
                    let mut v = vec![];
                    let mut entry = unit.null_entry();
                    while unit.read_entry(&mut entry)? {
                        if let Some(gimli::read::AttributeValue::String(s)) = entry.attr_value(gimli::DW_AT_name) {
                            if required.iter().any(|r| r.as_bytes() == s.slice()) {
                                v.push(entry.offset);
                            }
                        }
                    }
                    wanted.push(v);
                }
            }
            let mut filter = write::FilterUnitSection::new(&rd)?;
            let mut ui = 0usize;
            while let Some(mut unit) = filter.read_unit()? {
                if early {
                    for off in wanted.get(ui).cloned().unwrap_or_default() {
                        unit.require_entry(off);
                    }
                }
                ui += 1;
                let mut entry = unit.null_entry();
                while unit.read_entry(&mut entry)? {
                    let need = match entry.attr_value(gimli::DW_AT_name) {
                        Some(gimli::read::AttributeValue::String(s)) => required.iter().any(|r| r.as_bytes() == s.slice()),
                        _ => false,
                    };
                    if need && !early {
                        unit.require_entry(entry.offset);
                    }
                }
            }
            let mut convert = dwarf.convert_with_filter(filter)?;
            while let Some((mut unit, root_entry)) = convert.read_unit()? {
                if stepwise {
                    if let Err(e) = step_unit(&mut unit, root_entry, Api::StepSeq, &mut sections)? {
                        return Ok(Err(e));
                    }
                } else {
                    unit.convert(root_entry, &addr)?;
                }
            }
            Ok(Ok(()))
        })();
        match r {
            Ok(Ok(())) => {}
            Ok(Err(e)) => return ConvOut::WriteErr(format!("{:?}", e)),
            Err(e) => return ConvOut::ConvErr(format!("{:?}", e)),
        }
        match dwarf.write(&mut sections) {
            Ok(()) => ConvOut::Ok(take(&sections)),
            Err(e) => ConvOut::WriteErr(format!("{:?}", e)),
        }
    })
}

/// Routes through the split-DWARF conversion.
#[derive(Clone, Copy, Debug, PartialEq, Eq)]
pub enum SplitApi {
    /// `convert_split` + stepwise conversion with `read_row`, written by `Dwarf::write`
    StepRow,
    /// `convert_split` + stepwise conversion with `read_sequence`, written by `ConvertUnit::write`
    StepSeq,
    /// `convert_split` + `ConvertUnit::convert` on the split unit, then the skeleton root's attributes
    Bulk,
}
impl SplitApi {
    pub fn name(self) -> &'static str {
        match self {
            SplitApi::StepRow => "stepwise(read_row)",
            SplitApi::StepSeq => "stepwise(read_sequence)",
            SplitApi::Bulk => "ConvertUnit::convert",
        }
    }
}

fn split_one<'u, 'a>(su: &mut write::ConvertUnit<'u, RD<'a>>, sroot: write::ConvertUnitEntry<'u, RD<'a>>, skeleton_root: &write::ConvertUnitEntry<'_, RD<'a>>, api: SplitApi, sections: &mut write::Sections<EndianVec<RunTimeEndian>>) -> Result<Result<(), write::Error>, ConvertError> {
    match api {
        SplitApi::StepRow => step_unit_with(su, sroot, Some(skeleton_root), Api::StepRow, sections),
        SplitApi::StepSeq => step_unit_with(su, sroot, Some(skeleton_root), Api::StepSeq, sections),
        SplitApi::Bulk => {
            su.convert(sroot, &addr)?;
            let root_id = su.unit.root();
            convert_attributes(su, root_id, skeleton_root)?;
            Ok(Ok(()))
        }
    }
}

fn name_is_required<'a>(unit: gimli::read::UnitRef<'_, RD<'a>>, v: Option<gimli::read::AttributeValue<RD<'a>>>, required: &[String]) -> bool {
    match v.and_then(|v| unit.attr_string(v).ok()) {
        Some(s) => required.iter().any(|r| r.as_bytes() == s.slice()),
        None => false,
    }
}

/// Convert a main file whose units are skeleton units, each with its split full unit in `dwo`
/// (loaded like a consumer loads a .dwo: `Dwarf::load` with the .dwo section names, `make_dwo`).
/// `required`: None = `ConvertUnit::convert_split`; Some(names) = `FilterUnitSection::new_split`,
/// `require_entry` for every entry whose DW_AT_name (any string form) is listed, then
/// `ConvertUnit::convert_split_with_filter`.
pub fn convert_split(main: &Secs, dwo: &Secs, big: bool, api: SplitApi, required: Option<&[String]>) -> Result<ConvOut, Panic> {
    mcx::guard(|| {
        let parent = load(main, big);
        let dwo = load_dwo(dwo, big, &parent);
        let mut sections = write::Sections::new(EndianVec::new(endian(big)));
        let mut dwarf = write::Dwarf::default();
        let r = (|| -> Result<Result<(), write::Error>, ConvertError> {
            let mut convert = dwarf.convert(&parent)?;
            while let Some((mut unit, root_entry)) = convert.read_unit()? {
                if unit.read_unit.dwo_id.is_none() {
                    if let Err(e) = step_unit(&mut unit, root_entry, Api::StepRow, &mut sections)? {
                        return Ok(Err(e));
                    }
                    continue;
                }
                let mut convert_split = match required {
                    None => unit.convert_split(&dwo)?,
                    Some(required) => {
                        let mut filter = write::FilterUnitSection::new_split(&dwo, unit.read_unit)?;
                        while let Some(mut fu) = filter.read_unit()? {
                            let mut entry = fu.null_entry();
                            while fu.read_entry(&mut entry)? {
                                if name_is_required(entry.read_unit, entry.attr_value(gimli::DW_AT_name), required) {
                                    fu.require_entry(entry.offset);
                                }
                            }
                        }
                        unit.convert_split_with_filter(filter)?
                    }
                };
                let (mut su, sroot) = convert_split.read_unit()?;
                if let Err(e) = split_one(&mut su, sroot, &root_entry, api, &mut sections)? {
                    return Ok(Err(e));
                }
            }
            Ok(Ok(()))
        })();
        match r {
            Ok(Ok(())) => {}
            Ok(Err(e)) => return ConvOut::WriteErr(format!("{:?}", e)),
            Err(e) => return ConvOut::ConvErr(format!("{:?}", e)),
        }
        match dwarf.write(&mut sections) {
            Ok(()) => ConvOut::Ok(take(&sections)),
            Err(e) => ConvOut::WriteErr(format!("{:?}", e)),
        }
    })
}

/// `write::FrameTable::from` on one frame section, then serialisation into
/// the same kind of section.
pub fn convert_frame(bytes: &[u8], eh: bool, big: bool, asz: u8) -> Result<Result<Vec<u8>, String>, Panic> {
    mcx::guard(|| {
        let table = if eh {
            let mut s = gimli::read::EhFrame::new(bytes, endian(big));
            s.set_address_size(asz);
            write::FrameTable::from(&s, &addr)
        } else {
            let mut s = gimli::read::DebugFrame::new(bytes, endian(big));
            s.set_address_size(asz);
            write::FrameTable::from(&s, &addr)
        };
        let table = match table {
            Ok(t) => t,
            Err(e) => return Err(format!("convert:{:?}", e)),
        };
        if eh {
            let mut w = write::EhFrame(EndianVec::new(endian(big)));
            match table.write_eh_frame(&mut w) {
                Ok(()) => Ok(w.0.slice().to_vec()),
                Err(e) => Err(format!("write:{:?}", e)),
            }
        } else {
            let mut w = write::DebugFrame(EndianVec::new(endian(big)));
            match table.write_debug_frame(&mut w) {
                Ok(()) => Ok(w.0.slice().to_vec()),
                Err(e) => Err(format!("write:{:?}", e)),
            }
        }
    })
}

/// Class of an error string for outcome histograms ("InvalidUnitRef", "Read(..)" -> "Read").
pub fn err_class(e: &str) -> String {
    let e = e.trim_start_matches("convert:").trim_start_matches("write:");
    let end = e.find(|c: char| !(c.is_alphanumeric() || c == '_')).unwrap_or(e.len());
    let head = &e[..end];
    if head == "Read" || head == "Write" {
        // keep the inner variant name too
        let inner = &e[end..];
        let inner = inner.trim_start_matches('(');
        let iend = inner.find(|c: char| !(c.is_alphanumeric() || c == '_')).unwrap_or(inner.len());
        format!("{}.{}", head, &inner[..iend])
    } else {
        head.to_string()
    }
}

#[allow(unused)]
fn _unused(w: &mut EndianVec<RunTimeEndian>) {
    let _ = w.len();
}
