//! C12 sub-spaces: line programs, range/location lists, expressions, unit kinds, CFI.
use super::c12::{check_dwarf, diff_kind, std_line};
use super::dump;
use super::dw::*;
use super::gen::*;
use super::run::{self, Api, ConvOut};
use mcx::space::{self, Mix};
use mcx::{Ctx, Sub, Tier};

const APIS: [Api; 3] = [Api::From, Api::StepRow, Api::StepSeq];

fn line_unit(cfg: Cfg, lp: LineM, decl_file: Option<AV>) -> Model {
    let mut u = UnitM::new(TAG_COMPILE_UNIT);
    let f = if cfg.version >= 4 {
        FORM_SEC_OFFSET
    } else if cfg.fmt64 {
        FORM_DATA8
    } else {
        FORM_DATA4
    };
    u.dies[0].attrs = vec![at(AT_NAME, AV::Str(FORM_STRING, b"a.c".to_vec())), at(AT_COMP_DIR, AV::Str(FORM_STRING, b"/cwd".to_vec())), at(AT_STMT_LIST, AV::StmtList(f))];
    if let Some(av) = decl_file {
        u.add(0, TAG_VARIABLE, vec![at(AT_NAME, AV::Str(FORM_STRING, b"v".to_vec())), at(AT_DECL_FILE, av)]);
    }
    u.line = Some(lp);
    Model { cfg, units: vec![u] }
}

const NSYM: u64 = 21;

fn line_sym(s: usize, cfg: Cfg, lp: &LineM) -> Option<LI> {
    Some(match s {
        0 => LI::Copy,
        1 => {
            // special opcode: line += 1, operation advance += 1 (DWARF 5 6.2.5.1)
            let adj = (1i64 - lp.line_base as i64) + lp.line_range as i64;
            let op = lp.opcode_base as i64 + adj;
            if !(lp.opcode_base as i64..=255).contains(&op) || (1i64 - lp.line_base as i64) >= lp.line_range as i64 {
                return None;
            }
            LI::Special(op as u8)
        }
        2 => LI::AdvancePc(4),
        3 => LI::AdvancePc(3),
        4 => LI::AdvanceLine(2),
        5 => LI::SetFile(2),
        6 => LI::SetColumn(7),
        7 => LI::NegateStmt,
        8 => LI::SetBasicBlock,
        9 => LI::ConstAddPc,
        10 => LI::FixedAdvancePc(3),
        11 => LI::FixedAdvancePc(4),
        // with opcode_base <= 12 the bytes 10..12 are special opcodes, not these standard ones
        12 | 13 | 14 if lp.opcode_base <= 12 => return None,
        12 => LI::SetPrologueEnd,
        13 => LI::SetEpilogueBegin,
        14 => LI::SetIsa(1),
        15 => LI::SetAddress(0x2000),
        16 => LI::SetAddress(cfg.addr_max()),
        17 => LI::SetDiscriminator(5),
        18 => LI::EndSequence,
        19 => {
            if lp.version >= 5 {
                return None;
            }
            LI::DefineFile(b"c.c".to_vec(), 0, 0, 0)
        }
        20 => LI::UnknownExt(0x80, vec![1, 2]),
        _ => return None,
    })
}

/// Reference walk over the program (DWARF 5 6.2.5): is it well-formed (addresses never
/// decrease inside a sequence, a tombstone address only starts a dead sequence), and which
/// special constructs does it contain?
fn line_props(cfg: Cfg, lp: &LineM, insns: &[LI]) -> (bool, Vec<&'static str>) {
    let mut feats: Vec<&'static str> = vec![];
    let mut addr: u128 = 0;
    let mut op_index: u128 = 0;
    let mut last_row: Option<u128> = None;
    let mut tomb = false;
    let mut advanced = false;
    let mut ok = true;
    let min = lp.min_inst as u128;
    let maxops = lp.max_ops.max(1) as u128;
    for i in insns {
        let advance = |k: u128, addr: &mut u128, op_index: &mut u128| {
            if maxops == 1 {
                *addr += min * k;
            } else {
                *addr += min * ((*op_index + k) / maxops);
                *op_index = (*op_index + k) % maxops;
            }
        };
        let mut row = false;
        match i {
            LI::SetAddress(a) => {
                if *a == cfg.addr_max() {
                    if last_row.is_some() {
                        ok = false;
                    }
                    tomb = true;
                } else {
                    if tomb {
                        ok = false;
                    }
                    // a set_address that is not the first address-affecting event of its sequence
                    if (last_row.is_some() || advanced) && !feats.contains(&"set_address-after-row-or-advance") {
                        feats.push("set_address-after-row-or-advance");
                    }
                    advanced = false;
                    addr = *a as u128;
                    op_index = 0;
                }
            }
            LI::AdvancePc(n) => {
                advance(*n as u128, &mut addr, &mut op_index);
                advanced |= *n != 0;
            }
            LI::Special(op) => {
                if *op >= lp.opcode_base && lp.line_range != 0 {
                    advance(((*op - lp.opcode_base) / lp.line_range) as u128, &mut addr, &mut op_index);
                    advanced |= (*op - lp.opcode_base) / lp.line_range != 0;
                    row = true;
                }
            }
            LI::ConstAddPc => {
                if lp.line_range != 0 {
                    advance(((255 - lp.opcode_base) / lp.line_range) as u128, &mut addr, &mut op_index);
                    advanced |= (255 - lp.opcode_base) / lp.line_range != 0;
                }
            }
            LI::FixedAdvancePc(n) => {
                addr += *n as u128;
                op_index = 0;
                advanced |= *n != 0;
                if min != 0 && (*n as u128) % min != 0 && !feats.contains(&"fixed_advance_pc-not-multiple-of-min_inst_len") {
                    feats.push("fixed_advance_pc-not-multiple-of-min_inst_len");
                }
            }
            LI::Copy => row = true,
            LI::EndSequence => {
                if !tomb {
                    if let Some(p) = last_row {
                        if addr < p {
                            ok = false;
                        }
                    }
                }
                addr = 0;
                op_index = 0;
                last_row = None;
                tomb = false;
                advanced = false;
            }
            _ => {}
        }
        if row && !tomb {
            if let Some(p) = last_row {
                if addr < p {
                    ok = false;
                }
            }
            last_row = Some(addr);
        }
    }
    (ok, feats)
}

fn li_name(i: &LI) -> String {
    format!("{:?}", i)
}

fn sub_line(tier: Tier, rel: bool, len4: bool) -> Sub {
    let quick_rel = rel && tier == Tier::Quick;
    let mut cfgs = vec![];
    for version in if quick_rel { vec![4u16] } else { vec![2u16, 3, 4, 5] } {
        for (fmt64, asz, big) in if len4 { vec![(true, 8u8, false)] } else { tier.pick(vec![(false, 8u8, false)], vec![(false, 8u8, false), (true, 4, true), (false, 4, false), (true, 8, false)]) } {
            cfgs.push(Cfg { version, fmt64, asz, big });
        }
    }
    let (minlen, maxlen) = if len4 { (4u32, 4u32) } else { (0u32, 3u32) };
    let nseq = space::seq_count(NSYM, minlen, maxlen);
    let len = nseq * 2 * 2 * cfgs.len() as u64;
    let bound = format!(
        "every instruction sequence of length {}..={} over a {}-symbol alphabet (copy, special, advance_pc 4/3, advance_line, set_file, set_column, negate_stmt, set_basic_block, const_add_pc, fixed_advance_pc 3/4, set_prologue_end, set_epilogue_begin, set_isa, set_address 0x2000, set_address tombstone, set_discriminator, end_sequence, define_file, unknown extended op) followed by end_sequence = {} programs x optional leading set_address 0x1000 x minimum_instruction_length {{1,4}} x {} configs (DWARF {}{}); {}; {} build flavour",
        minlen,
        maxlen,
        NSYM,
        nseq,
        cfgs.len(),
        if quick_rel { "4" } else { "2-5" },
        if len4 { "; 64-bit LE addr 8" } else { tier.pick("; 32-bit LE addr 8", "; 4 format/address-size/endian combinations") },
        if quick_rel { "through Dwarf::from" } else { "each through Dwarf::from and both stepwise routes" },
        if rel { "release (debug assertions and overflow checks off: silent wrong results instead of panics)" } else { "chk (overflow checks and debug assertions on)" }
    );
    let mut apis: Vec<Api> = if quick_rel { vec![Api::From] } else { APIS.to_vec() };
    if !rel && !len4 {
        // the stepwise API may re-encode the program in another version (4 <-> 5 changes the file
        // and directory numbering); re-encoding in the source's own version is the identity route
        apis.extend_from_slice(&[Api::Reenc(2), Api::Reenc(4), Api::Reenc(5)]);
    }
    Sub::new(if len4 { "line-programs-len4" } else if rel { "line-programs-rel" } else { "line-programs" }, len, &bound, move |ctx, i| {
        let mut x = Mix(i);
        let seq = space::seq_decode(NSYM, minlen, maxlen, x.take(nseq));
        let prefix = x.flag();
        let min_inst = if x.flag() { 4 } else { 1 };
        let cfg = *x.pick(&cfgs);
        let mut lp = std_line(cfg, vec![]);
        lp.min_inst = min_inst;
        let mut insns = vec![];
        if prefix {
            insns.push(LI::SetAddress(0x1000));
        }
        for &s in &seq {
            match line_sym(s, cfg, &lp) {
                Some(i) => insns.push(i),
                None => {
                    ctx.outcome("line:symbol-not-in-version");
                    return;
                }
            }
        }
        insns.push(LI::EndSequence);
        lp.insns = insns.clone();
        let (wf, feats) = line_props(cfg, &lp, &insns);
        if !wf {
            // ill-formed program (address decreases inside a sequence): outside C12's domain
            ctx.outcome("line:ill-formed-program-skipped");
            return;
        }
        // the dominant trigger only (first in priority order), so that one defect keeps one key
        let feat = feats.first().cloned().unwrap_or("").to_string();
        ctx.nontriv(1);
        let m = line_unit(cfg, lp, Some(AV::Data(FORM_DATA1, 2)));
        let b = build(&m);
        let case = || format!("{} min_inst_len={} program=[{}] sections: {}", cfg.name(), min_inst, insns.iter().map(li_name).collect::<Vec<_>>().join(", "), render_secs(&b.secs));
        if ctx.want_sample() {
            ctx.sample(case());
        }
        for f in &feats {
            ctx.outcome(&format!("line:has-{}", f));
        }
        check_dwarf(ctx, &b.secs, cfg.big, &apis, "line", &feat, &case);
    })
    .flavours(if rel { &["rel"] } else { &["chk"] })
}

/// Every interleaving of `read_row` and `read_sequence` calls on one ConvertLineProgram
/// (stateless exploration of the call schedule, deviation = one `read_sequence` call where
/// the default schedule calls `read_row`): the converted program must not depend on it.
fn sub_line_schedules(tier: Tier) -> Sub {
    let cfgs: Vec<Cfg> = tier.pick(vec![Cfg { version: 4, fmt64: false, asz: 8, big: false }], vec![Cfg { version: 2, fmt64: false, asz: 8, big: false }, Cfg { version: 4, fmt64: false, asz: 8, big: false }, Cfg { version: 5, fmt64: true, asz: 4, big: true }]);
    let maxlen = 3u32;
    let nseq = space::seq_count(NSYM, 0, maxlen);
    let len = nseq * 2 * cfgs.len() as u64;
    let bound = format!("every instruction sequence of length 0..={} over the {}-symbol line alphabet followed by end_sequence x optional leading set_address 0x1000 x {} configs; for each program EVERY schedule of read_row / read_sequence calls on the ConvertLineProgram (explored as a tree: the default schedule calls read_row, a branch replaces one later call by read_sequence; up to 12 calls) is converted, written and read back; result (rows, file table, error class) must equal the read_row-only schedule's", maxlen, NSYM, cfgs.len());
    Sub::new("line-call-schedules", len, &bound, move |ctx, i| {
        let mut x = Mix(i);
        let seq = space::seq_decode(NSYM, 0, maxlen, x.take(nseq));
        let prefix = x.flag();
        let cfg = *x.pick(&cfgs);
        let mut lp = std_line(cfg, vec![]);
        let mut insns = vec![];
        if prefix {
            insns.push(LI::SetAddress(0x1000));
        }
        for &s in &seq {
            match line_sym(s, cfg, &lp) {
                Some(i) => insns.push(i),
                None => {
                    ctx.outcome("sched:symbol-not-in-version");
                    return;
                }
            }
        }
        insns.push(LI::EndSequence);
        lp.insns = insns.clone();
        let (wf, _) = line_props(cfg, &lp, &insns);
        if !wf {
            ctx.outcome("sched:ill-formed-program-skipped");
            return;
        }
        let m = line_unit(cfg, lp, Some(AV::Data(FORM_DATA1, 2)));
        let b = build(&m);
        let case = |bits: u64, calls: u32| format!("{} program=[{}] schedule (call k uses read_sequence iff bit k)={:#b} of {} calls sections: {}", cfg.name(), insns.iter().map(li_name).collect::<Vec<_>>().join(", "), bits, calls, render_secs(&b.secs));
        let entry = "ConvertLineProgram_read_row/read_sequence_schedule";
        // observation of one schedule: Ok(dump text) / Err(error class); plus the number of calls made
        let run_one = |ctx: &mut Ctx, bits: u64| -> Option<(Result<String, String>, u32)> {
            ctx.eval(1);
            let out = match run::convert(&b.secs, cfg.big, Api::Sched(bits)) {
                Ok(o) => o,
                Err(p) => {
                    ctx.fail_panic(entry, &p, case(bits, 0));
                    return None;
                }
            };
            let calls = run::SCHED_CALLS.with(|c| c.get());
            let obs = match out {
                ConvOut::Ok(s) => match super::c12::dump_secs(&s, cfg.big) {
                    Ok(Ok(d)) => Ok(d.text()),
                    Ok(Err(e)) => Err(format!("output-not-readable:{}", e)),
                    Err(_) => Err("output-read-panics".to_string()),
                },
                ConvOut::ConvErr(e) => Err(format!("convert-err:{}", run::err_class(&e))),
                ConvOut::WriteErr(e) => Err(format!("write-err:{}", run::err_class(&e))),
            };
            Some((obs, calls))
        };
        let Some((base, base_calls)) = run_one(ctx, 0) else { return };
        ctx.nontriv(1);
        ctx.outcome(if base.is_ok() { "sched:baseline-ok" } else { "sched:baseline-err" });
        if ctx.want_sample() {
            ctx.sample(case(0, base_calls));
        }
        // explore: stack of (prefix bits, prefix length); every later position of a run may deviate
        let mut stack: Vec<(u64, u32, u32)> = vec![(0, 0, base_calls)];
        let mut runs = 1u64;
        while let Some((bits, plen, calls)) = stack.pop() {
            for pos in plen..calls.min(12) {
                let nb = bits | (1u64 << pos);
                let Some((obs, ncalls)) = run_one(ctx, nb) else { continue };
                runs += 1;
                if obs != base {
                    let kind = match (&base, &obs) {
                        (Ok(_), Ok(_)) => "converted-program-depends-on-call-schedule".to_string(),
                        (Ok(_), Err(e)) => format!("schedule-fails:{}", e.split(':').take(2).collect::<Vec<_>>().join(":")),
                        (Err(_), Ok(_)) => "schedule-succeeds-where-read_row-fails".to_string(),
                        (Err(_), Err(_)) => "error-depends-on-call-schedule".to_string(),
                    };
                    let show = |r: &Result<String, String>| match r {
                        Ok(t) => t.lines().filter(|l| l.contains("row") || l.contains("seq")).collect::<Vec<_>>().join(" / "),
                        Err(e) => e.clone(),
                    };
                    ctx.fail(entry, "schedule-independent-result", &kind, format!("{}\n  read_row only : {}\n  this schedule : {}", case(nb, ncalls), show(&base), show(&obs)));
                    return;
                }
                ctx.outcome("sched:agrees");
                stack.push((nb, pos + 1, ncalls));
            }
        }
        ctx.outcome_n("sched:schedules-run", runs);
    })
}

// ---- line header / file table kits

const NHDR: u64 = 25;

fn hdr_kit(k: u64, cfg: Cfg, lp: &mut LineM) -> Option<&'static str> {
    let v5 = lp.version >= 5;
    Some(match k {
        0 => "standard",
        1 => {
            lp.line_base = -5;
            lp.line_range = 3;
            "line_base=-5,line_range=3(no-special-for-line+0)"
        }
        2 => {
            lp.line_base = -5;
            lp.line_range = 200;
            "line_base=-5,line_range=200"
        }
        3 => {
            lp.line_base = -3;
            lp.line_range = 12;
            lp.opcode_base = 10;
            "line_base=-3,line_range=12,opcode_base=10"
        }
        4 => {
            lp.line_base = 0;
            lp.line_range = 1;
            "line_base=0,line_range=1"
        }
        5 => {
            lp.line_base = 1;
            lp.line_range = 4;
            "line_base=1(positive)"
        }
        6 => {
            lp.line_base = -128;
            lp.line_range = 255;
            "line_base=-128,line_range=255"
        }
        7 => {
            lp.line_base = -1;
            lp.line_range = 128;
            "line_base=-1,line_range=128"
        }
        8 => {
            lp.opcode_base = 14;
            "opcode_base=14(one-unknown-standard-opcode)"
        }
        9 if lp.version >= 4 => {
            lp.max_ops = 4;
            "max_ops_per_instruction=4"
        }
        10 => {
            lp.default_is_stmt = false;
            "default_is_stmt=false"
        }
        11 if v5 => {
            lp.path_form = FORM_STRING;
            "v5-paths:string"
        }
        12 if v5 => {
            lp.path_form = FORM_STRP;
            "v5-paths:strp"
        }
        13 if v5 => {
            for (i, f) in lp.files.iter_mut().enumerate() {
                f.md5 = Some([i as u8 + 1; 16]);
            }
            lp.files[1].md5 = lp.files[0].md5;
            "v5-md5"
        }
        14 if v5 => {
            lp.files.remove(1);
            "v5-no-duplicate-file(2-files)"
        }
        15 => {
            for f in lp.files.iter_mut() {
                f.mtime = 11;
                f.size = 22;
            }
            "timestamps-and-sizes"
        }
        16 if !v5 => {
            lp.dirs.clear();
            for f in lp.files.iter_mut() {
                f.dir = 0;
            }
            "no-include-directories"
        }
        17 if !v5 => {
            lp.dirs = vec![b"/cwd".to_vec(), b"inc".to_vec()];
            lp.files[1].dir = 2;
            "include-dir-equal-to-comp-dir"
        }
        18 => {
            let d = if v5 { 1 } else { 1 };
            lp.files.push(FileM { name: b"b.h".to_vec(), dir: d, mtime: lp.files.last().unwrap().mtime, size: lp.files.last().unwrap().size, md5: None });
            "duplicate-last-file"
        }
        19 => {
            lp.min_inst = 4;
            "min_inst_len=4"
        }
        20 if v5 => {
            lp.dirs.push(b"inc".to_vec());
            lp.files[2].dir = 2;
            "v5-duplicate-directory"
        }
        21 => {
            lp.files[0].name = b"sub/a.c".to_vec();
            "file-with-subdir-in-name"
        }
        22 if cfg.version >= 5 => {
            *lp = std_line(Cfg { version: 4, ..cfg }, vec![]);
            "line-v4-in-unit-v5"
        }
        23 if cfg.version == 4 => {
            *lp = std_line(Cfg { version: 5, ..cfg }, vec![]);
            "line-v5-in-unit-v4"
        }
        24 if cfg.version == 4 => {
            *lp = std_line(Cfg { version: 2, ..cfg }, vec![]);
            "line-v2-in-unit-v4"
        }
        _ => return None,
    })
}

fn sub_line_hdr(tier: Tier) -> Sub {
    let mut cfgs = vec![];
    for version in [2u16, 3, 4, 5] {
        for (fmt64, asz, big) in tier.pick(vec![(false, 8u8, false), (true, 4u8, true)], vec![(false, 8u8, false), (true, 4, true), (false, 4, false), (true, 8, false), (false, 8, true)]) {
            cfgs.push(Cfg { version, fmt64, asz, big });
        }
    }
    let maxlen = tier.pick(1u32, 2u32);
    let nseq = space::seq_count(NSYM, 0, maxlen);
    let len = NHDR * nseq * 3 * cfgs.len() as u64;
    let bound = format!("{} line header / file table kits (line_base/line_range incl. values failing `line_base + line_range as i8 > 0`, positive line_base, opcode_base 10/14, max_ops 4, path forms string/strp/line_strp, MD5, timestamps, duplicate files/directories, include dir equal to comp dir) x every program of length 0..={} over the {}-symbol alphabet (+ set_address prefix, + end_sequence; programs with a mid-sequence set_address are left to `line-programs`) x DW_AT_decl_file form {{data1, udata, implicit_const(v5)}} x {} configs", NHDR, maxlen, NSYM, cfgs.len());
    Sub::new("line-headers", len, &bound, move |ctx, i| {
        let mut x = Mix(i);
        let k = x.take(NHDR);
        let seq = space::seq_decode(NSYM, 0, maxlen, x.take(nseq));
        let df = x.take(3);
        let cfg = *x.pick(&cfgs);
        let mut lp = std_line(cfg, vec![]);
        let Some(kit) = hdr_kit(k, cfg, &mut lp) else {
            ctx.outcome("linehdr:kit-not-in-version");
            return;
        };
        let mut insns = vec![LI::SetAddress(0x1000)];
        for &s in &seq {
            match line_sym(s, cfg, &lp) {
                Some(i) => insns.push(i),
                None => {
                    ctx.outcome("linehdr:symbol-not-available");
                    return;
                }
            }
        }
        insns.push(LI::EndSequence);
        lp.insns = insns.clone();
        let (wf, mut feats) = line_props(cfg, &lp, &insns);
        if !wf {
            ctx.outcome("linehdr:ill-formed-program-skipped");
            return;
        }
        if feats.contains(&"set_address-after-row-or-advance") {
            // mid-sequence set_address is explored by `line-programs`; its recorded defect (C12-C) would
            // only multiply keys here
            ctx.outcome("linehdr:program-with-mid-sequence-set_address-left-to-line-programs");
            return;
        }
        if k != 0 && feats.is_empty() {
            feats.push(kit);
        } else if df == 2 && feats.is_empty() {
            feats.push("decl_file:implicit_const");
        }
        let feat = feats.first().cloned().unwrap_or("").to_string();
        let decl = match df {
            0 => AV::Data(FORM_DATA1, 2),
            1 => AV::Data(FORM_UDATA, 1),
            _ => {
                if cfg.version < 5 {
                    ctx.outcome("linehdr:kit-not-in-version");
                    return;
                }
                AV::Implicit(1)
            }
        };
        ctx.nontriv(1);
        let m = line_unit(cfg, lp, Some(decl.clone()));
        let b = build(&m);
        let case = || format!("{} header-kit={} decl_file={:?} program=[{}] sections: {}", cfg.name(), kit, decl, insns.iter().map(li_name).collect::<Vec<_>>().join(", "), render_secs(&b.secs));
        if ctx.want_sample() {
            ctx.sample(case());
        }
        ctx.outcome(&format!("linehdr-kit:{}", kit));
        check_dwarf(ctx, &b.secs, cfg.big, &APIS, "linehdr", &feat, &case);
    })
    .flavours(tier.pick(&["chk"], &["chk", "rel"]))
}

// ---- register transitions: every row is (one register change; copy), so that every register moves
// up, down and back to its default between consecutive rows

const NREG: u64 = 17;

fn reg_sym(s: u64, lp: &LineM) -> Option<Vec<LI>> {
    let chg = match s {
        0 => vec![],
        1 => vec![LI::SetColumn(7)],
        2 => vec![LI::SetColumn(3)],
        3 => vec![LI::SetColumn(0)],
        4 => vec![LI::SetFile(2)],
        5 => vec![LI::SetFile(1)],
        6 => vec![LI::AdvanceLine(3)],
        7 => vec![LI::AdvanceLine(-2)],
        8 => vec![LI::AdvanceLine(40)],
        9 => vec![LI::NegateStmt],
        10 => vec![LI::SetIsa(2)],
        11 => vec![LI::SetIsa(0)],
        12 => vec![LI::SetDiscriminator(9)],
        13 => vec![LI::SetBasicBlock],
        14 => vec![LI::SetPrologueEnd, LI::SetEpilogueBegin],
        15 => vec![LI::AdvancePc(1)],
        _ => vec![LI::AdvancePc(300)],
    };
    let _ = lp;
    let mut v = chg;
    v.push(LI::Copy);
    Some(v)
}

fn sub_line_regs(tier: Tier) -> Sub {
    let mut cfgs = vec![];
    for version in [2u16, 3, 4, 5] {
        for (fmt64, asz, big) in tier.pick(vec![(false, 8u8, false)], vec![(false, 8u8, false), (true, 4, true)]) {
            cfgs.push(Cfg { version, fmt64, asz, big });
        }
    }
    let maxlen = tier.pick(3u32, 4u32);
    let nseq = space::seq_count(NREG, 1, maxlen);
    let len = nseq * 2 * cfgs.len() as u64;
    let bound = format!("line register transitions: every sequence of 1..={} rows, each row = (one register change; copy) over {} changes (none, set_column 7/3/0, set_file 2/1, advance_line +3/-2/+40, negate_stmt, set_isa 2/0, set_discriminator, set_basic_block, prologue_end+epilogue_begin, advance_pc 1/300) after set_address 0x1000, closed by advance_pc 2; end_sequence = {} programs x minimum_instruction_length {{1,4}} x {} configs", maxlen, NREG, nseq, cfgs.len());
    Sub::new("line-register-transitions", len, &bound, move |ctx, i| {
        let mut x = Mix(i);
        let seq = space::seq_decode(NREG, 1, maxlen, x.take(nseq));
        let min_inst = if x.flag() { 4 } else { 1 };
        let cfg = *x.pick(&cfgs);
        let mut lp = std_line(cfg, vec![]);
        lp.min_inst = min_inst;
        let mut insns = vec![LI::SetAddress(0x1000)];
        for &s in &seq {
            insns.extend(reg_sym(s as u64, &lp).unwrap());
        }
        insns.push(LI::AdvancePc(2));
        insns.push(LI::EndSequence);
        lp.insns = insns.clone();
        ctx.nontriv(1);
        let m = line_unit(cfg, lp, None);
        let b = build(&m);
        let case = || format!("{} min_inst_len={} program=[{}] sections: {}", cfg.name(), min_inst, insns.iter().map(li_name).collect::<Vec<_>>().join(", "), render_secs(&b.secs));
        if ctx.want_sample() {
            ctx.sample(case());
        }
        check_dwarf(ctx, &b.secs, cfg.big, &[Api::From, Api::StepSeq], "linereg", "", &case);
    })
}

// ---------------------------------------------------------------------------
// Range and location lists of every kind, length <= 2

fn rle_alphabet(cfg: Cfg) -> Vec<Rle> {
    if cfg.version >= 5 {
        vec![
            Rle::BaseAddressx(1),
            Rle::StartxEndx(0, 1),
            Rle::StartxLength(0, 8),
            Rle::StartxLength(0, 0),
            Rle::OffsetPair(0x10, 0x20),
            Rle::OffsetPair(0x30, 0x30),
            Rle::BaseAddress(0x5000),
            Rle::BaseAddress(cfg.addr_max()),
            Rle::StartEnd(0x6000, 0x6010),
            Rle::StartEnd(0x6000, 0x6000),
            Rle::StartLength(0x7000, 4),
            Rle::StartLength(cfg.addr_max() - 1, 1),
        ]
    } else {
        vec![Rle::Pair(0x10, 0x20), Rle::Pair(0x30, 0x30), Rle::Base(0x5000), Rle::Base(0), Rle::Pair(0x40, 0x30), Rle::Pair(cfg.addr_max() - 1, cfg.addr_max() - 1), Rle::Base(cfg.addr_max())]
    }
}

fn to_lle(r: &Rle, x: Vec<Op>) -> Lle {
    match r.clone() {
        Rle::Pair(a, b) => Lle::Pair(a, b, x),
        Rle::Base(a) => Lle::Base(a),
        Rle::BaseAddressx(i) => Lle::BaseAddressx(i),
        Rle::StartxEndx(a, b) => Lle::StartxEndx(a, b, x),
        Rle::StartxLength(a, l) => Lle::StartxLength(a, l, x),
        Rle::OffsetPair(a, b) => Lle::OffsetPair(a, b, x),
        Rle::BaseAddress(a) => Lle::BaseAddress(a),
        Rle::StartEnd(a, b) => Lle::StartEnd(a, b, x),
        Rle::StartLength(a, l) => Lle::StartLength(a, l, x),
    }
}

fn sub_lists(tier: Tier) -> Sub {
    let mut cfgs = vec![];
    for version in [2u16, 3, 4, 5] {
        for (fmt64, asz, big) in tier.pick(vec![(false, 8u8, false), (true, 4u8, true)], vec![(false, 8u8, false), (true, 4, true), (false, 4, false), (true, 8, true)]) {
            cfgs.push(Cfg { version, fmt64, asz, big });
        }
    }
    // the alphabet size depends on the version: index the larger one and skip the rest
    let na = 13u64; // 12 range kinds + default_location for location lists
    let maxlen = tier.pick(2u32, 3u32);
    let nseq = space::seq_count(na, 0, maxlen);
    let len = nseq * 2 * 3 * 2 * cfgs.len() as u64;
    let bound = format!("range lists and location lists: every list of length 0..={} over the entry alphabet of the unit's version (v<=4: pair, empty pair, base selection 0x5000 / 0 / all-ones, inverted pair, pair at all-ones-1; v5: base_addressx, startx_endx, startx_length (+empty), offset_pair (+empty), base_address (+tombstone), start_end (+empty), start_length (+wrapping), default_location for location lists) = {} index values x list kind {{range, location}} x unit DW_AT_low_pc {{absent, 0, 0x4000}} x carrier {{section offset, rnglistx/loclistx (v5)}} x {} configs", maxlen, nseq, cfgs.len());
    Sub::new("lists", len, &bound, move |ctx, i| {
        let mut x = Mix(i);
        let seq = space::seq_decode(na, 0, maxlen, x.take(nseq));
        let is_loc = x.flag();
        let lowpc = x.take(3);
        let indexed = x.flag();
        let cfg = *x.pick(&cfgs);
        let alpha = rle_alphabet(cfg);
        if indexed && cfg.version < 5 {
            ctx.outcome("lists:not-in-version");
            return;
        }
        let secoff = if cfg.version >= 4 {
            FORM_SEC_OFFSET
        } else if cfg.fmt64 {
            FORM_DATA8
        } else {
            FORM_DATA4
        };
        let mut u = UnitM::new(TAG_COMPILE_UNIT);
        u.dies[0].attrs.push(at(AT_NAME, AV::Str(FORM_STRING, b"u".to_vec())));
        match lowpc {
            1 => u.dies[0].attrs.push(at(AT_LOW_PC, AV::Addr(0))),
            2 => u.dies[0].attrs.push(at(AT_LOW_PC, AV::Addr(0x4000))),
            _ => {}
        }
        u.addrs = vec![0x8000, 0x8010];
        if cfg.version >= 5 {
            u.dies[0].attrs.push(at(AT_ADDR_BASE, AV::AddrBase));
        }
        let mut rl = vec![];
        let mut ll = vec![];
        for (j, &s) in seq.iter().enumerate() {
            let expr = vec![Op::Reg(j as u8 + 1)];
            if s == 12 {
                if !is_loc || cfg.version < 5 {
                    ctx.outcome("lists:not-in-version");
                    return;
                }
                ll.push(Lle::DefaultLocation(expr));
                continue;
            }
            let Some(r) = alpha.get(s) else {
                ctx.outcome("lists:not-in-version");
                return;
            };
            rl.push(r.clone());
            ll.push(to_lle(r, expr));
        }
        if is_loc {
            u.loclists.push(vec![Lle::clone(&if cfg.version >= 5 { Lle::StartEnd(0x10, 0x11, vec![Op::Reg(9)]) } else { Lle::Pair(0x10, 0x11, vec![Op::Reg(9)]) })]);
            u.loclists.push(ll.clone());
            if indexed {
                u.dies[0].attrs.push(at(AT_LOCLISTS_BASE, AV::LoclistsBase));
            }
            u.add(0, TAG_VARIABLE, vec![at(AT_NAME, AV::Str(FORM_STRING, b"v".to_vec())), at(AT_LOCATION, AV::Locs(if indexed { FORM_LOCLISTX } else { secoff }, 1))]);
        } else {
            u.rnglists.push(vec![if cfg.version >= 5 { Rle::StartEnd(0x10, 0x11) } else { Rle::Pair(0x10, 0x11) }]);
            u.rnglists.push(rl.clone());
            if indexed {
                u.dies[0].attrs.push(at(AT_RNGLISTS_BASE, AV::RnglistsBase));
            }
            u.add(0, TAG_SUBPROGRAM, vec![at(AT_NAME, AV::Str(FORM_STRING, b"f".to_vec())), at(AT_RANGES, AV::Ranges(if indexed { FORM_RNGLISTX } else { secoff }, 1))]);
        }
        ctx.nontriv(1);
        let m = Model { cfg, units: vec![u] };
        let b = build(&m);
        let case = || format!("{} {} list {:?} unit low_pc={} carrier={} sections: {}", cfg.name(), if is_loc { "location" } else { "range" }, if is_loc { format!("{:?}", ll) } else { format!("{:?}", rl) }, ["absent", "0", "0x4000"][lowpc as usize], if indexed { "listx" } else { "sec_offset" }, render_secs(&b.secs));
        if ctx.want_sample() {
            ctx.sample(case());
        }
        check_dwarf(ctx, &b.secs, cfg.big, &[Api::From, Api::StepSeq], "lists", "", &case);
    })
}

// ---------------------------------------------------------------------------
// Expressions with branches and entry references

const NOPS: u64 = 40;

fn expr_sym(s: u64, cfg: Cfg, n: usize, me: usize) -> Option<Op> {
    // dies: 0 root, 1 base_type "bt", 2 variable "v1" (carries the expression), 3 variable "v2"; unit 1: 1 base_type
    let _ = me;
    let v5 = cfg.version >= 5;
    Some(match s {
        0 => Op::Lit(5),
        1 => Op::Const1u(200),
        2 => Op::Const2s(-300),
        3 => Op::Constu(1000),
        4 => Op::Consts(-5),
        5 => Op::Addr(0x1234),
        6 if v5 => Op::Addrx(1),
        7 if v5 => Op::Constx(0),
        8 => Op::Reg(3),
        9 => Op::Regx(40),
        10 => Op::Breg(2, -4),
        11 => Op::Bregx(40, 8),
        12 => Op::Fbreg(-16),
        13 => Op::Simple(OP_DUP),
        14 => Op::Pick(3),
        15 => Op::Simple(OP_DEREF),
        16 => Op::DerefSize(2),
        17 => Op::DerefSize(cfg.asz),
        18 => Op::PlusUconst(9),
        19 => Op::Simple(OP_PLUS),
        20 => Op::Bra(Br::ToOp(n)),
        21 => Op::Bra(Br::ToOp(0)),
        22 => Op::Skip(Br::ToOp(n.saturating_sub(1))),
        23 => Op::Skip(Br::Raw(1)),
        24 => Op::Call2(T::Die(0, 3)),
        25 => Op::Call4(T::Die(0, 1)),
        26 => Op::CallRef(T::Die(1, 1)),
        27 => Op::ConstType(T::Die(0, 1), vec![1, 2, 3, 4]),
        28 => Op::RegvalType(5, T::Die(0, 1)),
        29 => Op::DerefType(4, T::Die(0, 1)),
        30 => Op::Convert(None),
        31 => Op::Convert(Some(T::Die(0, 1))),
        32 => Op::Piece(4),
        33 => Op::BitPiece(3, 1),
        34 => Op::ImplicitValue(vec![0xaa, 0xbb]),
        35 => Op::Simple(OP_STACK_VALUE),
        36 => Op::ImplicitPointer(T::Die(0, 3), 2),
        37 => Op::EntryValue(vec![Op::Reg(5)]),
        38 => Op::ParameterRef(T::Die(0, 3)),
        39 => Op::Simple(OP_CALL_FRAME_CFA),
        _ => return None,
    })
}

fn sub_expr(tier: Tier) -> Sub {
    let mut cfgs = vec![];
    for version in tier.pick(vec![3u16, 4, 5], vec![2u16, 3, 4, 5]) {
        for (fmt64, asz, big) in tier.pick(vec![(false, 8u8, false), (true, 4u8, true)], vec![(false, 8u8, false), (true, 4, true), (false, 4, false), (true, 8, false)]) {
            cfgs.push(Cfg { version, fmt64, asz, big });
        }
    }
    let maxlen = tier.pick(2u32, 3u32);
    let nseq = space::seq_count(NOPS, 1, maxlen);
    let len = nseq * 2 * cfgs.len() as u64;
    let bound = format!("every expression of length 1..={} over a {}-operation alphabet (literals/constants of several encodings, addr/addrx/constx, reg/regx/breg/bregx/fbreg, dup/pick/deref/deref_size, plus_uconst/plus, bra/skip to the end / the start / the last operation / inside an operation, call2/call4/call_ref, const_type/regval_type/deref_type/convert with base-type references, piece/bit_piece, implicit_value/stack_value/implicit_pointer, entry_value, GNU_parameter_ref, call_frame_cfa) = {} expressions x carrier {{DW_AT_location exprloc, location-list entry}} x {} configs", maxlen, NOPS, nseq, cfgs.len());
    Sub::new("expressions", len, &bound, move |ctx, i| {
        let mut x = Mix(i);
        let seq = space::seq_decode(NOPS, 1, maxlen, x.take(nseq));
        let in_list = x.flag();
        let cfg = *x.pick(&cfgs);
        let mut ops = vec![];
        for (j, &s) in seq.iter().enumerate() {
            match expr_sym(s as u64, cfg, seq.len(), j) {
                Some(o) => ops.push(o),
                None => {
                    ctx.outcome("expr:op-not-in-version");
                    return;
                }
            }
        }
        run_expr_case(ctx, cfg, ops, in_list, "expr");
    })
}

/// One expression hosted in DW_AT_location (exprloc/block) or in a location-list entry of a
/// two-unit input, pushed through the conversion routes.
fn run_expr_case(ctx: &mut Ctx, cfg: Cfg, ops: Vec<Op>, in_list: bool, tag: &str) {
    let exprform = if cfg.version >= 4 { FORM_EXPRLOC } else { FORM_BLOCK1 };
    let secoff = if cfg.version >= 4 {
        FORM_SEC_OFFSET
    } else if cfg.fmt64 {
        FORM_DATA8
    } else {
        FORM_DATA4
    };
    let mut u = UnitM::new(TAG_COMPILE_UNIT);
    u.dies[0].attrs.push(at(AT_NAME, AV::Str(FORM_STRING, b"u".to_vec())));
    u.addrs = vec![0x8000, 0x8010];
    if cfg.version >= 5 {
        u.dies[0].attrs.push(at(AT_ADDR_BASE, AV::AddrBase));
    }
    u.add(0, TAG_BASE_TYPE, vec![at(AT_NAME, AV::Str(FORM_STRING, b"bt".to_vec())), at(AT_BYTE_SIZE, AV::Data(FORM_DATA1, 4))]);
    let loc = if in_list {
        u.loclists.push(vec![if cfg.version >= 5 { Lle::StartEnd(0x1000, 0x1010, ops.clone()) } else { Lle::Pair(0x1000, 0x1010, ops.clone()) }]);
        AV::Locs(secoff, 0)
    } else {
        AV::Expr(exprform, ops.clone())
    };
    u.add(0, TAG_VARIABLE, vec![at(AT_NAME, AV::Str(FORM_STRING, b"v1".to_vec())), at(AT_LOCATION, loc)]);
    u.add(0, TAG_VARIABLE, vec![at(AT_NAME, AV::Str(FORM_STRING, b"v2".to_vec())), at(AT_LOCATION, AV::Expr(exprform, vec![Op::Reg(1)]))]);
    let mut u2 = UnitM::new(TAG_COMPILE_UNIT);
    u2.add(0, TAG_BASE_TYPE, vec![at(AT_NAME, AV::Str(FORM_STRING, b"x1".to_vec()))]);
    ctx.nontriv(1);
    let m = Model { cfg, units: vec![u, u2] };
    let b = build(&m);
    let case = || format!("{} expression {:?} in {} sections: {}", cfg.name(), ops, if in_list { "a location-list entry" } else { "DW_AT_location" }, render_secs(&b.secs));
    if ctx.want_sample() {
        ctx.sample(case());
    }
    check_dwarf(ctx, &b.secs, cfg.big, &[Api::From, Api::StepSeq], tag, "", &case);
}


// ---------------------------------------------------------------------------
// Unit kinds

fn sub_unit_kinds(_tier: Tier) -> Sub {
    let cfgs: Vec<Cfg> = super::c12::cfgs_all();
    let len = 4 * cfgs.len() as u64;
    Sub::new("unit-kinds", len, "unit header type / root tag: {compile_unit, partial_unit (DW_UT_partial in v5), type unit in .debug_info (v5), two compile units} x 32 configs, each with one child entry", move |ctx, i| {
        let mut x = Mix(i);
        let k = x.take(4);
        let cfg = *x.pick(&cfgs);
        let mut u = UnitM::new(TAG_COMPILE_UNIT);
        u.dies[0].attrs.push(at(AT_NAME, AV::Str(FORM_STRING, b"u".to_vec())));
        u.add(0, TAG_STRUCTURE_TYPE, vec![at(AT_NAME, AV::Str(FORM_STRING, b"s".to_vec()))]);
        let mut units = vec![];
        let kind = match k {
            0 => "compile",
            1 => {
                u.dies[0].tag = TAG_PARTIAL_UNIT;
                u.kind = UnitKind::Partial;
                "partial"
            }
            2 => {
                if cfg.version < 5 {
                    ctx.outcome("unitkind:not-in-version");
                    return;
                }
                u.dies[0].tag = TAG_TYPE_UNIT;
                u.kind = UnitKind::Type { signature: 0x0102_0304_0506_0708, type_die: 1 };
                "type"
            }
            _ => {
                let mut u0 = UnitM::new(TAG_COMPILE_UNIT);
                u0.dies[0].attrs.push(at(AT_NAME, AV::Str(FORM_STRP, b"first".to_vec())));
                units.push(u0);
                "two-compile-units"
            }
        };
        units.push(u);
        ctx.nontriv(1);
        let m = Model { cfg, units };
        let b = build(&m);
        let case = || format!("{} unit kind {} sections: {}", cfg.name(), kind, render_secs(&b.secs));
        if ctx.want_sample() {
            ctx.sample(case());
        }
        ctx.outcome(&format!("unitkind:{}", kind));
        check_dwarf(ctx, &b.secs, cfg.big, &APIS, "unitkind", kind, &case);
    })
}

// ---------------------------------------------------------------------------
// CFI

const NCFA: u64 = 29;

fn cfa_sym(s: u64, cfg: Cfg) -> Cfa {
    match s {
        0 => Cfa::AdvanceLoc(1),
        1 => Cfa::AdvanceLoc1(0x80),
        2 => Cfa::AdvanceLoc2(0x300),
        3 => Cfa::AdvanceLoc4(0x4000_0000),
        4 => Cfa::DefCfa(7, 16),
        5 => Cfa::DefCfa(7, 0x1_0000_0008),
        6 => Cfa::DefCfaSf(7, -2),
        7 => Cfa::DefCfaRegister(6),
        8 => Cfa::DefCfaOffset(24),
        9 => Cfa::DefCfaOffsetSf(3),
        10 => Cfa::Offset(3, 2),
        11 => Cfa::OffsetExtended(70, 3),
        12 => Cfa::OffsetExtendedSf(3, -1),
        13 => Cfa::ValOffset(4, 1),
        14 => Cfa::ValOffsetSf(4, -1),
        15 => Cfa::Undefined(5),
        16 => Cfa::SameValue(5),
        17 => Cfa::Register(8, 9),
        18 => Cfa::RememberState,
        19 => Cfa::RestoreState,
        20 => Cfa::Restore(16),
        21 => Cfa::RestoreExtended(70),
        22 => Cfa::DefCfaExpression(vec![Op::Breg(7, 8)]),
        23 => Cfa::Expression(3, vec![Op::Breg(7, 0), Op::Simple(OP_DEREF)]),
        24 => Cfa::ValExpression(3, vec![Op::Lit(4)]),
        25 => Cfa::GnuArgsSize(16),
        26 => Cfa::Nop,
        27 => Cfa::SetLoc(0x1080),
        _ => {
            let _ = cfg;
            Cfa::DefCfaOffset(0x8000_0000)
        }
    }
}

fn frame_dump(ctx: &mut Ctx, bytes: &[u8], eh: bool, cfg: Cfg) -> Option<Result<Vec<String>, String>> {
    match mcx::guard(|| dump::dump_frame(bytes, eh, cfg.big, cfg.asz)) {
        Ok(r) => Some(r),
        Err(p) => {
            if ctx.verbose {
                ctx.log(&format!("reader panicked: {:?}", p));
            }
            None
        }
    }
}

pub fn check_frame(ctx: &mut Ctx, m: &FrameM, tag: &str, feat: &str, case: &dyn Fn() -> String) {
    let cfg = m.cfg;
    let fk = |k: &str| if feat.is_empty() { k.to_string() } else { format!("{}[{}]", k, feat) };
    let bytes = build_frame(m);
    let entry = if m.eh { "write::FrameTable::from(eh_frame)" } else { "write::FrameTable::from(debug_frame)" };
    let din = match frame_dump(ctx, &bytes, m.eh, cfg) {
        Some(Ok(d)) if !d.iter().any(|l| l.contains("ERR")) => d,
        Some(Ok(d)) => {
            ctx.outcome(&format!("{}:input-rows-not-computable", tag));
            if ctx.verbose {
                ctx.log(&format!("input rows not computable:\n{}", d.join("\n")));
            }
            // The reader itself cannot evaluate the rows of this input (e.g. restore_state on an
            // empty stack): outside the property's domain, but conversion must still not panic.
            if let Err(p) = run::convert_frame(&bytes, m.eh, cfg.big, cfg.asz) {
                ctx.fail_panic(entry, &p, case());
            }
            return;
        }
        Some(Err(e)) => {
            ctx.outcome(&format!("{}:input-not-readable", tag));
            if ctx.verbose {
                ctx.log(&format!("input not readable: {}", e));
            }
            if let Err(p) = run::convert_frame(&bytes, m.eh, cfg.big, cfg.asz) {
                ctx.fail_panic(entry, &p, case());
            }
            return;
        }
        None => {
            ctx.outcome(&format!("{}:input-dump-panic", tag));
            return;
        }
    };
    let tin = din.join("\n");
    if ctx.verbose {
        ctx.log(&format!("INPUT {}\nINPUT DUMP\n{}", case(), tin));
    }
    ctx.eval(1);
    let out = match run::convert_frame(&bytes, m.eh, cfg.big, cfg.asz) {
        Ok(o) => o,
        Err(p) => {
            ctx.outcome(&format!("{}:panic", tag));
            ctx.fail_panic(entry, &p, case());
            return;
        }
    };
    let obytes = match out {
        Ok(b) => b,
        Err(e) => {
            ctx.outcome(&format!("{}:err:{}", tag, run::err_class(&e)));
            if ctx.verbose {
                ctx.log(&format!("conversion/write error: {}", e));
            }
            return;
        }
    };
    ctx.outcome(&format!("{}:ok", tag));
    let dout = match frame_dump(ctx, &obytes, m.eh, cfg) {
        Some(Ok(d)) => d,
        Some(Err(e)) => {
            ctx.fail(entry, "output-readable", &fk("output-not-readable"), format!("{}\n  reading the converted output failed: {}\n  output: {}", case(), e, mcx::hex(&obytes)));
            return;
        }
        None => {
            ctx.fail(entry, "output-readable", "output-read-panics", format!("{}\n  output: {}", case(), mcx::hex(&obytes)));
            return;
        }
    };
    let tout = dout.join("\n");
    if ctx.verbose {
        ctx.log(&format!("OUTPUT {}\nOUTPUT DUMP\n{}", mcx::hex(&obytes), tout));
    }
    if tin != tout {
        let la: Vec<&str> = tin.lines().collect();
        let lb: Vec<&str> = tout.lines().collect();
        let mut kind = "unwind-dump-differs".to_string();
        let mut d = String::new();
        for i in 0..la.len().max(lb.len()) {
            let a = la.get(i).cloned().unwrap_or("<missing>");
            let b = lb.get(i).cloned().unwrap_or("<missing>");
            if a != b {
                kind = if a.starts_with("fde") && b.starts_with("fde") {
                    "fde-parameters-differ"
                } else if a.trim_start().starts_with("row") && b.trim_start().starts_with("row") {
                    let addr = |s: &str| s.trim_start().split(' ').nth(1).unwrap_or("").to_string();
                    if addr(a) != addr(b) {
                        "unwind-row-addresses-differ"
                    } else {
                        "unwind-row-rules-differ"
                    }
                } else {
                    "unwind-row-count-differs"
                }
                .to_string();
                d = format!("first difference at dump line {}:\n   input : {}\n   output: {}", i, a, b);
                break;
            }
        }
        ctx.fail(entry, "semantic-dump-equal", &fk(&kind), format!("{}\n  {}\n  output: {}", case(), d, mcx::hex(&obytes)));
        return;
    }
    ctx.eval(1);
    match run::convert_frame(&obytes, m.eh, cfg.big, cfg.asz) {
        Err(p) => ctx.fail_panic(&format!("{}(second)", entry), &p, format!("second conversion of the output of {}", case())),
        Ok(Ok(b2)) => {
            if b2 != obytes {
                ctx.fail(entry, "reconvert-reproduces", &fk("second-conversion-bytes-differ"), format!("{}\n  first output : {}\n  second output: {}", case(), mcx::hex(&obytes), mcx::hex(&b2)));
            } else {
                ctx.outcome(&format!("{}:reconvert-identical", tag));
            }
        }
        Ok(Err(e)) => ctx.fail(entry, "reconvert-reproduces", &format!("second-conversion-error-{}", run::err_class(&e)), format!("{}\n  output {} converts with error {}", case(), mcx::hex(&obytes), e)),
    }
    let _ = diff_kind;
}

fn sub_cfi(tier: Tier, rel: bool, interleaved: bool) -> Sub {
    let quick_rel = rel && tier == Tier::Quick;
    // (eh, version)
    let kinds: Vec<(bool, u8)> = vec![(false, 1), (false, 3), (false, 4), (true, 1)];
    let cafs: Vec<u64> = if interleaved { vec![1, 4] } else { vec![1, 4, 255, 256] };
    let dafs: Vec<i64> = if interleaved { vec![-8] } else { vec![-8, 1, 0] };
    let cfgs: Vec<Cfg> = tier.pick(
        if quick_rel { vec![Cfg { version: 4, fmt64: false, asz: 8, big: false }] } else { vec![Cfg { version: 4, fmt64: false, asz: 8, big: false }, Cfg { version: 4, fmt64: false, asz: 4, big: true }] },
        vec![Cfg { version: 4, fmt64: false, asz: 8, big: false }, Cfg { version: 4, fmt64: false, asz: 4, big: true }, Cfg { version: 4, fmt64: true, asz: 8, big: false }, Cfg { version: 4, fmt64: false, asz: 4, big: false }],
    );
    let maxlen = if interleaved { tier.pick(3u32, 4u32) } else { tier.pick(2u32, 3u32) };
    let cfgs: Vec<Cfg> = if interleaved { cfgs[..1].to_vec() } else { cfgs };
    let nseq = space::seq_count(NCFA, 0, maxlen);
    let len = nseq * kinds.len() as u64 * cafs.len() as u64 * dafs.len() as u64 * cfgs.len() as u64;
    let bound = format!("every FDE instruction sequence of length 0..={} over a {}-instruction alphabet (advance_loc/1/2/4 incl. delta 0x40000000, def_cfa with offsets 16 and 2^32+8, def_cfa_sf, def_cfa_register, def_cfa_offset 24 / 2^31, def_cfa_offset_sf, offset, offset_extended, offset_extended_sf, val_offset(_sf), undefined, same_value, register, remember/restore_state, restore, restore_extended, def_cfa_expression, expression, val_expression, GNU_args_size, nop, set_loc) = {} x section {{.debug_frame v1, v3, v4, .eh_frame v1}} x alignment factors (below) x {} configs; CIE initial instructions def_cfa(r7,8); offset(r16,1)", maxlen, NCFA, nseq, cfgs.len());
    let bound = format!("{}{}; factors {:?} x {:?}; {} build flavour", bound, if interleaved { "; an advance_loc 1 is inserted before every instruction and after the last, so that every intermediate rule set is a row" } else { "" }, cafs, dafs, if rel { "release" } else { "chk" });
    Sub::new(if interleaved { "cfi-interleaved" } else if rel { "cfi-rel" } else { "cfi" }, len, &bound, move |ctx, i| {
        let mut x = Mix(i);
        let seq = space::seq_decode(NCFA, 0, maxlen, x.take(nseq));
        let (eh, ver) = *x.pick(&kinds);
        let caf = *x.pick(&cafs);
        let daf = *x.pick(&dafs);
        let cfg = *x.pick(&cfgs);
        if eh && cfg.fmt64 {
            ctx.outcome("cfi:eh_frame-64bit-not-generated");
            return;
        }
        let mut insns: Vec<Cfa> = vec![];
        for &s in &seq {
            if interleaved {
                insns.push(Cfa::AdvanceLoc(1));
            }
            insns.push(cfa_sym(s as u64, cfg));
        }
        if interleaved {
            insns.push(Cfa::AdvanceLoc(1));
            insns.push(Cfa::Nop);
        }
        let m = FrameM {
            eh,
            cfg,
            cies: vec![CieM { version: ver, aug: Aug::none(), caf, daf, ra: 16, init: vec![Cfa::DefCfa(7, 8), Cfa::Offset(16, 1)] }],
            fdes: vec![FdeM { cie: 0, addr: 0x1000, len: 0x100, lsda: None, insns: insns.clone() }],
        };
        ctx.nontriv(1);
        let case = || format!("{} {} CIE version {} code_alignment_factor={} data_alignment_factor={} FDE instructions {:?} section: {}", cfg.name(), if eh { ".eh_frame" } else { ".debug_frame" }, ver, caf, daf, insns, mcx::hex(&build_frame(&m)));
        if ctx.want_sample() {
            ctx.sample(case());
        }
        ctx.outcome(&format!("cfi:caf={}", caf));
        ctx.outcome(&format!("cfi:daf={}", daf));
        // generator-side statement of the special values present (see check_dwarf)
        let mut feats: Vec<&str> = vec![];
        if caf > 255 {
            feats.push("code_alignment_factor>255");
        }
        if daf == 0 {
            feats.push("data_alignment_factor=0");
        }
        if insns.iter().any(|c| matches!(c, Cfa::DefCfa(_, o) | Cfa::DefCfaOffset(o) if *o > i32::MAX as u64)) {
            feats.push("cfa-offset>=2^31");
        }
        if insns.iter().any(|c| matches!(c, Cfa::AdvanceLoc4(d) if (*d as u64) * caf > u32::MAX as u64)) {
            feats.push("advance*factor>=2^32");
        }
        check_frame(ctx, &m, "cfi", feats.first().cloned().unwrap_or(""), &case);
    })
    .flavours(if rel { &["rel"] } else { &["chk"] })
}

/// Advances at the width boundaries of DW_CFA_advance_loc / loc1 / loc2 / loc4, in every
/// encoding that can hold them (minimal and wider), converted and re-emitted.
fn sub_cfi_advance(_tier: Tier) -> Sub {
    let kinds: Vec<(bool, u8)> = vec![(false, 1), (false, 3), (false, 4), (true, 1)];
    let cfgs: Vec<Cfg> = vec![Cfg { version: 4, fmt64: false, asz: 8, big: false }, Cfg { version: 4, fmt64: false, asz: 4, big: true }];
    let deltas: Vec<u64> = vec![0, 1, 0x3e, 0x3f, 0x40, 0x41, 0xfe, 0xff, 0x100, 0x101, 0xfffe, 0xffff, 0x1_0000, 0x1_0001, 0xff_ffff];
    let cafs: Vec<u64> = vec![1, 2, 4];
    let prevs: Vec<u64> = vec![0, 1, 0x3f];
    let len = deltas.len() as u64 * 4 * cafs.len() as u64 * prevs.len() as u64 * kinds.len() as u64 * cfgs.len() as u64;
    let bound = format!("factored advance delta in {:?} x encoding {{advance_loc, advance_loc1, advance_loc2, advance_loc4}} (where the operand fits) x code_alignment_factor {:?} x preceding factored advance {:?} x section {{.debug_frame v1/v3/v4, .eh_frame v1}} x 2 configs; program: advance(prev); def_cfa_offset 16; advance(delta); def_cfa_offset 24; advance_loc 1; def_cfa_offset 32", deltas, cafs, prevs);
    Sub::new("cfi-advance-boundaries", len, &bound, move |ctx, i| {
        let mut x = Mix(i);
        let d = *x.pick(&deltas);
        let e = x.take(4);
        let caf = *x.pick(&cafs);
        let prev = *x.pick(&prevs);
        let (eh, ver) = *x.pick(&kinds);
        let cfg = *x.pick(&cfgs);
        let adv = match e {
            0 if d < 0x40 => Cfa::AdvanceLoc(d as u8),
            1 if d <= 0xff => Cfa::AdvanceLoc1(d as u8),
            2 if d <= 0xffff => Cfa::AdvanceLoc2(d as u16),
            3 => Cfa::AdvanceLoc4(d as u32),
            _ => {
                ctx.outcome("cfiadv:operand-does-not-fit-encoding");
                return;
            }
        };
        let insns = vec![Cfa::AdvanceLoc(prev as u8), Cfa::DefCfaOffset(16), adv, Cfa::DefCfaOffset(24), Cfa::AdvanceLoc(1), Cfa::DefCfaOffset(32)];
        let m = FrameM {
            eh,
            cfg,
            cies: vec![CieM { version: ver, aug: Aug::none(), caf, daf: -8, ra: 16, init: vec![Cfa::DefCfa(7, 8), Cfa::Offset(16, 1)] }],
            fdes: vec![FdeM { cie: 0, addr: 0x1000, len: 0x800_0000, lsda: None, insns: insns.clone() }],
        };
        ctx.nontriv(1);
        let case = || format!("{} {} CIE version {} code_alignment_factor={} FDE instructions {:?} section: {}", cfg.name(), if eh { ".eh_frame" } else { ".debug_frame" }, ver, caf, insns, mcx::hex(&build_frame(&m)));
        if ctx.want_sample() {
            ctx.sample(case());
        }
        check_frame(ctx, &m, "cfiadv", "", &case);
    })
}

/// Operand boundary values of every operand-carrying expression operation, one operation at a
/// time (followed by a fixed marker operation), through the conversion routes.
fn expr_boundary_ops(cfg: Cfg) -> Vec<Vec<Op>> {
    let ub: [u64; 16] = [0, 1, 31, 32, 33, 127, 128, 255, 256, 16383, 16384, 0xffff_ffff, 0x1_0000_0000, 1 << 35, 1 << 63, u64::MAX];
    let sb: [i64; 16] = [0, 1, -1, 63, 64, -64, -65, 127, 128, -128, -129, 8191, 8192, -8193, i64::MAX, i64::MIN];
    let mask = if cfg.asz >= 8 { u64::MAX } else { (1u64 << (8 * cfg.asz as u32)) - 1 };
    let mut v: Vec<Vec<Op>> = vec![];
    let tail = Op::Simple(OP_STACK_VALUE);
    for &u in &ub {
        v.push(vec![Op::Constu(u), tail.clone()]);
        v.push(vec![Op::Lit(0), Op::PlusUconst(u), tail.clone()]);
        v.push(vec![Op::Regx(u & 0xffff)]);
        v.push(vec![Op::Reg(3), Op::Piece(u)]);
        v.push(vec![Op::Reg(3), Op::BitPiece(u, u / 2)]);
        v.push(vec![Op::Addr(u & mask), tail.clone()]);
        v.push(vec![Op::Const8u(u), tail.clone()]);
        v.push(vec![Op::Const4u(u as u32), tail.clone()]);
        v.push(vec![Op::Const2u(u as u16), tail.clone()]);
        v.push(vec![Op::Const1u(u as u8), tail.clone()]);
    }
    for &i in &sb {
        v.push(vec![Op::Consts(i), tail.clone()]);
        v.push(vec![Op::Fbreg(i)]);
        v.push(vec![Op::Breg(31, i)]);
        v.push(vec![Op::Breg(0, i)]);
        v.push(vec![Op::Bregx(32, i)]);
        v.push(vec![Op::Bregx(65535, i)]);
        v.push(vec![Op::Const1s(i as i8), tail.clone()]);
        v.push(vec![Op::Const2s(i as i16), tail.clone()]);
        v.push(vec![Op::ImplicitPointer(T::Die(0, 3), i)]);
    }
    for r in [0u8, 1, 30, 31] {
        v.push(vec![Op::Reg(r)]);
        v.push(vec![Op::Lit(r), tail.clone()]);
    }
    for n in [0u8, 1, 2, 127, 128, 255] {
        v.push(vec![Op::Lit(1), Op::Lit(2), Op::Lit(3), Op::Pick(n.min(2)), tail.clone()]);
        v.push(vec![Op::Breg(1, 0), Op::DerefSize(n), tail.clone()]);
        v.push(vec![Op::Lit(1), Op::Breg(1, 0), Op::XderefSize(n), tail.clone()]);
    }
    for l in [0usize, 1, 2, 127, 128, 129, 255, 256, 300] {
        v.push(vec![Op::ImplicitValue((0..l).map(|k| k as u8).collect())]);
        // nested block whose byte length crosses the one-byte ULEB boundary
        v.push(vec![Op::EntryValue((0..l.max(1)).map(|k| Op::Reg((k % 32) as u8)).collect()), tail.clone()]);
        v.push(vec![Op::ConstType(T::Die(0, 1), (0..l.min(255)).map(|k| k as u8).collect()), tail.clone()]);
    }
    v
}

fn sub_expr_boundaries(_tier: Tier) -> Sub {
    let cfgs: Vec<Cfg> = vec![Cfg { version: 2, fmt64: false, asz: 4, big: false }, Cfg { version: 3, fmt64: true, asz: 8, big: true }, Cfg { version: 4, fmt64: false, asz: 8, big: false }, Cfg { version: 5, fmt64: true, asz: 4, big: true }, Cfg { version: 5, fmt64: false, asz: 8, big: false }];
    let n = expr_boundary_ops(cfgs[0]).len() as u64;
    let len = n * 2 * cfgs.len() as u64;
    Sub::new("expression-operand-boundaries", len, &format!("{} single-operation expressions: constu/plus_uconst/regx/piece/bit_piece/addr/const1u-8u over ULEB boundaries {{0,1,31,32,33,127,128,255,256,2^14-1,2^14,2^32-1,2^32,2^35,2^63,2^64-1}}, consts/fbreg/breg0/breg31/bregx/const1s/const2s/implicit_pointer offsets over SLEB boundaries, reg/lit 0,1,30,31, pick/deref_size/xderef_size 0,1,2,127,128,255, implicit_value/entry_value/const_type blocks of 0..300 bytes (around the 127/128 and 255/256 length boundaries) x carrier {{DW_AT_location, location-list entry}} x 5 configs", n), move |ctx, i| {
        let mut x = Mix(i);
        let in_list = x.flag();
        let cfg = *x.pick(&cfgs);
        let ops = expr_boundary_ops(cfg)[x.take(n) as usize].clone();
        run_expr_case(ctx, cfg, ops, in_list, "exprb");
    })
}

/// Branches whose displacement fits 16 bits in the source but not after the converter has
/// re-encoded the operations it jumps over (DW_OP_addrx 1 is 2 bytes, the DW_OP_addr the
/// converter writes instead is 1 + address size bytes): conversion must fail with an error or
/// keep the branch on target.
fn sub_expr_long_branches(_tier: Tier) -> Sub {
    let counts: Vec<usize> = vec![50, 3_640, 3_641, 4_000];
    let cfgs: Vec<Cfg> = vec![Cfg { version: 5, fmt64: false, asz: 8, big: false }];
    let len = counts.len() as u64 * 4 * cfgs.len() as u64;
    Sub::new("expression-long-branches", len, &format!("one DW_OP_skip / DW_OP_bra forward over, or backward to the start of, a run of N x DW_OP_addrx 1, N in {:?} (the source displacement 2N fits 16 bits, the re-encoded 9N does not from N = 3641 on), DWARF 5, 8-byte addresses, in DW_AT_location", counts), move |ctx, i| {
        let mut x = Mix(i);
        let back = x.flag();
        let bra = x.flag();
        let cfg = *x.pick(&cfgs);
        let n = counts[x.take(counts.len() as u64) as usize];
        // forward: [branch -> end] a a a ... ; backward: a a a ... [branch -> first a]
        let mut ops: Vec<Op> = vec![];
        if bra {
            ops.push(Op::Lit(1));
        }
        let run: Vec<Op> = (0..n).map(|_| Op::Addrx(1)).collect();
        if back {
            let first = ops.len();
            ops.extend(run);
            ops.push(if bra { Op::Bra(Br::ToOp(first)) } else { Op::Skip(Br::ToOp(first)) });
        } else {
            let total = ops.len() + 1 + n;
            ops.push(if bra { Op::Bra(Br::ToOp(total)) } else { Op::Skip(Br::ToOp(total)) });
            ops.extend(run);
        }
        run_expr_case(ctx, cfg, ops, false, "exprlb");
    })
}

/// Operand boundary values of every operand-carrying call frame instruction through
/// FrameTable::from and back.
fn cfa_boundary_insns() -> Vec<Vec<Cfa>> {
    let regs: [u64; 9] = [0, 1, 63, 64, 127, 128, 255, 256, 65535];
    let uoff: [u64; 12] = [0, 1, 63, 64, 127, 128, 16383, 16384, 0x7fff_ffff, 0x8000_0000, 0xffff_ffff, 0x1_0000_0000];
    let soff: [i64; 14] = [0, 1, -1, 63, 64, -64, -65, 8191, -8192, -8193, 0x7fff_ffff, -0x8000_0000, 0x8000_0000, -0x8000_0001];
    let mut v: Vec<Vec<Cfa>> = vec![];
    for &r in &regs {
        v.push(vec![Cfa::DefCfa(r, 16)]);
        v.push(vec![Cfa::DefCfaRegister(r)]);
        v.push(vec![Cfa::OffsetExtended(r, 2)]);
        v.push(vec![Cfa::OffsetExtendedSf(r, -2)]);
        v.push(vec![Cfa::ValOffset(r, 2)]);
        v.push(vec![Cfa::ValOffsetSf(r, -2)]);
        v.push(vec![Cfa::Undefined(r)]);
        v.push(vec![Cfa::SameValue(r)]);
        v.push(vec![Cfa::Register(r, 1)]);
        v.push(vec![Cfa::Register(1, r)]);
        v.push(vec![Cfa::Expression(r, vec![Op::Breg(7, 8)])]);
        v.push(vec![Cfa::ValExpression(r, vec![Op::Breg(7, 8)])]);
        v.push(vec![Cfa::Offset(16, 2), Cfa::RestoreExtended(r)]);
        if r < 64 {
            v.push(vec![Cfa::Offset(r as u8, 3)]);
            v.push(vec![Cfa::Offset(16, 2), Cfa::Restore(r as u8)]);
        }
    }
    for &o in &uoff {
        v.push(vec![Cfa::DefCfa(7, o)]);
        v.push(vec![Cfa::DefCfaOffset(o)]);
        v.push(vec![Cfa::Offset(3, o)]);
        v.push(vec![Cfa::OffsetExtended(70, o)]);
        v.push(vec![Cfa::ValOffset(4, o)]);
        v.push(vec![Cfa::GnuArgsSize(o)]);
    }
    for &o in &soff {
        v.push(vec![Cfa::DefCfaSf(7, o)]);
        v.push(vec![Cfa::DefCfaOffsetSf(o)]);
        v.push(vec![Cfa::OffsetExtendedSf(3, o)]);
        v.push(vec![Cfa::ValOffsetSf(4, o)]);
    }
    for l in [0usize, 1, 127, 128, 255, 256] {
        let ops: Vec<Op> = (0..l).map(|k| Op::Lit((k % 32) as u8)).collect();
        v.push(vec![Cfa::DefCfaExpression(ops.clone())]);
        v.push(vec![Cfa::Expression(3, ops.clone())]);
        v.push(vec![Cfa::ValExpression(3, ops)]);
    }
    v
}

fn sub_cfi_boundaries(_tier: Tier) -> Sub {
    let kinds: Vec<(bool, u8)> = vec![(false, 1), (false, 3), (false, 4), (true, 1)];
    let cfgs: Vec<Cfg> = vec![Cfg { version: 4, fmt64: false, asz: 8, big: false }, Cfg { version: 4, fmt64: true, asz: 4, big: true }];
    let factors: Vec<(u64, i64)> = vec![(1, -8), (4, 1), (1, -1), (2, 8)];
    let n = cfa_boundary_insns().len() as u64;
    let len = n * kinds.len() as u64 * cfgs.len() as u64 * factors.len() as u64;
    Sub::new("cfi-operand-boundaries", len, &format!("{} FDE programs [advance_loc 1; <instruction with boundary operand>; advance_loc 1; nop]: every register-carrying instruction with register {{0,1,63,64,127,128,255,256,65535}}, every unsigned-offset instruction with {{0,1,63,64,127,128,2^14-1,2^14,2^31-1,2^31,2^32-1,2^32}}, every signed-offset instruction with SLEB/i32 boundaries, expressions of 0..256 bytes x section {{.debug_frame v1/v3/v4, .eh_frame v1}} x (code, data) alignment factors {:?} x 2 configs", n, factors), move |ctx, i| {
        let mut x = Mix(i);
        let (caf, daf) = *x.pick(&factors);
        let (eh, ver) = *x.pick(&kinds);
        let cfg = *x.pick(&cfgs);
        if eh && cfg.fmt64 {
            ctx.outcome("cfib:eh_frame-64bit-not-generated");
            return;
        }
        let mut insns = vec![Cfa::AdvanceLoc(1)];
        insns.extend(cfa_boundary_insns()[x.take(n) as usize].clone());
        insns.push(Cfa::AdvanceLoc(1));
        insns.push(Cfa::Nop);
        let m = FrameM {
            eh,
            cfg,
            cies: vec![CieM { version: ver, aug: Aug::none(), caf, daf, ra: 16, init: vec![Cfa::DefCfa(7, 8), Cfa::Offset(16, 1)] }],
            fdes: vec![FdeM { cie: 0, addr: 0x1000, len: 0x100, lsda: None, insns: insns.clone() }],
        };
        ctx.nontriv(1);
        let case = || format!("{} {} CIE version {} code_alignment_factor={} data_alignment_factor={} FDE instructions {:?} section: {}", cfg.name(), if eh { ".eh_frame" } else { ".debug_frame" }, ver, caf, daf, insns, mcx::hex(&build_frame(&m)));
        if ctx.want_sample() {
            ctx.sample(case());
        }
        let mut feats: Vec<&str> = vec![];
        if insns.iter().any(|c| matches!(c, Cfa::DefCfa(_, o) | Cfa::DefCfaOffset(o) if *o > i32::MAX as u64)) {
            feats.push("cfa-offset>=2^31");
        }
        check_frame(ctx, &m, "cfib", feats.first().cloned().unwrap_or(""), &case);
    })
}

/// Register operands in a context where a wrongly converted register number changes the rows.
fn sub_cfi_register_context(_tier: Tier) -> Sub {
    let regs: [u64; 12] = [0, 1, 2, 62, 63, 64, 65, 127, 128, 129, 255, 256];
    let kinds = 12u64;
    Sub::new(
        "cfi-register-operands-in-context",
        regs.len() as u64 * kinds * 2 * 2,
        "register r in {0,1,2,62,63,64,65,127,128,129,255,256} x instruction {restore (r<64) / restore_extended, undefined, same_value, offset (r<64) / offset_extended, offset_extended_sf, val_offset, val_offset_sf, register(r,3), register(3,r), expression, val_expression, def_cfa_register} x placed {in the FDE after a row that changed every context register, in the CIE after the context} x {.debug_frame v4, .eh_frame v1}; context = distinct offset rules in the CIE and distinct register rules in the FDE for {0, 1, r, r-1, r+1, r mod 64, r mod 128, r/2, 64}",
        move |ctx, i| {
            let mut x = Mix(i);
            let r = *x.pick(&regs);
            let k = x.take(kinds);
            let in_cie = x.flag();
            let eh = x.flag();
            let cfg = Cfg { version: 4, fmt64: false, asz: 8, big: false };
            let insn = match k {
                0 if r < 64 => Cfa::Restore(r as u8),
                0 => Cfa::RestoreExtended(r),
                1 => Cfa::Undefined(r),
                2 => Cfa::SameValue(r),
                3 if r < 64 => Cfa::Offset(r as u8, 77),
                3 => Cfa::OffsetExtended(r, 77),
                4 => Cfa::OffsetExtendedSf(r, -79),
                5 => Cfa::ValOffset(r, 80),
                6 => Cfa::ValOffsetSf(r, -81),
                7 => Cfa::Register(r, 3),
                8 => Cfa::Register(3, r),
                9 => Cfa::Expression(r, vec![Op::Breg(7, 8)]),
                10 => Cfa::ValExpression(r, vec![Op::Breg(6, 16)]),
                _ => Cfa::DefCfaRegister(r),
            };
            let mut cregs: Vec<u64> = vec![0, 1, r, r.wrapping_sub(1) & 0xffff, r + 1, r % 64, r % 128, r / 2, 64];
            cregs.sort();
            cregs.dedup();
            let mut init = vec![Cfa::DefCfa(7, 8)];
            for (n, &c) in cregs.iter().enumerate() {
                init.push(Cfa::OffsetExtended(c, 10 + n as u64));
            }
            let mut insns = vec![];
            if in_cie {
                init.push(insn);
                insns.push(Cfa::AdvanceLoc(1));
                insns.push(Cfa::RestoreExtended(r));
                insns.push(Cfa::AdvanceLoc(1));
                insns.push(Cfa::Nop);
            } else {
                insns.push(Cfa::AdvanceLoc(1));
                for (n, &c) in cregs.iter().enumerate() {
                    insns.push(Cfa::Register(c, 200 + n as u64));
                }
                insns.push(Cfa::AdvanceLoc(1));
                insns.push(insn);
                insns.push(Cfa::AdvanceLoc(1));
                insns.push(Cfa::Nop);
            }
            let m = FrameM { eh, cfg, cies: vec![CieM { version: if eh { 1 } else { 4 }, aug: Aug::none(), caf: 1, daf: -8, ra: 16, init: init.clone() }], fdes: vec![FdeM { cie: 0, addr: 0x1000, len: 0x100, lsda: None, insns: insns.clone() }] };
            ctx.nontriv(1);
            let case = || format!("{} {} CIE initial instructions {:?} FDE instructions {:?} section: {}", cfg.name(), if eh { ".eh_frame" } else { ".debug_frame" }, init, insns, mcx::hex(&build_frame(&m)));
            if ctx.want_sample() {
                ctx.sample(case());
            }
            check_frame(ctx, &m, "cfirc", "", &case);
        },
    )
}

const NFK: u64 = 16;

fn sub_cfi_params(_tier: Tier) -> Sub {
    let cfgs: Vec<Cfg> = vec![Cfg { version: 4, fmt64: false, asz: 8, big: false }, Cfg { version: 4, fmt64: false, asz: 4, big: true }, Cfg { version: 4, fmt64: true, asz: 8, big: false }, Cfg { version: 4, fmt64: true, asz: 4, big: true }];
    let kinds: Vec<(bool, u8)> = vec![(false, 1), (false, 3), (false, 4), (true, 1)];
    let len = NFK * kinds.len() as u64 * cfgs.len() as u64;
    Sub::new("cfi-parameters", len, "16 CIE/FDE parameter kits (zLR with an LSDA encoding different from the FDE address encoding, both ways; two FDEs on one CIE, two CIEs, FDE length >= 2^32 (8-byte addresses), return address register 200, augmentations zR(pcrel|sdata4) / zR(udata4) / zPLR / zS / zL with LSDA, personality absptr, CIE without FDE, initial instructions with advance, GNU_args_size 2^32+1) x section {.debug_frame v1/v3/v4, .eh_frame v1} x 4 configs", move |ctx, i| {
        let mut x = Mix(i);
        let k = x.take(NFK);
        let (eh, ver) = *x.pick(&kinds);
        let cfg = *x.pick(&cfgs);
        if eh && cfg.fmt64 {
            ctx.outcome("cfip:eh_frame-64bit-not-generated");
            return;
        }
        let cie = |aug: Aug| CieM { version: ver, aug, caf: 1, daf: -8, ra: 16, init: vec![Cfa::DefCfa(7, 8), Cfa::Offset(16, 1)] };
        let fde = |c: usize, addr: u64, lsda: Option<u64>| FdeM { cie: c, addr, len: 0x40, lsda, insns: vec![Cfa::AdvanceLoc(4), Cfa::DefCfaOffset(16)] };
        let mut m = FrameM { eh, cfg, cies: vec![cie(Aug::none())], fdes: vec![fde(0, 0x1000, None)] };
        let kit = match k {
            0 => {
                m.fdes.push(fde(0, 0x2000, None));
                "two-fdes-one-cie"
            }
            1 => {
                let mut c2 = cie(Aug::none());
                c2.daf = -4;
                m.cies.push(c2);
                m.fdes.push(fde(1, 0x2000, None));
                "two-cies"
            }
            2 => {
                if cfg.asz < 8 {
                    ctx.outcome("cfip:needs-8-byte-addresses");
                    return;
                }
                m.fdes[0].len = 0x1_0000_0010;
                "fde-length-2^32+16"
            }
            3 => {
                m.cies[0].ra = 200;
                "return-address-register-200"
            }
            4 | 5 | 6 | 7 | 8 | 9 => {
                if !eh {
                    ctx.outcome("cfip:augmentation-only-for-eh_frame");
                    return;
                }
                match k {
                    4 => {
                        m.cies[0].aug.fde_enc = Some(EH_PE_PCREL | EH_PE_SDATA4);
                        "zR:pcrel|sdata4"
                    }
                    5 => {
                        m.cies[0].aug.fde_enc = Some(EH_PE_UDATA4);
                        "zR:udata4"
                    }
                    6 => {
                        m.cies[0].aug = Aug { fde_enc: Some(EH_PE_PCREL | EH_PE_SDATA4), lsda_enc: Some(EH_PE_PCREL | EH_PE_SDATA4), personality: Some((EH_PE_PCREL | EH_PE_SDATA4, 0x3000)), signal: false };
                        m.fdes[0].lsda = Some(0x5000);
                        "zPLR:pcrel"
                    }
                    7 => {
                        m.cies[0].aug.signal = true;
                        "zS"
                    }
                    8 => {
                        m.cies[0].aug.lsda_enc = Some(EH_PE_ABSPTR);
                        m.fdes[0].lsda = Some(0x5000);
                        "zL:absptr"
                    }
                    _ => {
                        m.cies[0].aug.personality = Some((EH_PE_ABSPTR, 0x3000));
                        "zP:absptr"
                    }
                }
            }
            10 => {
                m.cies.push(cie(Aug::none()));
                m.cies[1].ra = 17;
                "cie-without-fde"
            }
            11 => {
                m.cies[0].init.push(Cfa::AdvanceLoc(2));
                m.cies[0].init.push(Cfa::DefCfaOffset(32));
                "advance-in-initial-instructions"
            }
            12 => {
                m.fdes[0].insns.push(Cfa::GnuArgsSize(0x1_0000_0001));
                "args_size-2^32+1"
            }
            14 | 15 => {
                if !eh {
                    ctx.outcome("cfip:augmentation-only-for-eh_frame");
                    return;
                }
                // the LSDA encoding differs from the FDE address encoding
                let (l, r) = if k == 14 { (EH_PE_PCREL | EH_PE_SDATA4, EH_PE_UDATA4) } else { (EH_PE_UDATA4, EH_PE_PCREL | EH_PE_SDATA4) };
                m.cies[0].aug = Aug { fde_enc: Some(r), lsda_enc: Some(l), personality: None, signal: false };
                m.fdes[0].lsda = Some(0x3300);
                if k == 14 {
                    "zLR:L=pcrel|sdata4,R=udata4"
                } else {
                    "zLR:L=udata4,R=pcrel|sdata4"
                }
            }
            _ => {
                m.fdes[0].insns = vec![Cfa::AdvanceLoc(4), Cfa::OffsetExtendedSf(3, i64::MIN / 4)];
                "offset_extended_sf-huge"
            }
        };
        ctx.nontriv(1);
        let case = || format!("{} {} CIE version {} kit={} model={:?} section: {}", cfg.name(), if eh { ".eh_frame" } else { ".debug_frame" }, ver, kit, m, mcx::hex(&build_frame(&m)));
        if ctx.want_sample() {
            ctx.sample(case());
        }
        ctx.outcome(&format!("cfip-kit:{}", kit));
        check_frame(ctx, &m, "cfip", kit, &case);
    })
    .flavours(&["chk", "rel"])
}

pub fn subs(tier: Tier) -> Vec<Sub> {
    let mut v = vec![sub_line(tier, false, false), sub_line(tier, true, false), sub_line_hdr(tier), sub_lists(tier), sub_expr(tier), sub_unit_kinds(tier), sub_cfi(tier, false, false), sub_cfi(tier, true, false), sub_cfi(tier, false, true), sub_cfi_params(tier), sub_cfi_advance(tier), sub_cfi_boundaries(tier), sub_cfi_register_context(tier), sub_expr_boundaries(tier), sub_expr_long_branches(tier), sub_line_regs(tier), sub_line_schedules(tier)];
    if tier == Tier::Thorough {
        v.push(sub_line(tier, false, true));
    }
    v
}

pub fn required() -> Vec<String> {
    [
        "line:ok",
        "line:reconvert-identical",
        "line:has-set_address-after-row-or-advance",
        "line:has-fixed_advance_pc-not-multiple-of-min_inst_len",
        "linehdr:ok",
        "lists:ok",
        "lists:reconvert-identical",
        "expr:ok",
        "expr:reconvert-identical",
        "expr:convert-err:InvalidBranchTarget",
        "unitkind:ok",
        "cfi:ok",
        "cfi:reconvert-identical",
        "cfi:caf=256",
        "cfi:daf=0",
        "cfip:ok",
        "cfiadv:ok",
        "cfib:ok",
        "exprb:ok",
        "sched:agrees",
        "sched:baseline-ok",
        "cfiadv:reconvert-identical",
        "linereg:ok",
        "linereg:reconvert-identical",
    ]
    .iter()
    .map(|s| s.to_string())
    .collect()
}
