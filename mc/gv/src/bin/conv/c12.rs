//! C12: read -> write conversion preserves meaning or fails with an error.
use super::dump::{self, RefNaming};
use super::dw::*;
use super::gen::*;
use super::run::{self, Api, ConvOut};
use mcx::space::{self, Mix};
use mcx::{CheckDef, Ctx, Sub, Tier};

const APIS: [Api; 3] = [Api::From, Api::StepRow, Api::StepSeq];

fn api_entry(a: Api) -> &'static str {
    match a {
        Api::From => "write::Dwarf::from",
        Api::StepRow => "ConvertUnit_stepwise_read_row",
        Api::StepSeq => "ConvertUnit_stepwise_read_sequence",
        Api::Sched(_) => "ConvertLineProgram_read_row/read_sequence_schedule",
        Api::Reenc(_) => "ConvertUnit_stepwise_read_row_reencoded",
    }
}

/// Classify the first difference of two dumps so that one defect maps to one
/// (entry, site, kind) triple.
pub fn diff_kind(a: &str, b: &str) -> (String, String) {
    let la: Vec<&str> = a.lines().collect();
    let lb: Vec<&str> = b.lines().collect();
    for i in 0..la.len().max(lb.len()) {
        let x = la.get(i).cloned().unwrap_or("<missing>");
        let y = lb.get(i).cloned().unwrap_or("<missing>");
        if x == y {
            continue;
        }
        let tx = x.trim_start();
        let ty = y.trim_start();
        let kind = if tx.starts_with("L ") || ty.starts_with("L ") {
            if tx.starts_with("L files") && ty.starts_with("L files") {
                "file-table-differs".to_string()
            } else if tx.starts_with("L ") && ty.starts_with("L ") {
                "line-rows-differ".to_string()
            } else {
                "line-program-presence-differs".to_string()
            }
        } else if tx.starts_with("unit ") && ty.starts_with("unit ") {
            "unit-header-differs".to_string()
        } else if tx.starts_with("tag ") && ty.starts_with("tag ") {
            let indent = |s: &str| s.len() - s.trim_start().len();
            let px: Vec<&str> = tx.split(" | ").collect();
            let py: Vec<&str> = ty.split(" | ").collect();
            if px[0] != py[0] || indent(x) != indent(y) {
                "entry-tag-or-depth-differs".to_string()
            } else {
                let mut k = "attribute-set-differs".to_string();
                for j in 1..px.len().max(py.len()) {
                    let ax = px.get(j).cloned().unwrap_or("");
                    let ay = py.get(j).cloned().unwrap_or("");
                    if ax != ay {
                        let nx = ax.split('=').next().unwrap_or("");
                        let ny = ay.split('=').next().unwrap_or("");
                        if nx == ny {
                            // classify the value class too (first word of the value)
                            let vx = ax.split('=').nth(1).unwrap_or("").split(|c| c == ' ' || c == '[' || c == '{' || c == '-').next().unwrap_or("");
                            k = format!("value-of-{}-{}-differs", nx, vx);
                        } else {
                            k = format!("attribute-set-differs-near-{}", if nx.is_empty() { ny } else { nx });
                        }
                        break;
                    }
                }
                k
            }
        } else {
            "forest-shape-differs".to_string()
        };
        return (kind, format!("first difference at dump line {}:\n   input : {}\n   output: {}", i, x, y));
    }
    ("equal".into(), String::new())
}

pub fn dump_secs(secs: &Secs, big: bool) -> Result<Result<dump::DwarfD, String>, mcx::Panic> {
    mcx::guard(|| {
        let d = dump::load(secs, big);
        dump::dump_dwarf(&d, RefNaming::Index)
    })
}

/// The C12 oracle for one .debug_info-rooted input under the given APIs.
/// `feat` is the generator's own statement of which special construct the
/// input contains (independent of gimli); it is appended to the kind of a
/// wrong-result violation so that a recorded finding only covers inputs with
/// the same trigger.
pub fn check_dwarf(ctx: &mut Ctx, secs: &Secs, big: bool, apis: &[Api], tag: &str, feat: &str, case: &dyn Fn() -> String) {
    let fk = |k: &str| if feat.is_empty() { k.to_string() } else { format!("{}[{}]", k, feat) };
    let din = match dump_secs(secs, big) {
        Ok(Ok(d)) => d,
        Ok(Err(e)) => {
            // gimli's reader does not accept the generated input: not in the property's domain
            ctx.outcome(&format!("{}:input-not-readable", tag));
            if ctx.verbose {
                ctx.log(&format!("input not readable: {}", e));
            }
            return;
        }
        Err(p) => {
            ctx.outcome(&format!("{}:input-dump-panic", tag));
            if ctx.verbose {
                ctx.log(&format!("reader panicked on the input (C01's business): {:?}", p));
            }
            return;
        }
    };
    let tin = din.text();
    if ctx.verbose {
        ctx.log(&format!("INPUT {}\nINPUT DUMP\n{}", case(), tin));
    }
    for &api in apis {
        ctx.eval(1);
        let entry = api_entry(api);
        let out = match run::convert(secs, big, api) {
            Ok(o) => o,
            Err(p) => {
                ctx.outcome(&format!("{}:panic", tag));
                ctx.fail_panic(entry, &p, case());
                continue;
            }
        };
        let osecs = match out {
            ConvOut::Ok(s) => s,
            ConvOut::ConvErr(e) => {
                ctx.outcome(&format!("{}:convert-err:{}", tag, run::err_class(&e)));
                if ctx.verbose {
                    ctx.log(&format!("{}: conversion error {}", entry, e));
                }
                continue;
            }
            ConvOut::WriteErr(e) => {
                ctx.outcome(&format!("{}:write-err:{}", tag, run::err_class(&e)));
                if ctx.verbose {
                    ctx.log(&format!("{}: write error {}", entry, e));
                }
                continue;
            }
        };
        ctx.outcome(&format!("{}:ok", tag));
        let dout = match dump_secs(&osecs, big) {
            Ok(Ok(d)) => d,
            Ok(Err(e)) => {
                ctx.fail(entry, "output-readable", &fk("output-not-readable"), format!("{}\n  reading the converted output failed: {}\n  output: {}", case(), e, render_secs(&osecs)));
                continue;
            }
            Err(p) => {
                ctx.fail(entry, "output-readable", &fk("output-read-panics"), format!("{}\n  reading the converted output panicked: {:?}\n  output: {}", case(), p, render_secs(&osecs)));
                continue;
            }
        };
        let tout = dout.text();
        if ctx.verbose {
            ctx.log(&format!("{} OUTPUT {}\nOUTPUT DUMP\n{}", entry, render_secs(&osecs), tout));
        }
        if tin != tout {
            let (kind, d) = diff_kind(&tin, &tout);
            ctx.fail(entry, "semantic-dump-equal", &fk(&kind), format!("{}\n  {}\n  output: {}", case(), d, render_secs(&osecs)));
            continue;
        }
        // Converting the output again reproduces it (dump and bytes).
        ctx.eval(1);
        match run::convert(&osecs, big, api) {
            Err(p) => ctx.fail_panic(&format!("{}(second)", entry), &p, format!("second conversion of the output of {}", case())),
            Ok(ConvOut::Ok(s2)) => {
                // Every section must be reproduced byte for byte.
                let mut bad = None;
                for (k, v) in &osecs {
                    if s2.get(k) != Some(v) {
                        bad = Some(*k);
                        // report a referencing section rather than a string pool when both differ
                        if *k != ".debug_str" && *k != ".debug_line_str" {
                            break;
                        }
                    }
                }
                let t2 = if bad.is_some() { dump_secs(&s2, big).ok().and_then(|r| r.ok()).map(|d| d.text()).unwrap_or_default() } else { tout.clone() };
                if t2 != tout {
                    ctx.fail(entry, "reconvert-reproduces", &fk("second-conversion-changes-meaning"), format!("{}\n  first output : {}\n  second output: {}", case(), render_secs(&osecs), render_secs(&s2)));
                } else if let Some(k) = bad {
                    ctx.fail(entry, "reconvert-reproduces", &fk(&format!("second-conversion-bytes-differ-in-{}", k.trim_start_matches('.'))), format!("{}\n  same meaning, different bytes\n  first output : {}\n  second output: {}", case(), render_secs(&osecs), render_secs(&s2)));
                } else {
                    ctx.outcome(&format!("{}:reconvert-identical", tag));
                }
            }
            Ok(ConvOut::ConvErr(e)) | Ok(ConvOut::WriteErr(e)) => {
                ctx.fail(entry, "reconvert-reproduces", &fk(&format!("second-conversion-error-{}", run::err_class(&e))), format!("{}\n  output {} converts with error {}", case(), render_secs(&osecs), e));
            }
        }
    }
}

// ---------------------------------------------------------------------------
// Sub 1: forests x forms

pub fn cfgs_all() -> Vec<Cfg> {
    let mut v = vec![];
    for version in [2u16, 3, 4, 5] {
        for fmt64 in [false, true] {
            for asz in [4u8, 8] {
                for big in [false, true] {
                    v.push(Cfg { version, fmt64, asz, big });
                }
            }
        }
    }
    v
}

const CHILD_TAGS: [u64; 4] = [TAG_VARIABLE, TAG_BASE_TYPE, TAG_STRUCTURE_TYPE, TAG_SUBPROGRAM];

fn skeleton(cfg: Cfg, parents: &[usize]) -> Model {
    let mut u = UnitM::new(TAG_COMPILE_UNIT);
    u.dies[0].attrs.push(at(AT_PRODUCER, AV::Str(FORM_STRING, b"gv".to_vec())));
    for (i, &p) in parents.iter().enumerate() {
        let parent = if p == usize::MAX { 0 } else { p + 1 };
        u.add(parent, CHILD_TAGS[i % 4], vec![at(AT_NAME, AV::Str(FORM_STRING, format!("d{}", i + 1).into_bytes()))]);
    }
    Model { cfg, units: vec![u] }
}

fn ensure_root_attr(u: &mut UnitM, name: u64, val: AV) {
    if !u.dies[0].attrs.iter().any(|a| a.name == name) {
        u.dies[0].attrs.push(at(name, val));
    }
}

pub fn std_line(cfg: Cfg, insns: Vec<LI>) -> LineM {
    let v = cfg.version;
    if v >= 5 {
        LineM {
            version: 5,
            min_inst: 1,
            max_ops: 1,
            default_is_stmt: true,
            line_base: -5,
            line_range: 14,
            opcode_base: 13,
            dirs: vec![b"/cwd".to_vec(), b"inc".to_vec()],
            files: vec![
                FileM { name: b"a.c".to_vec(), dir: 0, mtime: 0, size: 0, md5: None },
                FileM { name: b"a.c".to_vec(), dir: 0, mtime: 0, size: 0, md5: None },
                FileM { name: b"b.h".to_vec(), dir: 1, mtime: 0, size: 0, md5: None },
            ],
            path_form: FORM_LINE_STRP,
            insns,
        }
    } else {
        LineM {
            version: v,
            min_inst: 1,
            max_ops: 1,
            default_is_stmt: true,
            line_base: -5,
            line_range: 14,
            opcode_base: 13,
            dirs: vec![b"inc".to_vec()],
            files: vec![FileM { name: b"a.c".to_vec(), dir: 0, mtime: 0, size: 0, md5: None }, FileM { name: b"b.h".to_vec(), dir: 1, mtime: 7, size: 9, md5: None }],
            path_form: FORM_STRING,
            insns,
        }
    }
}

fn attach_line(m: &mut Model, insns: Vec<LI>) {
    let cfg = m.cfg;
    let u = &mut m.units[0];
    if u.line.is_none() {
        u.line = Some(std_line(cfg, insns));
        ensure_root_attr(u, AT_NAME, AV::Str(FORM_STRING, b"a.c".to_vec()));
        ensure_root_attr(u, AT_COMP_DIR, AV::Str(FORM_STRING, b"/cwd".to_vec()));
        let f = if cfg.version >= 4 {
            FORM_SEC_OFFSET
        } else if cfg.fmt64 {
            FORM_DATA8
        } else {
            FORM_DATA4
        };
        ensure_root_attr(u, AT_STMT_LIST, AV::StmtList(f));
    }
}

pub const NKITS: u64 = 72;

/// Apply attribute kit `k` to die `d` of unit 0. Returns the kit's name, or
/// None when the kit does not exist in this DWARF version.
fn apply_kit(k: u64, m: &mut Model, d: usize) -> Option<&'static str> {
    let cfg = m.cfg;
    let v = cfg.version;
    let n = m.units[0].dies.len();
    let target = T::Die(0, (d + 1) % n);
    let secoff = if v >= 4 {
        FORM_SEC_OFFSET
    } else if cfg.fmt64 {
        FORM_DATA8
    } else {
        FORM_DATA4
    };
    let exprform = if v >= 4 { FORM_EXPRLOC } else { FORM_BLOCK1 };
    let u = &mut m.units[0];
    macro_rules! push {
        ($name:expr, $val:expr) => {
            u.dies[d].attrs.push(at($name, $val))
        };
    }
    let strx = |u: &mut UnitM, form: u64| {
        u.strs.push(b"unused0".to_vec());
        u.strs.push(b"sx".to_vec());
        ensure_root_attr(u, AT_STR_OFFSETS_BASE, AV::StrOffsetsBase);
        u.dies[d].attrs.push(at(AT_LINKAGE_NAME, AV::Strx(form, 1)));
    };
    let addrx = |u: &mut UnitM, form: u64| {
        u.addrs.push(0x10);
        u.addrs.push(0x1000);
        ensure_root_attr(u, AT_ADDR_BASE, AV::AddrBase);
        u.dies[d].attrs.push(at(AT_LOW_PC, AV::Addrx(form, 1)));
    };
    Some(match k {
        0 => {
            push!(AT_LINKAGE_NAME, AV::Str(FORM_STRING, b"nm".to_vec()));
            "string"
        }
        1 => {
            push!(AT_LINKAGE_NAME, AV::Str(FORM_STRP, b"np".to_vec()));
            "strp"
        }
        2 if v >= 5 => {
            push!(AT_LINKAGE_NAME, AV::Str(FORM_LINE_STRP, b"nl".to_vec()));
            "line_strp"
        }
        3 if v >= 5 => {
            strx(u, FORM_STRX);
            "strx"
        }
        4 if v >= 5 => {
            strx(u, FORM_STRX1);
            "strx1"
        }
        5 if v >= 5 => {
            strx(u, FORM_STRX2);
            "strx2"
        }
        6 if v >= 5 => {
            strx(u, FORM_STRX3);
            "strx3"
        }
        7 if v >= 5 => {
            strx(u, FORM_STRX4);
            "strx4"
        }
        8 => {
            push!(AT_LOW_PC, AV::Addr(0x1000));
            "addr"
        }
        9 if v >= 5 => {
            addrx(u, FORM_ADDRX);
            "addrx"
        }
        10 if v >= 5 => {
            addrx(u, FORM_ADDRX1);
            "addrx1"
        }
        11 if v >= 5 => {
            addrx(u, FORM_ADDRX2);
            "addrx2"
        }
        12 if v >= 5 => {
            addrx(u, FORM_ADDRX3);
            "addrx3"
        }
        13 if v >= 5 => {
            addrx(u, FORM_ADDRX4);
            "addrx4"
        }
        14 => {
            push!(AT_LOW_PC, AV::Addr(0x1000));
            push!(AT_HIGH_PC, AV::Data(FORM_DATA4, 0x20));
            "high_pc:data4"
        }
        15 => {
            push!(AT_LOW_PC, AV::Addr(0x1000));
            push!(AT_HIGH_PC, AV::Addr(cfg.addr_max() - 1));
            "high_pc:addr"
        }
        16 => {
            push!(AT_BYTE_SIZE, AV::Data(FORM_DATA1, 0xff));
            "data1"
        }
        17 => {
            push!(AT_BYTE_SIZE, AV::Data(FORM_DATA2, 0x1234));
            "data2"
        }
        18 => {
            push!(AT_BYTE_SIZE, AV::Data(FORM_DATA4, 0x8000_0001));
            "data4"
        }
        19 => {
            push!(AT_BYTE_SIZE, AV::Data(FORM_DATA8, u64::MAX));
            "data8"
        }
        20 => {
            push!(AT_BYTE_SIZE, AV::Data(FORM_UDATA, 300));
            "udata"
        }
        21 => {
            push!(AT_BYTE_SIZE, AV::Sdata(-1));
            "sdata"
        }
        22 if v >= 5 => {
            push!(AT_CONST_VALUE, AV::Data16([1, 2, 3, 4, 5, 6, 7, 8, 9, 10, 11, 12, 13, 14, 15, 16]));
            "data16"
        }
        23 => {
            push!(AT_CONST_VALUE, AV::Block(FORM_BLOCK1, vec![1, 2, 3]));
            "block1"
        }
        24 => {
            push!(AT_CONST_VALUE, AV::Block(FORM_BLOCK2, vec![4, 5]));
            "block2"
        }
        25 => {
            push!(AT_CONST_VALUE, AV::Block(FORM_BLOCK4, vec![6]));
            "block4"
        }
        26 => {
            push!(AT_CONST_VALUE, AV::Block(FORM_BLOCK, vec![]));
            "block"
        }
        27 => {
            push!(AT_CONST_VALUE, AV::Sdata(-129));
            "const:sdata"
        }
        28 => {
            push!(AT_CONST_VALUE, AV::Str(FORM_STRING, b"cv".to_vec()));
            "const:string"
        }
        29 if v >= 5 => {
            push!(AT_DECL_LINE, AV::Implicit(-5));
            "implicit_const"
        }
        30 => {
            push!(AT_EXTERNAL, AV::Flag(FORM_FLAG, true));
            "flag:true"
        }
        31 => {
            push!(AT_EXTERNAL, AV::Flag(FORM_FLAG, false));
            "flag:false"
        }
        32 if v >= 4 => {
            push!(AT_EXTERNAL, AV::Flag(FORM_FLAG_PRESENT, true));
            "flag_present"
        }
        33 => {
            push!(AT_TYPE, AV::Ref(FORM_REF1, target));
            "ref1"
        }
        34 => {
            push!(AT_TYPE, AV::Ref(FORM_REF2, target));
            "ref2"
        }
        35 => {
            push!(AT_TYPE, AV::Ref(FORM_REF4, target));
            "ref4"
        }
        36 => {
            push!(AT_TYPE, AV::Ref(FORM_REF8, target));
            "ref8"
        }
        37 => {
            push!(AT_TYPE, AV::Ref(FORM_REF_UDATA, target));
            "ref_udata"
        }
        38 => {
            // cross-unit reference into a second unit
            let mut u2 = UnitM::new(TAG_COMPILE_UNIT);
            u2.add(0, TAG_BASE_TYPE, vec![at(AT_NAME, AV::Str(FORM_STRING, b"x1".to_vec()))]);
            push!(AT_TYPE, AV::Ref(FORM_REF_ADDR, T::Die(1, 1)));
            m.units.push(u2);
            "ref_addr:cross-unit"
        }
        39 => {
            push!(AT_TYPE, AV::Ref(FORM_REF_ADDR, target));
            "ref_addr:same-unit"
        }
        40 if v >= 4 => {
            push!(AT_SIGNATURE, AV::Sig8(0x1122_3344_5566_7788));
            "ref_sig8"
        }
        41 => {
            if v >= 5 {
                u.rnglists.push(vec![Rle::StartEnd(0x1000, 0x1010), Rle::StartLength(0x2000, 8)]);
            } else {
                u.rnglists.push(vec![Rle::Pair(0x1000, 0x1010), Rle::Pair(0x2000, 0x2008)]);
            }
            push!(AT_RANGES, AV::Ranges(secoff, 0));
            "ranges:sec_offset"
        }
        42 if v >= 5 => {
            u.rnglists.push(vec![Rle::StartEnd(0x10, 0x20)]);
            u.rnglists.push(vec![Rle::StartEnd(0x1000, 0x1010), Rle::OffsetPair(0x30, 0x40)]);
            ensure_root_attr(u, AT_RNGLISTS_BASE, AV::RnglistsBase);
            push!(AT_RANGES, AV::Ranges(FORM_RNGLISTX, 1));
            "rnglistx"
        }
        43 => {
            push!(AT_LOCATION, AV::Expr(exprform, vec![Op::Fbreg(-8)]));
            "exprloc"
        }
        44 => {
            if v >= 5 {
                u.loclists.push(vec![Lle::StartEnd(0x1000, 0x1010, vec![Op::Reg(1)]), Lle::DefaultLocation(vec![Op::Fbreg(-16)])]);
            } else {
                u.loclists.push(vec![Lle::Pair(0x1000, 0x1010, vec![Op::Reg(1)]), Lle::Pair(0x1010, 0x1020, vec![Op::Fbreg(-16)])]);
            }
            push!(AT_LOCATION, AV::Locs(secoff, 0));
            "loclist:sec_offset"
        }
        45 if v >= 5 => {
            u.loclists.push(vec![Lle::StartLength(0x10, 4, vec![Op::Reg(2)])]);
            u.loclists.push(vec![Lle::StartLength(0x1000, 4, vec![Op::Reg(3)])]);
            ensure_root_attr(u, AT_LOCLISTS_BASE, AV::LoclistsBase);
            push!(AT_LOCATION, AV::Locs(FORM_LOCLISTX, 1));
            "loclistx"
        }
        46 => {
            push!(AT_BYTE_SIZE, AV::Indirect(Box::new(AV::Data(FORM_DATA1, 7))));
            "indirect:data1"
        }
        47 => {
            push!(AT_LINKAGE_NAME, AV::Indirect(Box::new(AV::Str(FORM_STRING, b"ind".to_vec()))));
            "indirect:string"
        }
        48 => {
            push!(AT_TYPE, AV::Indirect(Box::new(AV::Ref(FORM_REF4, target))));
            "indirect:ref4"
        }
        49 => {
            push!(AT_LANGUAGE, AV::Data(FORM_DATA1, 0x0c));
            "language:data1"
        }
        50 => {
            push!(AT_LANGUAGE, AV::Data(FORM_DATA2, 0x8001));
            "language:data2"
        }
        51 => {
            push!(AT_ENCODING, AV::Data(FORM_DATA1, 5));
            "encoding"
        }
        52 => {
            push!(AT_ACCESSIBILITY, AV::Data(FORM_DATA1, 1));
            "accessibility"
        }
        53 => {
            push!(AT_DATA_MEMBER_LOCATION, AV::Data(FORM_DATA1, 8));
            "member_location:data1"
        }
        54 => {
            push!(AT_DATA_MEMBER_LOCATION, AV::Expr(exprform, vec![Op::PlusUconst(8)]));
            "member_location:expr"
        }
        55 => {
            push!(AT_SIBLING, AV::Ref(FORM_REF4, target));
            "sibling(dropped-by-design)"
        }
        56 => {
            push!(AT_LO_USER_X, AV::Data(FORM_DATA4, 0xdead_beef));
            "vendor:data4"
        }
        57 if v >= 4 => {
            push!(AT_LO_USER_X, AV::RawWord(FORM_SEC_OFFSET, 0x10));
            "vendor:sec_offset(unclassifiable)"
        }
        58 if v >= 5 => {
            push!(AT_TYPE, AV::RawWord(FORM_REF_SUP4, 0x10));
            "ref_sup4"
        }
        59 if v >= 5 => {
            push!(AT_LINKAGE_NAME, AV::RawWord(FORM_STRP_SUP, 0x10));
            "strp_sup"
        }
        60 => {
            push!(AT_INLINE, AV::Data(FORM_DATA1, 1));
            "inline"
        }
        61 => {
            push!(AT_LOW_PC, AV::Addr(0x1000));
            push!(AT_HIGH_PC, AV::Data(FORM_UDATA, 0x20));
            "high_pc:udata"
        }
        62 => {
            push!(AT_FRAME_BASE, AV::Expr(exprform, vec![Op::Simple(OP_CALL_FRAME_CFA)]));
            "frame_base"
        }
        63 => {
            push!(AT_SPECIFICATION, AV::Ref(FORM_REF4, target));
            "specification"
        }
        64 => {
            push!(AT_DECL_FILE, AV::Data(FORM_DATA1, 2));
            attach_line(m, vec![LI::SetAddress(0x1000), LI::Copy, LI::AdvancePc(4), LI::EndSequence]);
            "decl_file:data1"
        }
        65 if v >= 5 => {
            push!(AT_DECL_FILE, AV::Implicit(2));
            attach_line(m, vec![LI::SetAddress(0x1000), LI::Copy, LI::AdvancePc(4), LI::EndSequence]);
            "decl_file:implicit_const"
        }
        66 => {
            push!(AT_CALL_FILE, AV::Data(FORM_UDATA, 1));
            attach_line(m, vec![]);
            "call_file:no-rows"
        }
        67 => {
            attach_line(m, vec![LI::SetAddress(0x1000), LI::SetFile(2), LI::Copy, LI::AdvancePc(4), LI::EndSequence]);
            "stmt_list"
        }
        68 => {
            attach_line(m, vec![]);
            "stmt_list:unused-program"
        }
        69 => {
            push!(AT_DECL_FILE, AV::Data(FORM_DATA1, 0));
            attach_line(m, vec![LI::SetAddress(0x1000), LI::Copy, LI::AdvancePc(4), LI::EndSequence]);
            "decl_file:0"
        }
        70 => {
            push!(AT_LOW_PC, AV::Addr(0));
            "addr:0"
        }
        71 => {
            push!(AT_LOW_PC, AV::Addr(cfg.addr_max()));
            "addr:all-ones"
        }
        _ => return None,
    })
}

fn positions(max_nonroot: usize) -> Vec<(Vec<usize>, usize)> {
    let mut v = vec![];
    for n in 0..=max_nonroot {
        for f in space::forests(n) {
            for d in 0..=n {
                v.push((f.clone(), d));
            }
        }
    }
    v
}

fn sub_forest(tier: Tier) -> Sub {
    let cfgs = cfgs_all();
    let pos = positions(tier.pick(3, 4));
    let len = cfgs.len() as u64 * pos.len() as u64 * NKITS;
    let bound = format!(
        "every (DWARF version 2-5 x 32/64-bit x address size 4/8 x LE/BE) = {} configs x every forest with <= {} non-root entries and every position in it = {} (shape, position) pairs x {} attribute/form kits placed at that position (other entries carry a name); each case through Dwarf::from and both stepwise routes, plus a second conversion of every output",
        cfgs.len(),
        tier.pick(3, 4),
        pos.len(),
        NKITS
    );
    Sub::new("forest-forms", len, &bound, move |ctx, i| {
        let mut x = Mix(i);
        let k = x.take(NKITS);
        let (shape, d) = x.pick(&pos).clone();
        let cfg = *x.pick(&cfgs);
        let mut m = skeleton(cfg, &shape);
        let Some(kit) = apply_kit(k, &mut m, d) else {
            ctx.outcome("forest:kit-not-in-version");
            return;
        };
        ctx.nontriv(1);
        let b = build(&m);
        let case = || format!("{} kit={} at entry {} of forest {:?} sections: {}", cfg.name(), kit, d, shape.iter().map(|&p| if p == usize::MAX { -1 } else { p as i64 }).collect::<Vec<_>>(), render_secs(&b.secs));
        if ctx.want_sample() {
            ctx.sample(case());
        }
        ctx.outcome(&format!("kit:{}", kit));
        check_dwarf(ctx, &b.secs, cfg.big, &APIS, "forest", kit, &case);
    })
}

fn sub_kit_pairs(tier: Tier) -> Sub {
    let cfgs: Vec<Cfg> = match tier {
        Tier::Quick => [2u16, 3, 4, 5].iter().map(|&version| Cfg { version, fmt64: version % 2 == 1, asz: if version < 4 { 4 } else { 8 }, big: version == 3 }).collect(),
        Tier::Thorough => cfgs_all(),
    };
    let len = NKITS * NKITS * cfgs.len() as u64;
    let bound = format!("every ordered pair of the {} attribute/form kits, the first on a child entry and the second on the unit root (interactions such as root DW_AT_low_pc x range/location lists, two index tables, line program x file attributes) x {} configs", NKITS, cfgs.len());
    Sub::new("forest-kit-pairs", len, &bound, move |ctx, i| {
        let mut x = Mix(i);
        let ka = x.take(NKITS);
        let kb = x.take(NKITS);
        let cfg = *x.pick(&cfgs);
        let mut m = skeleton(cfg, &[usize::MAX]);
        let Some(a) = apply_kit(ka, &mut m, 1) else {
            ctx.outcome("pairs:kit-not-in-version");
            return;
        };
        let Some(b) = apply_kit(kb, &mut m, 0) else {
            ctx.outcome("pairs:kit-not-in-version");
            return;
        };
        // two kits that set the same attribute on different entries are fine; index tables are shared
        ctx.nontriv(1);
        let bl = build(&m);
        let case = || format!("{} kit {} on the child, kit {} on the root; sections: {}", cfg.name(), a, b, render_secs(&bl.secs));
        if ctx.want_sample() {
            ctx.sample(case());
        }
        // dominant trigger: a kit with a recorded finding, else the pair
        let dominant = ["decl_file:implicit_const", "stmt_list:unused-program"];
        let feat = match dominant.iter().find(|d| a == **d || b == **d) {
            Some(d) => d.to_string(),
            None => format!("{}&{}", a, b),
        };
        check_dwarf(ctx, &bl.secs, cfg.big, &[Api::From, Api::StepSeq], "pairs", &feat, &case);
    })
}

pub fn def(tier: Tier) -> CheckDef {
    let mut subs = vec![sub_forest(Tier::Thorough), sub_kit_pairs(Tier::Thorough)]; // cheap: thorough bounds in both tiers
    subs.extend(super::c12x::subs(tier));
    subs.extend(super::split::subs_c12(tier));
    CheckDef {
        level: "exploration",
        rule: "one case = one generated well-formed input (sections built by an independent encoder) pushed through one conversion route; distinct by construction (distinct index -> distinct (config, shape, position, kit) / instruction sequence / list); non-trivial = the input contains the construct under test for that DWARF version (kits that do not exist in a version are counted as skipped, not as cases)".into(),
        assumptions: vec![
            "the semantic dump is computed with gimli's reader (decided by C02-C08) on input and output; equality is string equality of the dump".into(),
            "attributes dropped by design (ConvertUnitEntry::filter_attributes): DW_AT_sibling, DW_AT_str_offsets_base, DW_AT_addr_base, DW_AT_rnglists_base, DW_AT_loclists_base, DW_AT_dwo_name, DW_AT_GNU_addr_base, DW_AT_GNU_ranges_base, DW_AT_GNU_dwo_name, DW_AT_GNU_dwo_id are not part of the dump".into(),
            "by design (write::Unit::reorder_base_types) DW_TAG_base_type children of the unit root are moved in front of their siblings: the dump applies the same stable partition to both sides, i.e. top-level sibling order is compared modulo it".into(),
            "by design (write::Unit::line_program_in_use) a line program with no rows that no DW_AT_decl_file/call_file refers to is not emitted: DW_AT_stmt_list and the file table of such a program are not part of the dump".into(),
            "file and directory tables are compared as the set of file identities (directory path, file path, mtime, size, MD5) and every file index (rows, DW_AT_decl_file, DW_AT_call_file) is resolved to that identity; unused include directories and index numbering are encoding".into(),
            "of an end_sequence row only address and op_index are compared (the other registers are not used by consumers and the writer does not reproduce them)".into(),
            "alignment factors, opcode_base, line_base/line_range, minimum_instruction_length, pointer encodings and CIE version are encoding parameters and not part of the dump; the unwind rows computed with them are".into(),
            "any ConvertError / write::Error is an allowed outcome of C12; a panic is a violation".into(),
        ]
        .into_iter()
        .chain(super::split::assumptions_c12())
        .collect(),
        subs,
        required_outcomes: {
            let mut r: Vec<String> = vec!["forest:ok".into(), "forest:reconvert-identical".into(), "pairs:ok".into()];
            r.extend(super::c12x::required());
            r.extend(super::split::required_c12());
            r
        },
    }
}
