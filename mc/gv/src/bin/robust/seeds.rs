//! Well-formed seed inputs for every section kind, generated through
//! `mcx::enc::Enc` so that (a) any numeric field can be overridden with an
//! extreme value while enclosing lengths stay consistent and (b) nothing here
//! depends on gimli's writer or constants.
use mcx::enc::Enc;

#[derive(Clone, Copy, Debug)]
pub struct G {
    pub big: bool,
    pub f64_: bool,
    pub asz: u8,
}

/// A full set of section bytes. Empty = absent.
#[derive(Clone, Debug, Default)]
pub struct SecSet {
    pub abbrev: Vec<u8>,
    pub info: Vec<u8>,
    pub types: Vec<u8>,
    pub str_: Vec<u8>,
    pub str_offsets: Vec<u8>,
    pub line: Vec<u8>,
    pub line_str: Vec<u8>,
    pub addr: Vec<u8>,
    pub ranges: Vec<u8>,
    pub rnglists: Vec<u8>,
    pub loc: Vec<u8>,
    pub loclists: Vec<u8>,
    pub macinfo: Vec<u8>,
    pub macro_: Vec<u8>,
    pub aranges: Vec<u8>,
    pub names: Vec<u8>,
    pub pubnames: Vec<u8>,
    pub cu_index: Vec<u8>,
    pub tu_index: Vec<u8>,
    pub debug_frame: Vec<u8>,
    pub eh_frame: Vec<u8>,
    pub eh_frame_hdr: Vec<u8>,
    pub expr: Vec<u8>,
}

pub const SECTION_NAMES: [&str; 23] = ["abbrev", "info", "types", "str", "str_offsets", "line", "line_str", "addr", "ranges", "rnglists", "loc", "loclists", "macinfo", "macro", "aranges", "names", "pubnames", "cu_index", "tu_index", "debug_frame", "eh_frame", "eh_frame_hdr", "expr"];

impl SecSet {
    pub fn get(&self, i: usize) -> &Vec<u8> {
        match i {
            0 => &self.abbrev,
            1 => &self.info,
            2 => &self.types,
            3 => &self.str_,
            4 => &self.str_offsets,
            5 => &self.line,
            6 => &self.line_str,
            7 => &self.addr,
            8 => &self.ranges,
            9 => &self.rnglists,
            10 => &self.loc,
            11 => &self.loclists,
            12 => &self.macinfo,
            13 => &self.macro_,
            14 => &self.aranges,
            15 => &self.names,
            16 => &self.pubnames,
            17 => &self.cu_index,
            18 => &self.tu_index,
            19 => &self.debug_frame,
            20 => &self.eh_frame,
            21 => &self.eh_frame_hdr,
            _ => &self.expr,
        }
    }
    pub fn get_mut(&mut self, i: usize) -> &mut Vec<u8> {
        match i {
            0 => &mut self.abbrev,
            1 => &mut self.info,
            2 => &mut self.types,
            3 => &mut self.str_,
            4 => &mut self.str_offsets,
            5 => &mut self.line,
            6 => &mut self.line_str,
            7 => &mut self.addr,
            8 => &mut self.ranges,
            9 => &mut self.rnglists,
            10 => &mut self.loc,
            11 => &mut self.loclists,
            12 => &mut self.macinfo,
            13 => &mut self.macro_,
            14 => &mut self.aranges,
            15 => &mut self.names,
            16 => &mut self.pubnames,
            17 => &mut self.cu_index,
            18 => &mut self.tu_index,
            19 => &mut self.debug_frame,
            20 => &mut self.eh_frame,
            21 => &mut self.eh_frame_hdr,
            _ => &mut self.expr,
        }
    }
    pub fn total(&self) -> usize {
        (0..23).map(|i| self.get(i).len()).sum()
    }
    pub fn render(&self) -> String {
        let mut s = String::new();
        for i in 0..23 {
            let b = self.get(i);
            if !b.is_empty() {
                let shown = if b.len() > 96 { format!("{}..({} bytes)", mcx::hex(&b[..96]), b.len()) } else { mcx::hex(b) };
                s.push_str(&format!("{}={} ", SECTION_NAMES[i], shown));
            }
        }
        s
    }
}

fn e(g: G) -> Enc {
    Enc::new(g.big)
}

// DWARF constants (transcribed from the DWARF 5 standard, section 7)
const TAG_CU: u64 = 0x11;
const TAG_SUBPROGRAM: u64 = 0x2e;
const TAG_VARIABLE: u64 = 0x34;
const TAG_BASE_TYPE: u64 = 0x24;
const TAG_TYPE_UNIT: u64 = 0x41;
const TAG_STRUCT: u64 = 0x13;
const TAG_MEMBER: u64 = 0x0d;
const TAG_SKELETON: u64 = 0x4a;

const AT_SIBLING: u64 = 0x01;
const AT_LOCATION: u64 = 0x02;
const AT_NAME: u64 = 0x03;
const AT_BYTE_SIZE: u64 = 0x0b;
const AT_STMT_LIST: u64 = 0x10;
const AT_LOW_PC: u64 = 0x11;
const AT_HIGH_PC: u64 = 0x12;
const AT_LANGUAGE: u64 = 0x13;
const AT_COMP_DIR: u64 = 0x1b;
const AT_CONST_VALUE: u64 = 0x1c;
const AT_ENCODING: u64 = 0x3e;
const AT_DECL_FILE: u64 = 0x3a;
const AT_TYPE: u64 = 0x49;
const AT_RANGES: u64 = 0x55;
const AT_MACRO_INFO: u64 = 0x43;
const AT_STR_OFFSETS_BASE: u64 = 0x72;
const AT_ADDR_BASE: u64 = 0x73;
const AT_RNGLISTS_BASE: u64 = 0x74;
const AT_DWO_NAME: u64 = 0x76;
const AT_MACROS: u64 = 0x79;
const AT_LOCLISTS_BASE: u64 = 0x8c;
const AT_FRAME_BASE: u64 = 0x40;
const AT_SIGNATURE: u64 = 0x69;
const AT_DATA_MEMBER_LOCATION: u64 = 0x38;

const F_ADDR: u64 = 0x01;
const F_BLOCK2: u64 = 0x03;
const F_BLOCK4: u64 = 0x04;
const F_DATA2: u64 = 0x05;
const F_DATA4: u64 = 0x06;
const F_DATA8: u64 = 0x07;
const F_STRING: u64 = 0x08;
const F_BLOCK: u64 = 0x09;
const F_BLOCK1: u64 = 0x0a;
const F_DATA1: u64 = 0x0b;
const F_FLAG: u64 = 0x0c;
const F_SDATA: u64 = 0x0d;
const F_STRP: u64 = 0x0e;
const F_UDATA: u64 = 0x0f;
const F_REF_ADDR: u64 = 0x10;
const F_REF1: u64 = 0x11;
const F_REF2: u64 = 0x12;
const F_REF4: u64 = 0x13;
const F_REF8: u64 = 0x14;
const F_REF_UDATA: u64 = 0x15;
const F_INDIRECT: u64 = 0x16;
const F_SEC_OFFSET: u64 = 0x17;
const F_EXPRLOC: u64 = 0x18;
const F_FLAG_PRESENT: u64 = 0x19;
const F_STRX: u64 = 0x1a;
const F_ADDRX: u64 = 0x1b;
const F_REF_SUP4: u64 = 0x1c;
const F_STRP_SUP: u64 = 0x1d;
const F_DATA16: u64 = 0x1e;
const F_LINE_STRP: u64 = 0x1f;
const F_REF_SIG8: u64 = 0x20;
const F_IMPLICIT_CONST: u64 = 0x21;
const F_LOCLISTX: u64 = 0x22;
const F_RNGLISTX: u64 = 0x23;
const F_REF_SUP8: u64 = 0x24;
const F_STRX1: u64 = 0x25;
const F_STRX2: u64 = 0x26;
const F_STRX3: u64 = 0x27;
const F_STRX4: u64 = 0x28;
const F_ADDRX1: u64 = 0x29;
const F_ADDRX2: u64 = 0x2a;
const F_ADDRX3: u64 = 0x2b;
const F_ADDRX4: u64 = 0x2c;
const F_GNU_ADDR_INDEX: u64 = 0x1f01;
const F_GNU_STR_INDEX: u64 = 0x1f02;
const F_GNU_REF_ALT: u64 = 0x1f20;
const F_GNU_STRP_ALT: u64 = 0x1f21;

/// One abbreviation: code, tag, children, (name, form[, implicit const]) list.
fn abbrev(a: &mut Enc, code: u64, tag: u64, children: bool, attrs: &[(u64, u64)]) {
    a.uleb(code).uleb(tag).u8(children as u8);
    for &(n, f) in attrs {
        a.uleb(n).uleb(f);
        if f == F_IMPLICIT_CONST {
            a.sleb(-5);
        }
    }
    a.uleb(0).uleb(0);
}

/// A small expression: breg7 +8, deref, plus_uconst 4, piece 4, regx 3, piece 2^k.
fn expr_bytes(g: G) -> Vec<u8> {
    let mut x = e(g);
    x.u8(0x77).sleb(8); // breg7 8
    x.u8(0x06); // deref
    x.u8(0x23).uleb(4); // plus_uconst
    x.u8(0x93).uleb(4); // piece
    x.u8(0x90).uleb(3); // regx
    x.u8(0x93).uleb(8); // piece
    x.buf
}

fn expr_rich(g: G) -> Vec<u8> {
    let mut x = e(g);
    x.u8(0x03).addr(0x1000, g.asz); // addr
    x.u8(0x08).u8(7); // const1u
    x.u8(0x0d).uint(0x8000_0000, 4); // const4s
    x.u8(0x10).uleb(300); // constu
    x.u8(0x11).sleb(-300); // consts
    x.u8(0x12); // dup
    x.u8(0x15).u8(1); // pick
    x.u8(0x22); // plus
    x.u8(0x28).uint(2, 2); // bra +2
    x.u8(0x96); // nop
    x.u8(0x96); // nop
    x.u8(0x2f).uint(0, 2); // skip 0
    x.u8(0x91).sleb(-16); // fbreg
    x.u8(0x92).uleb(5).sleb(4); // bregx
    x.u8(0x94).u8(4); // deref_size
    x.u8(0x9c); // call_frame_cfa
    x.u8(0x9d).uleb(3).uleb(1); // bit_piece
    x.u8(0x9e).uleb(2).bytes(&[1, 2]); // implicit_value
    x.u8(0x9f); // stack_value
    x.u8(0xa1).uleb(1); // addrx
    x.u8(0xa3).uleb(1).u8(0x50); // entry_value(reg0)
    x.u8(0xa4).uleb(0x20).u8(2).uint(7, 2); // const_type
    x.u8(0xa5).uleb(1).uleb(0x20); // regval_type
    x.u8(0xa6).u8(4).uleb(0x20); // deref_type
    x.u8(0xa8).uleb(0); // convert
    x.u8(0x98).uint(0x20, 2); // call2
    x.u8(0xa0).offset(0x30, g.f64_).sleb(1); // implicit_pointer
    x.u8(0xe0); // GNU push_tls_address
    x.u8(0xf3).uleb(1).u8(0x50); // GNU_entry_value
    x.u8(0xfa).uint(0x10, 4); // GNU_parameter_ref
    x.u8(0xed).u8(0).uleb(1); // WASM_location local
    x.buf
}

fn unit_header(g: G, version: u16, unit_type: u8, body: &Enc, abbrev_off: u64, extra: impl Fn(&mut Enc)) -> Enc {
    let mut h = e(g);
    h.u16(version);
    if version >= 5 {
        h.u8(unit_type).u8(g.asz).offset(abbrev_off, g.f64_);
    } else {
        h.offset(abbrev_off, g.f64_).u8(g.asz);
    }
    extra(&mut h);
    h.append(body);
    let mut out = e(g);
    out.with_length(g.f64_, &h);
    out
}

/// DWARF 4 CU with a small tree, many classic forms, references, an exprloc,
/// ranges, stmt_list, macro_info; plus the companion sections it refers to.
pub fn seed_info_v4(g: G) -> SecSet {
    let mut s = SecSet::default();
    let mut a = e(g);
    abbrev(&mut a, 1, TAG_CU, true, &[(AT_NAME, F_STRP), (AT_COMP_DIR, F_STRING), (AT_LANGUAGE, F_DATA2), (AT_LOW_PC, F_ADDR), (AT_HIGH_PC, F_DATA4), (AT_STMT_LIST, F_SEC_OFFSET), (AT_RANGES, F_SEC_OFFSET), (AT_MACRO_INFO, F_SEC_OFFSET)]);
    abbrev(&mut a, 2, TAG_SUBPROGRAM, true, &[(AT_SIBLING, F_REF4), (AT_NAME, F_STRING), (AT_LOW_PC, F_ADDR), (AT_HIGH_PC, F_UDATA), (AT_FRAME_BASE, F_EXPRLOC), (AT_DECL_FILE, F_DATA1), (AT_TYPE, F_REF_UDATA)]);
    abbrev(&mut a, 3, TAG_VARIABLE, false, &[(AT_NAME, F_STRING), (AT_LOCATION, F_EXPRLOC), (AT_TYPE, F_REF4), (AT_CONST_VALUE, F_SDATA)]);
    abbrev(&mut a, 4, TAG_BASE_TYPE, false, &[(AT_NAME, F_STRP), (AT_BYTE_SIZE, F_DATA1), (AT_ENCODING, F_DATA1)]);
    abbrev(&mut a, 5, TAG_VARIABLE, false, &[(AT_LOCATION, F_SEC_OFFSET), (AT_TYPE, F_REF_ADDR), (AT_CONST_VALUE, F_BLOCK1), (AT_BYTE_SIZE, F_FLAG), (AT_ENCODING, F_FLAG_PRESENT), (AT_NAME, F_INDIRECT)]);
    abbrev(&mut a, 6, TAG_STRUCT, true, &[(AT_SIGNATURE, F_REF_SIG8), (AT_BYTE_SIZE, F_DATA8), (AT_CONST_VALUE, F_BLOCK2), (AT_LOCATION, F_BLOCK4), (AT_DATA_MEMBER_LOCATION, F_BLOCK), (AT_TYPE, F_REF1), (AT_SIBLING, F_REF2), (AT_DECL_FILE, F_REF8)]);
    a.uleb(0);
    s.abbrev = a.buf;
    let mut b = e(g);
    // root
    b.uleb(1).offset(0, g.f64_).cstr(b"/dir").u16(0x0c).addr(0x1000, g.asz).u32(0x100).offset(0, g.f64_).offset(0, g.f64_).offset(0, g.f64_);
    // subprogram with children
    b.uleb(2).u32(0x60).cstr(b"f").addr(0x1000, g.asz).uleb(0x20);
    b.uleb(1).u8(0x9c); // frame_base: call_frame_cfa
    b.u8(1).uleb(0x50);
    {
        let x = expr_bytes(g);
        b.uleb(3).cstr(b"v").uleb(x.len() as u64).bytes(&x).u32(0x50).sleb(-2);
    }
    b.uleb(0); // end of subprogram children
    b.uleb(4).offset(1, g.f64_).u8(4).u8(5);
    b.uleb(5).offset(0, g.f64_).offset(0x0b, g.f64_).u8(2).bytes(&[9, 9]).u8(1).uleb(F_STRING).cstr(b"ind");
    b.uleb(6).u64(0x1122_3344_5566_7788).u64(8).u16(1).bytes(&[7]).u32(1).bytes(&[8]).uleb(1).bytes(&[9]).u8(0x0b).u16(0x0b).u64(0x0b);
    b.uleb(0); // end of struct children
    b.uleb(0); // end of root children
    b.uleb(0).uleb(0); // padding nulls
    s.info = unit_header(g, 4, 0, &b, 0, |_| {}).buf;
    s.str_ = b"\0cu.c\0int\0".to_vec();
    s.line = seed_line_v4(g).line;
    s.ranges = seed_ranges_legacy(g).ranges;
    s.loc = seed_loc_legacy(g).loc;
    s.macinfo = seed_macinfo(g).macinfo;
    s
}

/// The DWARF 4 unit of `seed_info_v4` as the SECOND unit of .debug_info (behind a one-entry
/// unit): unit-relative references are then added to a non-zero unit offset.
pub fn seed_info_v4_second(g: G) -> SecSet {
    let mut s = seed_info_v4(g);
    let mut b = e(g);
    b.uleb(4).offset(1, g.f64_).u8(4).u8(5);
    let mut first = unit_header(g, 4, 0, &b, 0, |_| {}).buf;
    first.extend_from_slice(&s.info);
    s.info = first;
    s
}

/// DWARF 5 CU using the indexed forms and their tables.
pub fn seed_info_v5(g: G) -> SecSet {
    let mut s = SecSet::default();
    let mut a = e(g);
    abbrev(&mut a, 1, TAG_CU, true, &[(AT_STR_OFFSETS_BASE, F_SEC_OFFSET), (AT_ADDR_BASE, F_SEC_OFFSET), (AT_RNGLISTS_BASE, F_SEC_OFFSET), (AT_LOCLISTS_BASE, F_SEC_OFFSET), (AT_NAME, F_STRX1), (AT_COMP_DIR, F_LINE_STRP), (AT_LOW_PC, F_ADDRX), (AT_HIGH_PC, F_DATA1), (AT_STMT_LIST, F_SEC_OFFSET), (AT_RANGES, F_RNGLISTX), (AT_MACROS, F_SEC_OFFSET), (AT_LANGUAGE, F_IMPLICIT_CONST)]);
    abbrev(&mut a, 2, TAG_VARIABLE, false, &[(AT_NAME, F_STRX), (AT_LOCATION, F_LOCLISTX), (AT_LOW_PC, F_ADDRX1), (AT_CONST_VALUE, F_DATA16), (AT_TYPE, F_REF_SUP4), (AT_DWO_NAME, F_STRP_SUP)]);
    abbrev(&mut a, 3, TAG_VARIABLE, false, &[(AT_NAME, F_STRX2), (AT_COMP_DIR, F_STRX3), (AT_DWO_NAME, F_STRX4), (AT_LOW_PC, F_ADDRX2), (AT_HIGH_PC, F_ADDRX3), (AT_LOCATION, F_ADDRX4), (AT_TYPE, F_REF_SUP8), (AT_RANGES, F_SEC_OFFSET)]);
    abbrev(&mut a, 4, TAG_VARIABLE, false, &[(AT_NAME, F_GNU_STR_INDEX), (AT_LOW_PC, F_GNU_ADDR_INDEX), (AT_TYPE, F_GNU_REF_ALT), (AT_DWO_NAME, F_GNU_STRP_ALT), (AT_LOCATION, F_EXPRLOC)]);
    a.uleb(0);
    s.abbrev = a.buf;
    let hdr = if g.f64_ { 16 } else { 8 };
    let lhdr = if g.f64_ { 20 } else { 12 };
    let mut b = e(g);
    b.uleb(1).offset(hdr, g.f64_).offset(hdr, g.f64_).offset(lhdr, g.f64_).offset(lhdr, g.f64_).u8(1).offset(1, g.f64_).uleb(0).u8(0x40).offset(0, g.f64_).uleb(0).offset(0, g.f64_);
    b.uleb(2).uleb(0).uleb(0).u8(1).bytes(&[0xab; 16]).u32(0x0c).offset(1, g.f64_);
    b.uleb(3).u16(1).uint(1, 3).u32(0).u16(0).uint(1, 3).u32(1).u64(0x0c).offset(lhdr, g.f64_);
    {
        let x = expr_rich(g);
        b.uleb(4).uleb(1).uleb(1).offset(0x0c, g.f64_).offset(1, g.f64_).uleb(x.len() as u64).bytes(&x);
    }
    b.uleb(0);
    s.info = unit_header(g, 5, 1, &b, 0, |_| {}).buf;
    s.str_ = b"\0cu5.c\0x\0".to_vec();
    s.line_str = b"\0/d5\0".to_vec();
    s.str_offsets = seed_str_offsets(g).str_offsets;
    s.addr = seed_addr(g).addr;
    s.rnglists = seed_rnglists(g).rnglists;
    s.loclists = seed_loclists(g).loclists;
    s.line = seed_line_v5(g).line;
    s.macro_ = seed_macro(g).macro_;
    s
}

/// DWARF 2/3 CU (ref_addr sized by address in v2) + a v5 skeleton + v5 type unit.
pub fn seed_info_misc(g: G) -> SecSet {
    let mut s = SecSet::default();
    let mut a = e(g);
    abbrev(&mut a, 1, TAG_CU, true, &[(AT_NAME, F_STRING), (AT_STMT_LIST, F_DATA4), (AT_RANGES, F_DATA4), (AT_LOW_PC, F_ADDR), (AT_HIGH_PC, F_ADDR)]);
    abbrev(&mut a, 2, TAG_VARIABLE, false, &[(AT_TYPE, F_REF_ADDR), (AT_LOCATION, F_DATA4), (AT_CONST_VALUE, F_DATA8)]);
    abbrev(&mut a, 3, TAG_SKELETON, false, &[(AT_DWO_NAME, F_STRING), (AT_ADDR_BASE, F_SEC_OFFSET)]);
    abbrev(&mut a, 4, TAG_TYPE_UNIT, true, &[(AT_LANGUAGE, F_DATA1)]);
    abbrev(&mut a, 5, TAG_STRUCT, true, &[(AT_NAME, F_STRING), (AT_BYTE_SIZE, F_UDATA)]);
    abbrev(&mut a, 6, TAG_MEMBER, false, &[(AT_NAME, F_STRING), (AT_DATA_MEMBER_LOCATION, F_UDATA)]);
    a.uleb(0);
    s.abbrev = a.buf;
    let mut out = e(g);
    {
        let mut b = e(g);
        b.uleb(1).cstr(b"v2.c").u32(0).u32(0).addr(0x2000, g.asz).addr(0x2040, g.asz);
        b.uleb(2).addr(0x0b, g.asz).u32(0).u64(5);
        b.uleb(0);
        out.append(&unit_header(g, 2, 0, &b, 0, |_| {}));
    }
    {
        let mut b = e(g);
        b.uleb(1).cstr(b"v3.c").u32(0).u32(0).addr(0x3000, g.asz).addr(0x3040, g.asz);
        b.uleb(2).offset(0x0b, g.f64_).u32(0).u64(5);
        b.uleb(0);
        out.append(&unit_header(g, 3, 0, &b, 0, |_| {}));
    }
    {
        let mut b = e(g);
        b.uleb(3).cstr(b"a.dwo").offset(if g.f64_ { 16 } else { 8 }, g.f64_);
        out.append(&unit_header(g, 5, 4, &b, 0, |h| {
            h.u64(0x0102_0304_0506_0708);
        }));
    }
    {
        let mut b = e(g);
        b.uleb(4).u8(0x0c);
        b.uleb(5).cstr(b"S").uleb(8);
        b.uleb(6).cstr(b"m").uleb(0);
        b.uleb(0);
        b.uleb(0);
        let f64_ = g.f64_;
        out.append(&unit_header(g, 5, 2, &b, 0, move |h| {
            h.u64(0xdead_beef_0000_0001).offset(if f64_ { 0x2b } else { 0x1b }, f64_);
        }));
    }
    s.info = out.buf;
    s.line = seed_line_v4(g).line;
    s.ranges = seed_ranges_legacy(g).ranges;
    s.loc = seed_loc_legacy(g).loc;
    s.addr = seed_addr(g).addr;
    s
}

/// .debug_types (DWARF 4 type unit).
pub fn seed_types(g: G) -> SecSet {
    let mut s = SecSet::default();
    let mut a = e(g);
    abbrev(&mut a, 1, TAG_TYPE_UNIT, true, &[(AT_LANGUAGE, F_DATA1)]);
    abbrev(&mut a, 2, TAG_STRUCT, true, &[(AT_NAME, F_STRING), (AT_BYTE_SIZE, F_DATA1)]);
    abbrev(&mut a, 3, TAG_MEMBER, false, &[(AT_NAME, F_STRING), (AT_TYPE, F_REF4)]);
    a.uleb(0);
    s.abbrev = a.buf;
    let mut b = e(g);
    b.uleb(1).u8(4);
    b.uleb(2).cstr(b"T").u8(4);
    b.uleb(3).cstr(b"m").u32(0x20);
    b.uleb(0);
    b.uleb(0);
    let f64_ = g.f64_;
    s.types = unit_header(g, 4, 0, &b, 0, move |h| {
        h.u64(0x1111_2222_3333_4444).offset(if f64_ { 0x29 } else { 0x19 }, f64_);
    })
    .buf;
    s
}

fn line_body(g: G, p: &mut Enc) {
    // set_address, special, advance_pc, advance_line, set_file, set_column, negate_stmt,
    // basic_block, const_add_pc, fixed_advance_pc, prologue_end, epilogue_begin, set_isa,
    // copy, set_discriminator, define_file, unknown extended, end_sequence; second sequence
    p.u8(0).uleb(1 + g.asz as u64).u8(2).addr(0x1000, g.asz);
    p.u8(0x4b);
    p.u8(2).uleb(3);
    p.u8(3).sleb(-1);
    p.u8(4).uleb(1);
    p.u8(5).uleb(7);
    p.u8(6);
    p.u8(7);
    p.u8(8);
    p.u8(9).u16(3);
    p.u8(10);
    p.u8(11);
    p.u8(12).uleb(1);
    p.u8(1);
    p.u8(0).uleb(2).u8(4).uleb(5);
    p.u8(0).uleb(6).u8(3).cstr(b"g").uleb(0).uleb(0).uleb(0);
    p.u8(0).uleb(3).u8(0x80).u8(1).u8(2);
    p.u8(0xff);
    p.u8(0).uleb(1).u8(1);
    p.u8(0).uleb(1 + g.asz as u64).u8(2).addr(0x2000, g.asz);
    p.u8(0x14);
    p.u8(2).uleb(4);
    p.u8(0).uleb(1).u8(1);
}

pub fn seed_line_v4(g: G) -> SecSet {
    seed_line_legacy(g, 4)
}

/// Version 2, 3 (no maximum_operations_per_instruction field) or 4 line program.
pub fn seed_line_legacy(g: G, version: u16) -> SecSet {
    let mut s = SecSet::default();
    let mut hdr = e(g);
    hdr.u8(1);
    if version >= 4 {
        hdr.u8(1);
    }
    hdr.u8(1).u8((-5i8) as u8).u8(14).u8(13);
    for l in [0u8, 1, 1, 1, 1, 0, 0, 0, 1, 0, 0, 1] {
        hdr.u8(l);
    }
    hdr.cstr(b"inc").cstr(b"inc2").u8(0);
    hdr.cstr(b"a.c").uleb(1).uleb(2).uleb(3);
    hdr.cstr(b"b.c").uleb(0).uleb(0).uleb(0);
    hdr.u8(0);
    let mut rest = e(g);
    rest.u16(version);
    let mut hl = e(g);
    // header_length
    hl.offset(hdr.buf.len() as u64, g.f64_);
    rest.append(&hl).append(&hdr);
    line_body(g, &mut rest);
    let mut out = e(g);
    out.with_length(g.f64_, &rest);
    s.line = out.buf;
    s
}

pub fn seed_line_v5(g: G) -> SecSet {
    let mut s = SecSet::default();
    let mut hdr = e(g);
    hdr.u8(4).u8(2).u8(0).u8((-3i8) as u8).u8(12).u8(10);
    for l in [0u8, 1, 1, 1, 1, 0, 0, 0, 1] {
        hdr.u8(l);
    }
    // directory format: path(line_strp), count 2
    hdr.u8(1).uleb(1).uleb(F_LINE_STRP);
    hdr.uleb(2).offset(1, g.f64_).offset(0, g.f64_);
    // file format: path(string), dir index(udata), md5(data16), size(data4), timestamp(block), source(strp)
    hdr.u8(6).uleb(1).uleb(F_STRING).uleb(2).uleb(F_UDATA).uleb(5).uleb(F_DATA16).uleb(4).uleb(F_DATA4).uleb(3).uleb(F_BLOCK).uleb(0x2001).uleb(F_STRP);
    hdr.uleb(2);
    hdr.cstr(b"m.c").uleb(0).bytes(&[0x5a; 16]).u32(99).uleb(1).bytes(&[7]).offset(1, g.f64_);
    hdr.cstr(b"n.c").uleb(1).bytes(&[0xa5; 16]).u32(0).uleb(0).offset(0, g.f64_);
    let mut rest = e(g);
    rest.u16(5).u8(g.asz).u8(0);
    let mut hl = e(g);
    hl.offset(hdr.buf.len() as u64, g.f64_);
    rest.append(&hl).append(&hdr);
    line_body(g, &mut rest);
    let mut out = e(g);
    out.with_length(g.f64_, &rest);
    s.line = out.buf;
    s.line_str = b"\0/d5\0".to_vec();
    s.str_ = b"\0src\0".to_vec();
    s
}

pub fn seed_aranges(g: G) -> SecSet {
    let mut s = SecSet::default();
    let mut b = e(g);
    b.u16(2).offset(0, g.f64_).u8(g.asz).u8(0);
    // pad to 2*asz alignment from the start of the set
    let hdr = (if g.f64_ { 12 } else { 4 }) + b.buf.len();
    let al = 2 * g.asz as usize;
    let pad = (al - hdr % al) % al;
    for _ in 0..pad {
        b.buf.push(0);
    }
    b.addr(0x1000, g.asz).addr(0x20, g.asz);
    b.addr(0x2000, g.asz).addr(0x10, g.asz);
    b.addr(0, g.asz).addr(0, g.asz);
    let mut out = e(g);
    out.with_length(g.f64_, &b);
    let first = out.buf.clone();
    out.buf.extend_from_slice(&first);
    s.aranges = out.buf;
    s
}

pub fn seed_addr(g: G) -> SecSet {
    let mut s = SecSet::default();
    let mut b = e(g);
    b.u16(5).u8(g.asz).u8(0);
    b.addr(0x1000, g.asz).addr(0x1040, g.asz).addr(0x2000, g.asz);
    let mut out = e(g);
    out.with_length(g.f64_, &b);
    s.addr = out.buf;
    s
}

pub fn seed_str_offsets(g: G) -> SecSet {
    let mut s = SecSet::default();
    let mut b = e(g);
    b.u16(5).u16(0);
    b.offset(1, g.f64_).offset(7, g.f64_).offset(0, g.f64_);
    let mut out = e(g);
    out.with_length(g.f64_, &b);
    s.str_offsets = out.buf;
    s.str_ = b"\0cu5.c\0x\0".to_vec();
    s
}

pub fn seed_ranges_legacy(g: G) -> SecSet {
    let mut s = SecSet::default();
    let mut b = e(g);
    let max = if g.asz == 8 { u64::MAX } else { (1u64 << (8 * g.asz as u32)) - 1 };
    b.addr(0x10, g.asz).addr(0x20, g.asz);
    b.addr(max, g.asz).addr(0x4000, g.asz);
    b.addr(0x10, g.asz).addr(0x20, g.asz);
    b.addr(0x30, g.asz).addr(0x30, g.asz);
    b.addr(0, g.asz).addr(0, g.asz);
    s.ranges = b.buf;
    s
}

pub fn seed_loc_legacy(g: G) -> SecSet {
    let mut s = SecSet::default();
    let mut b = e(g);
    let max = if g.asz == 8 { u64::MAX } else { (1u64 << (8 * g.asz as u32)) - 1 };
    let x = expr_bytes(g);
    b.addr(0x10, g.asz).addr(0x20, g.asz).u16(x.len() as u16).bytes(&x);
    b.addr(max, g.asz).addr(0x4000, g.asz);
    b.addr(0x10, g.asz).addr(0x20, g.asz).u16(1).bytes(&[0x50]);
    b.addr(0, g.asz).addr(0, g.asz);
    s.loc = b.buf;
    s
}

pub fn seed_rnglists(g: G) -> SecSet {
    let mut s = SecSet::default();
    let mut b = e(g);
    b.u16(5).u8(g.asz).u8(0).u32(2);
    let first = 2 * (if g.f64_ { 8 } else { 4 });
    let mut l = e(g);
    l.u8(5).addr(0x1000, g.asz); // base_address
    l.u8(4).uleb(0x10).uleb(0x20); // offset_pair
    l.u8(6).addr(0x3000, g.asz).addr(0x3010, g.asz); // start_end
    l.u8(7).addr(0x4000, g.asz).uleb(0x10); // start_length
    l.u8(1).uleb(0); // base_addressx
    l.u8(2).uleb(0).uleb(1); // startx_endx
    l.u8(3).uleb(2).uleb(0x10); // startx_length
    l.u8(0);
    b.offset(first as u64, g.f64_).offset(first as u64 + l.buf.len() as u64, g.f64_);
    b.append(&l);
    b.u8(7).addr(0x5000, g.asz).uleb(1).u8(0);
    let mut out = e(g);
    out.with_length(g.f64_, &b);
    s.rnglists = out.buf;
    s.addr = seed_addr(g).addr;
    s
}

pub fn seed_loclists(g: G) -> SecSet {
    let mut s = SecSet::default();
    let mut b = e(g);
    b.u16(5).u8(g.asz).u8(0).u32(1);
    let first = if g.f64_ { 8 } else { 4 };
    b.offset(first, g.f64_);
    let x = expr_bytes(g);
    b.u8(6).addr(0x1000, g.asz); // base_address
    b.u8(4).uleb(0x10).uleb(0x20).uleb(x.len() as u64).bytes(&x); // offset_pair
    b.u8(7).addr(0x3000, g.asz).addr(0x3010, g.asz).uleb(1).u8(0x50); // start_end
    b.u8(8).addr(0x4000, g.asz).uleb(0x10).uleb(0); // start_length
    b.u8(5).uleb(1).u8(0x51); // default_location
    b.u8(1).uleb(0); // base_addressx
    b.u8(2).uleb(0).uleb(1).uleb(1).u8(0x52); // startx_endx
    b.u8(3).uleb(2).uleb(0x10).uleb(1).u8(0x53); // startx_length
    b.u8(0);
    let mut out = e(g);
    out.with_length(g.f64_, &b);
    s.loclists = out.buf;
    s.addr = seed_addr(g).addr;
    s
}

/// GNU split-DWARF v4 location list (.debug_loc.dwo encodings).
pub fn seed_loc_dwo(g: G) -> SecSet {
    let mut s = SecSet::default();
    let mut b = e(g);
    b.u8(1).uleb(0); // base_addressx
    b.u8(2).uleb(0).uleb(1).u16(1).u8(0x50); // startx_endx
    b.u8(3).uleb(2).u32(0x10).u16(1).u8(0x51); // startx_length
    b.u8(4).uleb(0x10).uleb(0x20).u16(1).u8(0x52); // offset_pair
    b.u8(0);
    s.loc = b.buf;
    s.addr = seed_addr(g).addr;
    s
}

pub fn seed_macinfo(g: G) -> SecSet {
    let mut s = SecSet::default();
    let mut b = e(g);
    b.u8(3).uleb(0).uleb(1); // start_file
    b.u8(1).uleb(1).cstr(b"A 1"); // define
    b.u8(2).uleb(2).cstr(b"A"); // undef
    b.u8(0xff).uleb(7).cstr(b"vendor");
    b.u8(4); // end_file
    b.u8(0);
    s.macinfo = b.buf;
    s
}

pub fn seed_macro(g: G) -> SecSet {
    let mut s = SecSet::default();
    let mut b = e(g);
    let flags = if g.f64_ { 1u8 } else { 0 } | 2;
    b.u16(5).u8(flags).offset(0, g.f64_);
    b.u8(3).uleb(0).uleb(1); // start_file
    b.u8(1).uleb(1).cstr(b"A 1"); // define
    b.u8(5).uleb(2).offset(1, g.f64_); // define_strp
    b.u8(6).uleb(3).offset(1, g.f64_); // undef_strp
    b.u8(0x0b).uleb(4).uleb(0); // define_strx
    b.u8(0x0c).uleb(5).uleb(1); // undef_strx
    b.u8(8).uleb(6).offset(1, g.f64_); // define_sup
    b.u8(2).uleb(7).cstr(b"A"); // undef
    b.u8(4); // end_file
    b.u8(7).offset(0, g.f64_); // import
    b.u8(0x0a).offset(0, g.f64_); // import_sup
    b.u8(0);
    s.macro_ = b.buf;
    s.str_ = b"\0B 2\0".to_vec();
    s.str_offsets = seed_str_offsets(g).str_offsets;
    s
}

pub fn seed_pubnames(g: G) -> SecSet {
    let mut s = SecSet::default();
    let mut out = e(g);
    for k in 0..2u64 {
        let mut b = e(g);
        b.u16(2).offset(k * 0x40, g.f64_).offset(0x40, g.f64_);
        b.offset(0x0b, g.f64_).cstr(b"main");
        b.offset(0x20, g.f64_).cstr(b"x");
        b.offset(0, g.f64_);
        out.with_length(g.f64_, &b);
    }
    s.pubnames = out.buf;
    s
}

fn djb(s: &[u8]) -> u32 {
    let mut h: u32 = 5381;
    for &c in s {
        h = h.wrapping_mul(33).wrapping_add(c.to_ascii_lowercase() as u32);
    }
    h
}

pub fn seed_names(g: G) -> SecSet {
    let mut s = SecSet::default();
    let strs = b"\0foo\0bar\0".to_vec();
    let names: [(&[u8], u64); 2] = [(b"foo", 1), (b"bar", 5)];
    let bucket_count = 2u32;
    // sort names by bucket
    let mut order: Vec<usize> = (0..2).collect();
    order.sort_by_key(|&i| djb(names[i].0) % bucket_count);
    let mut abbrevs = e(g);
    // abbrev 1: tag subprogram, die_offset(ref4), compile_unit(udata), parent(flag_present)
    abbrevs.uleb(1).uleb(TAG_SUBPROGRAM).uleb(3).uleb(F_REF4).uleb(1).uleb(F_UDATA).uleb(4).uleb(F_FLAG_PRESENT).uleb(0).uleb(0);
    // abbrev 2: tag struct, die_offset(udata), type_unit(data1), parent(ref4), type_hash(data8)
    abbrevs.uleb(2).uleb(TAG_STRUCT).uleb(3).uleb(F_UDATA).uleb(2).uleb(F_DATA1).uleb(4).uleb(F_REF4).uleb(5).uleb(F_DATA8).uleb(0).uleb(0);
    abbrevs.uleb(0);
    let mut pool = e(g);
    let mut entry_offsets = vec![];
    for &i in &order {
        entry_offsets.push(pool.buf.len() as u64);
        if i == 0 {
            pool.uleb(1).u32(0x0b).uleb(0);
            pool.uleb(2).uleb(0x30).u8(0).u32(0).u64(0xabcdef);
            pool.uleb(0);
        } else {
            pool.uleb(1).u32(0x20).uleb(1);
            pool.uleb(0);
        }
    }
    let mut b = e(g);
    b.u16(5).u16(0).u32(2).u32(1).u32(1).u32(bucket_count).u32(2).u32(abbrevs.buf.len() as u32).u32(4).bytes(b"LLVM");
    b.offset(0, g.f64_).offset(0x40, g.f64_); // CUs
    b.offset(0x80, g.f64_); // local TUs
    b.u64(0x1111_2222_3333_4444); // foreign TU
    // buckets
    let mut buckets = vec![0u32; bucket_count as usize];
    for (pos, &i) in order.iter().enumerate() {
        let bk = (djb(names[i].0) % bucket_count) as usize;
        if buckets[bk] == 0 {
            buckets[bk] = pos as u32 + 1;
        }
    }
    for v in buckets {
        b.u32(v);
    }
    for &i in &order {
        b.u32(djb(names[i].0));
    }
    for &i in &order {
        b.offset(names[i].1, g.f64_);
    }
    for &o in &entry_offsets {
        b.offset(o, g.f64_);
    }
    b.append(&abbrevs).append(&pool);
    let mut out = e(g);
    out.with_length(g.f64_, &b);
    s.names = out.buf;
    s.str_ = strs;
    s
}

/// Ill-formed .debug_cu_index whose hash table has no unused slot although unit_count <
/// slot_count (2 slots, both occupied, unit_count 1): a probe for an absent id never meets
/// an empty slot, so `UnitIndex::find` must bound its probe sequence itself.
pub fn seed_index_full(g: G, v2: bool) -> SecSet {
    let mut s = SecSet::default();
    let mut b = e(g);
    if v2 {
        b.u32(2);
    } else {
        b.u16(5).u16(0);
    }
    b.u32(1).u32(1).u32(2);
    for id in [0x0102_0304_0506_0702u64, 0x0102_0304_0506_0703] {
        b.u64(id);
    }
    for idx in [1u32, 1] {
        b.u32(idx);
    }
    b.u32(1);
    b.u32(0);
    b.u32(0x40);
    s.cu_index = b.buf.clone();
    s.tu_index = b.buf;
    s
}

/// .debug_cu_index v5 (and v2 layout when `v2`), 4 slots, 2 units, 3 section kinds.
pub fn seed_index(g: G, v2: bool) -> SecSet {
    let mut s = SecSet::default();
    let mut b = e(g);
    if v2 {
        b.u32(2);
    } else {
        b.u16(5).u16(0);
    }
    b.u32(3).u32(2).u32(4);
    // hash table: ids with low bits 1 and 2
    let ids = [0u64, 0x0102_0304_0506_0701, 0x0102_0304_0506_0702, 0];
    for id in ids {
        b.u64(id);
    }
    for idx in [0u32, 1, 2, 0] {
        b.u32(idx);
    }
    // section ids: info(1), abbrev(3), line(4)
    for k in [1u32, 3, 4] {
        b.u32(k);
    }
    for row in 0..2u32 {
        for c in 0..3u32 {
            b.u32(row * 0x40 + c);
        }
    }
    for _row in 0..2u32 {
        for c in 0..3u32 {
            b.u32(0x40 + c);
        }
    }
    s.cu_index = b.buf.clone();
    s.tu_index = b.buf;
    // contributions: a tiny dwo unit so find_cu can succeed
    let d = seed_info_v4(g);
    s.abbrev = d.abbrev;
    s.info = d.info;
    s.str_ = d.str_;
    s.line = d.line;
    s
}

fn cfa_program(g: G, x: &mut Enc) {
    x.u8(0x0c).uleb(7).uleb(8); // def_cfa r7, 8
    x.u8(0x80 | 16).uleb(1); // offset r16, 1
    x.u8(0x41); // advance_loc 1
    x.u8(0x0e).uleb(16); // def_cfa_offset 16
    x.u8(0x0a); // remember_state
    x.u8(0x02).u8(4); // advance_loc1
    x.u8(0x07).uleb(3); // undefined r3
    x.u8(0x08).uleb(3); // same_value
    x.u8(0x09).uleb(3).uleb(4); // register
    x.u8(0x0b); // restore_state
    x.u8(0x03).u16(4); // advance_loc2
    x.u8(0xc0 | 16); // restore r16
    x.u8(0x05).uleb(17).uleb(2); // offset_extended
    x.u8(0x06).uleb(17); // restore_extended
    x.u8(0x0d).uleb(6); // def_cfa_register
    x.u8(0x11).uleb(5).sleb(-2); // offset_extended_sf
    x.u8(0x12).uleb(7).sleb(2); // def_cfa_sf
    x.u8(0x13).sleb(-1); // def_cfa_offset_sf
    x.u8(0x14).uleb(5).uleb(2); // val_offset
    x.u8(0x15).uleb(5).sleb(-2); // val_offset_sf
    x.u8(0x04).u32(4); // advance_loc4
    x.u8(0x10).uleb(4).uleb(2).bytes(&[0x77, 0x08]); // expression r4
    x.u8(0x16).uleb(4).uleb(1).bytes(&[0x50]); // val_expression
    x.u8(0x0f).uleb(2).bytes(&[0x77, 0x00]); // def_cfa_expression
    x.u8(0x2e).uleb(8); // GNU_args_size
    x.u8(0x2d); // AARCH64 negate_ra_state / GNU window save
    let _ = g;
}

pub fn seed_debug_frame(g: G, version: u8) -> SecSet {
    seed_debug_frame_aug(g, version, false)
}

/// `zr`: the CIE carries a "zR" augmentation with DW_EH_PE_udata4 (unusual in .debug_frame, but
/// parsed the same way as in .eh_frame): FDE addresses then use a fixed-size encoding and do
/// not go through `read_address`, which would otherwise validate the CIE's address size.
pub fn seed_debug_frame_aug(g: G, version: u8, zr: bool) -> SecSet {
    let mut s = SecSet::default();
    let mut out = e(g);
    let mut cie = e(g);
    if g.f64_ {
        cie.u64(u64::MAX);
    } else {
        cie.u32(u32::MAX);
    }
    cie.u8(version);
    if zr {
        cie.bytes(b"zR");
    }
    cie.u8(0);
    if version >= 4 {
        cie.u8(g.asz).u8(0);
    }
    cie.uleb(1).sleb(-8);
    if version == 1 {
        cie.u8(16);
    } else {
        cie.uleb(16);
    }
    if zr {
        cie.uleb(1).u8(0x03);
    }
    cie.u8(0x0c).uleb(7).uleb(8).u8(0x80 | 16).uleb(1);
    while (cie.buf.len() + if g.f64_ { 12 } else { 4 }) % g.asz.max(4) as usize != 0 {
        cie.buf.push(0);
    }
    out.with_length(g.f64_, &cie);
    for k in 0..2u64 {
        let mut fde = e(g);
        if zr {
            fde.offset(0, g.f64_).u32(0x1000 + k as u32 * 0x100).u32(0x40).uleb(0);
        } else {
            fde.offset(0, g.f64_).addr(0x1000 + k * 0x100, g.asz).addr(0x40, g.asz);
        }
        cfa_program(g, &mut fde);
        while (fde.buf.len() + if g.f64_ { 12 } else { 4 }) % g.asz.max(4) as usize != 0 {
            fde.buf.push(0);
        }
        out.with_length(g.f64_, &fde);
    }
    // zero-length entry (skipped in .debug_frame)
    out.u32(0);
    s.debug_frame = out.buf;
    s
}

pub fn seed_eh_frame(g: G, aug: u8) -> SecSet {
    let mut s = SecSet::default();
    let mut out = e(g);
    let mut cie = e(g);
    cie.u32(0);
    cie.u8(1);
    match aug {
        0 => {
            cie.cstr(b"");
        }
        1 => {
            cie.cstr(b"zR");
        }
        _ => {
            cie.cstr(b"zPLRS");
        }
    }
    cie.uleb(1).sleb(-8).u8(16);
    match aug {
        0 => {}
        1 => {
            cie.uleb(1).u8(0x1b); // pcrel|sdata4
        }
        _ => {
            let mut a = e(g);
            a.u8(0x03).u32(0x4000); // personality: udata4
            a.u8(0x0b); // lsda: sdata4
            a.u8(0x03); // fde: udata4
            cie.uleb(a.buf.len() as u64).append(&a);
        }
    }
    cie.u8(0x0c).uleb(7).uleb(8).u8(0x80 | 16).uleb(1);
    while (cie.buf.len() + 4) % 4 != 0 {
        cie.buf.push(0);
    }
    let cie_off = out.buf.len();
    out.with_length(g.f64_, &cie);
    for k in 0..2u64 {
        let mut fde = e(g);
        let id_pos = out.buf.len() + if g.f64_ { 12 } else { 4 };
        fde.u32((id_pos - cie_off) as u32);
        match aug {
            0 => {
                fde.addr(0x1000 + k * 0x100, g.asz).addr(0x40, g.asz);
            }
            1 => {
                let here = id_pos + 4;
                fde.u32((0x1000 + k * 0x100).wrapping_sub(here as u64) as u32).u32(0x40);
                fde.uleb(0);
            }
            _ => {
                fde.u32((0x1000 + k * 0x100) as u32).u32(0x40);
                fde.uleb(4).u32(0x5000);
            }
        }
        cfa_program(g, &mut fde);
        while (fde.buf.len() + 4) % 4 != 0 {
            fde.buf.push(0);
        }
        out.with_length(g.f64_, &fde);
    }
    out.u32(0);
    s.eh_frame = out.buf;
    // hdr: version 1, eh_frame_ptr udata4 absolute, count udata4, table sdata4|datarel
    let mut h = e(g);
    h.u8(1).u8(0x03).u8(0x03).u8(0x3b);
    h.u32(0x200).u32(2);
    let cie_total = if g.f64_ { 12 } else { 4 } + cie.buf.len();
    let first_fde = cie_total as u64;
    h.u32((0x1000u64.wrapping_sub(0x100)) as u32).u32((0x200 + first_fde).wrapping_sub(0x100) as u32);
    h.u32((0x1100u64.wrapping_sub(0x100)) as u32).u32((0x200 + first_fde + 0x40).wrapping_sub(0x100) as u32);
    s.eh_frame_hdr = h.buf;
    s
}

pub fn seed_expr(g: G, rich: bool) -> SecSet {
    let mut s = SecSet::default();
    s.expr = if rich { expr_rich(g) } else { expr_bytes(g) };
    s
}

pub struct SeedDef {
    pub name: &'static str,
    /// index (into SECTION_NAMES) of the primary section: the one that fault
    /// plans and short-string replacement target
    pub primary: usize,
    pub gen: fn(G) -> SecSet,
}

pub fn seeds() -> Vec<SeedDef> {
    vec![
        SeedDef { name: "info-v4", primary: 1, gen: seed_info_v4 },
        SeedDef { name: "info-v5", primary: 1, gen: seed_info_v5 },
        SeedDef { name: "info-misc", primary: 1, gen: seed_info_misc },
        SeedDef { name: "abbrev-v4", primary: 0, gen: seed_info_v4 },
        SeedDef { name: "abbrev-v5", primary: 0, gen: seed_info_v5 },
        SeedDef { name: "types", primary: 2, gen: seed_types },
        SeedDef { name: "line-v4", primary: 5, gen: seed_line_v4 },
        SeedDef { name: "line-v2", primary: 5, gen: |g| seed_line_legacy(g, 2) },
        SeedDef { name: "line-v3", primary: 5, gen: |g| seed_line_legacy(g, 3) },
        SeedDef { name: "line-v5", primary: 5, gen: seed_line_v5 },
        SeedDef { name: "aranges", primary: 14, gen: seed_aranges },
        SeedDef { name: "addr", primary: 7, gen: seed_addr },
        SeedDef { name: "str_offsets", primary: 4, gen: seed_str_offsets },
        SeedDef { name: "ranges", primary: 8, gen: seed_ranges_legacy },
        SeedDef { name: "loc", primary: 10, gen: seed_loc_legacy },
        SeedDef { name: "loc-dwo", primary: 10, gen: seed_loc_dwo },
        SeedDef { name: "rnglists", primary: 9, gen: seed_rnglists },
        SeedDef { name: "loclists", primary: 11, gen: seed_loclists },
        SeedDef { name: "macinfo", primary: 12, gen: seed_macinfo },
        SeedDef { name: "macro", primary: 13, gen: seed_macro },
        SeedDef { name: "pubnames", primary: 16, gen: seed_pubnames },
        SeedDef { name: "names", primary: 15, gen: seed_names },
        SeedDef { name: "cu_index-v5", primary: 17, gen: |g| seed_index(g, false) },
        SeedDef { name: "cu_index-v2", primary: 17, gen: |g| seed_index(g, true) },
        SeedDef { name: "cu_index-v5-full-table", primary: 17, gen: |g| seed_index_full(g, false) },
        SeedDef { name: "cu_index-v2-full-table", primary: 17, gen: |g| seed_index_full(g, true) },
        SeedDef { name: "info-v4-second-unit", primary: 1, gen: |g| seed_info_v4_second(g) },
        SeedDef { name: "debug_frame-v1", primary: 19, gen: |g| seed_debug_frame(g, 1) },
        SeedDef { name: "debug_frame-v4", primary: 19, gen: |g| seed_debug_frame(g, 4) },
        SeedDef { name: "debug_frame-v4-zR", primary: 19, gen: |g| seed_debug_frame_aug(g, 4, true) },
        SeedDef { name: "eh_frame-plain", primary: 20, gen: |g| seed_eh_frame(g, 0) },
        SeedDef { name: "eh_frame-zR", primary: 20, gen: |g| seed_eh_frame(g, 1) },
        SeedDef { name: "eh_frame-zPLRS", primary: 20, gen: |g| seed_eh_frame(g, 2) },
        SeedDef { name: "eh_frame_hdr", primary: 21, gen: |g| seed_eh_frame(g, 2) },
        SeedDef { name: "expr", primary: 22, gen: |g| seed_expr(g, false) },
        SeedDef { name: "expr-rich", primary: 22, gen: |g| seed_expr(g, true) },
    ]
}
