//! Exhaustive short strings, opcode sweeps, splices, answer enumeration and
//! depth/length stressors for C01.
use crate::drivers::Cfg;
use crate::seeds::{self, SecSet, G};
use crate::{run_case, Plan, Sz};
use mcx::enc::Enc;
use mcx::space::Mix;
use mcx::{Sub, Tier};

/// Section kinds that short strings are fed to (index into SECTION_NAMES),
/// with the seed that provides companion sections.
fn short_targets() -> Vec<(usize, fn(G) -> SecSet)> {
    vec![
        (0, seeds::seed_info_v4),
        (1, seeds::seed_info_v4),
        (2, seeds::seed_types),
        (3, seeds::seed_str_offsets),
        (4, seeds::seed_str_offsets),
        (5, seeds::seed_line_v4),
        (7, seeds::seed_addr),
        (8, seeds::seed_ranges_legacy),
        (9, seeds::seed_rnglists),
        (10, seeds::seed_loc_legacy),
        (11, seeds::seed_loclists),
        (12, seeds::seed_macinfo),
        (13, seeds::seed_macro),
        (14, seeds::seed_aranges),
        (15, seeds::seed_names),
        (16, seeds::seed_pubnames),
        (17, |g| seeds::seed_index(g, false)),
        (19, |g| seeds::seed_debug_frame(g, 4)),
        (20, |g| seeds::seed_eh_frame(g, 1)),
        (21, |g| seeds::seed_eh_frame(g, 1)),
        (22, |g| seeds::seed_expr(g, false)),
    ]
}

fn cfg_grid(full: bool) -> Vec<Cfg> {
    let mut v = vec![];
    for big in [false, true] {
        for asz in [1u8, 2, 4, 8] {
            for f64_ in [false, true] {
                for version in [2u16, 3, 4, 5] {
                    v.push(Cfg { big, address_size: asz, format64: f64_, version, aarch64: version == 3 });
                }
            }
        }
    }
    if full {
        return v;
    }
    // covering subset: each value of each axis, and asz x version fully
    let mut out = vec![];
    for (i, asz) in [1u8, 2, 4, 8].iter().enumerate() {
        for (j, version) in [2u16, 3, 4, 5].iter().enumerate() {
            out.push(Cfg { big: (i + j) % 2 == 1, address_size: *asz, format64: (i + j / 2) % 2 == 1, version: *version, aarch64: j == 1 });
        }
    }
    out
}

const REDUCED: [u8; 12] = [0x00, 0x01, 0x02, 0x03, 0x04, 0x05, 0x08, 0x7f, 0x80, 0x81, 0xfe, 0xff];

/// LEB / fixed operand byte patterns for opcode sweeps.
fn operand_patterns() -> Vec<Vec<u8>> {
    vec![
        vec![],
        vec![0x00],
        vec![0x01],
        vec![0x7f],
        vec![0xff, 0x01],
        vec![0x80, 0x80, 0x80, 0x80, 0x08],                                     // 2^31
        vec![0xff, 0xff, 0xff, 0xff, 0x0f],                                     // 2^32-1
        vec![0x80, 0x80, 0x80, 0x80, 0x80, 0x80, 0x80, 0x80, 0x20],             // 2^61
        vec![0x80, 0x80, 0x80, 0x80, 0x80, 0x80, 0x80, 0x80, 0x80, 0x01],       // 2^63
        vec![0xff, 0xff, 0xff, 0xff, 0xff, 0xff, 0xff, 0xff, 0xff, 0x01],       // 2^64-1
        vec![0x80, 0x80, 0x80, 0x80, 0x80, 0x80, 0x80, 0x80, 0x80, 0x7f],       // i64::MIN
        vec![0x80, 0x80, 0x80, 0x80, 0x80, 0x80, 0x80, 0x80, 0x80, 0x80, 0x00], // over-long
        vec![0xff, 0xff, 0xff, 0xff, 0xff, 0xff, 0xff, 0xff],                   // fixed-width all ones
    ]
}

pub fn add_subs(subs: &mut Vec<Sub>, sz: Sz) {
    let tier = sz.tier;
    // --- exhaustive short strings as each section kind
    {
        let targets = short_targets();
        let nt = targets.len() as u64;
        let maxlen = 2usize;
        let cfgs: Vec<Cfg> = cfg_grid(false).into_iter().skip(sz.pick(5, 0, 0)).step_by(sz.pick(16, 2, 1)).collect();
        let nc = cfgs.len() as u64;
        subs.push(
            Sub::new(&sz.tag(&format!("short-strings-len<={}", maxlen)), nt * 257 * nc, &format!("every byte string of the stated length as each of 21 section kinds (companion sections: a valid seed), under {} configuration(s) out of a 16-element set covering {{LE,BE}} x address size {{1,2,4,8}} x {{32,64}} x version {{2..5}} x vendor; index = (kind, config, first byte | empty)", nc), move |ctx, i| {
                let mut m = Mix(i);
                let b0 = m.take(257);
                let cfg = *m.pick(&cfgs);
                let (primary, gen) = targets[m.take(nt) as usize];
                let g = G { big: cfg.big, f64_: cfg.format64, asz: cfg.address_size.max(4) };
                let mut ss = gen(g);
                let mut run = |ctx: &mut mcx::Ctx, s: &[u8]| {
                    *ss.get_mut(primary) = s.to_vec();
                    let ssr = &ss;
                    run_case(ctx, &|| format!("{} = {}", seeds::SECTION_NAMES[primary], mcx::hex(s)), ssr, primary, cfg, Plan::Slice, 0);
                };
                if b0 == 256 {
                    run(ctx, &[]);
                    return;
                }
                run(ctx, &[b0 as u8]);
                if maxlen >= 2 {
                    for b1 in 0..=255u8 {
                        run(ctx, &[b0 as u8, b1]);
                    }
                }
                if ctx.want_sample() {
                    ctx.sample(format!("all strings of length <= {} starting {:02x} as {} under {:?}", maxlen, b0, seeds::SECTION_NAMES[primary], cfg));
                }
            })
            .flavours(sz.fl()),
        );
        // thorough: length 3, release flavour only (65K strings per case)
        if sz.level == 2 {
            let targets = short_targets();
            let cfgs = cfg_grid(false);
            let cfgs3: Vec<Cfg> = vec![cfgs[5], cfgs[10], cfgs[15], cfgs[0]];
            let nc3 = cfgs3.len() as u64;
            subs.push(
                Sub::new("short-strings-len3", nt * 256 * nc3, "every byte string of length exactly 3 as each of 21 section kinds under 4 configurations (release flavour: 1.4e9 driver runs would not finish at opt-level 0)", move |ctx, i| {
                    let mut m = Mix(i);
                    let b0 = m.take(256) as u8;
                    let cfg = *m.pick(&cfgs3);
                    let (primary, gen) = targets[m.take(nt) as usize];
                    let g = G { big: cfg.big, f64_: cfg.format64, asz: cfg.address_size.max(4) };
                    let mut ss = gen(g);
                    for b1 in 0..=255u8 {
                        for b2 in 0..=255u8 {
                            let s = [b0, b1, b2];
                            *ss.get_mut(primary) = s.to_vec();
                            run_case(ctx, &|| format!("{} = {}", seeds::SECTION_NAMES[primary], mcx::hex(&s)), &ss, primary, cfg, Plan::Slice, 0);
                        }
                    }
                })
                .flavours(sz.fl())
                .timeout(600),
            );
        }
    }

    // --- reduced-alphabet strings
    {
        let targets = short_targets();
        let nt = targets.len() as u64;
        let (lo, hi) = sz.pick((3u32, 3u32), (3u32, 4u32), (3u32, 6u32));
        let na = REDUCED.len() as u64;
        let inner = 2u32; // the last two symbols are looped inside a case
        let outer = mcx::space::seq_count(na, lo - inner, hi - inner);
        let cfgs = cfg_grid(false);
        let cfgs2: Vec<Cfg> = vec![cfgs[10], cfgs[5]];
        subs.push(
            Sub::new(&sz.tag(&format!("reduced-alphabet-len{}..{}", lo, hi)), nt * outer * 2, "every string of the stated lengths over the 12-byte alphabet {00,01,02,03,04,05,08,7f,80,81,fe,ff} as each of 21 section kinds under 2 configurations", move |ctx, i| {
                let mut m = Mix(i);
                let cfg = *m.pick(&cfgs2);
                let (primary, gen) = targets[m.take(nt) as usize];
                let pre = mcx::space::seq_decode(na, lo - inner, hi - inner, m.0);
                let g = G { big: cfg.big, f64_: cfg.format64, asz: cfg.address_size.max(4) };
                let mut ss = gen(g);
                let mut s: Vec<u8> = pre.iter().map(|&k| REDUCED[k]).collect();
                let base = s.len();
                s.extend([0, 0]);
                for a in REDUCED {
                    for b in REDUCED {
                        s[base] = a;
                        s[base + 1] = b;
                        *ss.get_mut(primary) = s.clone();
                        run_case(ctx, &|| format!("{} = {}", seeds::SECTION_NAMES[primary], mcx::hex(&s)), &ss, primary, cfg, Plan::Slice, 0);
                    }
                }
            })
            .flavours(sz.fl()),
        );
    }

    // --- opcode sweeps: every opcode byte x operand patterns, for expressions, line programs and CFI
    {
        let pats = operand_patterns();
        let np = pats.len() as u64;
        let cfgs: Vec<Cfg> = cfg_grid(sz.level == 2).into_iter().skip(sz.pick(10, 0, 0)).step_by(sz.pick(16, 2, 1)).collect();
        let nc = cfgs.len() as u64;
        // second-operand patterns: all 13, or a 5-element subset in the smallest tier
        let pb_idx: Vec<usize> = sz.pick(vec![0, 9, 10], (0..13).collect(), (0..13).collect());
        subs.push(
            Sub::new(&sz.tag("opcode-sweep"), 3 * 256 * np * nc, &format!("{} configuration(s), {} second-operand patterns: every opcode byte 0x00-0xff followed by operand pattern a (13 patterns: empty, small, 2^31, 2^32-1, 2^61, 2^63, 2^64-1, i64::MIN, over-long, all-ones) and then each pattern b, as (0) an expression, (1) a line-program body after a valid header (also as extended opcode), (2) CFI instructions of an FDE", nc, pb_idx.len()), move |ctx, i| {
                let mut m = Mix(i);
                let cfg = *m.pick(&cfgs);
                let pa = &pats[m.take(np) as usize];
                let op = m.take(256) as u8;
                let host = m.take(3);
                let g = G { big: cfg.big, f64_: cfg.format64, asz: cfg.address_size.max(4) };
                for &pbi in &pb_idx {
                    let pb = &pats[pbi];
                    let mut body = vec![op];
                    body.extend_from_slice(pa);
                    body.extend_from_slice(pb);
                    body.extend_from_slice(&[0, 1, 0]);
                    match host {
                        0 => {
                            let mut ss = SecSet::default();
                            ss.expr = body.clone();
                            for choice in [0u64, 1, 5] {
                                run_case(ctx, &|| format!("expr = {}", mcx::hex(&body)), &ss, 22, cfg, Plan::Slice, choice);
                            }
                        }
                        1 => {
                            let ss = line_with_body(g, &body, op);
                            run_case(ctx, &|| format!("line body = {}", mcx::hex(&body)), &ss, 5, cfg, Plan::Slice, 0);
                        }
                        _ => {
                            let ss = frame_with_body(g, &body);
                            run_case(ctx, &|| format!("fde instructions = {}", mcx::hex(&body)), &ss, 19, cfg, Plan::Slice, 0);
                            let ss = eh_frame_with_body(g, &body);
                            run_case(ctx, &|| format!("eh fde instructions = {}", mcx::hex(&body)), &ss, 20, cfg, Plan::Slice, 0);
                        }
                    }
                }
                if ctx.want_sample() {
                    ctx.sample(format!("host {} opcode {:02x} operands {} + each pattern, {:?}", host, op, mcx::hex(pa), cfg));
                }
            })
            .flavours(sz.fl()),
        );
    }

    // --- splices of seeds of the same kind
    {
        let sd = seeds::seeds();
        let mut pairs: Vec<(usize, usize)> = vec![];
        for (a, sa) in sd.iter().enumerate() {
            for (b, sb) in sd.iter().enumerate() {
                if sa.primary == sb.primary {
                    pairs.push((a, b));
                }
            }
        }
        let g = G { big: false, f64_: false, asz: 8 };
        let mut offs = vec![];
        let mut total = 0u64;
        for &(a, b) in &pairs {
            let la = (sd[a].gen)(g).get(sd[a].primary).len() as u64;
            offs.push((a, b, total, la));
            total += la + 1;
        }
        subs.push(
            Sub::new(&sz.tag("splices"), total, "for every ordered pair of seeds of the same section kind (incl. a seed with itself): prefix A[..i] + suffix B[j..] for every i and j in {i-2..=i+2, 0, len/2}", move |ctx, idx| {
                let pos = offs.partition_point(|o| o.2 <= idx) - 1;
                let (a, b, start, _) = offs[pos];
                let i = (idx - start) as usize;
                let sd = seeds::seeds();
                let sa = (sd[a].gen)(g);
                let sb = (sd[b].gen)(g);
                let pa = sa.get(sd[a].primary).clone();
                let pb = sb.get(sd[b].primary).clone();
                let mut js: Vec<usize> = vec![0, pb.len() / 2];
                for d in 0..5usize {
                    if let Some(j) = (i + d).checked_sub(2) {
                        js.push(j);
                    }
                }
                js.retain(|&j| j <= pb.len());
                js.sort();
                js.dedup();
                for j in js {
                    let mut ss = sa.clone();
                    let mut sp = pa[..i].to_vec();
                    sp.extend_from_slice(&pb[j..]);
                    *ss.get_mut(sd[a].primary) = sp;
                    let cfg = Cfg { big: false, address_size: 8, format64: false, version: 4, aarch64: false };
                    let (na, nb) = (sd[a].name, sd[b].name);
                    run_case(ctx, &|| format!("splice {}[..{}] + {}[{}..]", na, i, nb, j), &ss, sd[a].primary, cfg, Plan::Slice, 0);
                }
            })
            .flavours(sz.fl()),
        );
    }

    // --- expression evaluation: every answer sequence
    {
        let depth = sz.pick(2u32, 2, 3);
        let progs = eval_programs();
        let nprog = progs.len() as u64;
        let nseq = crate::drivers::EVAL_CHOICES.pow(depth);
        subs.push(
            Sub::new(&sz.tag("eval-answers"), nprog * nseq * 2, "each of the suspending programs (every Requires* kind, nested calls, loops, entry values) resumed with every answer sequence of the stated depth over a 12-answer alphabet (all ValueTypes incl. NaN, 0/max, empty/self/tail at_location bytecode and four callee expressions living in buffers of their own: with a forward branch, a conditional branch, a backward loop, a register location followed by more operations), address sizes 4 and 8, max_iterations 64", move |ctx, i| {
                let mut m = Mix(i);
                let a8 = m.flag();
                let choice = m.take(nseq);
                let prog = &progs[m.0 as usize];
                let mut ss = SecSet::default();
                ss.expr = prog.clone();
                let cfg = Cfg { big: false, address_size: if a8 { 8 } else { 4 }, format64: false, version: 5, aarch64: false };
                run_case(ctx, &|| format!("expr = {}", mcx::hex(prog)), &ss, 22, cfg, Plan::Slice, choice);
                if ctx.want_sample() {
                    ctx.sample(format!("program {} answers(base-12) {}", mcx::hex(prog), choice));
                }
            })
            .flavours(sz.fl()),
        );
    }

    // --- DWARF 5 line header entry formats: every form code (also forms the line parser does not
    // list and forms whose encoding is zero bytes wide) with entry counts far beyond the input
    // size: the header parse must be bounded by the input, whatever the form
    {
        let mut forms: Vec<u64> = (0..=0x30u64).collect();
        forms.extend_from_slice(&[0x1f01, 0x1f02, 0x1f20, 0x1f21, 0x7f, 0x80, 0xffff]);
        let counts: [u64; 4] = [1 << 20, 1 << 32, 1 << 40, u64::MAX];
        let nf = forms.len() as u64;
        subs.push(
            Sub::new(&sz.tag("line-v5-entry-format-forms"), nf * 4 * 2 * 2, "version 5 line header whose directory (or file) entry format is the single pair (DW_LNCT_path, form) for every form code 0..=0x30, the GNU forms and three unassigned codes, with an entry count of 2^20, 2^32, 2^40 or 2^64-1 and no entry bytes behind it, x byte order: parse, header accessors, rows", move |ctx, i| {
                let mut m = Mix(i);
                let big = m.flag();
                let files = m.flag();
                let count = counts[m.take(4) as usize];
                let form = forms[m.0 as usize];
                let table = |e: &mut Enc, form: u64, count: u64, entry: &[u8]| {
                    e.u8(1);
                    e.uleb(1).uleb(form);
                    e.uleb(count);
                    e.bytes(entry);
                };
                let mut rest = Enc::new(big);
                rest.u8(1).u8(1).u8(1).u8((-5i8) as u8).u8(14).u8(13);
                for l in [0u8, 1, 1, 1, 1, 0, 0, 0, 1, 0, 0, 1] {
                    rest.u8(l);
                }
                if files {
                    table(&mut rest, 0x08, 1, b"/d\0");
                    table(&mut rest, form, count, b"");
                } else {
                    table(&mut rest, form, count, b"");
                    table(&mut rest, 0x08, 1, b"a\0");
                }
                let mut unit = Enc::new(big);
                unit.u16(5).u8(8).u8(0);
                unit.u32(rest.buf.len() as u32);
                unit.bytes(&rest.buf);
                unit.bytes(&[0, 1, 1]);
                let mut out = Enc::new(big);
                out.with_length(false, &unit);
                let mut ss = SecSet::default();
                ss.line = out.buf;
                let cfg = Cfg { big, address_size: 8, format64: false, version: 5, aarch64: false };
                if ctx.want_sample() {
                    ctx.sample(format!("form {:#x} count {} in the {} table: {}", form, count, if files { "file" } else { "directory" }, mcx::hex(&ss.line)));
                }
                run_case(ctx, &|| format!("v5 line header, {} entry format (path, form {:#x}), count {}", if files { "file" } else { "directory" }, form, count), &ss, 5, cfg, Plan::Slice, 0);
            })
            .flavours(sz.fl())
            .timeout(60),
        );
    }

    // --- form sweep: every form code as the form of a DIE attribute (one-attribute abbreviation)
    // and as an operand form of a vendor macro opcode, with payloads that are empty, short,
    // all-ones and all-continuation
    {
        let mut forms: Vec<u64> = (0..=0x30u64).collect();
        forms.extend_from_slice(&[0x1f01, 0x1f02, 0x1f20, 0x1f21, 0x7f, 0x80, 0xffff]);
        let payloads: Vec<Vec<u8>> = vec![vec![], vec![0x00], vec![0x01, 0x41, 0x00], vec![0xff; 12], vec![0x80; 12], vec![0x7f; 3]];
        let nf = forms.len() as u64;
        let np = payloads.len() as u64;
        subs.push(
            Sub::new(&sz.tag("form-sweep"), nf * np * 3 * 2 * 2, "every form code 0..=0x30, the GNU forms and three unassigned codes, as (a) the form of the only attribute of a DIE (units of version 2, 4, 5) and (b) the only operand form of a vendor opcode declared in a version 5 .debug_macro opcode_operands_table, followed by payload in {empty, 00, 01 41 00, ff x12, 80 x12, 7f x3}, x byte order: all unit / DIE / attribute / macro drivers", move |ctx, i| {
                let mut m = Mix(i);
                let big = m.flag();
                let macro_ = m.flag();
                let version = [2u16, 4, 5][m.take(3) as usize];
                let payload = payloads[m.take(np) as usize].clone();
                let form = forms[m.0 as usize];
                let mut ss = SecSet::default();
                let primary;
                if macro_ {
                    // .debug_macro unit: version 5, flags 0x04 (opcode_operands_table present), table with
                    // one entry: opcode 0xe0, 1 operand of `form`; then an entry with that opcode
                    let mut b = Enc::new(big);
                    b.u16(5).u8(0x04);
                    b.u8(1);
                    b.u8(0xe0).uleb(1);
                    b.uleb(form);
                    b.u8(0xe0);
                    b.bytes(&payload);
                    b.u8(0);
                    ss.macro_ = b.buf;
                    primary = 13;
                } else {
                    let mut a = Enc::new(big);
                    a.uleb(1).uleb(0x11).u8(0).uleb(0x03).uleb(form);
                    if form == 0x21 {
                        a.sleb(5);
                    }
                    a.uleb(0).uleb(0).uleb(0);
                    ss.abbrev = a.buf;
                    let mut body = Enc::new(big);
                    body.u16(version);
                    if version >= 5 {
                        body.u8(1).u8(8).u32(0);
                    } else {
                        body.u32(0).u8(8);
                    }
                    body.uleb(1);
                    body.bytes(&payload);
                    let mut out = Enc::new(big);
                    out.with_length(false, &body);
                    ss.info = out.buf;
                    primary = 1;
                }
                let cfg = Cfg { big, address_size: 8, format64: false, version, aarch64: false };
                if ctx.want_sample() {
                    ctx.sample(format!("form {:#x} in {} payload {}", form, if macro_ { ".debug_macro operand table" } else { "a DIE attribute" }, mcx::hex(&payload)));
                }
                run_case(ctx, &|| format!("form sweep: form {:#x} {} v{} payload {}", form, if macro_ { "macro operand" } else { "DIE attribute" }, version, mcx::hex(&payload)), &ss, primary, cfg, Plan::Slice, 0);
            })
            .flavours(sz.fl()),
        );
    }

    // --- sequences of call frame instructions (state stack / rule storage at capacity)
    {
        // remember_state, restore_state, offset r1, offset r2, def_cfa r7+8, restore r1, undefined r3
        const ALPHA: [&[u8]; 7] = [&[0x0a], &[0x0b], &[0x81, 0x01], &[0x82, 0x02], &[0x0c, 0x07, 0x08], &[0xc1], &[0x07, 0x03]];
        let maxlen = sz.pick(5u32, 5, 6);
        let total = mcx::space::seq_count(7, 0, maxlen);
        subs.push(
            Sub::new(&sz.tag(&format!("cfi-instruction-sequences-len<={}", maxlen)), total, "every sequence of the stated length over {remember_state, restore_state, offset r1, offset r2, def_cfa, restore r1, undefined r3} as the instructions of an FDE and as the initial instructions of a CIE (followed by an FDE that advances and restores the state), in .debug_frame and .eh_frame: all CFI drivers (rows on the heap context of 4 rows and on fixed storage of 1 and 2 rows/rules, unwind_info_for_address, conversion)", move |ctx, i| {
                let seq = mcx::space::seq_decode(7, 0, maxlen, i);
                let mut body = vec![];
                for &k in &seq {
                    body.extend_from_slice(ALPHA[k]);
                }
                let g = G { big: false, f64_: false, asz: 8 };
                let cfg = Cfg { big: false, address_size: 8, format64: false, version: 4, aarch64: false };
                let ss = frame_with_body(g, &body);
                run_case(ctx, &|| format!("cfi instructions = {}", mcx::hex(&body)), &ss, 19, cfg, Plan::Slice, 0);
                let ss = eh_frame_with_body(g, &body);
                run_case(ctx, &|| format!("eh cfi instructions = {}", mcx::hex(&body)), &ss, 20, cfg, Plan::Slice, 0);
                if ctx.want_sample() {
                    ctx.sample(format!("cfi instructions {}", mcx::hex(&body)));
                }
            })
            .flavours(sz.fl()),
        );
    }

    // --- line number program header parameters
    {
        let ranges: Vec<u8> = sz.pick((0..=16u8).chain([127, 128, 129, 254, 255]).collect(), (0..=255u8).collect(), (0..=255u8).collect());
        let nr = ranges.len() as u64;
        // (min_inst, max_ops) pairs for the second half of the space
        let mins = [0u8, 1, 2, 4, 255];
        let maxs = [0u8, 1, 2, 255];
        let part1 = 3 * 256 * nr;
        let part2 = 3 * 5 * 4 * 256;
        subs.push(
            Sub::new(&sz.tag("line-header-parameters"), part1 + part2, &format!("line program seeds of version 2, 4 and 5 with (a) every line_base 0x00..=0xff x line_range in {} values (all 256 in the larger tiers), (b) minimum_instruction_length {{0,1,2,4,255}} x maximum_operations_per_instruction {{0,1,2,255}} x every opcode_base: parse, header accessors, rows, sequences, conversion with and without a unit", nr), move |ctx, i| {
                let g = G { big: false, f64_: false, asz: 8 };
                let (version, patch): (u16, Vec<(usize, u8)>) = if i < part1 {
                    let mut m = Mix(i);
                    let v = [2u16, 4, 5][m.take(3) as usize];
                    let base = m.take(256) as u8;
                    let range = ranges[m.take(nr) as usize];
                    (v, vec![(3, base), (4, range)])
                } else {
                    let mut m = Mix(i - part1);
                    let v = [2u16, 4, 5][m.take(3) as usize];
                    let mi = *m.pick(&mins);
                    let ma = *m.pick(&maxs);
                    let ob = m.take(256) as u8;
                    (v, vec![(0, mi), (1, ma), (5, ob)])
                };
                let mut ss = if version == 5 { seeds::seed_line_v5(g) } else { seeds::seed_line_legacy(g, version) };
                // field k of {min_inst, max_ops, default_is_stmt, line_base, line_range, opcode_base}
                let first = if version == 5 { 12 } else { 10 };
                for (k, val) in patch.iter().copied() {
                    let off = if version < 4 {
                        if k == 1 {
                            continue;
                        }
                        first + k - if k > 1 { 1 } else { 0 }
                    } else {
                        first + k
                    };
                    ss.line[off] = val;
                }
                let cfg = Cfg { big: false, address_size: 8, format64: false, version, aarch64: false };
                run_case(ctx, &|| format!("line header v{} fields {:?}: {}", version, patch, mcx::hex(&ss.line[..ss.line.len().min(40)])), &ss, 5, cfg, Plan::Slice, 0);
                if ctx.want_sample() {
                    ctx.sample(format!("line v{} patched fields {:?}", version, patch));
                }
            })
            .flavours(sz.fl()),
        );
    }

    // --- depth / length stressors: one sub per stressor so that a crash or hang is
    // identified by the stressor's name
    {
        let sizes: Vec<u32> = sz.pick(vec![10, 14, 16], vec![10, 14, 18], vec![10, 14, 18, 22]);
        for (k, f) in STRESSORS.iter().enumerate() {
            let (name, _, _) = f(4);
            let sizes = sizes.clone();
            subs.push(
                Sub::new(&sz.tag(&format!("stress:{}", name)), sizes.len() as u64, &format!("deterministic depth/length stressor with n = 2^k, k in {:?}", sizes), move |ctx, i| {
                    let n = 1usize << sizes[i as usize];
                    let (name, primary, ss) = STRESSORS[k](n);
                    let cfg = Cfg { big: false, address_size: 8, format64: false, version: 5, aarch64: false };
                    if ctx.want_sample() {
                        ctx.sample(format!("stressor {} n={} ({} input bytes)", name, n, ss.total()));
                    }
                    run_case(ctx, &|| format!("stressor {} n={}", name, n), &ss, primary, cfg, Plan::Slice, 0);
                    ctx.outcome("panic-free-stressor");
                })
                .flavours(sz.fl())
                .timeout(300),
            );
        }
    }
}

fn line_with_body(g: G, body: &[u8], op: u8) -> SecSet {
    let mut s = SecSet::default();
    let mut hdr = Enc::new(g.big);
    hdr.u8(1).u8(1).u8(1).u8((-5i8) as u8).u8(14).u8(13);
    for l in [0u8, 1, 1, 1, 1, 0, 0, 0, 1, 0, 0, 1] {
        hdr.u8(l);
    }
    hdr.u8(0);
    hdr.cstr(b"a.c").uleb(0).uleb(0).uleb(0);
    hdr.u8(0);
    let mut rest = Enc::new(g.big);
    rest.u16(4);
    rest.offset(hdr.buf.len() as u64, g.f64_);
    rest.append(&hdr);
    // standard/special form
    rest.bytes(body);
    // extended form: 00 len op operands
    rest.u8(0).uleb(body.len() as u64).bytes(body);
    // extended with a short length
    rest.u8(0).uleb(1).u8(op);
    rest.u8(0).uleb(1).u8(1);
    let mut out = Enc::new(g.big);
    out.with_length(g.f64_, &rest);
    s.line = out.buf;
    s
}

fn frame_with_body(g: G, body: &[u8]) -> SecSet {
    let mut s = SecSet::default();
    let mut out = Enc::new(g.big);
    let mut cie = Enc::new(g.big);
    if g.f64_ {
        cie.u64(u64::MAX);
    } else {
        cie.u32(u32::MAX);
    }
    cie.u8(4).u8(0).u8(g.asz).u8(0).uleb(1).sleb(-8).uleb(16);
    cie.u8(0x0c).uleb(7).uleb(8);
    out.with_length(g.f64_, &cie);
    let mut fde = Enc::new(g.big);
    fde.offset(0, g.f64_).addr(0x1000, g.asz).addr(0x40, g.asz);
    fde.bytes(body);
    out.with_length(g.f64_, &fde);
    // a second CIE whose initial instructions are the body
    let cie2_off = out.buf.len() as u64;
    let mut cie2 = Enc::new(g.big);
    if g.f64_ {
        cie2.u64(u64::MAX);
    } else {
        cie2.u32(u32::MAX);
    }
    cie2.u8(3).u8(0).uleb(4).sleb(4).uleb(16);
    cie2.bytes(body);
    out.with_length(g.f64_, &cie2);
    let mut fde2 = Enc::new(g.big);
    fde2.offset(cie2_off, g.f64_).addr(0x2000, g.asz).addr(0x40, g.asz);
    fde2.u8(0x41).u8(0x0b);
    out.with_length(g.f64_, &fde2);
    s.debug_frame = out.buf;
    s
}

fn eh_frame_with_body(g: G, body: &[u8]) -> SecSet {
    let mut s = SecSet::default();
    let mut out = Enc::new(g.big);
    let mut cie = Enc::new(g.big);
    cie.u32(0).u8(1).cstr(b"zR").uleb(1).sleb(-8).u8(16).uleb(1).u8(0x03);
    cie.u8(0x0c).uleb(7).uleb(8);
    out.with_length(false, &cie);
    let mut fde = Enc::new(g.big);
    let id_pos = out.buf.len() + 4;
    fde.u32(id_pos as u32).u32(0x1000).u32(0x40).uleb(0);
    fde.bytes(body);
    out.with_length(false, &fde);
    out.u32(0);
    s.eh_frame = out.buf;
    s
}

/// Programs that suspend: one per Requires* kind plus combinations.
fn eval_programs() -> Vec<Vec<u8>> {
    let mut v: Vec<Vec<u8>> = vec![
        vec![0x50, 0x93, 0x04],                         // reg0 piece 4
        vec![0x70, 0x01, 0x06],                         // breg0 +1 ; deref
        vec![0x70, 0x01, 0x94, 0x01, 0x22],             // deref_size ; plus (underflow or type mismatch)
        vec![0x91, 0x7f, 0x9c, 0x22],                   // fbreg ; call_frame_cfa ; plus
        vec![0x9b],                                     // form_tls_address (needs a value)
        vec![0x31, 0x9b],                               // lit1 form_tls_address
        vec![0x98, 0x10, 0x00, 0x98, 0x10, 0x00],       // call2 ; call2
        vec![0x99, 0x10, 0x00, 0x00, 0x00, 0x12, 0x2f, 0xf9, 0xff], // call4 ; dup ; skip -7 (loop)
        vec![0x9a, 0x10, 0x00, 0x00, 0x00],             // call_ref
        vec![0xa3, 0x01, 0x50, 0x12, 0x1e],             // entry_value(reg0) dup mul
        vec![0xa3, 0x03, 0xa3, 0x01, 0x50],             // nested entry_value
        vec![0xfa, 0x10, 0x00, 0x00, 0x00],             // GNU_parameter_ref
        vec![0x03, 0, 0x10, 0, 0, 0, 0, 0, 0],          // addr (size 8; size 4 reads fewer)
        vec![0xa1, 0x01, 0xa2, 0x02, 0x22],             // addrx ; constx ; plus
        vec![0xa4, 0x10, 0x01, 0x05, 0xa8, 0x00],       // const_type ; convert 0
        vec![0xa5, 0x01, 0x10, 0xa5, 0x02, 0x20, 0x1b], // regval_type x2 ; div
        vec![0x70, 0x00, 0xa6, 0x04, 0x10, 0xa9, 0x20], // deref_type ; reinterpret
        vec![0x70, 0x00, 0x31, 0x18],                   // xderef
        vec![0x97, 0x06],                               // push_object_address ; deref
        vec![0xed, 0x00, 0x01, 0xed, 0x01, 0x02, 0xed, 0x02, 0x03], // wasm local/global/stack
        vec![0x50, 0x93, 0x01, 0x70, 0x00, 0x93, 0x02, 0x9e, 0x01, 0xaa, 0x93, 0x01], // pieces
        vec![0x70, 0x00, 0x70, 0x00, 0x1b, 0x70, 0x00, 0x1d, 0x70, 0x00, 0x24, 0x70, 0x00, 0x25, 0x70, 0x00, 0x26], // div mod shl shr shra on answers
        vec![0x70, 0x00, 0x19, 0x70, 0x00, 0x1f, 0x70, 0x00, 0x20, 0x70, 0x00, 0x1c, 0x70, 0x00, 0x2d], // abs neg not minus lt on answers
    ];
    // bra on an answer
    v.push(vec![0x70, 0x00, 0x28, 0x01, 0x00, 0x30, 0x31]);
    // endless loops whose body is valid and asks the caller for something on every turn: only the
    // iteration limit (which must count across resumes) ends them
    v.push(vec![0x9c, 0x13, 0x2f, 0xfb, 0xff]); // L: call_frame_cfa ; drop ; skip L
    v.push(vec![0x70, 0x00, 0x13, 0x2f, 0xfa, 0xff]); // L: breg0 0 ; drop ; skip L
    v.push(vec![0x31, 0x06, 0x2f, 0xfc, 0xff]); // lit1 ; L: deref ; skip L
    v.push(vec![0x91, 0x00, 0x13, 0x2f, 0xfa, 0xff]); // L: fbreg 0 ; drop ; skip L
    v
}

type Stressor = fn(usize) -> (&'static str, usize, SecSet);

const STRESSORS: [Stressor; 16] = [
    |n| {
        // zero aranges tuples
        let mut s = SecSet::default();
        let mut b = Enc::new(false);
        b.u16(2).u32(0).u8(8).u8(0).u32(0);
        b.buf.extend(std::iter::repeat(0u8).take(16 * n));
        b.u64(0x1000).u64(0x10).u64(0).u64(0);
        let mut out = Enc::new(false);
        out.with_length(false, &b);
        s.aranges = out.buf;
        ("aranges-zero-tuples", 14, s)
    },
    |n| {
        // n nested has-children DIEs
        let mut s = SecSet::default();
        let mut a = Enc::new(false);
        a.uleb(1).uleb(0x11).u8(1).uleb(0).uleb(0).uleb(0);
        s.abbrev = a.buf;
        let mut b = Enc::new(false);
        b.u16(4).u32(0).u8(8);
        b.buf.extend(std::iter::repeat(1u8).take(n));
        b.buf.extend(std::iter::repeat(0u8).take(n));
        let mut out = Enc::new(false);
        out.with_length(false, &b);
        s.info = out.buf;
        ("nested-dies", 1, s)
    },
    |n| {
        // a root followed by n nulls
        let mut s = SecSet::default();
        let mut a = Enc::new(false);
        a.uleb(1).uleb(0x11).u8(1).uleb(0).uleb(0).uleb(0);
        s.abbrev = a.buf;
        let mut b = Enc::new(false);
        b.u16(4).u32(0).u8(8).u8(1);
        b.buf.extend(std::iter::repeat(0u8).take(n));
        let mut out = Enc::new(false);
        out.with_length(false, &b);
        s.info = out.buf;
        ("null-run", 1, s)
    },
    |n| {
        // n zero-length .debug_frame entries
        let mut s = SecSet::default();
        s.debug_frame = vec![0u8; 4 * n];
        ("zero-length-frame-entries", 19, s)
    },
    |n| {
        // DW_FORM_indirect chain of length n
        let mut s = SecSet::default();
        let mut a = Enc::new(false);
        a.uleb(1).uleb(0x11).u8(0).uleb(0x03).uleb(0x16).uleb(0).uleb(0).uleb(0);
        s.abbrev = a.buf;
        let mut b = Enc::new(false);
        b.u16(4).u32(0).u8(8).u8(1);
        b.buf.extend(std::iter::repeat(0x16u8).take(n));
        b.u8(0x0b).u8(7);
        let mut out = Enc::new(false);
        out.with_length(false, &b);
        s.info = out.buf;
        ("indirect-chain", 1, s)
    },
    |n| {
        // nested entry_value: each level wraps the rest
        let mut s = SecSet::default();
        let depth = n.min(1 << 14);
        let mut body = vec![0x50u8];
        for _ in 0..depth {
            let mut e = Enc::new(false);
            e.u8(0xa3).uleb(body.len() as u64).bytes(&body);
            body = e.buf;
            if body.len() > n * 4 {
                break;
            }
        }
        s.expr = body;
        ("nested-entry-value", 22, s)
    },
    |n| {
        // n remember_state in an FDE
        let mut body = vec![0x0au8; n];
        body.push(0x41);
        let s = frame_with_body(G { big: false, f64_: false, asz: 8 }, &body);
        ("remember-state-run", 19, s)
    },
    |n| {
        // LEB continuation run as abbreviation code / attribute in info and as expression operand
        let mut s = SecSet::default();
        let mut x = vec![0x10u8];
        x.extend(std::iter::repeat(0x80u8).take(n));
        x.push(0);
        s.expr = x;
        ("leb-continuation-run-expr", 22, s)
    },
    |n| {
        let mut s = SecSet::default();
        let mut a = Enc::new(false);
        a.uleb(1).uleb(0x11).u8(1).uleb(0).uleb(0).uleb(0);
        s.abbrev = a.buf;
        let mut b = Enc::new(false);
        b.u16(4).u32(0).u8(8);
        b.buf.extend(std::iter::repeat(0x80u8).take(n));
        b.u8(1);
        let mut out = Enc::new(false);
        out.with_length(false, &b);
        s.info = out.buf;
        ("leb-continuation-run-info", 1, s)
    },
    |n| {
        // long line program: n special opcodes, then n sequences
        let mut body = vec![];
        body.extend(std::iter::repeat(0x4bu8).take(n));
        for _ in 0..n.min(1 << 16) {
            body.extend([0x4b, 0, 1, 1]);
        }
        let s = line_with_body(G { big: false, f64_: false, asz: 8 }, &body, 1);
        ("long-line-program", 5, s)
    },
    |n| {
        // huge abbreviation table: n abbreviations with sequential codes, then sparse
        let mut s = SecSet::default();
        let mut a = Enc::new(false);
        for c in 1..=(n.min(1 << 18) as u64) {
            a.uleb(c).uleb(0x34).u8(0).uleb(0).uleb(0);
        }
        a.uleb(u64::MAX).uleb(0x34).u8(0).uleb(0).uleb(0);
        a.uleb(0);
        s.abbrev = a.buf;
        let mut b = Enc::new(false);
        b.u16(4).u32(0).u8(8).u8(1).u8(2).u8(0);
        let mut out = Enc::new(false);
        out.with_length(false, &b);
        s.info = out.buf;
        ("huge-abbrev-table", 0, s)
    },
    |n| {
        // abbreviation with n attribute specs and a DIE using it
        let mut s = SecSet::default();
        let mut a = Enc::new(false);
        a.uleb(1).uleb(0x11).u8(0);
        for _ in 0..n.min(1 << 18) {
            a.uleb(0x03).uleb(0x0b);
        }
        a.uleb(0).uleb(0).uleb(0);
        s.abbrev = a.buf;
        let mut b = Enc::new(false);
        b.u16(4).u32(0).u8(8).u8(1);
        b.buf.extend(std::iter::repeat(7u8).take(n.min(1 << 18)));
        let mut out = Enc::new(false);
        out.with_length(false, &b);
        s.info = out.buf;
        ("wide-abbreviation", 1, s)
    },
    |n| {
        // .eh_frame_hdr claiming n (and 2^63, 2^64-1) entries over an empty table
        let mut s = SecSet::default();
        let mut h = Enc::new(false);
        h.u8(1).u8(0x04).u8(0x04).u8(0x04);
        h.u64(0x200).u64(if n >= (1 << 22) { u64::MAX } else if n >= (1 << 18) { 1 << 63 } else { n as u64 });
        s.eh_frame_hdr = h.buf;
        ("eh-hdr-huge-count", 21, s)
    },
    |n| {
        // .debug_names with huge counts
        let mut s = SecSet::default();
        let mut b = Enc::new(false);
        b.u16(5).u16(0).u32(n as u32).u32(n as u32).u32(n as u32).u32(n as u32).u32(n as u32).u32(0).u32(0);
        b.buf.extend(std::iter::repeat(0u8).take(n.min(1 << 16)));
        let mut out = Enc::new(false);
        out.with_length(false, &b);
        s.names = out.buf;
        ("names-huge-counts", 15, s)
    },
    |n| {
        // macro entries: n bad opcodes (errors must not repeat forever), and n start_file
        let mut s = SecSet::default();
        let mut b = vec![];
        b.extend(std::iter::repeat(0x03u8).take(0));
        for _ in 0..n.min(1 << 18) {
            b.extend([0x03, 0x00, 0x01]);
        }
        b.extend([0x01, 0x01]);
        s.macinfo = b;
        ("macinfo-run", 12, s)
    },
    |n| {
        // cu_index with n slots claimed
        let mut s = SecSet::default();
        let mut b = Enc::new(false);
        b.u16(5).u16(0).u32(3).u32(n as u32).u32((n as u32).next_power_of_two().wrapping_mul(2));
        b.buf.extend(std::iter::repeat(0u8).take(n.min(1 << 16)));
        s.cu_index = b.buf;
        ("index-huge-counts", 17, s)
    },
];
