//! Drivers: every public entry point that consumes section bytes, driven the
//! way a careless caller would (errors ignored, iteration continued), with a
//! step bound proportional to the input size.
use gimli::{
    Abbreviations, AttributeValue, BaseAddresses, DebugAbbrev, DebugAddr, DebugAddrBase, DebugAddrIndex, DebugAranges, DebugCuIndex, DebugFrame, DebugInfo, DebugInfoOffset, DebugLine, DebugLineOffset, DebugLineStr,
    DebugLoc, DebugLocLists, DebugLocListsBase, DebugLocListsIndex, DebugMacinfo, DebugMacro, DebugNames, DebugPubNames, DebugPubTypes, DebugRanges, DebugRngLists, DebugRngListsBase, DebugRngListsIndex, DebugStr,
    DebugStrOffsets, DebugStrOffsetsBase, DebugStrOffsetsIndex, DebugTuIndex, DebugTypes, Dwarf, DwarfFileType, EhFrame, EhFrameHdr, Encoding, EvaluationResult, Expression, Format, LocationLists, LocationListsOffset,
    RangeLists, RangeListsOffset, Reader, UnitOffset, UnwindContext, UnwindSection, Value, ValueType, Vendor,
};

pub trait Rd: Reader<Offset = usize> + Clone {}
impl<T: Reader<Offset = usize> + Clone> Rd for T {}

#[derive(Default)]
pub struct Probe {
    pub bound: u64,
    pub items: u64,
    pub errs: u64,
    pub fails: Vec<(String, String, String, String)>,
}

impl Probe {
    pub fn new(input_len: usize) -> Probe {
        Probe { bound: 4 * input_len as u64 + 64, items: 0, errs: 0, fails: vec![] }
    }
    pub fn fail(&mut self, entry: &str, site: &str, kind: &str, detail: String) {
        if self.fails.len() < 8 && !self.fails.iter().any(|f| f.0 == entry && f.1 == site && f.2 == kind) {
            self.fails.push((entry.into(), site.into(), kind.into(), detail));
        }
    }
}

/// Drain a `next()`-style iterator, ignoring errors.
/// `$stop`: the iterator documents that after an error every later call returns Ok(None).
macro_rules! drain {
    ($p:expr, $entry:expr, $stop:expr, $next:expr, |$x:pat_param| $body:block) => {{
        let mut n: u64 = 0;
        let mut errored = false;
        loop {
            n += 1;
            if n > $p.bound {
                $p.fail($entry, "termination", "iterator-not-bounded-by-input", format!("more than {} calls of next() without reaching Ok(None)", $p.bound));
                break;
            }
            match $next {
                Ok(None) => break,
                Ok(Some($x)) => {
                    if errored && $stop {
                        $p.fail($entry, "stop-after-error", "item-after-error", "iterator documented to return Ok(None) after an error yielded an item".into());
                        break;
                    }
                    $p.items += 1;
                    $body
                }
                Err(_) => {
                    $p.errs += 1;
                    if errored && $stop {
                        $p.fail($entry, "stop-after-error", "error-after-error", "iterator documented to return Ok(None) after an error returned another Err".into());
                        break;
                    }
                    errored = true;
                }
            }
        }
    }};
}

#[derive(Clone, Copy, Debug)]
pub struct Cfg {
    pub big: bool,
    pub address_size: u8,
    pub format64: bool,
    pub version: u16,
    pub aarch64: bool,
}

impl Cfg {
    pub fn encoding(&self) -> Encoding {
        Encoding { format: if self.format64 { Format::Dwarf64 } else { Format::Dwarf32 }, version: self.version, address_size: self.address_size }
    }
    pub fn vendor(&self) -> Vendor {
        if self.aarch64 {
            Vendor::AArch64
        } else {
            Vendor::Default
        }
    }
}

pub fn probe_offsets(len: usize) -> Vec<usize> {
    let mut v: Vec<usize> = (0..=len.min(24)).collect();
    v.extend([len.saturating_sub(1), len, len + 1, usize::MAX / 2, usize::MAX]);
    v.sort();
    v.dedup();
    v
}

pub fn index_extremes(n: usize) -> Vec<usize> {
    let mut v = vec![0, 1, 2, n, n + 1, 0xffff, 1 << 31, u32::MAX as usize, 1 << 61, usize::MAX / 2, usize::MAX / 8, usize::MAX / 4, usize::MAX];
    v.sort();
    v.dedup();
    v
}

// ---------------------------------------------------------------------------

pub fn drv_abbrev<R: Rd>(p: &mut Probe, sec: R) {
    let da = DebugAbbrev::from(sec.clone());
    for off in probe_offsets(sec.len()) {
        if let Ok(a) = da.abbreviations(gimli::DebugAbbrevOffset(off)) {
            for code in [0u64, 1, 2, 3, 127, 128, u32::MAX as u64, u64::MAX] {
                if let Some(ab) = a.get(code) {
                    let _ = (ab.code(), ab.tag(), ab.has_children());
                    for s in ab.attributes() {
                        let _ = (s.name(), s.form(), s.implicit_const_value());
                        p.items += 1;
                    }
                }
            }
        } else {
            p.errs += 1;
        }
    }
}

/// Recursive tree walk as a caller would write it. `report` = the budget is the
/// input-size bound (exceeding it is a termination violation); otherwise the
/// budget only limits the work done by a positioned probe. The recursion depth
/// is capped: unbounded recursion here would be the caller's stack, not gimli's.
fn walk_tree<R: Rd>(p: &mut Probe, node: gimli::EntriesTreeNode<'_, '_, R>, depth: usize, budget: &mut u64, report: bool) {
    let _ = node.entry().tag();
    if *budget == 0 || depth > 256 {
        return;
    }
    let mut children = node.children();
    loop {
        if *budget == 0 {
            if report {
                p.fail("EntriesTreeIter::next", "termination", "iterator-not-bounded-by-input", "tree walk exceeded the step bound".into());
            }
            return;
        }
        *budget -= 1;
        match children.next() {
            Ok(Some(child)) => {
                p.items += 1;
                walk_tree(p, child, depth + 1, budget, report);
            }
            Ok(None) => return,
            Err(_) => {
                p.errs += 1;
                return;
            }
        }
    }
}

/// Everything reachable from one unit header + abbreviations.
fn drv_unit_entries<R: Rd>(p: &mut Probe, header: &gimli::UnitHeader<R>, abbrevs: &Abbreviations) {
    let _ = (header.offset(), header.unit_length(), header.length_including_self(), header.encoding(), header.type_(), header.debug_abbrev_offset(), header.header_size(), header.root_offset(), header.size_of_header(), header.section());
    let ulen = header.length_including_self();
    for o in [0usize, header.header_size().saturating_sub(1), header.header_size(), ulen.saturating_sub(1), ulen, ulen + 1, usize::MAX] {
        let uo = UnitOffset(o);
        // to_unit_section_offset documents that offsets of uncertain origin must be
        // checked with is_in_bounds first
        if uo.is_in_bounds(header) {
            let _ = uo.to_unit_section_offset(header);
        }
        let _ = header.range_from(uo..);
        let _ = header.range_to(..uo);
    }
    // raw: read_entry
    if let Ok(mut raw) = header.entries_raw(abbrevs, None) {
        let mut e = gimli::DebuggingInformationEntry::null();
        let mut n = 0u64;
        while !raw.is_empty() {
            n += 1;
            if n > p.bound {
                p.fail("EntriesRaw::read_entry", "termination", "iterator-not-bounded-by-input", "raw entries did not drain".into());
                break;
            }
            let _ = (raw.next_offset(), raw.next_depth());
            match raw.read_entry(&mut e) {
                Ok(_) => {
                    p.items += 1;
                    for a in e.attrs() {
                        let _ = (a.name(), a.form(), a.raw_value());
                        let v = a.value();
                        let _ = (a.u8_value(), a.u16_value(), a.udata_value(), a.sdata_value(), a.offset_value(), a.exprloc_value());
                        let _ = ValueType::from_encoding(gimli::DwAte(a.udata_value().unwrap_or(0) as u8), a.udata_value().unwrap_or(0));
                        if let AttributeValue::Exprloc(x) = v {
                            drv_expr_ops(p, x.0, header.encoding());
                        }
                    }
                }
                Err(_) => {
                    p.errs += 1;
                    break;
                }
            }
        }
    }
    // raw: read_abbreviation + skip_attributes
    if let Ok(mut raw) = header.entries_raw(abbrevs, None) {
        let mut n = 0u64;
        while !raw.is_empty() {
            n += 1;
            if n > p.bound {
                p.fail("EntriesRaw::skip_attributes", "termination", "iterator-not-bounded-by-input", "raw entries did not drain".into());
                break;
            }
            match raw.read_abbreviation() {
                Ok(Some(ab)) => {
                    if raw.skip_attributes(ab.attributes()).is_err() {
                        p.errs += 1;
                        break;
                    }
                }
                Ok(None) => {}
                Err(_) => {
                    p.errs += 1;
                    break;
                }
            }
        }
    }
    // cursor: next_entry / next_dfs / next_sibling
    {
        let mut c = header.entries(abbrevs);
        let mut n = 0u64;
        loop {
            n += 1;
            if n > p.bound {
                p.fail("EntriesCursor::next_entry", "termination", "iterator-not-bounded-by-input", "cursor did not finish".into());
                break;
            }
            match c.next_entry() {
                Ok(true) => {
                    let _ = (c.current().map(|e| e.offset()), c.offset(), c.depth(), c.next_offset(), c.next_depth());
                }
                Ok(false) => break,
                Err(_) => {
                    p.errs += 1;
                    break;
                }
            }
        }
        let mut c = header.entries(abbrevs);
        drain!(p, "EntriesCursor::next_dfs", false, c.next_dfs().map(|o| o.map(|e| e.offset())), |_o| {});
        let mut c = header.entries(abbrevs);
        let _ = c.next_dfs();
        let _ = c.next_dfs();
        drain!(p, "EntriesCursor::next_sibling", false, c.next_sibling().map(|o| o.map(|e| e.offset())), |_o| {});
        let mut c = header.entries(abbrevs);
        let _ = c.next_dfs();
        drain!(p, "EntriesCursor::next_sibling", false, c.next_sibling().map(|o| o.map(|e| e.offset())), |_o| {});
    }
    // tree
    if let Ok(mut tree) = header.entries_tree(abbrevs, None) {
        let mut budget = p.bound;
        if let Ok(root) = tree.root() {
            walk_tree(p, root, 0, &mut budget, true);
        }
        // re-root and walk again
        let mut budget = p.bound;
        if let Ok(root) = tree.root() {
            walk_tree(p, root, 0, &mut budget, true);
        }
    }
    // positioned reads at every offset
    for o in probe_offsets(ulen) {
        let uo = UnitOffset(o);
        let _ = header.entry(abbrevs, uo).map(|e| e.tag());
        if let Ok(mut c) = header.entries_at_offset(abbrevs, uo) {
            let _ = c.next_dfs().map(|o| o.map(|e| e.offset()));
            let _ = c.next_sibling().map(|o| o.map(|e| e.offset()));
        }
        if let Ok(mut t) = header.entries_tree(abbrevs, Some(uo)) {
            let mut budget = 64;
            if let Ok(root) = t.root() {
                walk_tree(p, root, 0, &mut budget, false);
            }
        }
        if let Ok(mut r) = header.entries_raw(abbrevs, Some(uo)) {
            let mut e = gimli::DebuggingInformationEntry::null();
            let _ = r.read_entry(&mut e);
        }
    }
}

pub fn drv_info<R: Rd>(p: &mut Probe, info: R, abbrev: R, types: bool) {
    let da = DebugAbbrev::from(abbrev);
    if types {
        let dt = DebugTypes::from(info.clone());
        let mut it = dt.units();
        drain!(p, "DebugTypes::units", false, it.next(), |h| {
            if let Ok(ab) = h.abbreviations(&da) {
                drv_unit_entries(p, &h, &ab);
            }
        });
    } else {
        let di = DebugInfo::from(info.clone());
        let mut it = di.units();
        drain!(p, "DebugInfo::units", false, it.next(), |h| {
            if let Ok(ab) = h.abbreviations(&da) {
                drv_unit_entries(p, &h, &ab);
            }
        });
        for o in probe_offsets(info.len()) {
            let _ = di.header_from_offset(DebugInfoOffset(o)).map(|h| h.offset());
        }
    }
}

/// Sections for a whole `Dwarf`.
#[derive(Clone)]
pub struct Secs<R> {
    pub abbrev: R,
    pub info: R,
    pub types: R,
    pub str_: R,
    pub str_offsets: R,
    pub line: R,
    pub line_str: R,
    pub addr: R,
    pub ranges: R,
    pub rnglists: R,
    pub loc: R,
    pub loclists: R,
    pub macinfo: R,
    pub macro_: R,
    pub aranges: R,
    pub names: R,
}

impl<R: Rd> Secs<R> {
    pub fn empty(e: R) -> Secs<R> {
        Secs {
            abbrev: e.clone(),
            info: e.clone(),
            types: e.clone(),
            str_: e.clone(),
            str_offsets: e.clone(),
            line: e.clone(),
            line_str: e.clone(),
            addr: e.clone(),
            ranges: e.clone(),
            rnglists: e.clone(),
            loc: e.clone(),
            loclists: e.clone(),
            macinfo: e.clone(),
            macro_: e.clone(),
            aranges: e.clone(),
            names: e,
        }
    }
    pub fn dwarf(&self, dwo: bool) -> Dwarf<R> {
        let mut e = self.abbrev.clone();
        e.empty();
        let mut d = Dwarf::load(|id| -> Result<R, ()> {
            Ok(match id {
                gimli::SectionId::DebugAbbrev => self.abbrev.clone(),
                gimli::SectionId::DebugInfo => self.info.clone(),
                gimli::SectionId::DebugTypes => self.types.clone(),
                gimli::SectionId::DebugStr => self.str_.clone(),
                gimli::SectionId::DebugStrOffsets => self.str_offsets.clone(),
                gimli::SectionId::DebugLine => self.line.clone(),
                gimli::SectionId::DebugLineStr => self.line_str.clone(),
                gimli::SectionId::DebugAddr => self.addr.clone(),
                gimli::SectionId::DebugRanges => self.ranges.clone(),
                gimli::SectionId::DebugRngLists => self.rnglists.clone(),
                gimli::SectionId::DebugLoc => self.loc.clone(),
                gimli::SectionId::DebugLocLists => self.loclists.clone(),
                gimli::SectionId::DebugMacinfo => self.macinfo.clone(),
                gimli::SectionId::DebugMacro => self.macro_.clone(),
                gimli::SectionId::DebugAranges => self.aranges.clone(),
                gimli::SectionId::DebugNames => self.names.clone(),
                _ => e.clone(),
            })
        })
        .unwrap();
        if dwo {
            d.file_type = DwarfFileType::Dwo;
        }
        d
    }
    pub fn total_len(&self) -> usize {
        self.abbrev.len() + self.info.len() + self.types.len() + self.str_.len() + self.str_offsets.len() + self.line.len() + self.line_str.len() + self.addr.len() + self.ranges.len() + self.rnglists.len() + self.loc.len() + self.loclists.len() + self.macinfo.len() + self.macro_.len() + self.aranges.len() + self.names.len()
    }
}

/// High-level `Dwarf` API over a full section set.
pub fn drv_dwarf<R: Rd>(p: &mut Probe, secs: &Secs<R>, dwo: bool, cache: u8) {
    let mut dwarf = secs.dwarf(dwo);
    match cache {
        1 => dwarf.populate_abbreviations_cache(gimli::AbbreviationsCacheStrategy::Duplicates),
        2 => dwarf.populate_abbreviations_cache(gimli::AbbreviationsCacheStrategy::All),
        _ => {}
    }
    let _ = dwarf.format_error(gimli::Error::UnexpectedEof(secs.info.offset_id()));
    let mut units = dwarf.units();
    drain!(p, "Dwarf::units", false, units.next(), |h| {
        let _ = dwarf.abbreviations(&h).map(|_| ());
        if let Ok(unit) = dwarf.unit(h) {
            drv_dwarf_unit(p, &dwarf, &unit);
        }
    });
    let mut tus = dwarf.type_units();
    drain!(p, "Dwarf::type_units", false, tus.next(), |h| {
        if let Ok(unit) = dwarf.unit(h) {
            drv_dwarf_unit(p, &dwarf, &unit);
        }
    });
    for o in probe_offsets(secs.info.len()) {
        let _ = dwarf.unit_header(DebugInfoOffset(o)).map(|h| h.offset());
    }
}

fn drv_dwarf_unit<R: Rd>(p: &mut Probe, dwarf: &Dwarf<R>, unit: &gimli::Unit<R>) {
    let ur = unit.unit_ref(dwarf);
    let _ = (unit.encoding(), unit.dwo_name().map(|_| ()), unit.name.as_ref().map(|n| n.len()), unit.low_pc, unit.addr_base, unit.str_offsets_base, unit.rnglists_base, unit.loclists_base);
    if let Ok(mut it) = ur.unit_ranges() {
        drain!(p, "Dwarf::unit_ranges", false, it.next(), |_r| {});
    }
    if let Some(lp) = unit.line_program.clone() {
        drv_line_program(p, lp);
    }
    let mut cursor = unit.entries();
    let mut n = 0u64;
    loop {
        n += 1;
        if n > p.bound {
            p.fail("Unit::entries/next_dfs", "termination", "iterator-not-bounded-by-input", "cursor did not finish".into());
            break;
        }
        let entry = match cursor.next_dfs() {
            Ok(Some(e)) => e.clone(),
            Ok(None) => break,
            Err(_) => {
                p.errs += 1;
                break;
            }
        };
        p.items += 1;
        if let Ok(mut it) = ur.die_ranges(&entry) {
            drain!(p, "Dwarf::die_ranges", false, it.next(), |_r| {});
        }
        let _ = ValueType::from_entry(&entry);
        for a in entry.attrs() {
            let v = a.value();
            let _ = ur.attr_string(v.clone()).map(|s| s.len());
            let _ = dwarf.attr_line_string(v.clone()).map(|s| s.len());
            let _ = ur.attr_address(v.clone());
            let _ = ur.attr_ranges_offset(v.clone());
            if let Ok(Some(mut it)) = ur.attr_ranges(v.clone()) {
                drain!(p, "Dwarf::attr_ranges", false, it.next(), |_r| {});
            }
            let _ = ur.attr_locations_offset(v.clone());
            if let Ok(Some(mut it)) = ur.attr_locations(v.clone()) {
                drain!(p, "Dwarf::attr_locations", false, it.next(), |e| {
                    drv_expr_ops(p, e.data.0.clone(), unit.encoding());
                });
            }
            match v {
                AttributeValue::DebugMacinfoRef(o) => {
                    if let Ok(mut it) = ur.macinfo(o) {
                        drain!(p, "Dwarf::macinfo", false, it.next(), |m| {
                            drv_macro_entry(&ur, &m);
                        });
                    }
                }
                AttributeValue::DebugMacroRef(o) => {
                    if let Ok(mut it) = ur.macros(o) {
                        drain!(p, "Dwarf::macros", false, it.next(), |m| {
                            drv_macro_entry(&ur, &m);
                        });
                    }
                }
                AttributeValue::Exprloc(x) => {
                    drv_expr_ops(p, x.0.clone(), unit.encoding());
                    drv_eval(p, x.0, unit.encoding(), 0, &[]);
                }
                AttributeValue::DebugStrOffsetsIndex(i) => {
                    let _ = ur.string_offset(i);
                }
                AttributeValue::DebugAddrIndex(i) => {
                    let _ = ur.address(i);
                }
                AttributeValue::RangeListsRef(o) => {
                    let off = ur.ranges_offset_from_raw(o);
                    if let Ok(mut it) = ur.raw_ranges(off) {
                        drain!(p, "Dwarf::raw_ranges", false, it.next(), |_r| {});
                    }
                }
                AttributeValue::LocationListsRef(o) => {
                    if let Ok(mut it) = ur.raw_locations(o) {
                        drain!(p, "Dwarf::raw_locations", false, it.next(), |_r| {});
                    }
                }
                _ => {}
            }
        }
    }
    for o in probe_offsets(unit.header.length_including_self()) {
        let _ = unit.entry(UnitOffset(o)).map(|e| e.tag());
        let _ = unit.entries_at_offset(UnitOffset(o)).map(|_| ());
        let _ = unit.entries_tree(Some(UnitOffset(o))).map(|_| ());
        let _ = unit.entries_raw(Some(UnitOffset(o))).map(|_| ());
    }
}

fn drv_macro_entry<R: Rd>(ur: &gimli::UnitRef<'_, R>, m: &gimli::MacroEntry<R>) {
    match m {
        gimli::MacroEntry::Define { text, .. } => {
            let _ = text.string(*ur).map(|s| s.len());
        }
        gimli::MacroEntry::Undef { name, .. } => {
            let _ = name.string(*ur).map(|s| s.len());
        }
        _ => {}
    }
}

pub fn drv_macros<R: Rd>(p: &mut Probe, sec: R, info: bool) {
    for o in probe_offsets(sec.len()) {
        if info {
            let s = DebugMacinfo::from(sec.clone());
            if let Ok(mut it) = s.get_macinfo(gimli::DebugMacinfoOffset(o)) {
                drain!(p, "DebugMacinfo::get_macinfo/next", false, it.next(), |_m| {});
            }
        } else {
            let s = DebugMacro::from(sec.clone());
            if let Ok(mut it) = s.get_macros(gimli::DebugMacroOffset(o)) {
                drain!(p, "DebugMacro::get_macros/next", false, it.next(), |_m| {});
            }
        }
    }
}

// ---------------------------------------------------------------------------
// line

fn drv_line_program<R: Rd>(p: &mut Probe, prog: gimli::IncompleteLineProgram<R>) {
    {
        let h = prog.header();
        let _ = (h.offset(), h.unit_length(), h.encoding(), h.version(), h.header_length(), h.address_size(), h.format(), h.line_encoding(), h.minimum_instruction_length(), h.maximum_operations_per_instruction(), h.default_is_stmt(), h.line_base(), h.line_range(), h.opcode_base());
        let _ = (h.standard_opcode_lengths().len(), h.directory_entry_format().len(), h.include_directories().len(), h.file_name_entry_format().len(), h.file_has_timestamp(), h.file_has_size(), h.file_has_md5(), h.file_has_source(), h.file_names().len(), h.raw_program_buf().len());
        let nf = h.file_names().len() as u64;
        for i in [0u64, 1, 2, nf, nf + 1, u32::MAX as u64, u64::MAX] {
            let _ = h.directory(i);
            if let Some(f) = h.file(i) {
                let _ = (f.path_name(), f.directory_index(), f.directory(h), f.timestamp(), f.size(), f.md5(), f.source());
            }
        }
        let mut ins = h.instructions();
        drain!(p, "LineInstructions::next_instruction", true, ins.next_instruction(h), |_i| {});
    }
    {
        let mut rows = prog.clone().rows();
        drain!(p, "LineRows::next_row", false, rows.next_row().map(|o| o.map(|(h, r)| (r.address(), r.line(), r.file(h).map(|_| ())))), |_r| {});
    }
    if let Ok((complete, seqs)) = prog.sequences() {
        for s in seqs.iter().take(64) {
            let _ = (s.start, s.end);
            let mut rows = complete.resume_from(s);
            drain!(p, "CompleteLineProgram::resume_from/next_row", false, rows.next_row().map(|o| o.map(|(_, r)| r.address())), |_r| {});
        }
    } else {
        p.errs += 1;
    }
}

pub fn drv_line<R: Rd>(p: &mut Probe, sec: R, address_size: u8) {
    let dl = DebugLine::from(sec.clone());
    for o in probe_offsets(sec.len()).into_iter().take(8) {
        match dl.program(DebugLineOffset(o), address_size, None, None) {
            Ok(prog) => drv_line_program(p, prog),
            Err(_) => p.errs += 1,
        }
    }
}

// ---------------------------------------------------------------------------
// small tables

pub fn drv_aranges<R: Rd>(p: &mut Probe, sec: R) {
    let s = DebugAranges::from(sec.clone());
    let mut hs = s.headers();
    drain!(p, "DebugAranges::headers", false, hs.next(), |h| {
        let _ = (h.offset(), h.length(), h.encoding(), h.debug_info_offset());
        let mut es = h.entries();
        drain!(p, "ArangeEntryIter::next", true, es.next(), |e| {
            let _ = (e.address(), e.length(), e.range());
        });
        let mut es = h.entries();
        drain!(p, "ArangeEntryIter::next_raw", false, es.next_raw(), |e| {
            let _ = es.convert_raw(e);
        });
    });
    for o in probe_offsets(sec.len()) {
        let _ = s.header(gimli::DebugArangesOffset(o)).map(|h| h.length());
    }
}

pub fn drv_addr<R: Rd>(p: &mut Probe, sec: R, address_size: u8) {
    let s = DebugAddr::from(sec.clone());
    let mut hs = s.headers();
    drain!(p, "DebugAddr::headers", false, hs.next(), |h| {
        let _ = (h.offset(), h.length(), h.encoding());
        let mut es = h.entries();
        drain!(p, "AddrEntryIter::next", true, es.next(), |_a| {});
    });
    for base in [0usize, 8, sec.len(), usize::MAX] {
        for idx in index_extremes(sec.len()) {
            let _ = s.get_address(address_size, DebugAddrBase(base), DebugAddrIndex(idx));
            p.items += 1;
        }
    }
}

pub fn drv_str<R: Rd>(p: &mut Probe, sec: R) {
    let s = DebugStr::from(sec.clone());
    let l = DebugLineStr::from(sec.clone());
    for o in probe_offsets(sec.len()) {
        let _ = s.get_str(gimli::DebugStrOffset(o)).map(|x| x.len());
        let _ = l.get_str(gimli::DebugLineStrOffset(o)).map(|x| x.len());
        p.items += 1;
    }
}

pub fn drv_str_offsets<R: Rd>(p: &mut Probe, sec: R) {
    let s = DebugStrOffsets::from(sec.clone());
    for fmt in [Format::Dwarf32, Format::Dwarf64] {
        for base in [0usize, 8, 16, sec.len(), usize::MAX] {
            for idx in index_extremes(sec.len()) {
                let _ = s.get_str_offset(fmt, DebugStrOffsetsBase(base), DebugStrOffsetsIndex(idx));
                p.items += 1;
            }
        }
    }
}

pub fn drv_ranges<R: Rd>(p: &mut Probe, sec: R, v5: bool, cfg: Cfg) {
    let e = sec.clone();
    let mut empty = sec.clone();
    empty.empty();
    let lists = if v5 { RangeLists::new(DebugRanges::from(empty), DebugRngLists::from(e)) } else { RangeLists::new(DebugRanges::from(e), DebugRngLists::from(empty)) };
    let enc = Encoding { version: if v5 { 5 } else { cfg.version.min(4) }, ..cfg.encoding() };
    let addr = DebugAddr::from(sec.clone());
    for o in probe_offsets(sec.len()) {
        for base in [0u64, 0x1000, u64::MAX] {
            if let Ok(mut it) = lists.ranges(RangeListsOffset(o), enc, base, &addr, DebugAddrBase(0)) {
                drain!(p, "RangeLists::ranges/next", false, it.next(), |_r| {});
            }
        }
        if let Ok(mut it) = lists.raw_ranges(RangeListsOffset(o), enc) {
            drain!(p, "RangeLists::raw_ranges/next", false, it.next(), |_r| {});
        }
    }
    for base in [0usize, 12, sec.len(), usize::MAX] {
        for idx in index_extremes(sec.len()) {
            let _ = lists.get_offset(enc, DebugRngListsBase(base), DebugRngListsIndex(idx));
            p.items += 1;
        }
    }
}

pub fn drv_locs<R: Rd>(p: &mut Probe, sec: R, v5: bool, cfg: Cfg) {
    let e = sec.clone();
    let mut empty = sec.clone();
    empty.empty();
    let lists = if v5 { LocationLists::new(DebugLoc::from(empty), DebugLocLists::from(e)) } else { LocationLists::new(DebugLoc::from(e), DebugLocLists::from(empty)) };
    let enc = Encoding { version: if v5 { 5 } else { cfg.version.min(4) }, ..cfg.encoding() };
    let addr = DebugAddr::from(sec.clone());
    for o in probe_offsets(sec.len()) {
        for base in [0u64, 0x1000, u64::MAX] {
            if let Ok(mut it) = lists.locations(LocationListsOffset(o), enc, base, &addr, DebugAddrBase(0)) {
                drain!(p, "LocationLists::locations/next", false, it.next(), |l| {
                    drv_expr_ops(p, l.data.0, enc);
                });
            }
            if let Ok(mut it) = lists.locations_dwo(LocationListsOffset(o), enc, base, &addr, DebugAddrBase(0)) {
                drain!(p, "LocationLists::locations_dwo/next", false, it.next(), |_l| {});
            }
        }
        if let Ok(mut it) = lists.raw_locations(LocationListsOffset(o), enc) {
            drain!(p, "LocationLists::raw_locations/next", false, it.next(), |_r| {});
        }
        if let Ok(mut it) = lists.raw_locations_dwo(LocationListsOffset(o), enc) {
            drain!(p, "LocationLists::raw_locations_dwo/next", false, it.next(), |_r| {});
        }
    }
    for base in [0usize, 12, sec.len(), usize::MAX] {
        for idx in index_extremes(sec.len()) {
            let _ = lists.get_offset(enc, DebugLocListsBase(base), DebugLocListsIndex(idx));
            p.items += 1;
        }
    }
}

pub fn drv_pub<R: Rd>(p: &mut Probe, sec: R) {
    let n = DebugPubNames::from(sec.clone());
    let mut it = n.items();
    drain!(p, "PubNamesEntryIter::next", true, it.next(), |e| {
        let _ = (e.name().len(), e.unit_header_offset(), e.die_offset());
    });
    let t = DebugPubTypes::from(sec);
    let mut it = t.items();
    drain!(p, "PubTypesEntryIter::next", true, it.next(), |e| {
        let _ = (e.name().len(), e.unit_header_offset(), e.die_offset());
    });
}

pub fn drv_names<R: Rd>(p: &mut Probe, sec: R, strs: R) {
    let s = DebugNames::from(sec.clone());
    let ds = DebugStr::from(strs);
    let mut hs = s.headers();
    drain!(p, "DebugNames::headers", false, hs.next(), |h| {
        let _ = (h.offset(), h.length(), h.format(), h.version(), h.compile_unit_count(), h.local_type_unit_count(), h.foreign_type_unit_count(), h.bucket_count(), h.name_count(), h.abbrev_table_size(), h.augmentation_string().map(|a| a.len()));
        if let Ok(idx) = h.index() {
            let cu = idx.compile_unit_count();
            for i in [0u32, 1, cu, cu.wrapping_add(1), u32::MAX] {
                let _ = idx.compile_unit(i);
                let _ = idx.local_type_unit(i);
                let _ = idx.foreign_type_unit(i);
                let _ = idx.type_unit(i);
            }
            let _ = (idx.default_compile_unit(), idx.local_type_unit_count(), idx.foreign_type_unit_count(), idx.type_unit_count(), idx.has_hash_table(), idx.bucket_count(), idx.name_count());
            let _ = idx.abbreviations().abbreviations().len();
            let _ = idx.abbreviations().get(1).map(|a| (a.code(), a.tag(), a.attributes().len()));
            let bc = idx.bucket_count();
            for b in [0u32, 1, bc.saturating_sub(1), bc, bc.wrapping_add(1), u32::MAX] {
                if let Ok(Some(mut it)) = idx.find_by_bucket(b) {
                    drain!(p, "NameBucketIter::next", false, it.next(), |_x| {});
                }
            }
            for hsh in [0u32, 1, 5381, 0x7fff_ffff, u32::MAX] {
                if let Ok(mut it) = idx.find_by_hash(hsh) {
                    drain!(p, "NameHashIter::next", false, it.next(), |_x| {});
                }
            }
            let mut count = 0u64;
            for ni in idx.names() {
                count += 1;
                if count > p.bound {
                    // name_count is a header field: bounded by it, not by input; only probe a prefix
                    break;
                }
                let _ = idx.name_string_offset(ni);
                let _ = idx.name_string(ni, &ds).map(|x| x.len());
                if let Ok(mut es) = idx.name_entries(ni) {
                    drain!(p, "NameEntryIter::next", false, es.next(), |e| {
                        let _ = (e.compile_unit(&idx), e.type_unit(&idx), e.die_offset(), e.parent(), e.type_hash());
                        let _ = (e.offset, e.tag, e.attrs.len());
                        for a in &e.attrs {
                            let _ = (a.name(), a.form(), a.compile_unit(&idx), a.type_unit(&idx), a.die_offset(), a.parent(), a.type_hash());
                        }
                    });
                }
            }
            for ni in [0u32, 1, idx.name_count(), idx.name_count().wrapping_add(1), u32::MAX] {
                let _ = idx.name_string_offset(gimli::NameTableIndex(ni));
                let _ = idx.name_entries(gimli::NameTableIndex(ni)).map(|_| ());
            }
            for o in probe_offsets(sec.len()) {
                let _ = idx.name_entry(gimli::NameEntryOffset(o)).map(|e| e.tag);
            }
        }
    });
}

pub fn drv_index<R: Rd>(p: &mut Probe, sec: R, tu: bool) {
    let idx = if tu { DebugTuIndex::from(sec.clone()).index() } else { DebugCuIndex::from(sec.clone()).index() };
    let Ok(idx) = idx else {
        p.errs += 1;
        return;
    };
    let _ = (idx.version(), idx.section_count(), idx.unit_count(), idx.slot_count());
    for id in [0u64, 1, 2, 0x0102_0304_0506_0708, u64::MAX] {
        let _ = idx.find(id);
        p.items += 1;
    }
    let uc = idx.unit_count();
    for row in [0u32, 1, 2, uc, uc.wrapping_add(1), u32::MAX] {
        if let Ok(it) = idx.sections(row) {
            let mut n = 0u64;
            for s in it {
                n += 1;
                if n > p.bound {
                    p.fail("UnitIndexSectionIterator::next", "termination", "iterator-not-bounded-by-input", "section iterator did not finish".into());
                    break;
                }
                let _ = (s.section, s.offset, s.size, s.section.section_id(), s.section.dwo_name());
            }
        }
    }
}

// ---------------------------------------------------------------------------
// CFI

fn bases() -> [BaseAddresses; 2] {
    [BaseAddresses::default(), BaseAddresses::default().set_eh_frame_hdr(0x100).set_eh_frame(0x200).set_text(0x1000).set_got(0x2000)]
}

fn drv_cfi_section<R: Rd, S: UnwindSection<R>>(p: &mut Probe, sec: &S, len: usize)
where
    S::Offset: gimli::UnwindOffset<usize>,
{
    for b in bases().iter() {
        let mut it = sec.entries(b);
        drain!(p, "CfiEntriesIter::next", false, it.next(), |e| {
            match e {
                gimli::CieOrFde::Cie(cie) => drv_cie(p, sec, b, &cie),
                gimli::CieOrFde::Fde(partial) => {
                    let _ = (partial.offset(), partial.entry_len());
                    if let Ok(fde) = partial.parse(|s, b, o| s.cie_from_offset(b, o)) {
                        drv_fde(p, sec, b, &fde);
                    } else {
                        p.errs += 1;
                    }
                }
            }
        });
        for o in probe_offsets(len) {
            let off = S::Offset::from(o);
            if let Ok(cie) = sec.cie_from_offset(b, off) {
                drv_cie(p, sec, b, &cie);
            }
            let _ = sec.partial_fde_from_offset(b, off).map(|f| f.entry_len());
            if let Ok(fde) = sec.fde_from_offset(b, off, |s, b, o| s.cie_from_offset(b, o)) {
                drv_fde(p, sec, b, &fde);
            }
        }
        for addr in [0u64, 1, 0x1000, 0x1010, u32::MAX as u64, u64::MAX] {
            let _ = sec.fde_for_address(b, addr, |s, b, o| s.cie_from_offset(b, o)).map(|f| f.len());
            let mut ctx = UnwindContext::new();
            let _ = sec.unwind_info_for_address(b, &mut ctx, addr, |s, b, o| s.cie_from_offset(b, o)).map(|r| r.start_address());
        }
    }
}

fn drv_cie<R: Rd, S: UnwindSection<R>>(p: &mut Probe, sec: &S, b: &BaseAddresses, cie: &gimli::CommonInformationEntry<R>) {
    let _ = (cie.offset(), cie.encoding(), cie.address_size(), cie.entry_len(), cie.version(), cie.augmentation().is_some(), cie.has_lsda(), cie.lsda_encoding(), cie.personality_with_encoding(), cie.personality(), cie.fde_address_encoding(), cie.is_signal_trampoline(), cie.code_alignment_factor(), cie.data_alignment_factor(), cie.return_address_register());
    let mut ins = cie.instructions(sec, b);
    drain!(p, "CallFrameInstructionIter::next(cie)", false, ins.next(), |_i| {});
}


struct Store1;
impl<T: gimli::ReaderOffset> gimli::UnwindContextStorage<T> for Store1 {
    type Rules = [(gimli::Register, gimli::RegisterRule<T>); 1];
    type Stack = [gimli::UnwindTableRow<T, Self>; 1];
}
struct Store2;
impl<T: gimli::ReaderOffset> gimli::UnwindContextStorage<T> for Store2 {
    type Rules = [(gimli::Register, gimli::RegisterRule<T>); 2];
    type Stack = [gimli::UnwindTableRow<T, Self>; 2];
}

fn drv_fde<R: Rd, S: UnwindSection<R>>(p: &mut Probe, sec: &S, b: &BaseAddresses, fde: &gimli::FrameDescriptionEntry<R>) {
    let _ = (fde.offset(), fde.entry_len(), fde.initial_address(), fde.end_address(), fde.len(), fde.contains(fde.initial_address()), fde.lsda(), fde.is_signal_trampoline(), fde.personality());
    let mut ins = fde.instructions(sec, b);
    drain!(p, "CallFrameInstructionIter::next(fde)", false, ins.next(), |i| {
        if let gimli::CallFrameInstruction::DefCfaExpression { expression } | gimli::CallFrameInstruction::Expression { expression, .. } | gimli::CallFrameInstruction::ValExpression { expression, .. } = &i {
            let _ = expression.get(sec).map(|e| e.0.len());
        }
    });
    let mut ctx = UnwindContext::new();
    if let Ok(mut rows) = fde.rows(sec, b, &mut ctx) {
        drain!(p, "UnwindTable::next_row(heap)", false, rows.next_row().map(|o| o.map(|r| (r.start_address(), r.end_address(), r.saved_args_size(), r.cfa().clone(), r.registers().count()))), |_r| {});
    }
    let mut ctx1: UnwindContext<usize, Store1> = UnwindContext::new_in();
    if let Ok(mut rows) = fde.rows(sec, b, &mut ctx1) {
        drain!(p, "UnwindTable::next_row([_;1])", false, rows.next_row().map(|o| o.map(|r| r.start_address())), |_r| {});
    }
    let mut ctx2: UnwindContext<usize, Store2> = UnwindContext::new_in();
    if let Ok(mut rows) = fde.rows(sec, b, &mut ctx2) {
        drain!(p, "UnwindTable::next_row([_;2])", false, rows.next_row().map(|o| o.map(|r| r.start_address())), |_r| {});
    }
    for a in [fde.initial_address(), fde.initial_address().wrapping_add(1), fde.end_address().wrapping_sub(1), 0, u64::MAX] {
        let mut ctx = UnwindContext::new();
        let _ = fde.unwind_info_for_address(sec, b, &mut ctx, a).map(|r| r.start_address());
    }
}

pub fn drv_frame<R: Rd>(p: &mut Probe, sec: R, eh: bool, cfg: Cfg) {
    let len = sec.len();
    if eh {
        let mut s = EhFrame::from(sec);
        s.set_address_size(cfg.address_size);
        s.set_vendor(cfg.vendor());
        drv_cfi_section(p, &s, len);
    } else {
        let mut s = DebugFrame::from(sec);
        s.set_address_size(cfg.address_size);
        s.set_vendor(cfg.vendor());
        drv_cfi_section(p, &s, len);
    }
}

pub fn drv_eh_hdr<R: Rd>(p: &mut Probe, hdr: R, frame: R, cfg: Cfg) {
    let h = EhFrameHdr::from(hdr);
    let mut ehf = EhFrame::from(frame);
    ehf.set_address_size(cfg.address_size);
    for b in bases().iter() {
        let Ok(parsed) = h.parse(b, cfg.address_size) else {
            p.errs += 1;
            continue;
        };
        let _ = parsed.eh_frame_ptr();
        let Some(table) = parsed.table() else { continue };
        let mut it = table.iter(b);
        drain!(p, "EhHdrTableIter::next", false, it.next(), |e| {
            let _ = table.pointer_to_offset(e.1);
            let _ = table.pointer_to_offset(e.0);
        });
        for n in [0usize, 1, 2, 1000, usize::MAX / 2, usize::MAX] {
            let mut it = table.iter(b);
            let _ = it.nth(n);
            let _ = it.next();
        }
        for a in [0u64, 1, 0x1000, 0x1010, 0x7fff_ffff, u32::MAX as u64, u64::MAX] {
            if let Ok(ptr) = table.lookup(a, b) {
                let _ = table.pointer_to_offset(ptr);
            }
            let _ = table.fde_for_address(&ehf, b, a, |s, b, o| s.cie_from_offset(b, o)).map(|f| f.len());
            let mut ctx = UnwindContext::new();
            let _ = table.unwind_info_for_address(&ehf, b, &mut ctx, a, |s, b, o| s.cie_from_offset(b, o)).map(|r| r.start_address());
        }
        for ptr in [gimli::Pointer::Direct(0), gimli::Pointer::Direct(u64::MAX), gimli::Pointer::Indirect(8)] {
            let _ = table.pointer_to_offset(ptr);
        }
    }
}

// ---------------------------------------------------------------------------
// expressions

pub fn drv_expr_ops<R: Rd>(p: &mut Probe, bytes: R, enc: Encoding) {
    let e = Expression(bytes);
    let mut it = e.clone().operations(enc);
    drain!(p, "OperationIter::next", false, it.next(), |_op| {
        let _ = it.offset_from(&e);
    });
}

/// Answer alphabets for the resume protocol. `choice` selects, per request
/// ordinal, which answer to give (mixed radix, consumed left to right).
fn eval_values() -> Vec<Value> {
    vec![Value::Generic(0), Value::Generic(u64::MAX), Value::I8(-1), Value::U8(255), Value::I16(i16::MIN), Value::U16(7), Value::I32(i32::MIN), Value::U32(u32::MAX), Value::I64(i64::MIN), Value::U64(u64::MAX), Value::F32(1.5), Value::F64(f64::NAN)]
}
fn eval_types() -> Vec<ValueType> {
    vec![ValueType::Generic, ValueType::I8, ValueType::U8, ValueType::I16, ValueType::U16, ValueType::I32, ValueType::U32, ValueType::I64, ValueType::U64, ValueType::F32, ValueType::F64]
}
pub const EVAL_CHOICES: u64 = 12;

pub fn drv_eval<R: Rd>(p: &mut Probe, bytes: R, enc: Encoding, mut choice: u64, other_buffers: &[R]) {
    let mut nested: Vec<R> = vec![];
    {
        // at_location answers are windows of the expression itself (empty, whole, tail)
        let mut e = bytes.clone();
        e.empty();
        nested.push(e);
        nested.push(bytes.clone());
        let mut t = bytes.clone();
        let _ = t.skip(1.min(t.len()));
        nested.push(t);
        // ... and expressions that live in OTHER buffers (a called DIE's location is not part of
        // the caller's bytes): with a branch, a backward loop, a register location followed by
        // more operations
        nested.extend(other_buffers.iter().cloned());
    }
    let choice0 = choice;
    for (obj, init) in [(false, false), (true, true)] {
        let ev = Expression(bytes.clone()).evaluation(enc);
        resume_loop(p, ev, obj, init, &mut choice, &nested);
    }
    // the same with a fixed-capacity storage: two stack slots, one call frame, one piece -
    // overflowing any of them must be the StackFull error, never a panic
    choice = choice0;
    for (obj, init) in [(false, false), (true, true)] {
        let ev = gimli::Evaluation::<R, SmallStore>::new_in(bytes.clone(), enc);
        resume_loop(p, ev, obj, init, &mut choice, &nested);
    }
}

/// Evaluation storage with room for 2 values, 1 call frame and 1 piece.
pub struct SmallStore;
impl<R: Reader> gimli::EvaluationStorage<R> for SmallStore {
    type Stack = [Value; 2];
    type ExpressionStack = [(R, R); 1];
    type Result = [gimli::Piece<R>; 1];
}

fn resume_loop<R: Rd, S: gimli::EvaluationStorage<R>>(p: &mut Probe, mut ev: gimli::Evaluation<R, S>, obj: bool, init: bool, choice: &mut u64, nested: &[R]) {
    let vals = eval_values();
    let tys = eval_types();
    {
        ev.set_max_iterations(64);
        if obj {
            ev.set_object_address(0x1000);
        }
        if init {
            ev.set_initial_value(u64::MAX);
        }
        let mut res = ev.evaluate();
        let mut steps = 0u64;
        loop {
            steps += 1;
            if steps > 200 {
                p.fail("Evaluation::resume", "termination", "evaluation-not-bounded-by-iteration-limit", "more than 200 resumes with max_iterations 64".into());
                break;
            }
            let c = (*choice % EVAL_CHOICES) as usize;
            *choice /= EVAL_CHOICES;
            let v = vals[c % vals.len()];
            let u = if c % 2 == 0 { 0 } else { u64::MAX };
            res = match res {
                Ok(EvaluationResult::Complete) => {
                    let _ = ev.value_result();
                    let _ = ev.as_result().len();
                    p.items += 1;
                    break;
                }
                Err(_) => {
                    p.errs += 1;
                    break;
                }
                Ok(EvaluationResult::RequiresMemory { .. }) => ev.resume_with_memory(v),
                Ok(EvaluationResult::RequiresRegister { .. }) => ev.resume_with_register(v),
                Ok(EvaluationResult::RequiresFrameBase) => ev.resume_with_frame_base(u),
                Ok(EvaluationResult::RequiresTls(_)) => ev.resume_with_tls(u),
                Ok(EvaluationResult::RequiresCallFrameCfa) => ev.resume_with_call_frame_cfa(u),
                Ok(EvaluationResult::RequiresAtLocation(_)) => ev.resume_with_at_location(nested[c % nested.len()].clone()),
                Ok(EvaluationResult::RequiresEntryValue(_)) => ev.resume_with_entry_value(v),
                Ok(EvaluationResult::RequiresParameterRef(_)) => ev.resume_with_parameter_ref(u),
                Ok(EvaluationResult::RequiresRelocatedAddress(_)) => ev.resume_with_relocated_address(u),
                Ok(EvaluationResult::RequiresIndexedAddress { .. }) => ev.resume_with_indexed_address(u),
                Ok(EvaluationResult::RequiresBaseType(_)) => ev.resume_with_base_type(tys[c % tys.len()]),
                Ok(EvaluationResult::RequiresWasmLocal { .. }) | Ok(EvaluationResult::RequiresWasmGlobal { .. }) | Ok(EvaluationResult::RequiresWasmStack { .. }) => ev.resume_with_wasm_value(v),
            };
        }
    }
}

// ---------------------------------------------------------------------------
// package

pub fn drv_package<R: Rd>(p: &mut Probe, cu_index: R, tu_index: R, secs: &Secs<R>) {
    let mut empty = cu_index.clone();
    empty.empty();
    let parent = secs.dwarf(false);
    let s = secs.clone();
    let pkg = gimli::DwarfPackage::load(
        |id| -> Result<R, gimli::Error> {
            Ok(match id {
                gimli::SectionId::DebugCuIndex => cu_index.clone(),
                gimli::SectionId::DebugTuIndex => tu_index.clone(),
                gimli::SectionId::DebugAbbrev => s.abbrev.clone(),
                gimli::SectionId::DebugInfo => s.info.clone(),
                gimli::SectionId::DebugTypes => s.types.clone(),
                gimli::SectionId::DebugStr => s.str_.clone(),
                gimli::SectionId::DebugStrOffsets => s.str_offsets.clone(),
                gimli::SectionId::DebugLine => s.line.clone(),
                gimli::SectionId::DebugLoc => s.loc.clone(),
                gimli::SectionId::DebugLocLists => s.loclists.clone(),
                gimli::SectionId::DebugRngLists => s.rnglists.clone(),
                gimli::SectionId::DebugMacinfo => s.macinfo.clone(),
                gimli::SectionId::DebugMacro => s.macro_.clone(),
                _ => {
                    let mut e = s.abbrev.clone();
                    e.empty();
                    e
                }
            })
        },
        empty,
    );
    let Ok(pkg) = pkg else {
        p.errs += 1;
        return;
    };
    for id in [0u64, 1, 0x0102_0304_0506_0708, u64::MAX] {
        if let Ok(Some(d)) = pkg.find_cu(gimli::DwoId(id), &parent) {
            let mut u = d.units();
            drain!(p, "DwarfPackage::find_cu/units", false, u.next(), |_h| {});
        }
        if let Ok(Some(d)) = pkg.find_tu(gimli::DebugTypeSignature(id), &parent) {
            let mut u = d.units();
            drain!(p, "DwarfPackage::find_tu/units", false, u.next(), |_h| {});
        }
    }
    for i in [0u32, 1, 2, u32::MAX] {
        let _ = pkg.cu_sections(i, &parent).map(|_| ());
        let _ = pkg.tu_sections(i, &parent).map(|_| ());
    }
}

// ---------------------------------------------------------------------------
// read -> write conversion

use gimli::write;

fn conv_addr(a: u64) -> Option<write::Address> {
    Some(write::Address::Constant(a))
}

fn write_all(p: &mut Probe, dwarf: &mut write::Dwarf, big: bool) {
    let e = if big { gimli::RunTimeEndian::Big } else { gimli::RunTimeEndian::Little };
    let mut sections = write::Sections::new(write::EndianVec::new(e));
    match dwarf.write(&mut sections) {
        Ok(()) => p.items += 1,
        Err(_) => p.errs += 1,
    }
}

pub fn drv_convert<R: Rd>(p: &mut Probe, secs: &Secs<R>, cfg: Cfg) {
    let rd = secs.dwarf(false);
    // (a) one-shot
    match write::Dwarf::from(&rd, &conv_addr) {
        Ok(mut w) => write_all(p, &mut w, cfg.big),
        Err(_) => p.errs += 1,
    }
    // (b) stepwise with a filter that requires every entry
    let _ = drv_convert_stepwise(p, &rd, cfg);
    // (c) line programs without a unit
    let dl = DebugLine::from(secs.line.clone());
    if let Ok(prog) = dl.program(DebugLineOffset(0), cfg.address_size, None, None) {
        for mode in 0..3 {
            let mut w = write::Dwarf::new();
            let Ok(mut c) = w.read_line_program(&rd, prog.clone(), None, None) else {
                p.errs += 1;
                break;
            };
            match mode {
                0 => {
                    let mut n = 0u64;
                    loop {
                        n += 1;
                        if n > p.bound {
                            p.fail("ConvertLineProgram::read_row", "termination", "iterator-not-bounded-by-input", "read_row did not finish".into());
                            break;
                        }
                        match c.read_row() {
                            Ok(Some(write::ConvertLineRow::SetAddress(a))) => c.set_address(write::Address::Constant(a)),
                            Ok(Some(write::ConvertLineRow::Row(r))) => c.generate_row(r),
                            Ok(Some(write::ConvertLineRow::EndSequence(l))) => c.end_sequence(l),
                            Ok(None) => break,
                            Err(_) => {
                                p.errs += 1;
                                break;
                            }
                        }
                    }
                    let _ = c.program();
                }
                1 => {
                    let mut n = 0u64;
                    loop {
                        n += 1;
                        if n > p.bound {
                            p.fail("ConvertLineProgram::read_sequence", "termination", "iterator-not-bounded-by-input", "read_sequence did not finish".into());
                            break;
                        }
                        match c.read_sequence() {
                            Ok(Some(seq)) => {
                                if let Some(s) = seq.start {
                                    c.set_address(write::Address::Constant(s));
                                }
                                for r in seq.rows {
                                    c.generate_row(r);
                                }
                                if let write::ConvertLineSequenceEnd::Length(l) = seq.end {
                                    c.end_sequence(l);
                                }
                            }
                            Ok(None) => break,
                            Err(_) => {
                                p.errs += 1;
                                break;
                            }
                        }
                    }
                    let _ = c.program();
                }
                _ => match c.convert(&conv_addr) {
                    Ok(_) => p.items += 1,
                    Err(_) => p.errs += 1,
                },
            }
        }
    }
}

fn drv_convert_stepwise<R: Rd>(p: &mut Probe, rd: &Dwarf<R>, cfg: Cfg) -> write::ConvertResult<()> {
    let mut filter = write::FilterUnitSection::new(rd)?;
    let mut n = 0u64;
    while let Some(mut unit) = filter.read_unit()? {
        let mut entry = unit.null_entry();
        while unit.read_entry(&mut entry)? {
            n += 1;
            if n > p.bound {
                p.fail("FilterUnit::read_entry", "termination", "iterator-not-bounded-by-input", "filter did not finish".into());
                return Ok(());
            }
            unit.require_entry(entry.offset);
        }
    }
    let mut dwarf = write::Dwarf::default();
    let e = if cfg.big { gimli::RunTimeEndian::Big } else { gimli::RunTimeEndian::Little };
    let mut sections = write::Sections::new(write::EndianVec::new(e));
    {
        let mut convert = dwarf.convert_with_filter(filter)?;
        while let Some((mut unit, root_entry)) = convert.read_unit()? {
            if let Some(mut cp) = unit.read_line_program(None, None)? {
                while let Some(sequence) = cp.read_sequence()? {
                    n += 1;
                    if n > p.bound {
                        p.fail("ConvertLineProgram::read_sequence", "termination", "iterator-not-bounded-by-input", "read_sequence did not finish".into());
                        return Ok(());
                    }
                    if let Some(start) = sequence.start {
                        cp.set_address(write::Address::Constant(start));
                    }
                    for row in sequence.rows {
                        cp.generate_row(row);
                    }
                    if let write::ConvertLineSequenceEnd::Length(length) = sequence.end {
                        cp.end_sequence(length);
                    }
                }
                let (program, files) = cp.program();
                unit.set_line_program(program, files);
            }
            let root_id = unit.unit.root();
            conv_attrs(&mut unit, root_id, &root_entry);
            let mut entry = root_entry;
            while let Some(id) = unit.read_entry(&mut entry)? {
                n += 1;
                if n > p.bound {
                    p.fail("ConvertUnit::read_entry", "termination", "iterator-not-bounded-by-input", "read_entry did not finish".into());
                    return Ok(());
                }
                if id.is_none() {
                    continue;
                }
                let id = unit.add_entry(id, &entry);
                conv_attrs(&mut unit, id, &entry);
            }
            unit.write(&mut sections)?;
        }
    }
    dwarf.write(&mut sections)?;
    p.items += 1;
    Ok(())
}

fn conv_attrs<R: Rd>(unit: &mut write::ConvertUnit<'_, R>, id: write::UnitEntryId, entry: &write::ConvertUnitEntry<'_, R>) {
    for attr in &entry.attrs {
        if let Ok(value) = unit.convert_attribute_value(entry.read_unit, attr, &conv_addr) {
            unit.unit.get_mut(id).set(attr.name(), value);
        }
    }
}

pub fn drv_convert_frame<R: Rd>(p: &mut Probe, sec: R, eh: bool, cfg: Cfg) {
    let e = if cfg.big { gimli::RunTimeEndian::Big } else { gimli::RunTimeEndian::Little };
    let table = if eh {
        let mut s = EhFrame::from(sec);
        s.set_address_size(cfg.address_size);
        s.set_vendor(cfg.vendor());
        write::FrameTable::from(&s, &conv_addr)
    } else {
        let mut s = DebugFrame::from(sec);
        s.set_address_size(cfg.address_size);
        s.set_vendor(cfg.vendor());
        write::FrameTable::from(&s, &conv_addr)
    };
    match table {
        Ok(t) => {
            let _ = (t.cie_count(), t.fde_count());
            let mut w = write::DebugFrame::from(write::EndianVec::new(e));
            match t.write_debug_frame(&mut w) {
                Ok(()) => p.items += 1,
                Err(_) => p.errs += 1,
            }
            let mut w = write::EhFrame::from(write::EndianVec::new(e));
            match t.write_eh_frame(&mut w) {
                Ok(()) => p.items += 1,
                Err(_) => p.errs += 1,
            }
        }
        Err(_) => p.errs += 1,
    }
}
