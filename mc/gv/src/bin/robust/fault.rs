//! FaultReader: a gimli::Reader over a borrowed slice that counts primitive
//! operations in a counter shared by all clones/splits and makes the operation(s)
//! selected by the fault plan fail with Error::Io without consuming anything.
//! It also checks that every window stays inside the section it came from.
use gimli::{EndianSlice, Error, Reader, ReaderOffsetId, Result, RunTimeEndian};
use std::borrow::Cow;
use std::cell::Cell;
use std::rc::Rc;

#[derive(Debug)]
pub struct FaultState {
    pub ops: Cell<u64>,
    /// first failing operation index (u64::MAX = never)
    pub fail_from: u64,
    /// number of consecutive failing operations (u64::MAX = persistent)
    pub fail_len: u64,
    pub fired: Cell<bool>,
}

impl FaultState {
    pub fn never() -> Rc<FaultState> {
        Rc::new(FaultState { ops: Cell::new(0), fail_from: u64::MAX, fail_len: 0, fired: Cell::new(false) })
    }
    pub fn at(k: u64, len: u64) -> Rc<FaultState> {
        Rc::new(FaultState { ops: Cell::new(0), fail_from: k, fail_len: len, fired: Cell::new(false) })
    }
    #[inline]
    fn tick(&self) -> Result<()> {
        let n = self.ops.get();
        self.ops.set(n + 1);
        if n >= self.fail_from && n - self.fail_from < self.fail_len {
            self.fired.set(true);
            Err(Error::Io)
        } else {
            Ok(())
        }
    }
}

#[derive(Debug, Clone)]
pub struct FaultReader<'a> {
    inner: EndianSlice<'a, RunTimeEndian>,
    st: Rc<FaultState>,
}

impl<'a> FaultReader<'a> {
    pub fn new(bytes: &'a [u8], endian: RunTimeEndian, st: Rc<FaultState>) -> Self {
        FaultReader { inner: EndianSlice::new(bytes, endian), st }
    }
}

impl<'a> Reader for FaultReader<'a> {
    type Endian = RunTimeEndian;
    type Offset = usize;

    fn endian(&self) -> RunTimeEndian {
        self.inner.endian()
    }
    fn len(&self) -> usize {
        self.inner.len()
    }
    fn empty(&mut self) {
        self.inner.empty()
    }
    fn truncate(&mut self, len: usize) -> Result<()> {
        self.st.tick()?;
        self.inner.truncate(len)
    }
    fn offset_from(&self, base: &Self) -> usize {
        Reader::offset_from(&self.inner, &base.inner)
    }
    fn offset_id(&self) -> ReaderOffsetId {
        self.inner.offset_id()
    }
    fn lookup_offset_id(&self, id: ReaderOffsetId) -> Option<usize> {
        self.inner.lookup_offset_id(id)
    }
    fn find(&self, byte: u8) -> Result<usize> {
        self.st.tick()?;
        Reader::find(&self.inner, byte)
    }
    fn skip(&mut self, len: usize) -> Result<()> {
        self.st.tick()?;
        self.inner.skip(len)
    }
    fn split(&mut self, len: usize) -> Result<Self> {
        self.st.tick()?;
        let i = self.inner.split(len)?;
        Ok(FaultReader { inner: i, st: self.st.clone() })
    }
    fn to_slice(&self) -> Result<Cow<'_, [u8]>> {
        self.st.tick()?;
        self.inner.to_slice()
    }
    fn to_string(&self) -> Result<Cow<'_, str>> {
        self.st.tick()?;
        Reader::to_string(&self.inner)
    }
    fn to_string_lossy(&self) -> Result<Cow<'_, str>> {
        self.st.tick()?;
        Reader::to_string_lossy(&self.inner)
    }
    fn read_slice(&mut self, buf: &mut [u8]) -> Result<()> {
        self.st.tick()?;
        self.inner.read_slice(buf)
    }
}
