//! C20: reused contexts, buffers, iterators and caches behave like fresh ones.
//!
//! Five groups of explicit-state / exhaustive-history explorations, all with the
//! same oracle: the observable result sequence on reused state equals the
//! result sequence on freshly constructed state.
use mcx::{CheckDef, Tier};

#[path = "reuse/cache.rs"]
mod cache;
#[path = "reuse/clones.rs"]
mod clones;
#[path = "reuse/convert.rs"]
mod convert;
#[path = "reuse/cursor.rs"]
mod cursor;
#[path = "reuse/dw.rs"]
mod dw;
#[path = "reuse/entry.rs"]
mod entry;
#[path = "reuse/lineseq.rs"]
mod lineseq;
#[path = "reuse/unwind.rs"]
mod unwind;

fn main() {
    mcx::engine::main(|prop, tier| match prop {
        "C20" => Some(c20(tier)),
        _ => None,
    })
}

fn c20(tier: Tier) -> CheckDef {
    let mut subs = vec![];
    subs.extend(unwind::subs(tier));
    subs.extend(entry::subs(tier));
    subs.extend(clones::subs(tier));
    subs.extend(cache::subs(tier));
    subs.extend(convert::subs(tier));
    subs.extend(cursor::subs(tier));
    subs.extend(lineseq::subs(tier));
    let mut required = vec![];
    required.extend(unwind::required());
    required.extend(entry::required());
    required.extend(clones::required());
    required.extend(cache::required());
    required.extend(convert::required());
    required.extend(cursor::required());
    required.extend(lineseq::required());
    CheckDef {
        level: "model_checking",
        rule: "explicit-state exploration of operation histories on ONE piece of reusable state (UnwindContext, DebuggingInformationEntry buffer, EntriesTree, cloned iterator, Dwarf with AbbreviationsCache); every history up to the stated length is executed on the real code and EVERY step's observable result sequence is compared with the same operation on freshly constructed state; a case is distinct when its action sequence (and input configuration) differs; distinct_nontrivial counts histories (for BFS subs: unique states by the complete Debug rendering of the context); states/transitions: BFS subs count unique states and executed transitions, enumeration subs count executed steps as transitions and histories as traces".into(),
        assumptions: vec![
            "UnwindContext BFS: two contexts with the same Debug rendering (stack rows, initial_rule, is_initialized - every field) have the same futures; storage beyond the ArrayVec length is not observable through safe code. The explicit enumeration of all histories up to the stated length does not depend on this".into(),
            "register rules of a row are compared as a set (sorted by register number): RegisterRuleIter's order is documented as unspecified".into(),
            "after read_entry returns Err the buffer content is unspecified by the rustdoc ('Some fields in the entry may be modified'); only the error and all later successful reads are compared".into(),
            "attrs is a plain Vec in the pinned tree (no inline storage), so the 'heap-spilled buffer' class of the design is replaced by 'buffer keeps spare capacity from an earlier, larger entry'".into(),
            "RawRngListIter, RngListIter, RawLocListIter, LocListIter, the .debug_names table iterators and UnwindTable do not implement Clone in the pinned tree: the clone clause is vacuous for them; UnwindContext::clone is covered instead of UnwindTable".into(),
            "the cache clause also asserts the documented population rule of each strategy (Duplicates: offsets used by >= 2 iterable units; All: every iterable unit's offset; populate discards earlier entries), observed through Arc::ptr_eq of two lookups; this is what shows that lookups really hit the cache".into(),
            "inputs are built with the harness' own encoders (mcx::enc::Enc, constants transcribed from DWARF 5 section 7); gimli's writer is not used".into(),
        ],
        subs,
        required_outcomes: required,
    }
}
