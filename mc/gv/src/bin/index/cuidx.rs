//! C17, unit index part: .debug_cu_index / .debug_tu_index hash lookup, contribution
//! rows, and DwarfPackage::find_cu / find_tu.
use crate::dw::{self, Die, IdxModel, UnitKind, UnitModel, Val};
use crate::{en, hex, Rd};
use gimli::{DebugCuIndex, DebugTuIndex, DebugTypeSignature, Dwarf, DwarfPackage, DwarfPackageSections, DwoId, IndexSectionId, Section, SectionId, UnitIndex};
use mcx::space::Mix;
use mcx::{guard, Ctx, Sub, Tier};

// ---------------------------------------------------------------------------------------------
// find

fn mk_key(lo: u32, hi: u32, k: u32, tag: u32, deco: bool) -> u64 {
    // hash bits: low k bits of each half; a distinguishing tag right above the
    // hash bits of the low half; optionally every other high bit set.
    let mut l = lo | (tag << k);
    let mut h = hi;
    if deco {
        l |= 0xffff_0000;
        h |= u32::MAX << k;
    }
    ((h as u64) << 32) | l as u64
}

fn log2(s: u32) -> u32 {
    s.trailing_zeros()
}

fn parse_idx<'a>(ctx: &mut Ctx, bytes: &'a [u8], big: bool, tu: bool) -> Option<UnitIndex<Rd<'a>>> {
    let r = if tu { guard(|| DebugTuIndex::new(bytes, en(big)).index()) } else { guard(|| DebugCuIndex::new(bytes, en(big)).index()) };
    let entry = if tu { "DebugTuIndex::index" } else { "DebugCuIndex::index" };
    match r {
        Err(p) => {
            ctx.fail_panic(entry, &p, hex(bytes));
            None
        }
        Ok(Err(e)) => {
            ctx.fail(entry, "well-formed-index-parses", "rejected", format!("section {} big={}: Err({:?})", hex(bytes), big, e));
            None
        }
        Ok(Ok(i)) => Some(i),
    }
}

fn check_header(ctx: &mut Ctx, idx: &UnitIndex<Rd>, m: &IdxModel, bytes: &[u8]) {
    let got = (idx.version(), idx.section_count(), idx.unit_count(), idx.slot_count());
    let want = (m.version, m.columns.len() as u32, m.keys.len() as u32, m.slot_count);
    if got != want {
        ctx.fail("UnitIndex::parse", "header-fields", "wrong-value", format!("section {}: (version,sections,units,slots) got {:?} want {:?}", hex(bytes), got, want));
    }
}

/// One table: residues (lo, hi) of the keys in insertion order.
fn run_find_case(ctx: &mut Ctx, version: u16, big: bool, slots: u32, res: &[(u32, u32)]) {
    let n = res.len();
    let k = log2(slots.max(1));
    let mut sample = String::new();
    for deco_mode in 0..3u32 {
        for rev_rows in 0..2 {
            if rev_rows == 1 && n < 2 {
                continue;
            }
            let deco = |j: usize| match deco_mode {
                0 => false,
                1 => true,
                _ => j % 2 == 1,
            };
            // insertion position j -> row number
            let row_of = |j: usize| if rev_rows == 1 { n - j } else { j + 1 };
            // keys in row order
            let mut keys = vec![0u64; n];
            let mut order = vec![0usize; n];
            for j in 0..n {
                let r = row_of(j);
                keys[r - 1] = mk_key(res[j].0, res[j].1, k, j as u32 + 1, deco(j));
                order[j] = r - 1;
            }
            let columns = if version == 2 { vec![dw::SECT2_INFO, dw::SECT2_ABBREV] } else { vec![dw::SECT_INFO, dw::SECT_ABBREV] };
            let contrib: Vec<Vec<(u32, u32)>> = (0..n).map(|r| vec![(0x100 * r as u32, 0x10), (0x20 * r as u32, 0x20)]).collect();
            let m = IdxModel::new(version, big, slots, columns, keys.clone(), contrib, &order);
            let bytes = m.encode();
            let tu = (deco_mode + rev_rows) % 2 == 1;
            let Some(idx) = parse_idx(ctx, &bytes, big, tu) else { return };
            check_header(ctx, &idx, &m, &bytes);
            if n + 1 == slots as usize && slots > 1 {
                ctx.outcome("find:table-full-minus-one");
            }
            // probes: every present key, one absent key per residue class, and 0
            let mut probes: Vec<(u64, Option<u32>)> = vec![];
            for r in 0..n {
                probes.push((keys[r], Some(r as u32 + 1)));
            }
            for lo in 0..slots.max(1) {
                for hi in 0..slots.max(1) {
                    probes.push((mk_key(lo, hi, k, n as u32 + 1, deco_mode == 1), None));
                    if deco_mode == 2 {
                        probes.push((mk_key(lo, hi, k, n as u32 + 2, true), None));
                    }
                }
            }
            for &(key, want) in &probes {
                ctx.eval(1);
                ctx.nontriv(1);
                let got = guard(|| idx.find(key));
                let path = dw::idx_probe(&m.slot_keys, key);
                let wrapped = path.windows(2).any(|w| w[1] < w[0]);
                let cls = match (want.is_some(), path.len(), wrapped) {
                    (true, 1, _) => "find:hit-direct",
                    (true, _, false) => "find:hit-chain",
                    (true, _, true) => "find:hit-chain-wrap",
                    (false, 0 | 1, _) => "find:miss-empty-slot",
                    (false, _, false) => "find:miss-after-chain",
                    (false, _, true) => "find:miss-after-chain-wrap",
                };
                ctx.outcome(cls);
                if path.len() >= 2 && slots > 2 {
                    let stride = (path[1] + slots - path[0]) % slots;
                    if stride > 1 {
                        ctx.outcome("find:stride>1");
                    }
                }
                match got {
                    Err(p) => ctx.fail_panic("UnitIndex::find", &p, format!("section {} key {:#x}", hex(&bytes), key)),
                    Ok(g) => {
                        if g != want {
                            let kind = match (g, want) {
                                (None, Some(_)) => "present-key-not-found",
                                (Some(_), None) => "absent-key-found",
                                _ => "wrong-row",
                            };
                            ctx.fail("UnitIndex::find", "linear-scan-of-slots", kind, format!("section {} (v{} big={} slots={}) key {:#x}: got {:?} want {:?}; model probe path {:?}", hex(&bytes), version, big, slots, key, g, want, path));
                        }
                    }
                }
            }
            // key 0 is the "unused slot" marker and can never be present
            ctx.eval(1);
            ctx.outcome("find:key-zero");
            match guard(|| idx.find(0)) {
                Err(p) => ctx.fail_panic("UnitIndex::find", &p, format!("section {} key 0", hex(&bytes))),
                Ok(None) => {}
                Ok(Some(r)) => ctx.fail("UnitIndex::find", "key-zero-is-never-present", "absent-key-found", format!("section {} (v{} big={} slots={} units={}) key 0: got Some({}) want None (0 marks an unused slot; row {} {})", hex(&bytes), version, big, slots, n, r, r, if r == 0 { "is not a row" } else { "belongs to another unit" })),
            }
            if sample.is_empty() {
                sample = format!("v{} big={} slots={} keys(row order)={:x?} slot_keys={:x?} slot_rows={:?} probes={} section={}", version, big, slots, keys, m.slot_keys, m.slot_rows, probes.len() + 1, hex(&bytes));
            }
        }
    }
    if ctx.want_sample() && n >= 2 {
        ctx.sample(sample);
    }
}

/// Exhaustive residue sequences for one slot count.
fn sub_find_exhaustive(slots: u32, max_n: u32) -> Sub {
    let alpha = (slots as u64) * (slots as u64);
    let nseq = mcx::space::seq_count(alpha, 0, max_n);
    let name = format!("idx-find-exh-s{}", slots);
    let bound = format!("slot_count {}: every sequence of 0..={} keys over all {} (H, H') residue classes in insertion order, x version {{2,5}} x byte order; inside: 3 high-bit decorations x 2 row numberings; probes = every present key, 1-2 absent keys per residue class, key 0", slots, max_n, alpha);
    Sub::new(&name, nseq * 4, &bound, move |ctx, i| {
        let mut m = Mix(i);
        let version = *m.pick(&[2u16, 5]);
        let big = m.flag();
        let seq = mcx::space::seq_decode(alpha, 0, max_n, m.0);
        let res: Vec<(u32, u32)> = seq.iter().map(|&x| ((x as u32) % slots, (x as u32) / slots)).collect();
        run_find_case(ctx, version, big, slots, &res);
    })
}

/// Structured collision chains for larger tables.
fn chain_cases(slot_list: &[u32]) -> Vec<(u32, Vec<(u32, u32)>)> {
    let mut out = vec![];
    for &s in slot_list {
        // all keys share H and H' (32 slots: home slots at the table ends and the middle only)
        for h0 in (0..s).filter(|&h| s < 32 || [0, 1, s / 2 - 1, s / 2, s - 2, s - 1].contains(&h)) {
            for hi in 0..s {
                for n in 1..s {
                    out.push((s, vec![(h0, hi); n as usize]));
                }
            }
        }
        // shared H, strides cycling through residues
        for h0 in 0..s {
            for n in 2..s {
                for &(a, b) in &[(1u32, 0u32), (2, 1), (3, 0), (s - 1, s - 1)] {
                    out.push((s, (0..n).map(|j| (h0, (j * a + b) % s)).collect()));
                }
            }
        }
        // two interleaved home slots (primary clustering)
        for h0 in 0..s {
            for n in 2..s {
                out.push((s, (0..n).map(|j| ((h0 + (j % 2)) % s, 0)).collect()));
                out.push((s, (0..n).map(|j| ((h0 + (j % 2) * (s / 2)) % s, s / 2)).collect()));
            }
        }
    }
    out
}

fn sub_find_chains(tier: Tier) -> Sub {
    let slot_list: Vec<u32> = tier.pick(vec![8, 16], vec![8, 16, 32]);
    let cases = chain_cases(&slot_list);
    let bound = format!("slot_count in {:?}: collision chains of every length 1..slots-1 from every home slot (32 slots: home slots 0,1,15,16,30,31) with every H' residue (odd and even), mixed-stride chains from every home slot, two interleaved home slots; x version {{2,5}} x byte order; same probes as idx-find-exh", slot_list);
    Sub::new("idx-find-chains", cases.len() as u64 * 4, &bound, move |ctx, i| {
        let mut m = Mix(i);
        let version = *m.pick(&[2u16, 5]);
        let big = m.flag();
        let (s, res) = &cases[m.0 as usize];
        run_find_case(ctx, version, big, *s, res);
    })
}

fn sub_find_degenerate() -> Sub {
    // slot_count 0 (header only), slot_count 1 (no unit can be stored), absent section
    Sub::new("idx-find-empty", 2 * 2 * 3, "absent (empty) index section, slot_count 0 and slot_count 1 with no units, x version x byte order; probes 0, 1, u64::MAX and hash-pattern keys", |ctx, i| {
        let mut m = Mix(i);
        let version = *m.pick(&[2u16, 5]);
        let big = m.flag();
        let shape = m.take(3);
        let (bytes, want_hdr): (Vec<u8>, (u16, u32, u32, u32)) = match shape {
            0 => (vec![], (0, 0, 0, 0)),
            s => {
                let slots = s as u32 - 1;
                let cols = if version == 2 { vec![dw::SECT2_INFO] } else { vec![dw::SECT_INFO] };
                let md = IdxModel::new(version, big, slots, cols, vec![], vec![], &[]);
                (md.encode(), (version, 1, 0, slots))
            }
        };
        for tu in [false, true] {
            let Some(idx) = parse_idx(ctx, &bytes, big, tu) else { return };
            let got = (idx.version(), idx.section_count(), idx.unit_count(), idx.slot_count());
            if got != want_hdr {
                ctx.fail("UnitIndex::parse", "header-fields", "wrong-value", format!("section {}: got {:?} want {:?}", hex(&bytes), got, want_hdr));
            }
            for key in [1u64, u64::MAX, 0x1_0000_0001, 0x8000_0000_0000_0000] {
                ctx.eval(1);
                ctx.nontriv(1);
                match guard(|| idx.find(key)) {
                    Err(p) => ctx.fail_panic("UnitIndex::find", &p, format!("section {} key {:#x}", hex(&bytes), key)),
                    Ok(None) => ctx.outcome("find:empty-table-miss"),
                    Ok(Some(r)) => ctx.fail("UnitIndex::find", "linear-scan-of-slots", "absent-key-found", format!("section {} key {:#x}: got Some({})", hex(&bytes), key, r)),
                }
            }
            ctx.eval(1);
            match guard(|| idx.find(0)) {
                Err(p) => ctx.fail_panic("UnitIndex::find", &p, format!("section {} key 0", hex(&bytes))),
                Ok(None) => ctx.outcome("find:empty-table-miss"),
                Ok(Some(r)) => ctx.fail("UnitIndex::find", "key-zero-is-never-present", "absent-key-found", format!("section {} (v{} big={}) key 0: got Some({}) want None", hex(&bytes), version, big, r)),
            }
            for row in [0u32, 1] {
                ctx.eval(1);
                match guard(|| idx.sections(row).map(|it| it.count())) {
                    Err(p) => ctx.fail_panic("UnitIndex::sections", &p, format!("section {} row {}", hex(&bytes), row)),
                    Ok(Err(_)) => ctx.outcome("sections:row-rejected"),
                    Ok(Ok(c)) => ctx.fail("UnitIndex::sections", "row-out-of-range", "accepted", format!("section {} row {}: Ok({} items) but there are no units", hex(&bytes), row, c)),
                }
            }
        }
        if ctx.want_sample() {
            ctx.sample(format!("v{} big={} shape={} section={}", version, big, shape, hex(&bytes)));
        }
    })
}

// ---------------------------------------------------------------------------------------------
// sections(row)

/// The IndexSectionId gimli documents for a DW_SECT code.
fn expect_kind(version: u16, code: u32) -> IndexSectionId {
    if version == 2 {
        match code {
            dw::SECT2_INFO => IndexSectionId::DebugInfo,
            dw::SECT2_TYPES => IndexSectionId::DebugTypes,
            dw::SECT2_ABBREV => IndexSectionId::DebugAbbrev,
            dw::SECT2_LINE => IndexSectionId::DebugLine,
            dw::SECT2_LOC => IndexSectionId::DebugLoc,
            dw::SECT2_STR_OFFSETS => IndexSectionId::DebugStrOffsets,
            dw::SECT2_MACINFO => IndexSectionId::DebugMacinfo,
            dw::SECT2_MACRO => IndexSectionId::DebugMacro,
            _ => unreachable!(),
        }
    } else {
        match code {
            dw::SECT_INFO => IndexSectionId::DebugInfo,
            dw::SECT_ABBREV => IndexSectionId::DebugAbbrev,
            dw::SECT_LINE => IndexSectionId::DebugLine,
            dw::SECT_LOCLISTS => IndexSectionId::DebugLocLists,
            dw::SECT_STR_OFFSETS => IndexSectionId::DebugStrOffsets,
            dw::SECT_MACRO => IndexSectionId::DebugMacro,
            dw::SECT_RNGLISTS => IndexSectionId::DebugRngLists,
            _ => unreachable!(),
        }
    }
}

/// ELF names of the .dwo sections (DWARF 5 section 7.3.2.1 / 7.3.5, GNU names for the v2-only ones).
fn expect_dwo_name(k: IndexSectionId) -> (&'static str, SectionId) {
    match k {
        IndexSectionId::DebugAbbrev => (".debug_abbrev.dwo", SectionId::DebugAbbrev),
        IndexSectionId::DebugInfo => (".debug_info.dwo", SectionId::DebugInfo),
        IndexSectionId::DebugLine => (".debug_line.dwo", SectionId::DebugLine),
        IndexSectionId::DebugLoc => (".debug_loc.dwo", SectionId::DebugLoc),
        IndexSectionId::DebugLocLists => (".debug_loclists.dwo", SectionId::DebugLocLists),
        IndexSectionId::DebugMacinfo => (".debug_macinfo.dwo", SectionId::DebugMacinfo),
        IndexSectionId::DebugMacro => (".debug_macro.dwo", SectionId::DebugMacro),
        IndexSectionId::DebugRngLists => (".debug_rnglists.dwo", SectionId::DebugRngLists),
        IndexSectionId::DebugStrOffsets => (".debug_str_offsets.dwo", SectionId::DebugStrOffsets),
        IndexSectionId::DebugTypes => (".debug_types.dwo", SectionId::DebugTypes),
    }
}

fn sub_sections() -> Sub {
    // version 2: 256 subsets, version 5: 128 subsets
    let n_subsets = 256 + 128;
    Sub::new("idx-sections", n_subsets * 3 * 4 * 2 * 2, "version 2 x all 256 subsets of its 8 section kinds + version 5 x all 128 subsets of its 7 kinds, x 3 column orders x unit_count 0..=3 x slot_count {smallest, twice} x byte order; sections(row) for row 0..=units+1 and via find(key) for every key; IndexSectionId::section_id/dwo_name", |ctx, i| {
        let mut m = Mix(i);
        let ss = m.take(384);
        let (version, mask, kinds): (u16, u64, &[u32]) = if ss < 256 { (2, ss, &dw::V2_KINDS) } else { (5, ss - 256, &dw::V5_KINDS) };
        let order = m.take(3);
        let n = m.take(4) as usize;
        let big_slots = m.flag();
        let big = m.flag();
        let mut cols: Vec<u32> = kinds.iter().enumerate().filter(|(b, _)| mask >> b & 1 == 1).map(|(_, &c)| c).collect();
        match order {
            1 => cols.reverse(),
            2 => {
                if !cols.is_empty() {
                    let r = cols.len() / 2;
                    cols.rotate_left(r);
                }
            }
            _ => {}
        }
        let mut slots = 1u32;
        while slots as usize <= n {
            slots *= 2;
        }
        if big_slots {
            slots *= 2;
        }
        let k = log2(slots);
        // all keys collide on H = slots-1 with stride 1: chain wraps the table end
        let keys: Vec<u64> = (0..n).map(|r| mk_key(slots - 1, 0, k, r as u32 + 1, r % 2 == 0)).collect();
        // insertion order differs from row order
        let ins: Vec<usize> = (0..n).rev().collect();
        let contrib: Vec<Vec<(u32, u32)>> = (0..n).map(|r| (0..cols.len()).map(|c| (0x0100_0000 * (r as u32 + 1) + 0x100 * c as u32 + 1, 0x8000_0000 + 0x1000 * r as u32 + c as u32)).collect()).collect();
        let md = IdxModel::new(version, big, slots, cols.clone(), keys.clone(), contrib.clone(), &ins);
        let bytes = md.encode();
        let Some(idx) = parse_idx(ctx, &bytes, big, i % 2 == 1) else { return };
        check_header(ctx, &idx, &md, &bytes);
        let case = || format!("v{} big={} columns={:?} units={} slots={} section={}", version, big, cols, n, slots, hex(&bytes));
        for row in 0..=(n as u32 + 1) {
            ctx.eval(1);
            ctx.nontriv(1);
            let got = guard(|| idx.sections(row).map(|it| it.collect::<Vec<_>>()));
            let valid = row >= 1 && row as usize <= n;
            match got {
                Err(p) => ctx.fail_panic("UnitIndex::sections", &p, format!("{} row {}", case(), row)),
                Ok(Err(e)) => {
                    if valid {
                        ctx.fail("UnitIndex::sections", "row-in-range", "rejected", format!("{} row {}: Err({:?})", case(), row, e));
                    } else {
                        ctx.outcome("sections:row-rejected");
                    }
                }
                Ok(Ok(v)) => {
                    if !valid {
                        ctx.fail("UnitIndex::sections", "row-out-of-range", "accepted", format!("{} row {}: Ok({:?}); valid rows are 1..={}", case(), row, v, n));
                        continue;
                    }
                    ctx.outcome(if cols.is_empty() { "sections:row-ok-no-columns" } else { "sections:row-ok" });
                    let want: Vec<(IndexSectionId, u32, u32)> = cols.iter().enumerate().map(|(c, &code)| (expect_kind(version, code), contrib[row as usize - 1][c].0, contrib[row as usize - 1][c].1)).collect();
                    let g: Vec<(IndexSectionId, u32, u32)> = v.iter().map(|s| (s.section, s.offset, s.size)).collect();
                    if g != want {
                        ctx.fail("UnitIndex::sections", "row-column-of-contribution-tables", "wrong-contribution", format!("{} row {}: got {:x?} want {:x?}", case(), row, g, want));
                    }
                    for s in &v {
                        let (name, sid) = expect_dwo_name(s.section);
                        if s.section.dwo_name() != name || s.section.section_id() != sid {
                            ctx.fail("IndexSectionId::section_id", "dwo-section-names", "wrong-name", format!("{:?}: got {} / {:?} want {} / {:?}", s.section, s.section.dwo_name(), s.section.section_id(), name, sid));
                        }
                    }
                }
            }
        }
        // find composed with sections
        for (r, &key) in keys.iter().enumerate() {
            ctx.eval(1);
            let got = guard(|| idx.find(key).map(|row| (row, idx.sections(row).map(|it| it.map(|s| (s.offset, s.size)).collect::<Vec<_>>()))));
            match got {
                Err(p) => ctx.fail_panic("UnitIndex::find", &p, format!("{} key {:#x}", case(), key)),
                Ok(Some((row, Ok(v)))) if row == r as u32 + 1 && v == contrib[r] => ctx.outcome("sections:via-find"),
                Ok(o) => ctx.fail("UnitIndex::find", "find-then-sections", "wrong-contribution", format!("{} key {:#x}: got {:x?} want row {} {:x?}", case(), key, o, r + 1, contrib[r])),
            }
        }
        if ctx.want_sample() && n >= 2 && cols.len() >= 3 {
            ctx.sample(case());
        }
    })
}

// ---------------------------------------------------------------------------------------------
// DwarfPackage

struct Obj {
    /// local sections of the standalone .dwo object
    info: Vec<u8>,
    types: Vec<u8>,
    abbrev: Vec<u8>,
    str_: Vec<u8>,
    str_offsets: Vec<u8>,
    /// section-relative offset (in `str_offsets`) of each entry, to rewrite for the package
    str_entry_pos: Vec<usize>,
    str_entry_val: Vec<u64>,
    line: Vec<u8>,
    loc: Vec<u8>,
    loclists: Vec<u8>,
    rnglists: Vec<u8>,
    macinfo: Vec<u8>,
    macro_: Vec<u8>,
    /// units: (is_type_unit, key, range in info or types, expected dump)
    units: Vec<ObjUnit>,
}

struct ObjUnit {
    tu: bool,
    key: u64,
    start: usize,
    len: usize,
    dump: String,
    type_off: u64,
}

#[derive(Clone, Copy)]
struct DwpCfg {
    version: u16, // 2 (DWARF 4 units, GNU index) or 5
    big: bool,
    fmt64: bool,
    n_cu: usize,
    n_tu: usize,
    pattern: u64,
    opt_mask: u64,
    reverse: bool,
    gap: usize,
    wide_slots: bool,
}

fn opt_kinds(version: u16) -> [u32; 5] {
    if version == 2 {
        [dw::SECT2_LINE, dw::SECT2_LOC, dw::SECT2_STR_OFFSETS, dw::SECT2_MACINFO, dw::SECT2_MACRO]
    } else {
        [dw::SECT_LINE, dw::SECT_LOCLISTS, dw::SECT_STR_OFFSETS, dw::SECT_MACRO, dw::SECT_RNGLISTS]
    }
}

fn pkg_key(cfg: &DwpCfg, slots: u32, j: usize, tu: bool) -> u64 {
    let k = log2(slots);
    let tag = j as u32 + 1 + if tu { 8 } else { 0 };
    // bit 15 separates type signatures from dwo ids (the two tables may have different slot counts,
    // so the tag field alone does not keep the two key sets disjoint)
    let tu_bit: u64 = if tu { 0x8000 } else { 0 };
    tu_bit | match cfg.pattern {
        0 => mk_key((j as u32 + 1) % slots, 0, k, tag, false),
        1 => mk_key(1 % slots, 2 % slots, k, tag, true),
        2 => mk_key(slots - 1, 0, k, tag, j % 2 == 0),
        _ => mk_key(0, slots - 1, k, tag, true),
    }
}

fn render_str(b: &[u8]) -> String {
    format!("s\"{}\"", String::from_utf8_lossy(b))
}

/// Build the object files of a package configuration.
fn build_objs(cfg: &DwpCfg, cu_keys: &[u64], tu_keys: &[u64], addrs: &[u64]) -> Vec<Obj> {
    let v5 = cfg.version == 5;
    let uver: u16 = if v5 { 5 } else { 4 };
    let opts = opt_kinds(cfg.version);
    let has = |code: u32| opts.iter().position(|&c| c == code).map(|b| cfg.opt_mask >> b & 1 == 1).unwrap_or(false);
    let has_stroff = has(if v5 { dw::SECT_STR_OFFSETS } else { dw::SECT2_STR_OFFSETS });
    let addr_size: u8 = if cfg.fmt64 { 8 } else { 4 };
    let mut objs = vec![];
    for d in 0..cfg.n_cu {
        let tus: Vec<usize> = (0..cfg.n_tu).filter(|t| t % cfg.n_cu == d).collect();
        // strings of this object
        let mut strings: Vec<Vec<u8>> = vec![format!("cu{}.c", d).into_bytes(), format!("var{}", d).into_bytes()];
        for &t in &tus {
            strings.push(format!("type{}", t).into_bytes());
        }
        let mut str_ = format!("pad{}", "x".repeat(d)).into_bytes();
        str_.push(0);
        let mut str_off_local = vec![];
        for s in &strings {
            str_off_local.push(str_.len() as u64);
            str_.extend_from_slice(s);
            str_.push(0);
        }
        // name attribute of string number si
        let name_attr = |si: usize, root: bool| -> (u64, u64, Val) {
            if has_stroff {
                let form = if !v5 {
                    dw::FORM_GNU_STR_INDEX
                } else if root {
                    dw::FORM_STRX1
                } else {
                    dw::FORM_STRX
                };
                (dw::AT_NAME, form, Val::U(si as u64))
            } else {
                (dw::AT_NAME, dw::FORM_STRING, Val::Str(strings[si].clone()))
            }
        };
        let addr_form = if v5 { dw::FORM_ADDRX } else { dw::FORM_GNU_ADDR_INDEX };
        // compile unit
        let mut root = Die::new(dw::TAG_COMPILE_UNIT);
        root.attrs.push(name_attr(0, true));
        if !v5 {
            root.attrs.push((dw::AT_GNU_DWO_ID, dw::FORM_DATA8, Val::U(cu_keys[d])));
        }
        let mut var = Die::new(dw::TAG_VARIABLE);
        var.attrs.push(name_attr(1, false));
        var.attrs.push((dw::AT_LOW_PC, addr_form, Val::U(d as u64)));
        var.attrs.push((dw::AT_DECL_LINE, dw::FORM_UDATA, Val::U(100 + d as u64)));
        let root = root.child(var);
        let cu = UnitModel { version: uver, fmt64: cfg.fmt64, addr_size, kind: if v5 { UnitKind::SplitCompile(cu_keys[d]) } else { UnitKind::Compile }, abbrev_off: 0, code0: 1, root };
        let mut abbrev = cu.abbrev_table(cfg.big);
        let (cu_bytes, _) = cu.encode(cfg.big);
        let mut cu_dump = format!("0:{:#x} {:#x}={}", dw::TAG_COMPILE_UNIT, dw::AT_NAME, render_str(&strings[0]));
        if !v5 {
            cu_dump.push_str(&format!(" {:#x}=id{:#x}", dw::AT_GNU_DWO_ID, cu_keys[d]));
        }
        cu_dump.push_str(&format!("\n1:{:#x} {:#x}={} {:#x}=a{:#x} {:#x}=u{}\n", dw::TAG_VARIABLE, dw::AT_NAME, render_str(&strings[1]), dw::AT_LOW_PC, addrs[d], dw::AT_DECL_LINE, 100 + d));
        let mut info = vec![];
        let mut types = vec![];
        let mut units = vec![ObjUnit { tu: false, key: cu_keys[d], start: 0, len: cu_bytes.len(), dump: cu_dump, type_off: 0 }];
        info.extend_from_slice(&cu_bytes);
        // type units share the object's abbreviations (their table follows the CU's)
        for (ti, &t) in tus.iter().enumerate() {
            let mut root = Die::new(dw::TAG_TYPE_UNIT);
            let mut bt = Die::new(dw::TAG_BASE_TYPE);
            bt.attrs.push(name_attr(2 + ti, false));
            bt.attrs.push((dw::AT_BYTE_SIZE, dw::FORM_DATA1, Val::U(1 + t as u64)));
            root.children.push(bt);
            let tu = UnitModel { version: uver, fmt64: cfg.fmt64, addr_size, kind: UnitKind::Type { sig: tu_keys[t], split: true, type_die: 1 }, abbrev_off: abbrev.len() as u64, code0: 0x80 + 2 * t as u64, root };
            abbrev.extend_from_slice(&tu.abbrev_table(cfg.big));
            let (b, offs) = tu.encode(cfg.big);
            let dump = format!("0:{:#x}\n1:{:#x} {:#x}={} {:#x}=u{}\n", dw::TAG_TYPE_UNIT, dw::TAG_BASE_TYPE, dw::AT_NAME, render_str(&strings[2 + ti]), dw::AT_BYTE_SIZE, 1 + t);
            let dst = if v5 { &mut info } else { &mut types };
            units.push(ObjUnit { tu: true, key: tu_keys[t], start: dst.len(), len: b.len(), dump, type_off: offs[1] as u64 });
            dst.extend_from_slice(&b);
        }
        // string offsets contribution: DWARF 5 has the table header, the GNU format has none
        let (str_offsets, str_entry_pos) = if has_stroff {
            let w = dw::word(cfg.fmt64);
            if v5 {
                let (b, first) = dw::str_offsets_table(cfg.big, cfg.fmt64, &str_off_local);
                let pos = (0..strings.len()).map(|i| first + i * w).collect();
                (b, pos)
            } else {
                let mut e = mcx::enc::Enc::new(cfg.big);
                for &o in &str_off_local {
                    e.offset(o, cfg.fmt64);
                }
                (e.buf, (0..strings.len()).map(|i| i * w).collect())
            }
        } else {
            (vec![], vec![])
        };
        let marker = |name: &str, code: u32| -> Vec<u8> {
            if has(code) {
                format!("<{}#{}>", name, d).into_bytes()
            } else {
                vec![]
            }
        };
        objs.push(Obj {
            info,
            types,
            abbrev,
            str_,
            str_offsets,
            str_entry_pos,
            str_entry_val: str_off_local,
            line: marker("line", if v5 { dw::SECT_LINE } else { dw::SECT2_LINE }),
            loc: if v5 { vec![] } else { marker("loc", dw::SECT2_LOC) },
            loclists: if v5 { marker("loclists", dw::SECT_LOCLISTS) } else { vec![] },
            rnglists: if v5 { marker("rnglists", dw::SECT_RNGLISTS) } else { vec![] },
            macinfo: if v5 { vec![] } else { marker("macinfo", dw::SECT2_MACINFO) },
            macro_: marker("macro", if v5 { dw::SECT_MACRO } else { dw::SECT2_MACRO }),
            units,
        });
    }
    objs
}

/// Bytes of each section of a `Dwarf`, in a fixed order, for plumbing comparison.
fn dwarf_section_bytes<'a>(d: &Dwarf<Rd<'a>>) -> Vec<(&'static str, &'a [u8])> {
    let mut loc: Vec<&'a [u8]> = vec![];
    let _ = d.locations.borrow(|r: &Rd<'a>| {
        loc.push(r.slice());
        *r
    });
    vec![
        ("debug_abbrev", d.debug_abbrev.reader().slice()),
        ("debug_addr", d.debug_addr.reader().slice()),
        ("debug_aranges", d.debug_aranges.reader().slice()),
        ("debug_info", d.debug_info.reader().slice()),
        ("debug_line", d.debug_line.reader().slice()),
        ("debug_line_str", d.debug_line_str.reader().slice()),
        ("debug_macinfo", d.debug_macinfo.reader().slice()),
        ("debug_macro", d.debug_macro.reader().slice()),
        ("debug_names", d.debug_names.reader().slice()),
        ("debug_str", d.debug_str.reader().slice()),
        ("debug_str_offsets", d.debug_str_offsets.reader().slice()),
        ("debug_types", d.debug_types.reader().slice()),
        ("debug_loc", loc[0]),
        ("debug_loclists", loc[1]),
        ("debug_ranges", d.ranges.debug_ranges().reader().slice()),
        ("debug_rnglists", d.ranges.debug_rnglists().reader().slice()),
    ]
}

/// Semantic dump of the first unit of `d` (in .debug_info, or .debug_types when `types`).
pub fn dump_first_unit<'a>(d: &Dwarf<Rd<'a>>, types: bool, skel: Option<&gimli::Unit<Rd<'a>>>) -> Result<(String, gimli::UnitHeader<Rd<'a>>, usize), String> {
    let mut headers = vec![];
    if types {
        let mut it = d.type_units();
        while let Some(h) = it.next().map_err(|e| format!("type_units: {:?}", e))? {
            headers.push(h);
        }
    } else {
        let mut it = d.units();
        while let Some(h) = it.next().map_err(|e| format!("units: {:?}", e))? {
            headers.push(h);
        }
    }
    let n = headers.len();
    let h = headers.into_iter().next().ok_or_else(|| "no unit in contribution".to_string())?;
    let mut unit = d.unit(h.clone()).map_err(|e| format!("Dwarf::unit: {:?}", e))?;
    if let Some(s) = skel {
        unit.copy_relocated_attributes(s);
    }
    let mut out = String::new();
    let mut cur = unit.entries();
    loop {
        let e = match cur.next_dfs() {
            Ok(Some(e)) => e,
            Ok(None) => break,
            Err(e) => return Err(format!("next_dfs: {:?}", e)),
        };
        out.push_str(&format!("{}:{:#x}", e.depth(), e.tag().0));
        for a in e.attrs() {
            let v = a.value();
            let txt = if let Ok(s) = d.attr_string(&unit, v.clone()) {
                render_str(s.slice())
            } else {
                match d.attr_address(&unit, v.clone()) {
                    Ok(Some(x)) => format!("a{:#x}", x),
                    Err(e) => format!("addr-err({:?})", e),
                    Ok(None) => match v {
                        gimli::AttributeValue::Udata(x) => format!("u{}", x),
                        gimli::AttributeValue::Data1(x) => format!("u{}", x),
                        gimli::AttributeValue::Data2(x) => format!("u{}", x),
                        gimli::AttributeValue::Data4(x) => format!("u{}", x),
                        gimli::AttributeValue::Data8(x) => format!("u{}", x),
                        gimli::AttributeValue::DwoId(DwoId(x)) => format!("id{:#x}", x),
                        other => format!("{:?}", other),
                    },
                }
            };
            out.push_str(&format!(" {:#x}={}", a.name().0, txt));
        }
        out.push('\n');
    }
    Ok((out, h, n))
}

fn load_dwarf<'a>(big: bool, f: impl Fn(SectionId) -> &'a [u8]) -> Dwarf<Rd<'a>> {
    Dwarf::load(|id| Ok::<_, ()>(Rd::new(f(id), en(big)))).unwrap()
}

fn run_dwp_case(ctx: &mut Ctx, cfg: DwpCfg) {
    let v5 = cfg.version == 5;
    let mut cu_slots = 1u32;
    while cu_slots as usize <= cfg.n_cu {
        cu_slots *= 2;
    }
    let mut tu_slots = 1u32;
    while tu_slots as usize <= cfg.n_tu {
        tu_slots *= 2;
    }
    if cfg.wide_slots {
        cu_slots *= 2;
        tu_slots *= 2;
    }
    let cu_keys: Vec<u64> = (0..cfg.n_cu).map(|j| pkg_key(&cfg, cu_slots, j, false)).collect();
    let tu_keys: Vec<u64> = (0..cfg.n_tu).map(|j| pkg_key(&cfg, tu_slots, j, true)).collect();
    {
        let mut all: Vec<u64> = cu_keys.iter().chain(tu_keys.iter()).cloned().collect();
        all.sort();
        all.dedup();
        if all.len() != cu_keys.len() + tu_keys.len() || all.first() == Some(&0) {
            ctx.machinery(format!("harness: key sets not disjoint/non-zero: {:x?} {:x?}", cu_keys, tu_keys));
            return;
        }
    }
    let addr_size: u8 = if cfg.fmt64 { 8 } else { 4 };
    let addrs: Vec<u64> = (0..cfg.n_cu as u64).map(|d| 0x4000_1000 + 0x110 * d).collect();
    let objs = build_objs(&cfg, &cu_keys, &tu_keys, &addrs);

    // ---- parent (skeleton) file
    let (addr_sec, addr_base) = if v5 {
        let (t, first) = dw::addr_table(cfg.big, cfg.fmt64, addr_size, &addrs);
        (t, first as u64)
    } else {
        let mut e = mcx::enc::Enc::new(cfg.big);
        e.bytes(&[0xaa; 4]);
        for &a in &addrs {
            e.addr(a, addr_size);
        }
        (e.buf, 4)
    };
    let mut skel_info = vec![];
    let mut skel_abbrev = vec![];
    for d in 0..cfg.n_cu {
        let root = if v5 {
            Die::new(dw::TAG_SKELETON_UNIT).attr(dw::AT_DWO_NAME, dw::FORM_STRING, Val::Str(format!("o{}.dwo", d).into_bytes())).attr(dw::AT_ADDR_BASE, dw::FORM_SEC_OFFSET, Val::U(addr_base))
        } else {
            Die::new(dw::TAG_COMPILE_UNIT).attr(dw::AT_GNU_DWO_NAME, dw::FORM_STRING, Val::Str(format!("o{}.dwo", d).into_bytes())).attr(dw::AT_GNU_DWO_ID, dw::FORM_DATA8, Val::U(cu_keys[d])).attr(dw::AT_GNU_ADDR_BASE, dw::FORM_SEC_OFFSET, Val::U(addr_base))
        };
        let u = UnitModel { version: if v5 { 5 } else { 4 }, fmt64: cfg.fmt64, addr_size, kind: if v5 { UnitKind::Skeleton(cu_keys[d]) } else { UnitKind::Compile }, abbrev_off: skel_abbrev.len() as u64, code0: 1, root };
        skel_abbrev.extend_from_slice(&u.abbrev_table(cfg.big));
        skel_info.extend_from_slice(&u.encode(cfg.big).0);
    }
    let sup_str = b"sup-string\0".to_vec();
    let mut parent = load_dwarf(cfg.big, |id| match id {
        SectionId::DebugInfo => &skel_info[..],
        SectionId::DebugAbbrev => &skel_abbrev[..],
        SectionId::DebugAddr => &addr_sec[..],
        SectionId::DebugRanges => &b"<parent-ranges>"[..],
        SectionId::DebugStr => &b"<parent-str>\0"[..],
        _ => &[],
    });
    parent.set_sup(load_dwarf(cfg.big, |id| if id == SectionId::DebugStr { &sup_str[..] } else { &[] }));

    // ---- package sections
    let opts = opt_kinds(cfg.version);
    let present_opts: Vec<u32> = opts.iter().enumerate().filter(|(b, _)| cfg.opt_mask >> b & 1 == 1).map(|(_, &c)| c).collect();
    #[derive(Default)]
    struct Pk {
        info: Vec<u8>,
        types: Vec<u8>,
        abbrev: Vec<u8>,
        line: Vec<u8>,
        loc: Vec<u8>,
        loclists: Vec<u8>,
        rnglists: Vec<u8>,
        macinfo: Vec<u8>,
        macro_: Vec<u8>,
        str_: Vec<u8>,
        str_offsets: Vec<u8>,
    }
    let mut pk = Pk::default();
    let gap = cfg.gap;
    let place = |dst: &mut Vec<u8>, b: &[u8]| -> (u32, u32) {
        if b.is_empty() {
            return (0, 0);
        }
        dst.extend(std::iter::repeat(0xee).take(gap));
        let o = dst.len();
        dst.extend_from_slice(b);
        (o as u32, b.len() as u32)
    };
    // per object: contributions by DW_SECT code
    let obj_order: Vec<usize> = if cfg.reverse { (0..objs.len()).rev().collect() } else { (0..objs.len()).collect() };
    let mut obj_contrib: Vec<Vec<(u32, (u32, u32))>> = vec![vec![]; objs.len()];
    let mut unit_contrib: Vec<Vec<(u32, u32)>> = objs.iter().map(|o| vec![(0, 0); o.units.len()]).collect();
    let mut merged_str_offsets: Vec<Vec<u8>> = vec![vec![]; objs.len()];
    for &d in &obj_order {
        let o = &objs[d];
        // merged string section: object's strings appended; offsets rewritten
        let str_base = pk.str_.len() as u64;
        pk.str_.extend_from_slice(&o.str_);
        let mut so = mcx::enc::Enc::new(cfg.big);
        so.buf = o.str_offsets.clone();
        for (i, &pos) in o.str_entry_pos.iter().enumerate() {
            so.patch_uint(pos, o.str_entry_val[i] + str_base, dw::word(cfg.fmt64));
        }
        merged_str_offsets[d] = so.buf.clone();
        let c = &mut obj_contrib[d];
        if v5 {
            c.push((dw::SECT_ABBREV, place(&mut pk.abbrev, &o.abbrev)));
            c.push((dw::SECT_LINE, place(&mut pk.line, &o.line)));
            c.push((dw::SECT_LOCLISTS, place(&mut pk.loclists, &o.loclists)));
            c.push((dw::SECT_STR_OFFSETS, place(&mut pk.str_offsets, &so.buf)));
            c.push((dw::SECT_MACRO, place(&mut pk.macro_, &o.macro_)));
            c.push((dw::SECT_RNGLISTS, place(&mut pk.rnglists, &o.rnglists)));
        } else {
            c.push((dw::SECT2_ABBREV, place(&mut pk.abbrev, &o.abbrev)));
            c.push((dw::SECT2_LINE, place(&mut pk.line, &o.line)));
            c.push((dw::SECT2_LOC, place(&mut pk.loc, &o.loc)));
            c.push((dw::SECT2_STR_OFFSETS, place(&mut pk.str_offsets, &so.buf)));
            c.push((dw::SECT2_MACINFO, place(&mut pk.macinfo, &o.macinfo)));
            c.push((dw::SECT2_MACRO, place(&mut pk.macro_, &o.macro_)));
        }
        let unit_order: Vec<usize> = if cfg.reverse { (0..o.units.len()).rev().collect() } else { (0..o.units.len()).collect() };
        for ui in unit_order {
            let u = &o.units[ui];
            let src = if u.tu && !v5 { &o.types } else { &o.info };
            let dst = if u.tu && !v5 { &mut pk.types } else { &mut pk.info };
            unit_contrib[d][ui] = place(dst, &src[u.start..u.start + u.len]);
        }
    }
    // index rows
    let build_index = |tu: bool| -> (Vec<u8>, Vec<(usize, usize)>) {
        // rows in key order j = 0..n; unit j lives in some object
        let mut rows: Vec<(usize, usize)> = vec![];
        let n = if tu { cfg.n_tu } else { cfg.n_cu };
        for j in 0..n {
            let key = if tu { tu_keys[j] } else { cu_keys[j] };
            for (d, o) in objs.iter().enumerate() {
                for (ui, u) in o.units.iter().enumerate() {
                    if u.tu == tu && u.key == key {
                        rows.push((d, ui));
                    }
                }
            }
        }
        assert_eq!(rows.len(), n);
        if n == 0 && cfg.n_cu + cfg.n_tu == 0 {
            return (vec![], rows);
        }
        let first = if v5 {
            dw::SECT_INFO
        } else if tu {
            dw::SECT2_TYPES
        } else {
            dw::SECT2_INFO
        };
        let mut cols = vec![first, if v5 { dw::SECT_ABBREV } else { dw::SECT2_ABBREV }];
        cols.extend_from_slice(&present_opts);
        if cfg.reverse {
            cols.reverse();
        }
        let contrib: Vec<Vec<(u32, u32)>> = rows
            .iter()
            .map(|&(d, ui)| cols.iter().map(|&c| if c == first { unit_contrib[d][ui] } else { obj_contrib[d].iter().find(|x| x.0 == c).unwrap().1 }).collect())
            .collect();
        let keys = if tu { tu_keys.clone() } else { cu_keys.clone() };
        let ins: Vec<usize> = if cfg.reverse { (0..n).rev().collect() } else { (0..n).collect() };
        let md = IdxModel::new(cfg.version, cfg.big, if tu { tu_slots } else { cu_slots }, cols, keys, contrib, &ins);
        (md.encode(), rows)
    };
    let (cu_index, cu_rows) = build_index(false);
    let (tu_index, tu_rows) = build_index(true);

    let case = || {
        format!(
            "v{} big={} fmt64={} cus={} tus={} pattern={} opt_mask={:#x} reverse={} gap={} wide={} cu_index={} tu_index={} info={} types={} abbrev={} str_offsets={}",
            cfg.version,
            cfg.big,
            cfg.fmt64,
            cfg.n_cu,
            cfg.n_tu,
            cfg.pattern,
            cfg.opt_mask,
            cfg.reverse,
            cfg.gap,
            cfg.wide_slots,
            hex(&cu_index),
            hex(&tu_index),
            hex(&pk.info),
            hex(&pk.types),
            hex(&pk.abbrev),
            hex(&pk.str_offsets)
        )
    };

    let loader = |id: SectionId| -> Result<Rd, gimli::Error> {
        Ok(Rd::new(
            match id {
                SectionId::DebugCuIndex => &cu_index[..],
                SectionId::DebugTuIndex => &tu_index[..],
                SectionId::DebugAbbrev => &pk.abbrev[..],
                SectionId::DebugInfo => &pk.info[..],
                SectionId::DebugLine => &pk.line[..],
                SectionId::DebugMacinfo => &pk.macinfo[..],
                SectionId::DebugMacro => &pk.macro_[..],
                SectionId::DebugStr => &pk.str_[..],
                SectionId::DebugStrOffsets => &pk.str_offsets[..],
                SectionId::DebugLoc => &pk.loc[..],
                SectionId::DebugLocLists => &pk.loclists[..],
                SectionId::DebugRngLists => &pk.rnglists[..],
                SectionId::DebugTypes => &pk.types[..],
                other => panic!("package loader asked for {:?}", other),
            },
            en(cfg.big),
        ))
    };
    static EMPTY: [u8; 0] = [];
    let empty = Rd::new(&EMPTY[..], en(cfg.big));
    // two construction paths, alternating
    let pkg_r = if cfg.gap == 0 {
        guard(|| DwarfPackage::load(loader, empty))
    } else {
        guard(|| DwarfPackageSections::load(loader).and_then(|s: DwarfPackageSections<Rd>| s.borrow(|r| *r, empty)))
    };
    let pkg = match pkg_r {
        Err(p) => {
            ctx.fail_panic("DwarfPackage::load", &p, case());
            return;
        }
        Ok(Err(e)) => {
            ctx.fail("DwarfPackage::load", "well-formed-package-loads", "rejected", format!("{}: Err({:?})", case(), e));
            return;
        }
        Ok(Ok(p)) => p,
    };

    // skeleton units of the parent, by dwo id
    let mut skels: Vec<(u64, gimli::Unit<Rd>)> = vec![];
    {
        let mut it = parent.units();
        loop {
            match it.next() {
                Ok(Some(h)) => match parent.unit(h) {
                    Ok(u) => match u.dwo_id {
                        Some(DwoId(id)) => skels.push((id, u)),
                        None => {
                            ctx.machinery(format!("skeleton unit without dwo id: {}", case()));
                            return;
                        }
                    },
                    Err(e) => {
                        ctx.machinery(format!("parent unit: {:?} {}", e, case()));
                        return;
                    }
                },
                Ok(None) => break,
                Err(e) => {
                    ctx.machinery(format!("parent units: {:?} {}", e, case()));
                    return;
                }
            }
        }
        let ids: Vec<u64> = skels.iter().map(|s| s.0).collect();
        if ids != cu_keys {
            ctx.machinery(format!("skeleton dwo ids {:x?} != {:x?}", ids, cu_keys));
            return;
        }
    }

    // ---- present units
    for tu in [false, true] {
        let rows = if tu { &tu_rows } else { &cu_rows };
        for (j, &(d, ui)) in rows.iter().enumerate() {
            let o = &objs[d];
            let u = &o.units[ui];
            let entry = if tu { "DwarfPackage::find_tu" } else { "DwarfPackage::find_cu" };
            ctx.eval(1);
            ctx.nontriv(1);
            let got = if tu { guard(|| pkg.find_tu(DebugTypeSignature(u.key), &parent)) } else { guard(|| pkg.find_cu(DwoId(u.key), &parent)) };
            let dwo = match got {
                Err(p) => {
                    ctx.fail_panic(entry, &p, format!("{} key {:#x}", case(), u.key));
                    continue;
                }
                Ok(Err(e)) => {
                    ctx.fail(entry, "present-unit-is-found", "error", format!("{} key {:#x}: Err({:?})", case(), u.key, e));
                    continue;
                }
                Ok(Ok(None)) => {
                    ctx.fail(entry, "present-unit-is-found", "present-key-not-found", format!("{} key {:#x} (row {}): Ok(None)", case(), u.key, j + 1));
                    continue;
                }
                Ok(Ok(Some(dw))) => dw,
            };
            ctx.outcome(if tu { "dwp:tu-found" } else { "dwp:cu-found" });
            // section plumbing of the returned Dwarf
            let types_sec = tu && !v5;
            let unit_bytes: &[u8] = if types_sec { &o.types[u.start..u.start + u.len] } else { &o.info[u.start..u.start + u.len] };
            let want_secs: Vec<(&str, &[u8])> = vec![
                ("debug_abbrev", &o.abbrev[..]),
                ("debug_addr", &addr_sec[..]),
                ("debug_aranges", &[]),
                ("debug_info", if types_sec { &[] } else { unit_bytes }),
                ("debug_line", &o.line[..]),
                ("debug_line_str", &[]),
                ("debug_macinfo", &o.macinfo[..]),
                ("debug_macro", &o.macro_[..]),
                ("debug_names", &[]),
                ("debug_str", &pk.str_[..]),
                ("debug_str_offsets", &merged_str_offsets[d][..]),
                ("debug_types", if types_sec { unit_bytes } else { &[] }),
                ("debug_loc", &o.loc[..]),
                ("debug_loclists", &o.loclists[..]),
                ("debug_ranges", &b"<parent-ranges>"[..]),
                ("debug_rnglists", &o.rnglists[..]),
            ];
            let got_secs = dwarf_section_bytes(&dwo);
            for (g, w) in got_secs.iter().zip(want_secs.iter()) {
                if g.1 != w.1 {
                    ctx.fail(entry, "unit-section-contributions", &format!("wrong-{}", g.0), format!("{} key {:#x}: {} of the returned Dwarf is {} want {}", case(), u.key, g.0, hex(g.1), hex(w.1)));
                }
            }
            if dwo.file_type != gimli::DwarfFileType::Dwo {
                ctx.fail(entry, "file-type-dwo", "wrong-file-type", format!("{}: {:?}", case(), dwo.file_type));
            }
            match dwo.sup() {
                Some(s) if s.debug_str.reader().slice() == &sup_str[..] => {}
                _ => ctx.fail(entry, "sup-from-parent", "wrong-sup", case()),
            }
            // dump equals the model and the standalone object's unit
            let skel = if tu { skels.get(d).map(|s| &s.1) } else { skels.iter().find(|s| s.0 == u.key).map(|s| &s.1) };
            let pdump = guard(|| dump_first_unit(&dwo, types_sec, skel));
            // standalone .dwo object holding only this unit
            let mut alone = load_dwarf(cfg.big, |id| match id {
                SectionId::DebugInfo if !types_sec => unit_bytes,
                SectionId::DebugTypes if types_sec => unit_bytes,
                SectionId::DebugAbbrev => &o.abbrev[..],
                SectionId::DebugStr => &o.str_[..],
                SectionId::DebugStrOffsets => &o.str_offsets[..],
                SectionId::DebugLine => &o.line[..],
                _ => &[],
            });
            alone.make_dwo(&parent);
            let adump = guard(|| dump_first_unit(&alone, types_sec, skel));
            match (pdump, adump) {
                (Err(p), _) | (_, Err(p)) => ctx.fail_panic(entry, &p, format!("{} key {:#x}", case(), u.key)),
                (Ok(Err(e)), _) => ctx.fail(entry, "package-unit-readable", "error", format!("{} key {:#x}: {}", case(), u.key, e)),
                (Ok(Ok(_)), Ok(Err(e))) => ctx.machinery(format!("standalone unit unreadable: {} {}", e, case())),
                (Ok(Ok((pd, ph, pn))), Ok(Ok((ad, ah, _)))) => {
                    if pn != 1 {
                        ctx.fail(entry, "contribution-holds-one-unit", "wrong-unit-count", format!("{} key {:#x}: {} units in the returned Dwarf", case(), u.key, pn));
                    }
                    if pd != u.dump {
                        ctx.fail(entry, "unit-dump-equals-model", "wrong-unit", format!("{} key {:#x}: dump of the package unit:\n{}want:\n{}", case(), u.key, pd, u.dump));
                    } else {
                        ctx.outcome("dwp:dump-equal");
                    }
                    if pd != ad {
                        ctx.fail(entry, "unit-dump-equals-standalone", "wrong-unit", format!("{} key {:#x}: package unit:\n{}standalone unit:\n{}", case(), u.key, pd, ad));
                    }
                    if ad != u.dump {
                        ctx.machinery(format!("standalone dump differs from model: {}\n{}", ad, u.dump));
                    }
                    // header identity
                    let want_type = if tu {
                        if v5 {
                            gimli::UnitType::SplitType { type_signature: DebugTypeSignature(u.key), type_offset: gimli::UnitOffset(u.type_off as usize) }
                        } else {
                            gimli::UnitType::Type { type_signature: DebugTypeSignature(u.key), type_offset: gimli::UnitOffset(u.type_off as usize) }
                        }
                    } else if v5 {
                        gimli::UnitType::SplitCompilation(DwoId(u.key))
                    } else {
                        gimli::UnitType::Compilation
                    };
                    if ph.type_() != want_type || ah.type_() != want_type {
                        ctx.fail(entry, "unit-header-identity", "wrong-unit", format!("{} key {:#x}: unit type {:?} / {:?} want {:?}", case(), u.key, ph.type_(), ah.type_(), want_type));
                    }
                }
            }
            // low-level path agrees
            let low = if tu { guard(|| pkg.tu_sections(j as u32 + 1, &parent).map(|d| dwarf_section_bytes(&d).iter().map(|x| x.1.to_vec()).collect::<Vec<_>>())) } else { guard(|| pkg.cu_sections(j as u32 + 1, &parent).map(|d| dwarf_section_bytes(&d).iter().map(|x| x.1.to_vec()).collect::<Vec<_>>())) };
            let want_low: Vec<Vec<u8>> = want_secs.iter().map(|x| x.1.to_vec()).collect();
            match low {
                Err(p) => ctx.fail_panic("DwarfPackage::cu_sections", &p, case()),
                Ok(Ok(v)) if v == want_low => {}
                Ok(o) => ctx.fail("DwarfPackage::cu_sections", "unit-section-contributions", "wrong-contribution", format!("{} row {}: {:?}", case(), j + 1, o.map(|v| v.iter().map(|b| hex(b)).collect::<Vec<_>>()))),
            }
        }
    }

    // ---- absent keys: one per residue class of each table, keys of the other table, u64::MAX
    for tu in [false, true] {
        let slots = if tu { tu_slots } else { cu_slots };
        let n = if tu { cfg.n_tu } else { cfg.n_cu };
        let entry = if tu { "DwarfPackage::find_tu" } else { "DwarfPackage::find_cu" };
        let mut absent: Vec<u64> = vec![u64::MAX];
        if cfg.n_cu + cfg.n_tu > 0 {
            let k = log2(slots);
            for lo in 0..slots {
                for hi in 0..slots {
                    absent.push(mk_key(lo, hi, k, 20 + n as u32, true));
                    absent.push(mk_key(lo, hi, k, 21 + n as u32, false));
                }
            }
        }
        absent.extend_from_slice(if tu { &cu_keys } else { &tu_keys });
        for &key in &absent {
            ctx.eval(1);
            ctx.nontriv(1);
            let got = if tu { guard(|| pkg.find_tu(DebugTypeSignature(key), &parent).map(|o| o.is_some())) } else { guard(|| pkg.find_cu(DwoId(key), &parent).map(|o| o.is_some())) };
            match got {
                Err(p) => ctx.fail_panic(entry, &p, format!("{} key {:#x}", case(), key)),
                Ok(Ok(false)) => ctx.outcome("dwp:absent-none"),
                Ok(o) => ctx.fail(entry, "absent-unit-is-none", "absent-key-found", format!("{} key {:#x}: got {:?} want Ok(None)", case(), key, o)),
            }
        }
        // key 0
        ctx.eval(1);
        let got = if tu { guard(|| pkg.find_tu(DebugTypeSignature(0), &parent).map(|o| o.is_some())) } else { guard(|| pkg.find_cu(DwoId(0), &parent).map(|o| o.is_some())) };
        match got {
            Err(p) => ctx.fail_panic(entry, &p, format!("{} key 0", case())),
            Ok(Ok(false)) => ctx.outcome("dwp:key-zero-none"),
            Ok(o) => ctx.fail(entry, "key-zero-is-never-present", if o.is_err() { "error-instead-of-none" } else { "absent-key-found" }, format!("{} key 0: got {:?} want Ok(None): 0 marks an unused slot of the index", case(), o.map(|b| if b { "Some(unit)" } else { "None" }))),
        }
        // rows out of range
        for row in [0u32, n as u32 + 1] {
            ctx.eval(1);
            let got = if tu { guard(|| pkg.tu_sections(row, &parent).is_ok()) } else { guard(|| pkg.cu_sections(row, &parent).is_ok()) };
            match got {
                Err(p) => ctx.fail_panic("DwarfPackage::cu_sections", &p, format!("{} row {}", case(), row)),
                Ok(false) => ctx.outcome("dwp:row-rejected"),
                Ok(true) => ctx.fail("DwarfPackage::cu_sections", "row-out-of-range", "accepted", format!("{} row {} accepted", case(), row)),
            }
        }
    }
    if ctx.want_sample() && cfg.n_cu >= 2 && cfg.n_tu >= 1 && cfg.opt_mask == 0x1f {
        ctx.sample(case());
    }
}

fn sub_dwp(tier: Tier) -> Sub {
    // (n_cu, n_tu) pairs
    let shapes: Vec<(usize, usize)> = tier.pick(vec![(0, 0), (1, 0), (1, 1), (2, 0), (2, 1), (2, 2), (3, 0), (3, 2)], vec![(0, 0), (1, 0), (1, 1), (1, 2), (2, 0), (2, 1), (2, 2), (3, 0), (3, 1), (3, 2), (3, 3), (4, 0), (4, 3), (5, 2), (7, 3)]);
    let ns = shapes.len() as u64;
    let bound = format!("packages of (CUs, TUs) in {:?}: version {{2 (DWARF 4 units, .debug_types.dwo), 5}} x byte order x unit format 32/64 x 4 key patterns (distinct slots / one chain with stride>1 / chain wrapping the table end / stride slots-1) x all 32 subsets of the 5 optional section kinds x contribution order x gap bytes {{0,3}} x slot_count {{smallest, twice}}; every unit fetched by id, absent ids per residue class, id 0, rows 0 and units+1", shapes);
    Sub::new("dwp-package", ns * 2 * 2 * 2 * 4 * 32 * 2 * 2 * 2, &bound, move |ctx, i| {
        let mut m = Mix(i);
        // cheap uniform dimensions first so that every worker (i % 16) sees every shape
        let version = *m.pick(&[2u16, 5]);
        let big = m.flag();
        let fmt64 = m.flag();
        let reverse = m.flag();
        let gap = if m.flag() { 3 } else { 0 };
        let wide_slots = m.flag();
        let pattern = m.take(4);
        let opt_mask = m.take(32);
        let (n_cu, n_tu) = *m.pick(&shapes);
        let cfg = DwpCfg { n_cu, n_tu, version, big, fmt64, pattern, opt_mask, reverse, gap, wide_slots };
        run_dwp_case(ctx, cfg);
    })
}

pub fn subs(tier: Tier) -> Vec<Sub> {
    let mut v = vec![sub_find_degenerate(), sub_find_exhaustive(2, 1), sub_find_exhaustive(4, 3), sub_find_exhaustive(8, tier.pick(2, 3)), sub_find_chains(tier), sub_sections(), sub_dwp(Tier::Thorough)]; // dwp: thorough bound in both tiers (< 1 s)
    if tier == Tier::Thorough {
        v.push(sub_find_exhaustive(16, 2));
    }
    v
}

pub fn required() -> Vec<&'static str> {
    vec![
        "find:hit-direct",
        "find:hit-chain",
        "find:hit-chain-wrap",
        "find:miss-empty-slot",
        "find:miss-after-chain",
        "find:miss-after-chain-wrap",
        "find:stride>1",
        "find:table-full-minus-one",
        "find:key-zero",
        "find:empty-table-miss",
        "sections:row-ok",
        "sections:row-ok-no-columns",
        "sections:row-rejected",
        "sections:via-find",
        "dwp:cu-found",
        "dwp:tu-found",
        "dwp:dump-equal",
        "dwp:absent-none",
        "dwp:row-rejected",
    ]
}
