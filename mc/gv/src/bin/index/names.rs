//! C17, .debug_names part: bucket / hash lookup, entry pool, parent chains, unit references,
//! and case_folding_djb_hash.
use crate::casefold_ref::{REF_FOLD, REF_UNASSIGNED};
use crate::dw::{self, NEntry, NName, NVal, NamesModel};
use crate::{en, hex, Rd};
use gimli::{DebugNames, DebugStr, NameAttributeValue, NameEntryOffset, NameIndex, NameTableIndex, NameTypeUnit};
use mcx::space::Mix;
use mcx::{guard, Ctx, Sub, Tier};

const CUS: [u64; 3] = [0x0b, 0x1234, 0x00fe_dcba];
const LOCAL_TUS: [u64; 2] = [0x40, 0x7fff_0000];
const FOREIGN_TUS: [u64; 2] = [0x1122_3344_5566_7788, 0xffee_ddcc_bbaa_0099];

fn parse_one<'a>(ctx: &mut Ctx, bytes: &'a [u8], big: bool, at: usize) -> Option<NameIndex<Rd<'a>>> {
    // `at`: which header of the section to take
    let r = guard(|| {
        let dn = DebugNames::new(bytes, en(big));
        let mut it = dn.headers();
        let mut k = 0;
        loop {
            match it.next() {
                Ok(Some(h)) => {
                    if k == at {
                        return h.index().map(Some);
                    }
                    k += 1;
                }
                Ok(None) => return Ok(None),
                Err(e) => return Err(e),
            }
        }
    });
    match r {
        Err(p) => {
            ctx.fail_panic("NameIndex::new", &p, hex(bytes));
            None
        }
        Ok(Err(e)) => {
            ctx.fail("NameIndex::new", "well-formed-index-parses", "rejected", format!("section {} big={}: Err({:?})", hex(bytes), big, e));
            None
        }
        Ok(Ok(None)) => {
            ctx.fail("DebugNames::headers", "all-indexes-iterated", "missing-index", format!("section {} big={}: header #{} not reached", hex(bytes), big, at));
            None
        }
        Ok(Ok(Some(i))) => Some(i),
    }
}

fn strs_section(names: &[Vec<u8>]) -> (Vec<u8>, Vec<u64>) {
    let mut s = b"\0pad\0".to_vec();
    let mut offs = vec![];
    for n in names {
        offs.push(s.len() as u64);
        s.extend_from_slice(n);
        s.push(0);
    }
    (s, offs)
}

/// Checks of the tables that do not depend on the entry pool contents.
fn check_tables(ctx: &mut Ctx, ni: &NameIndex<Rd>, m: &NamesModel, names: &[Vec<u8>], strs: &[u8], case: &dyn Fn() -> String) {
    let got = (ni.compile_unit_count(), ni.local_type_unit_count(), ni.foreign_type_unit_count(), ni.type_unit_count(), ni.bucket_count(), ni.name_count(), ni.has_hash_table());
    let want = (m.cus.len() as u32, m.local_tus.len() as u32, m.foreign_tus.len() as u32, (m.local_tus.len() + m.foreign_tus.len()) as u32, m.bucket_count, m.names.len() as u32, m.bucket_count != 0);
    ctx.eval(1);
    if got != want {
        ctx.fail("NameIndex::new", "header-counts", "wrong-value", format!("{}: got {:?} want {:?}", case(), got, want));
    }
    // unit lists
    for i in 0..=m.cus.len() {
        ctx.eval(1);
        let g = guard(|| ni.compile_unit(i as u32).map(|o| o.0 as u64).ok());
        let w = m.cus.get(i).cloned();
        match g {
            Err(p) => ctx.fail_panic("NameIndex::compile_unit", &p, case()),
            Ok(g) if g == w => {}
            Ok(g) => ctx.fail("NameIndex::compile_unit", "cu-list", "wrong-value", format!("{} index {}: got {:x?} want {:x?}", case(), i, g, w)),
        }
    }
    ctx.eval(1);
    match guard(|| ni.default_compile_unit().map(|o| o.map(|x| x.0 as u64))) {
        Err(p) => ctx.fail_panic("NameIndex::default_compile_unit", &p, case()),
        Ok(g) => {
            let w = if m.cus.len() == 1 { Some(m.cus[0]) } else { None };
            if g != Ok(w) {
                ctx.fail("NameIndex::default_compile_unit", "cu-list", "wrong-value", format!("{}: got {:x?} want {:x?}", case(), g, w));
            }
        }
    }
    let nl = m.local_tus.len();
    let nf = m.foreign_tus.len();
    for i in 0..=(nl + nf) {
        ctx.eval(1);
        let g = guard(|| ni.type_unit(i as u32).ok());
        let w = if i < nl {
            Some(NameTypeUnit::Local(gimli::DebugInfoOffset(m.local_tus[i] as usize)))
        } else if i < nl + nf {
            Some(NameTypeUnit::Foreign(gimli::DebugTypeSignature(m.foreign_tus[i - nl])))
        } else {
            None
        };
        match g {
            Err(p) => ctx.fail_panic("NameIndex::type_unit", &p, case()),
            Ok(g) if g == w => {}
            Ok(g) => ctx.fail("NameIndex::type_unit", "tu-lists", "wrong-value", format!("{} index {}: got {:x?} want {:x?}", case(), i, g, w)),
        }
    }
    for i in 0..=nl {
        let g = guard(|| ni.local_type_unit(i as u32).map(|o| o.0 as u64).ok());
        let w = m.local_tus.get(i).cloned();
        match g {
            Err(p) => ctx.fail_panic("NameIndex::local_type_unit", &p, case()),
            Ok(g) if g == w => {}
            Ok(g) => ctx.fail("NameIndex::local_type_unit", "tu-lists", "wrong-value", format!("{} index {}: got {:x?} want {:x?}", case(), i, g, w)),
        }
    }
    for i in 0..=nf {
        let g = guard(|| ni.foreign_type_unit(i as u32).map(|o| o.0).ok());
        let w = m.foreign_tus.get(i).cloned();
        match g {
            Err(p) => ctx.fail_panic("NameIndex::foreign_type_unit", &p, case()),
            Ok(g) if g == w => {}
            Ok(g) => ctx.fail("NameIndex::foreign_type_unit", "tu-lists", "wrong-value", format!("{} index {}: got {:x?} want {:x?}", case(), i, g, w)),
        }
    }
    // name table iteration and strings
    ctx.eval(1);
    let it: Vec<u32> = ni.names().map(|x| x.0).collect();
    let want_it: Vec<u32> = (0..m.names.len() as u32).collect();
    if it != want_it {
        ctx.fail("NameIndex::names", "name-table-iteration", "wrong-sequence", format!("{}: got {:?} want {:?}", case(), it, want_it));
    }
    let ds = DebugStr::new(strs, en(m.big));
    for (i, n) in m.names.iter().enumerate() {
        ctx.eval(2);
        let g = guard(|| (ni.name_string_offset(NameTableIndex(i as u32)).map(|o| o.0 as u64), ni.name_string(NameTableIndex(i as u32), &ds).map(|s| s.slice().to_vec())));
        match g {
            Err(p) => ctx.fail_panic("NameIndex::name_string", &p, case()),
            Ok((o, s)) => {
                if o != Ok(n.str_off) || s.as_ref().ok() != Some(&names[i]) {
                    ctx.fail("NameIndex::name_string", "name-table", "wrong-value", format!("{} name {}: offset {:x?} string {:?} want {:#x} {:?}", case(), i, o, s, n.str_off, names[i]));
                }
            }
        }
    }
    ctx.eval(1);
    if let Ok(Ok(o)) = guard(|| ni.name_string_offset(NameTableIndex(m.names.len() as u32))) {
        ctx.fail("NameIndex::name_string_offset", "name-index-out-of-range", "accepted", format!("{} index {}: Ok({:?})", case(), m.names.len(), o));
    }
}

/// Bucket and hash lookups against a linear scan of (index, hash).
fn check_hash_lookups(ctx: &mut Ctx, ni: &NameIndex<Rd>, m: &NamesModel, probe_hashes: &[u32], case: &dyn Fn() -> String) {
    let b = m.bucket_count;
    if b == 0 {
        ctx.eval(2);
        match guard(|| ni.find_by_hash(0).is_err()) {
            Err(p) => ctx.fail_panic("NameIndex::find_by_hash", &p, case()),
            Ok(true) => ctx.outcome("names:no-hash-table-error"),
            Ok(false) => ctx.fail("NameIndex::find_by_hash", "no-hash-table-is-an-error", "accepted", case()),
        }
        match guard(|| ni.find_by_bucket(0).is_err()) {
            Err(p) => ctx.fail_panic("NameIndex::find_by_bucket", &p, case()),
            Ok(true) => {}
            Ok(false) => ctx.fail("NameIndex::find_by_bucket", "no-hash-table-is-an-error", "accepted", case()),
        }
        return;
    }
    for bi in 0..=b {
        ctx.eval(1);
        ctx.nontriv(1);
        let g = guard(|| -> Result<Option<Vec<(u32, u32)>>, gimli::Error> {
            match ni.find_by_bucket(bi)? {
                None => Ok(None),
                Some(mut it) => {
                    let mut v = vec![];
                    while let Some((i, h)) = it.next()? {
                        v.push((i.0, h));
                        if v.len() > 64 {
                            break;
                        }
                    }
                    Ok(Some(v))
                }
            }
        });
        match g {
            Err(p) => ctx.fail_panic("NameIndex::find_by_bucket", &p, format!("{} bucket {}", case(), bi)),
            Ok(g) => {
                if bi == b {
                    if g.is_ok() {
                        ctx.fail("NameIndex::find_by_bucket", "bucket-index-out-of-range", "accepted", format!("{} bucket {}: {:?}", case(), bi, g));
                    }
                    continue;
                }
                let scan: Vec<(u32, u32)> = m.names.iter().enumerate().filter(|(_, n)| n.hash % b == bi).map(|(i, n)| (i as u32, n.hash)).collect();
                let want = if scan.is_empty() { None } else { Some(scan) };
                match &want {
                    None => ctx.outcome("names:bucket-empty"),
                    Some(v) if v.len() > 1 => ctx.outcome("names:bucket-chain"),
                    Some(v) => {
                        if v[0].0 as usize + 1 == m.names.len() {
                            ctx.outcome("names:bucket-ends-at-table-end");
                        } else {
                            ctx.outcome("names:bucket-single");
                        }
                    }
                }
                if g.as_ref().ok() != Some(&want) {
                    ctx.fail("NameIndex::find_by_bucket", "linear-scan-of-hashes", "wrong-bucket-contents", format!("{} bucket {}: got {:x?} want {:x?}", case(), bi, g, want));
                }
            }
        }
    }
    for &h in probe_hashes {
        ctx.eval(1);
        ctx.nontriv(1);
        let g = guard(|| -> Result<Vec<u32>, gimli::Error> {
            let mut it = ni.find_by_hash(h)?;
            let mut v = vec![];
            while let Some(i) = it.next()? {
                v.push(i.0);
                if v.len() > 64 {
                    break;
                }
            }
            Ok(v)
        });
        let want: Vec<u32> = m.names.iter().enumerate().filter(|(_, n)| n.hash == h).map(|(i, _)| i as u32).collect();
        let bucket_pop = m.names.iter().filter(|n| n.hash % b == h % b).count();
        ctx.outcome(match (want.len(), bucket_pop) {
            (0, 0) => "names:hash-miss-empty-bucket",
            (0, _) => "names:hash-miss-colliding-bucket",
            (1, 1) => "names:hash-hit",
            (1, _) => "names:hash-hit-in-chain",
            _ => "names:hash-hit-multiple-names",
        });
        match g {
            Err(p) => ctx.fail_panic("NameIndex::find_by_hash", &p, format!("{} hash {:#x}", case(), h)),
            Ok(Ok(v)) if v == want => {}
            Ok(o) => ctx.fail("NameIndex::find_by_hash", "linear-scan-of-hashes", if want.is_empty() { "absent-hash-found" } else { "wrong-names" }, format!("{} hash {:#x}: got {:?} want {:?}", case(), h, o, want)),
        }
    }
}

fn expect_value(v: &NVal, entry_off: &[u64]) -> String {
    match v {
        NVal::U(x) => format!("Unsigned({})", x),
        NVal::Ref(x) => format!("Offset({})", x),
        NVal::EntryRef(t) => format!("Offset({})", entry_off[*t]),
        NVal::Present => "Flag(true)".to_string(),
    }
}

fn got_value(v: &NameAttributeValue<Rd>) -> String {
    match v {
        NameAttributeValue::Unsigned(x) => format!("Unsigned({})", x),
        NameAttributeValue::Offset(x) => format!("Offset({})", x),
        NameAttributeValue::Flag(b) => format!("Flag({})", b),
    }
}

/// Entry pool: every series, every attribute, accessor helpers and parent chains.
fn check_entries(ctx: &mut Ctx, ni: &NameIndex<Rd>, m: &NamesModel, lay: &dw::NamesLayout, case: &dyn Fn() -> String) {
    // abbreviation table
    ctx.eval(1);
    let got_ab: Vec<(u64, u64, Vec<(u64, u64)>)> = ni.abbreviations().abbreviations().iter().map(|a| (a.code(), a.tag().0 as u64, a.attributes().iter().map(|x| (x.name().0 as u64, x.form().0 as u64)).collect())).collect();
    if got_ab != lay.abbrevs {
        ctx.fail("NameAbbreviations::parse", "abbreviation-table", "wrong-abbreviations", format!("{}: got {:x?} want {:x?}", case(), got_ab, lay.abbrevs));
    }
    for a in &lay.abbrevs {
        if ni.abbreviations().get(a.0).map(|x| x.tag().0 as u64) != Some(a.1) {
            ctx.fail("NameAbbreviations::get", "abbreviation-table", "wrong-abbreviations", format!("{}: code {:#x}", case(), a.0));
        }
    }
    if ni.abbreviations().get(0).is_some() || ni.abbreviations().get(lay.abbrevs.iter().map(|a| a.0).max().unwrap_or(0) + 1).is_some() {
        ctx.fail("NameAbbreviations::get", "abbreviation-table", "absent-code-found", case());
    }
    for (i, n) in m.names.iter().enumerate() {
        ctx.eval(1);
        ctx.nontriv(1);
        let g = guard(|| -> Result<Vec<gimli::NameEntry<Rd>>, gimli::Error> {
            let mut it = ni.name_entries(NameTableIndex(i as u32))?;
            let mut v = vec![];
            while let Some(e) = it.next()? {
                v.push(e);
                if v.len() > 64 {
                    break;
                }
            }
            Ok(v)
        });
        let got = match g {
            Err(p) => {
                ctx.fail_panic("NameIndex::name_entries", &p, format!("{} name {}", case(), i));
                continue;
            }
            Ok(Err(e)) => {
                ctx.fail("NameIndex::name_entries", "series-of-the-name", "error", format!("{} name {}: Err({:?})", case(), i, e));
                continue;
            }
            Ok(Ok(v)) => v,
        };
        let render_got: Vec<String> = got.iter().map(|e| format!("@{} code={} tag={:#x} [{}]", e.offset.0, e.abbrev_code, e.tag.0, e.attrs.iter().map(|a| format!("{}:{:#x}={}", a.name().0, a.form().0, got_value(a.value()))).collect::<Vec<_>>().join(" "))).collect();
        let render_want: Vec<String> = n.entries.iter().map(|&ei| format!("@{} code={} tag={:#x} [{}]", lay.entry_off[ei], lay.entry_code[ei], m.entries[ei].tag, m.entries[ei].attrs.iter().map(|(idx, form, v)| format!("{}:{:#x}={}", idx, form, expect_value(v, &lay.entry_off))).collect::<Vec<_>>().join(" "))).collect();
        if render_got != render_want {
            ctx.fail("NameIndex::name_entries", "series-of-the-name", "wrong-entries", format!("{} name {}: got {:?} want {:?}", case(), i, render_got, render_want));
            continue;
        }
        ctx.outcome(if n.entries.len() > 1 { "names:series-of-2+" } else { "names:series-of-1" });
        // accessors
        for (e, &ei) in got.iter().zip(n.entries.iter()) {
            let me = &m.entries[ei];
            let attr = |idx: u64| me.attrs.iter().find(|a| a.0 == idx).map(|a| &a.2);
            ctx.eval(5);
            // compile unit
            let want_cu = attr(dw::IDX_COMPILE_UNIT).map(|v| match v {
                NVal::U(x) => m.cus[*x as usize],
                _ => unreachable!(),
            });
            let g = guard(|| e.compile_unit(ni).map(|o| o.map(|x| x.0 as u64)));
            match g {
                Err(p) => ctx.fail_panic("NameEntry::compile_unit", &p, case()),
                Ok(g) if g == Ok(want_cu) => {}
                Ok(g) => ctx.fail("NameEntry::compile_unit", "unit-reference", "wrong-value", format!("{} entry @{}: got {:x?} want {:x?}", case(), lay.entry_off[ei], g, want_cu)),
            }
            if want_cu.is_some() {
                ctx.outcome("names:ref-cu");
            }
            // type unit
            let want_tu = attr(dw::IDX_TYPE_UNIT).map(|v| match v {
                NVal::U(x) => {
                    let x = *x as usize;
                    if x < m.local_tus.len() {
                        ctx.outcome("names:ref-local-tu");
                        NameTypeUnit::Local(gimli::DebugInfoOffset(m.local_tus[x] as usize))
                    } else {
                        ctx.outcome("names:ref-foreign-tu");
                        NameTypeUnit::Foreign(gimli::DebugTypeSignature(m.foreign_tus[x - m.local_tus.len()]))
                    }
                }
                _ => unreachable!(),
            });
            match guard(|| e.type_unit(ni)) {
                Err(p) => ctx.fail_panic("NameEntry::type_unit", &p, case()),
                Ok(g) if g == Ok(want_tu) => {}
                Ok(g) => ctx.fail("NameEntry::type_unit", "unit-reference", "wrong-value", format!("{} entry @{}: got {:x?} want {:x?}", case(), lay.entry_off[ei], g, want_tu)),
            }
            if want_cu.is_none() && want_tu.is_none() {
                ctx.outcome("names:ref-default-cu");
            }
            // die offset
            let want_die = attr(dw::IDX_DIE_OFFSET).map(|v| match v {
                NVal::Ref(x) => *x,
                _ => unreachable!(),
            });
            match guard(|| e.die_offset().map(|o| o.map(|x| x.0 as u64))) {
                Err(p) => ctx.fail_panic("NameEntry::die_offset", &p, case()),
                Ok(g) if g == Ok(want_die) => {}
                Ok(g) => ctx.fail("NameEntry::die_offset", "die-offset", "wrong-value", format!("{} entry @{}: got {:x?} want {:x?}", case(), lay.entry_off[ei], g, want_die)),
            }
            // type hash
            let want_th = attr(dw::IDX_TYPE_HASH).map(|v| match v {
                NVal::U(x) => *x,
                _ => unreachable!(),
            });
            match guard(|| e.type_hash()) {
                Err(p) => ctx.fail_panic("NameEntry::type_hash", &p, case()),
                Ok(g) if g == Ok(want_th) => {}
                Ok(g) => ctx.fail("NameEntry::type_hash", "type-hash", "wrong-value", format!("{} entry @{}: got {:x?} want {:x?}", case(), lay.entry_off[ei], g, want_th)),
            }
            // parent and the chain to the root
            let want_parent: Option<Option<u64>> = attr(dw::IDX_PARENT).map(|v| match v {
                NVal::EntryRef(t) => Some(lay.entry_off[*t]),
                NVal::Present => None,
                _ => unreachable!(),
            });
            match guard(|| e.parent().map(|o| o.map(|x| x.map(|y| y.0 as u64)))) {
                Err(p) => ctx.fail_panic("NameEntry::parent", &p, case()),
                Ok(g) if g == Ok(want_parent) => {}
                Ok(g) => ctx.fail("NameEntry::parent", "parent-reference", "wrong-value", format!("{} entry @{}: got {:?} want {:?}", case(), lay.entry_off[ei], g, want_parent)),
            }
            match want_parent {
                None => ctx.outcome("names:parent-unknown"),
                Some(None) => ctx.outcome("names:parent-not-indexed"),
                Some(Some(_)) => {}
            }
            // model chain
            let mut chain_want = vec![];
            let mut cur = ei;
            let mut steps = 0;
            while let Some(NVal::EntryRef(t)) = m.entries[cur].attrs.iter().find(|a| a.0 == dw::IDX_PARENT).map(|a| &a.2) {
                chain_want.push((lay.entry_off[*t], m.entries[*t].tag));
                cur = *t;
                steps += 1;
                if steps >= 4 {
                    break;
                }
            }
            if chain_want.is_empty() {
                continue;
            }
            ctx.eval(chain_want.len() as u64);
            ctx.outcome(if chain_want.len() > 1 { "names:parent-chain-2+" } else { "names:parent-chain-1" });
            let g = guard(|| -> Result<Vec<(u64, u64)>, gimli::Error> {
                let mut v = vec![];
                let mut p = e.parent()?;
                while let Some(Some(off)) = p {
                    let pe = ni.name_entry(off)?;
                    if pe.offset != off {
                        return Err(gimli::Error::NoEntryAtGivenOffset(pe.offset.0 as u64));
                    }
                    v.push((off.0 as u64, pe.tag.0 as u64));
                    if v.len() >= 4 {
                        break;
                    }
                    p = pe.parent()?;
                }
                Ok(v)
            });
            match g {
                Err(p) => ctx.fail_panic("NameIndex::name_entry", &p, case()),
                Ok(Ok(v)) if v == chain_want => {}
                Ok(o) => ctx.fail("NameIndex::name_entry", "parent-chain", "wrong-chain", format!("{} entry @{}: got {:x?} want {:x?}", case(), lay.entry_off[ei], o, chain_want)),
            }
        }
    }
    // name_entry at the terminator of the first series and past the pool
    if let Some(n) = m.names.first() {
        let last = *n.entries.last().unwrap();
        // offset of the 0 terminator = end of last entry; computed from next series start or pool end
        let term = if m.names.len() > 1 { lay.entry_off[m.names[1].entries[0]] - 1 } else { lay.pool_len as u64 - 1 };
        let _ = last;
        ctx.eval(2);
        match guard(|| ni.name_entry(NameEntryOffset(term as usize)).is_err()) {
            Err(p) => ctx.fail_panic("NameIndex::name_entry", &p, case()),
            Ok(true) => ctx.outcome("names:no-entry-at-terminator"),
            Ok(false) => ctx.fail("NameIndex::name_entry", "terminator-is-not-an-entry", "accepted", format!("{} offset {}", case(), term)),
        }
        match guard(|| ni.name_entry(NameEntryOffset(lay.pool_len + 1)).is_err()) {
            Err(p) => ctx.fail_panic("NameIndex::name_entry", &p, case()),
            Ok(true) => {}
            Ok(false) => ctx.fail("NameIndex::name_entry", "offset-past-pool", "accepted", format!("{} offset {}", case(), lay.pool_len + 1)),
        }
    }
}

fn simple_entry(i: usize) -> NEntry {
    NEntry { tag: dw::TAG_SUBPROGRAM, attrs: vec![(dw::IDX_DIE_OFFSET, dw::FORM_REF4, NVal::Ref(0x100 + i as u64))] }
}

const HASH_ALPHABET: [u32; 8] = [0, 1, 2, 3, 7, 8, 0xffff_ffff, 0xffff_fffe];
const BUCKETS: [u32; 6] = [0, 1, 2, 3, 4, 7];

fn sub_hash(tier: Tier) -> Sub {
    let max_n = tier.pick(4u32, 5u32);
    let nseq = mcx::space::seq_count(8, 0, max_n);
    let bound = format!("name tables of 0..={} names whose hashes are every sequence over {:x?} (stably grouped by bucket as 6.1.1.4.5 requires) x bucket_count {:?} x format 32/64 x byte order, one entry per name, as first or second index of the section; find_by_bucket for every bucket and bucket_count, find_by_hash for the 8 alphabet values plus 3 absent values per bucket residue", max_n, HASH_ALPHABET, BUCKETS);
    Sub::new("names-hash", nseq * 6 * 4, &bound, move |ctx, i| {
        let mut mx = Mix(i);
        let fmt64 = mx.flag();
        let big = mx.flag();
        let b = *mx.pick(&BUCKETS);
        let seq = mcx::space::seq_decode(8, 0, max_n, mx.0);
        let mut hs: Vec<(usize, u32)> = seq.iter().enumerate().map(|(k, &x)| (k, HASH_ALPHABET[x])).collect();
        if b > 0 {
            hs.sort_by_key(|&(_, h)| h % b); // stable
        }
        let names: Vec<Vec<u8>> = hs.iter().map(|(k, _)| format!("n{}", k).into_bytes()).collect();
        let (strs, offs) = strs_section(&names);
        let m = NamesModel {
            big,
            fmt64,
            cus: vec![CUS[0]],
            local_tus: vec![],
            foreign_tus: vec![],
            bucket_count: b,
            names: hs.iter().enumerate().map(|(pos, &(_, h))| NName { str_off: offs[pos], hash: h, entries: vec![pos] }).collect(),
            entries: (0..hs.len()).map(simple_entry).collect(),
            augmentation: if i % 3 == 0 { b"LLVM0700".to_vec() } else { vec![] },
            code0: 1,
            code_step: 1,
        };
        let lay = m.encode();
        // second position: after a fixed small index
        let second = i % 2 == 1;
        let mut section = vec![];
        if second {
            let first = NamesModel { big, fmt64: !fmt64, cus: vec![1, 2], local_tus: vec![3], foreign_tus: vec![4], bucket_count: 1, names: vec![NName { str_off: 1, hash: 0x1234_5678, entries: vec![0] }], entries: vec![simple_entry(9)], augmentation: b"GV00".to_vec(), code0: 7, code_step: 1 };
            section.extend_from_slice(&first.encode().bytes);
        }
        let start = section.len();
        section.extend_from_slice(&lay.bytes);
        let case = || format!("fmt64={} big={} buckets={} hashes={:x?} at={} section={}", fmt64, big, b, hs.iter().map(|x| x.1).collect::<Vec<_>>(), start, hex(&section));
        let Some(ni) = parse_one(ctx, &section, big, second as usize) else { return };
        // header iteration: offsets
        ctx.eval(1);
        let offs_g: Vec<u64> = DebugNames::new(&section, en(big)).headers().filter_map(|h| h.ok()).map(|h| h.offset().0 as u64).collect();
        let offs_w: Vec<u64> = if second { vec![0, start as u64] } else { vec![0] };
        if offs_g != offs_w {
            ctx.fail("DebugNames::headers", "all-indexes-iterated", "wrong-offsets", format!("{}: got {:?} want {:?}", case(), offs_g, offs_w));
        }
        if let Some(Ok(h)) = DebugNames::new(&section, en(big)).headers().nth(second as usize) {
            let got = (h.length() as u64, h.format(), h.version(), h.compile_unit_count(), h.local_type_unit_count(), h.foreign_type_unit_count(), h.bucket_count(), h.name_count(), h.abbrev_table_size(), h.augmentation_string().map(|a| a.slice().to_vec()));
            let want = ((lay.bytes.len() - if fmt64 { 12 } else { 4 }) as u64, if fmt64 { gimli::Format::Dwarf64 } else { gimli::Format::Dwarf32 }, 5u16, 1u32, 0u32, 0u32, b, hs.len() as u32, lay.abbrev_len as u32, if m.augmentation.is_empty() { None } else { Some(m.augmentation.clone()) });
            if got != want {
                ctx.fail("NameIndexHeader::parse", "header-fields", "wrong-value", format!("{}: got {:?} want {:?}", case(), got, want));
            }
        }
        check_tables(ctx, &ni, &m, &names, &strs, &case);
        let mut probes: Vec<u32> = HASH_ALPHABET.to_vec();
        if b > 0 {
            for r in 0..b {
                // absent values in every bucket residue
                probes.push(r + 16 * b);
                probes.push(r + 17 * b);
                probes.push((u32::MAX - 64) / b * b - b + r);
            }
        }
        probes.sort();
        probes.dedup();
        check_hash_lookups(ctx, &ni, &m, &probes, &case);
        check_entries(ctx, &ni, &m, &lay, &case);
        if ctx.want_sample() && hs.len() >= 3 && b == 2 {
            ctx.sample(case());
        }
    })
}

/// Form sets for the five index attributes.
struct Forms {
    cu: u64,
    tu: u64,
    die: u64,
    parent: u64,
}
const FORMS: [Forms; 3] = [
    Forms { cu: dw::FORM_DATA1, tu: dw::FORM_DATA1, die: dw::FORM_REF4, parent: dw::FORM_REF4 },
    Forms { cu: dw::FORM_UDATA, tu: dw::FORM_DATA2, die: dw::FORM_REF_UDATA, parent: dw::FORM_REF1 },
    Forms { cu: dw::FORM_DATA4, tu: dw::FORM_DATA8, die: dw::FORM_REF2, parent: dw::FORM_REF_UDATA },
];
const DIE_FORMS_WIDE: [u64; 2] = [dw::FORM_REF8, dw::FORM_REF1];

fn partitions(e: usize) -> Vec<Vec<usize>> {
    // compositions of e into series lengths >= 1
    match e {
        1 => vec![vec![1]],
        2 => vec![vec![1, 1], vec![2]],
        3 => vec![vec![1, 1, 1], vec![2, 1], vec![1, 2], vec![3]],
        4 => vec![vec![1, 1, 1, 1], vec![2, 2], vec![1, 3], vec![4]],
        _ => unreachable!(),
    }
}

fn sub_entries(tier: Tier) -> Sub {
    // E entries; per entry: unit reference kind (5) and parent kind (2 + E choices incl. self-skip)
    let es: Vec<usize> = tier.pick(vec![1, 2, 3], vec![1, 2, 3, 4]);
    // precompute (E, base index) ranges
    let mut ranges: Vec<(usize, u64, u64)> = vec![]; // E, start, count
    let mut total = 0u64;
    for &e in &es {
        let per_entry = 5 * (e as u64 + 1);
        let c = per_entry.pow(e as u32) * partitions(e).len() as u64 * 3;
        ranges.push((e, total, c));
        total += c;
    }
    let bound = format!("entry pools of E in {:?} entries: per entry unit reference in {{default CU, CU, local TU, foreign TU, CU+TU}} x parent in {{no attribute, flag_present, reference to any other entry (forward or backward)}}; x every composition of E into series (names) x 3 form sets (data1/udata/data2/data4/data8, ref1/ref2/ref4/ref8/ref_udata) x format x byte order; inside: local/foreign TU list sizes {{1,2}}^2 (E=4: one of the four per case, rotating); one name also carries DW_IDX_type_hash", es);
    Sub::new("names-entries", total * 4, &bound, move |ctx, i| {
        let mut mx = Mix(i);
        let fmt64 = mx.flag();
        let big = mx.flag();
        let idx = mx.0;
        let &(e, start, _) = ranges.iter().find(|r| idx >= r.1 && idx < r.1 + r.2).unwrap();
        let mut mx = Mix(idx - start);
        let fs = &FORMS[mx.take(3) as usize];
        let parts = partitions(e);
        let part = mx.pick(&parts).clone();
        let mut kinds = vec![];
        for _ in 0..e {
            let unit_kind = mx.take(5);
            let parent_kind = mx.take(e as u64 + 1);
            kinds.push((unit_kind, parent_kind));
        }
        let any_default = kinds.iter().any(|k| k.0 == 0);
        // E = 4 (thorough only): one TU-list shape per case, alternating, to keep the tier inside its budget
        let tu_shapes: Vec<(usize, usize)> = if e >= 4 { vec![[(1usize, 1usize), (2, 1), (1, 2), (2, 2)][(idx % 4) as usize]] } else { vec![(1, 1), (2, 1), (1, 2), (2, 2)] };
        for (nl, nf) in tu_shapes {
            let cus: Vec<u64> = if any_default { vec![CUS[1]] } else { CUS.to_vec() };
            let mut entries = vec![];
            for (k, &(uk, pk)) in kinds.iter().enumerate() {
                let mut attrs = vec![];
                let die_form = if k == 1 { DIE_FORMS_WIDE[(nl + nf) % 2] } else { fs.die };
                let cu_idx = (cus.len() - 1) as u64;
                match uk {
                    0 => {}
                    1 => attrs.push((dw::IDX_COMPILE_UNIT, fs.cu, NVal::U(cu_idx))),
                    2 => attrs.push((dw::IDX_TYPE_UNIT, fs.tu, NVal::U(nl as u64 - 1))),
                    3 => attrs.push((dw::IDX_TYPE_UNIT, fs.tu, NVal::U((nl + nf) as u64 - 1))),
                    _ => {
                        attrs.push((dw::IDX_TYPE_UNIT, fs.tu, NVal::U(nl as u64)));
                        attrs.push((dw::IDX_COMPILE_UNIT, fs.cu, NVal::U(0)));
                    }
                }
                attrs.push((dw::IDX_DIE_OFFSET, die_form, NVal::Ref(0x20 + 3 * k as u64)));
                match pk {
                    0 => {}
                    1 => attrs.push((dw::IDX_PARENT, dw::FORM_FLAG_PRESENT, NVal::Present)),
                    p => {
                        // p-2 in 0..e-1: index among the other entries
                        let t = (p - 2) as usize;
                        let t = if t >= k { t + 1 } else { t };
                        attrs.push((dw::IDX_PARENT, fs.parent, NVal::EntryRef(t)));
                    }
                }
                if k == 0 && (uk == 2 || uk == 3) {
                    attrs.push((dw::IDX_TYPE_HASH, dw::FORM_DATA8, NVal::U(0xfeed_face_0bad_f00d)));
                    ctx.outcome("names:type-hash");
                }
                let tag = [dw::TAG_SUBPROGRAM, dw::TAG_VARIABLE, dw::TAG_STRUCTURE_TYPE, dw::TAG_NAMESPACE][k % 4];
                entries.push(NEntry { tag, attrs });
            }
            let names_s: Vec<Vec<u8>> = (0..part.len()).map(|k| format!("name{}", k).into_bytes()).collect();
            let (strs, offs) = strs_section(&names_s);
            let mut names = vec![];
            let mut next = 0;
            for (k, &len) in part.iter().enumerate() {
                names.push(NName { str_off: offs[k], hash: 0x1000 + k as u32, entries: (next..next + len).collect() });
                next += len;
            }
            let m = NamesModel { big, fmt64, cus, local_tus: LOCAL_TUS[..nl].to_vec(), foreign_tus: FOREIGN_TUS[..nf].to_vec(), bucket_count: 1, names, entries, augmentation: vec![], code0: 0x7f, code_step: 0x3f };
            let lay = m.encode();
            let case = || format!("fmt64={} big={} series={:?} kinds(unit,parent)={:?} local_tus={} foreign_tus={} section={}", fmt64, big, part, kinds, nl, nf, hex(&lay.bytes));
            let Some(ni) = parse_one(ctx, &lay.bytes, big, 0) else { return };
            check_tables(ctx, &ni, &m, &names_s, &strs, &case);
            check_entries(ctx, &ni, &m, &lay, &case);
            if ctx.want_sample() && e >= 3 && nl == 2 && nf == 2 && kinds.iter().any(|k| k.1 >= 2) {
                ctx.sample(case());
            }
        }
    })
}

// ---- real names: lookup by string ------------------------------------------------------------

fn cps(s: &str) -> Vec<u32> {
    s.chars().map(|c| c as u32).collect()
}

const REAL_NAMES: [&str; 10] = ["a~", "b]", "A~", "main", "MAIN", "i", "\u{130}", "\u{131}x", "ix", "\u{3a3}\u{3c2}"];

fn sub_real(_tier: Tier) -> Sub {
    // subsets of up to 4 of the 10 names
    let mut subsets: Vec<Vec<usize>> = vec![];
    for mask in 0u32..1024 {
        if mask.count_ones() <= 4 {
            subsets.push((0..10).filter(|b| mask >> b & 1 == 1).collect());
        }
    }
    let ns = subsets.len() as u64;
    Sub::new("names-lookup-by-string", ns * 5 * 4, "name tables holding every subset of <= 4 of 10 real names (DJB collisions 'a~'/'b]', case variants, dotted/dotless I, final sigma) hashed by the reference hash, x bucket_count {1,2,3,5,name_count} x format x byte order; lookup(query) = find_by_hash(gimli::case_folding_djb_hash(query)) filtered by string equality, for all 10 names as queries, vs a linear scan of the table", move |ctx, i| {
        let mut mx = Mix(i);
        let fmt64 = mx.flag();
        let big = mx.flag();
        let bsel = mx.take(5);
        let set = &subsets[mx.0 as usize];
        let b = match bsel {
            0 => 1,
            1 => 2,
            2 => 3,
            3 => 5,
            _ => (set.len() as u32).max(1),
        };
        let mut hs: Vec<(usize, u32)> = set.iter().map(|&k| (k, dw::ref_hash(&cps(REAL_NAMES[k]), REF_FOLD, REF_UNASSIGNED).unwrap())).collect();
        hs.sort_by_key(|&(_, h)| h % b);
        let names: Vec<Vec<u8>> = hs.iter().map(|&(k, _)| REAL_NAMES[k].as_bytes().to_vec()).collect();
        let (strs, offs) = strs_section(&names);
        let m = NamesModel {
            big,
            fmt64,
            cus: vec![CUS[2]],
            local_tus: vec![],
            foreign_tus: vec![],
            bucket_count: b,
            names: hs.iter().enumerate().map(|(pos, &(_, h))| NName { str_off: offs[pos], hash: h, entries: vec![pos] }).collect(),
            entries: (0..hs.len()).map(simple_entry).collect(),
            augmentation: vec![],
            code0: 3,
            code_step: 2,
        };
        let lay = m.encode();
        let case = || format!("fmt64={} big={} buckets={} names={:?} section={}", fmt64, big, b, hs.iter().map(|x| REAL_NAMES[x.0]).collect::<Vec<_>>(), hex(&lay.bytes));
        let Some(ni) = parse_one(ctx, &lay.bytes, big, 0) else { return };
        let ds = DebugStr::new(&strs, en(big));
        for q in REAL_NAMES.iter() {
            ctx.eval(1);
            ctx.nontriv(1);
            let g = guard(|| -> Result<Vec<u64>, gimli::Error> {
                let h = gimli::case_folding_djb_hash(q);
                let mut it = ni.find_by_hash(h)?;
                let mut dies = vec![];
                while let Some(idx) = it.next()? {
                    if ni.name_string(idx, &ds)?.slice() == q.as_bytes() {
                        let mut es = ni.name_entries(idx)?;
                        while let Some(e) = es.next()? {
                            dies.push(e.die_offset()?.map(|o| o.0 as u64).unwrap_or(u64::MAX));
                        }
                    }
                }
                Ok(dies)
            });
            let want: Vec<u64> = hs.iter().enumerate().filter(|(_, &(k, _))| REAL_NAMES[k] == *q).map(|(pos, _)| 0x100 + pos as u64).collect();
            let same_hash_other_name = hs.iter().any(|&(k, h)| REAL_NAMES[k] != *q && Some(h) == dw::ref_hash(&cps(q), REF_FOLD, REF_UNASSIGNED));
            ctx.outcome(match (want.is_empty(), same_hash_other_name) {
                (false, false) => "lookup:hit",
                (false, true) => "lookup:hit-among-equal-hashes",
                (true, true) => "lookup:miss-equal-hash-different-string",
                (true, false) => "lookup:miss",
            });
            match g {
                Err(p) => ctx.fail_panic("NameIndex::find_by_hash", &p, format!("{} query {:?}", case(), q)),
                Ok(Ok(v)) if v == want => {}
                Ok(o) => ctx.fail("NameIndex::find_by_hash", "lookup-by-string", if want.is_empty() { "absent-name-found" } else { "present-name-not-found" }, format!("{} query {:?}: got {:x?} want {:x?}", case(), q, o, want)),
            }
        }
        if ctx.want_sample() && set.len() == 4 {
            ctx.sample(case());
        }
    })
}

// ---- case folding hash --------------------------------------------------------------------------

fn check_hash_str(ctx: &mut Ctx, s: &str) {
    ctx.eval(1);
    let Some(want) = dw::ref_hash(&cps(s), REF_FOLD, REF_UNASSIGNED) else { return };
    ctx.nontriv(1);
    match guard(|| gimli::case_folding_djb_hash(s)) {
        Err(p) => ctx.fail_panic("case_folding_djb_hash", &p, format!("{:?}", s)),
        Ok(g) if g == want => {}
        Ok(g) => ctx.fail("case_folding_djb_hash", "reference-djb-of-simple-case-folding", "wrong-hash", format!("string {:?} (utf-8 {}): got {:#x} want {:#x}", s, hex(s.as_bytes()), g, want)),
    }
}

fn sub_casefold_ascii() -> Sub {
    Sub::new("casefold-ascii", 129, "case_folding_djb_hash on the empty string and every 1- and 2-byte ASCII string (0x00..=0x7f)^{1,2}, and case_fold on every ASCII character", |ctx, i| {
        if i == 128 {
            check_hash_str(ctx, "");
            // LLVM's published test vector for the case folding hash
            ctx.eval(1);
            let s = "\u{130}\u{131}\u{c0}\u{e0}\u{100}\u{101}\u{139}\u{13a}\u{415}\u{435}\u{1ea6}\u{1ea7}\u{212a}k\u{2c1d}\u{2c4d}\u{ff2d}\u{ff4d}\u{10c92}\u{10cd2}";
            let g = gimli::case_folding_djb_hash(s);
            if g != 1145571043 {
                ctx.fail("case_folding_djb_hash", "llvm-test-vector", "wrong-hash", format!("{:?}: got {} want 1145571043", s, g));
            }
            check_hash_str(ctx, s);
            ctx.outcome("casefold:llvm-vector");
            return;
        }
        let a = i as u8 as char;
        let mut buf = String::new();
        buf.push(a);
        check_hash_str(ctx, &buf);
        let want = dw::ref_fold(i as u32, REF_FOLD, REF_UNASSIGNED).unwrap();
        ctx.eval(1);
        if gimli::case_fold(a) as u32 != want {
            ctx.fail("case_fold", "ascii-lowercase", "wrong-fold", format!("{:?}: got {:?} want U+{:04X}", a, gimli::case_fold(a), want));
        }
        for b in 0..128u8 {
            buf.truncate(1);
            buf.push(b as char);
            check_hash_str(ctx, &buf);
        }
        ctx.outcome(if a.is_ascii_uppercase() { "casefold:ascii-upper" } else { "casefold:ascii-other" });
        if ctx.want_sample() {
            ctx.sample(format!("all strings {:?} + one ASCII byte", a));
        }
    })
}

fn sub_casefold_unicode() -> Sub {
    // chunks of 0x400 code points over the whole code space
    Sub::new("casefold-unicode", 0x110000 / 0x400, "case_fold and case_folding_djb_hash of the 1-character string and of 'A'+c+'z' for every scalar value U+0080..U+10FFFF assigned in Unicode 14 (1428 C+S folding pairs + U+0130/U+0131 rule from an independent table; identity elsewhere); code points unassigned in Unicode 14 are skipped", |ctx, i| {
        let lo = (i as u32) * 0x400;
        let mut folded = 0u64;
        for c in lo..lo + 0x400 {
            if c < 0x80 {
                continue;
            }
            let Some(ch) = char::from_u32(c) else { continue };
            if let Some(&(_, alt)) = dw::LATER_S_MAPPINGS.iter().find(|p| p.0 == c) {
                // version-dependent: identity (Unicode <= 15.0) or the 15.1 simple mapping
                ctx.eval(1);
                let g = gimli::case_fold(ch) as u32;
                if g != c && g != alt {
                    ctx.fail("case_fold", "simple-case-folding-C+S", "wrong-fold", format!("U+{:04X}: got U+{:04X} want U+{:04X} or U+{:04X}", c, g, c, alt));
                }
                ctx.outcome("casefold:unicode-version-dependent");
                continue;
            }
            let Some(want) = dw::ref_fold(c, REF_FOLD, REF_UNASSIGNED) else {
                ctx.outcome("casefold:unassigned-skipped");
                continue;
            };
            ctx.eval(1);
            ctx.nontriv(1);
            match guard(|| gimli::case_fold(ch)) {
                Err(p) => ctx.fail_panic("case_fold", &p, format!("U+{:04X}", c)),
                Ok(g) if g as u32 == want => {}
                Ok(g) => ctx.fail("case_fold", "simple-case-folding-C+S", "wrong-fold", format!("U+{:04X}: got U+{:04X} want U+{:04X}", c, g as u32, want)),
            }
            if want != c {
                folded += 1;
                ctx.outcome(match c {
                    0x130 | 0x131 => "casefold:turkish-i",
                    x if x >= 0x10000 => "casefold:astral-pair",
                    _ => "casefold:bmp-pair",
                });
            }
            let mut s = String::new();
            s.push(ch);
            check_hash_str(ctx, &s);
            if want != c || c % 0x40 == 0 {
                let s3 = format!("A{}z", ch);
                check_hash_str(ctx, &s3);
            }
        }
        if ctx.want_sample() && folded > 0 {
            ctx.sample(format!("U+{:04X}..U+{:04X}: {} folding pairs", lo, lo + 0x3ff, folded));
        }
    })
}

pub fn subs(tier: Tier) -> Vec<Sub> {
    vec![sub_hash(tier), sub_entries(tier), sub_real(tier), sub_casefold_ascii(), sub_casefold_unicode()]
}

pub fn required() -> Vec<&'static str> {
    vec![
        "names:no-hash-table-error",
        "names:bucket-empty",
        "names:bucket-chain",
        "names:bucket-single",
        "names:bucket-ends-at-table-end",
        "names:hash-miss-empty-bucket",
        "names:hash-miss-colliding-bucket",
        "names:hash-hit",
        "names:hash-hit-in-chain",
        "names:hash-hit-multiple-names",
        "names:series-of-1",
        "names:series-of-2+",
        "names:ref-cu",
        "names:ref-local-tu",
        "names:ref-foreign-tu",
        "names:ref-default-cu",
        "names:parent-unknown",
        "names:parent-not-indexed",
        "names:parent-chain-1",
        "names:parent-chain-2+",
        "names:type-hash",
        "names:no-entry-at-terminator",
        "lookup:hit",
        "lookup:hit-among-equal-hashes",
        "lookup:miss-equal-hash-different-string",
        "lookup:miss",
        "casefold:llvm-vector",
        "casefold:ascii-upper",
        "casefold:bmp-pair",
        "casefold:astral-pair",
        "casefold:turkish-i",
    ]
}
