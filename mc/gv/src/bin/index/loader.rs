//! C17, loader part: every section type loaded through a loader closure receives the data of
//! its own SectionId and no other.
use crate::{en, Rd};
use gimli::{Dwarf, DwarfPackage, DwarfPackageSections, DwarfSections, Reader, Section, SectionId};
use mcx::{guard, Ctx, Sub};

/// Every SectionId with the ELF section name the DWARF 5 standard gives it (GNU names for the
/// pre-standard sections) and its name in a .dwo/.dwp file (DWARF 5 section 7.3.2 and appendix F;
/// GNU DebugFission for .debug_loc.dwo/.debug_macinfo.dwo/.debug_types.dwo).
pub const ALL: [(SectionId, &str, Option<&str>); 23] = [
    (SectionId::DebugAbbrev, ".debug_abbrev", Some(".debug_abbrev.dwo")),
    (SectionId::DebugAddr, ".debug_addr", None),
    (SectionId::DebugAranges, ".debug_aranges", None),
    (SectionId::DebugCuIndex, ".debug_cu_index", Some(".debug_cu_index")),
    (SectionId::DebugFrame, ".debug_frame", None),
    (SectionId::EhFrame, ".eh_frame", None),
    (SectionId::EhFrameHdr, ".eh_frame_hdr", None),
    (SectionId::DebugInfo, ".debug_info", Some(".debug_info.dwo")),
    (SectionId::DebugLine, ".debug_line", Some(".debug_line.dwo")),
    (SectionId::DebugLineStr, ".debug_line_str", None),
    (SectionId::DebugLoc, ".debug_loc", Some(".debug_loc.dwo")),
    (SectionId::DebugLocLists, ".debug_loclists", Some(".debug_loclists.dwo")),
    (SectionId::DebugMacinfo, ".debug_macinfo", Some(".debug_macinfo.dwo")),
    (SectionId::DebugMacro, ".debug_macro", Some(".debug_macro.dwo")),
    (SectionId::DebugNames, ".debug_names", None),
    (SectionId::DebugPubNames, ".debug_pubnames", None),
    (SectionId::DebugPubTypes, ".debug_pubtypes", None),
    (SectionId::DebugRanges, ".debug_ranges", None),
    (SectionId::DebugRngLists, ".debug_rnglists", Some(".debug_rnglists.dwo")),
    (SectionId::DebugStr, ".debug_str", Some(".debug_str.dwo")),
    (SectionId::DebugStrOffsets, ".debug_str_offsets", Some(".debug_str_offsets.dwo")),
    (SectionId::DebugTuIndex, ".debug_tu_index", Some(".debug_tu_index")),
    (SectionId::DebugTypes, ".debug_types", Some(".debug_types.dwo")),
];

/// The sections a `Dwarf` / `DwarfSections` holds, by field.
const DWARF_FIELDS: [(&str, SectionId); 16] = [
    ("debug_abbrev", SectionId::DebugAbbrev),
    ("debug_addr", SectionId::DebugAddr),
    ("debug_aranges", SectionId::DebugAranges),
    ("debug_info", SectionId::DebugInfo),
    ("debug_line", SectionId::DebugLine),
    ("debug_line_str", SectionId::DebugLineStr),
    ("debug_macinfo", SectionId::DebugMacinfo),
    ("debug_macro", SectionId::DebugMacro),
    ("debug_names", SectionId::DebugNames),
    ("debug_str", SectionId::DebugStr),
    ("debug_str_offsets", SectionId::DebugStrOffsets),
    ("debug_types", SectionId::DebugTypes),
    ("debug_loc", SectionId::DebugLoc),
    ("debug_loclists", SectionId::DebugLocLists),
    ("debug_ranges", SectionId::DebugRanges),
    ("debug_rnglists", SectionId::DebugRngLists),
];

const PACKAGE_FIELDS: [(&str, SectionId); 13] = [
    ("cu_index", SectionId::DebugCuIndex),
    ("tu_index", SectionId::DebugTuIndex),
    ("debug_abbrev", SectionId::DebugAbbrev),
    ("debug_info", SectionId::DebugInfo),
    ("debug_line", SectionId::DebugLine),
    ("debug_macinfo", SectionId::DebugMacinfo),
    ("debug_macro", SectionId::DebugMacro),
    ("debug_str", SectionId::DebugStr),
    ("debug_str_offsets", SectionId::DebugStrOffsets),
    ("debug_loc", SectionId::DebugLoc),
    ("debug_loclists", SectionId::DebugLocLists),
    ("debug_rnglists", SectionId::DebugRngLists),
    ("debug_types", SectionId::DebugTypes),
];

type Mark = (SectionId, u8);

/// What each field of a `Dwarf<Mark>` holds, observed through the public `borrow` of each section type.
fn observe(d: &Dwarf<Mark>) -> Vec<(&'static str, Mark)> {
    let mut v: Vec<(&'static str, Mark)> = vec![];
    macro_rules! f {
        ($name:literal, $e:expr) => {
            let _ = $e.borrow(|t: &Mark| {
                v.push(($name, *t));
            });
        };
    }
    f!("debug_abbrev", d.debug_abbrev);
    f!("debug_addr", d.debug_addr);
    f!("debug_aranges", d.debug_aranges);
    f!("debug_info", d.debug_info);
    f!("debug_line", d.debug_line);
    f!("debug_line_str", d.debug_line_str);
    f!("debug_macinfo", d.debug_macinfo);
    f!("debug_macro", d.debug_macro);
    f!("debug_names", d.debug_names);
    f!("debug_str", d.debug_str);
    f!("debug_str_offsets", d.debug_str_offsets);
    f!("debug_types", d.debug_types);
    // LocationLists::borrow visits .debug_loc then .debug_loclists
    let mut k = 0;
    let _ = d.locations.borrow(|t: &Mark| {
        v.push((if k == 0 { "debug_loc" } else { "debug_loclists" }, *t));
        k += 1;
    });
    // RangeLists::borrow visits .debug_ranges then .debug_rnglists
    let mut k = 0;
    let _ = d.ranges.borrow(|t: &Mark| {
        v.push((if k == 0 { "debug_ranges" } else { "debug_rnglists" }, *t));
        k += 1;
    });
    v
}

fn check_fields(ctx: &mut Ctx, entry: &str, got: &[(&'static str, Mark)], file: u8) {
    let want: Vec<(&str, Mark)> = DWARF_FIELDS.iter().map(|&(n, id)| (n, (id, file))).collect();
    ctx.eval(1);
    ctx.nontriv(16);
    for (g, w) in got.iter().zip(want.iter()) {
        if g != w {
            ctx.fail(entry, "field-holds-its-own-section", &format!("wrong-{}", w.0), format!("field {} holds the data loaded for {:?} (file {}), want {:?} (file {})", g.0, g.1 .0, g.1 .1, w.1 .0, w.1 .1));
        }
    }
    if got.len() != want.len() {
        ctx.machinery(format!("{}: observed {} fields, expected {}", entry, got.len(), want.len()));
    }
    ctx.outcome("loader:fields-checked");
}

fn check_requests(ctx: &mut Ctx, entry: &str, asked: &[SectionId], want: &[SectionId]) {
    let mut a = asked.to_vec();
    a.sort();
    let mut w = want.to_vec();
    w.sort();
    if a != w {
        ctx.fail(entry, "loader-asked-once-per-section", "wrong-requests", format!("loader was asked for {:?}, want exactly {:?}", asked, want));
    }
}

fn case_dwarf_load(ctx: &mut Ctx) {
    let mut asked = vec![];
    let r = guard(|| {
        Dwarf::<Mark>::load(|id| {
            asked.push(id);
            Ok::<_, ()>((id, 0u8))
        })
    });
    let mut d = match r {
        Err(p) => {
            ctx.fail_panic("Dwarf::load", &p, "marker loader".into());
            return;
        }
        Ok(r) => r.unwrap(),
    };
    let want_ids: Vec<SectionId> = DWARF_FIELDS.iter().map(|x| x.1).collect();
    check_requests(ctx, "Dwarf::load", &asked, &want_ids);
    check_fields(ctx, "Dwarf::load", &observe(&d), 0);
    if d.sup().is_some() || d.file_type != gimli::DwarfFileType::Main {
        ctx.fail("Dwarf::load", "fresh-dwarf-defaults", "wrong-default", format!("sup {:?} file_type {:?}", d.sup().is_some(), d.file_type));
    }
    // load_sup
    let mut asked = vec![];
    let r = guard(|| {
        d.load_sup(|id| {
            asked.push(id);
            Ok::<_, ()>((id, 1u8))
        })
    });
    match r {
        Err(p) => {
            ctx.fail_panic("Dwarf::load_sup", &p, "marker loader".into());
            return;
        }
        Ok(r) => r.unwrap(),
    }
    check_requests(ctx, "Dwarf::load_sup", &asked, &want_ids);
    check_fields(ctx, "Dwarf::load_sup", &observe(&d), 0);
    match d.sup() {
        Some(s) => check_fields(ctx, "Dwarf::load_sup", &observe(s), 1),
        None => ctx.fail("Dwarf::load_sup", "sup-is-set", "missing-sup", String::new()),
    }
    // deprecated Dwarf::borrow keeps every field and the sup
    #[allow(deprecated)]
    let b: Dwarf<Mark> = d.borrow(|t| (t.0, t.1 + 10));
    check_fields(ctx, "Dwarf::borrow", &observe(&b), 10);
    match b.sup() {
        Some(s) => check_fields(ctx, "Dwarf::borrow", &observe(s), 11),
        None => ctx.fail("Dwarf::borrow", "sup-is-kept", "missing-sup", String::new()),
    }
    // a failing loader propagates its error
    let r: Result<Dwarf<Mark>, SectionId> = Dwarf::load(|id| if id == SectionId::DebugStr { Err(id) } else { Ok((id, 0)) });
    if r.err() != Some(SectionId::DebugStr) {
        ctx.fail("Dwarf::load", "loader-error-propagates", "swallowed", String::new());
    }
    ctx.outcome("loader:dwarf-load");
}

fn case_sections_load(ctx: &mut Ctx) {
    let mut asked = vec![];
    let r = guard(|| {
        DwarfSections::<Mark>::load(|id| {
            asked.push(id);
            Ok::<_, ()>((id, 0u8))
        })
    });
    let s = match r {
        Err(p) => {
            ctx.fail_panic("DwarfSections::load", &p, "marker loader".into());
            return;
        }
        Ok(r) => r.unwrap(),
    };
    let want_ids: Vec<SectionId> = DWARF_FIELDS.iter().map(|x| x.1).collect();
    check_requests(ctx, "DwarfSections::load", &asked, &want_ids);
    // the public fields of DwarfSections, directly
    let mut v: Vec<(&'static str, Mark)> = vec![];
    macro_rules! f {
        ($name:literal, $e:expr) => {
            let _ = $e.borrow(|t: &Mark| {
                v.push(($name, *t));
            });
        };
    }
    f!("debug_abbrev", s.debug_abbrev);
    f!("debug_addr", s.debug_addr);
    f!("debug_aranges", s.debug_aranges);
    f!("debug_info", s.debug_info);
    f!("debug_line", s.debug_line);
    f!("debug_line_str", s.debug_line_str);
    f!("debug_macinfo", s.debug_macinfo);
    f!("debug_macro", s.debug_macro);
    f!("debug_names", s.debug_names);
    f!("debug_str", s.debug_str);
    f!("debug_str_offsets", s.debug_str_offsets);
    f!("debug_types", s.debug_types);
    // these four section types only expose their data through LocationLists / RangeLists
    let mut k = 0;
    let _ = gimli::LocationLists::new(s.debug_loc, s.debug_loclists).borrow(|t: &Mark| {
        v.push((if k == 0 { "debug_loc" } else { "debug_loclists" }, *t));
        k += 1;
    });
    let mut k = 0;
    let _ = gimli::RangeLists::new(s.debug_ranges, s.debug_rnglists).borrow(|t: &Mark| {
        v.push((if k == 0 { "debug_ranges" } else { "debug_rnglists" }, *t));
        k += 1;
    });
    check_fields(ctx, "DwarfSections::load", &v, 0);
    // borrow
    let mut visited = vec![];
    let d: Dwarf<Mark> = s.borrow(|t| {
        visited.push(t.0);
        (t.0, t.1 + 20)
    });
    check_requests(ctx, "DwarfSections::borrow", &visited, &want_ids);
    check_fields(ctx, "DwarfSections::borrow", &observe(&d), 20);
    // borrow_with_sup
    let sup = DwarfSections::<Mark>::load(|id| Ok::<_, ()>((id, 1u8))).unwrap();
    let d: Dwarf<Mark> = s.borrow_with_sup(Some(&sup), |t| (t.0, t.1 + 30));
    check_fields(ctx, "DwarfSections::borrow_with_sup", &observe(&d), 30);
    match d.sup() {
        Some(x) => check_fields(ctx, "DwarfSections::borrow_with_sup", &observe(x), 31),
        None => ctx.fail("DwarfSections::borrow_with_sup", "sup-is-set", "missing-sup", String::new()),
    }
    ctx.outcome("loader:sections-load");
}

fn marker(id: SectionId) -> Vec<u8> {
    // valid (empty) indexes for the two index sections, so that DwarfPackage can parse them:
    // the CU index as DWARF 5, the TU index as version 2, both with no units
    match id {
        SectionId::DebugCuIndex => {
            let mut e = mcx::enc::Enc::new(false);
            e.u16(5).u16(0).u32(0).u32(0).u32(0);
            e.buf
        }
        SectionId::DebugTuIndex => {
            let mut e = mcx::enc::Enc::new(false);
            e.u32(2).u32(0).u32(0).u32(0);
            e.buf
        }
        _ => format!("<marker of {:?}>", id).into_bytes(),
    }
}

fn case_package(ctx: &mut Ctx) {
    let marks: Vec<(SectionId, Vec<u8>)> = ALL.iter().map(|x| (x.0, marker(x.0))).collect();
    let get = |id: SectionId| -> &[u8] { &marks.iter().find(|m| m.0 == id).unwrap().1[..] };
    let want_ids: Vec<SectionId> = PACKAGE_FIELDS.iter().map(|x| x.1).collect();
    let mut asked = vec![];
    let r = guard(|| {
        DwarfPackageSections::<Rd>::load(|id| {
            asked.push(id);
            Ok::<_, gimli::Error>(Rd::new(get(id), en(false)))
        })
    });
    let s = match r {
        Err(p) => {
            ctx.fail_panic("DwarfPackageSections::load", &p, "marker loader".into());
            return;
        }
        Ok(r) => r.unwrap(),
    };
    check_requests(ctx, "DwarfPackageSections::load", &asked, &want_ids);
    let got: Vec<(&str, &[u8])> = vec![
        ("cu_index", s.cu_index.reader().slice()),
        ("tu_index", s.tu_index.reader().slice()),
        ("debug_abbrev", s.debug_abbrev.reader().slice()),
        ("debug_info", s.debug_info.reader().slice()),
        ("debug_line", s.debug_line.reader().slice()),
        ("debug_macinfo", s.debug_macinfo.reader().slice()),
        ("debug_macro", s.debug_macro.reader().slice()),
        ("debug_str", s.debug_str.reader().slice()),
        ("debug_str_offsets", s.debug_str_offsets.reader().slice()),
        ("debug_loc", s.debug_loc.reader().slice()),
        ("debug_loclists", s.debug_loclists.reader().slice()),
        ("debug_rnglists", s.debug_rnglists.reader().slice()),
        ("debug_types", s.debug_types.reader().slice()),
    ];
    ctx.eval(1);
    ctx.nontriv(13);
    for (g, w) in got.iter().zip(PACKAGE_FIELDS.iter()) {
        if g.1 != get(w.1) {
            ctx.fail("DwarfPackageSections::load", "field-holds-its-own-section", &format!("wrong-{}", w.0), format!("field {} holds {:?}, want the data of {:?}", g.0, String::from_utf8_lossy(g.1), w.1));
        }
    }
    // DwarfPackage::load and DwarfPackageSections::borrow
    static EMPTY: [u8; 0] = [];
    for path in 0..2 {
        let entry = if path == 0 { "DwarfPackage::load" } else { "DwarfPackageSections::borrow" };
        let r = if path == 0 { guard(|| DwarfPackage::load(|id| Ok::<_, gimli::Error>(Rd::new(get(id), en(false))), Rd::new(&EMPTY, en(false)))) } else { guard(|| s.borrow(|r| *r, Rd::new(&EMPTY, en(false)))) };
        let p = match r {
            Err(p) => {
                ctx.fail_panic(entry, &p, "marker loader".into());
                continue;
            }
            Ok(Err(e)) => {
                ctx.fail(entry, "well-formed-package-loads", "rejected", format!("{:?}", e));
                continue;
            }
            Ok(Ok(p)) => p,
        };
        ctx.eval(1);
        if p.cu_index.version() != 5 || p.tu_index.version() != 2 {
            ctx.fail(entry, "field-holds-its-own-section", "wrong-index", format!("cu_index version {} tu_index version {} (the CU index marker is version 5, the TU index marker version 2)", p.cu_index.version(), p.tu_index.version()));
        }
        let got: Vec<(&str, &[u8], SectionId)> = vec![
            ("debug_abbrev", p.debug_abbrev.reader().slice(), SectionId::DebugAbbrev),
            ("debug_info", p.debug_info.reader().slice(), SectionId::DebugInfo),
            ("debug_line", p.debug_line.reader().slice(), SectionId::DebugLine),
            ("debug_macinfo", p.debug_macinfo.reader().slice(), SectionId::DebugMacinfo),
            ("debug_macro", p.debug_macro.reader().slice(), SectionId::DebugMacro),
            ("debug_str", p.debug_str.reader().slice(), SectionId::DebugStr),
            ("debug_str_offsets", p.debug_str_offsets.reader().slice(), SectionId::DebugStrOffsets),
            ("debug_loc", p.debug_loc.reader().slice(), SectionId::DebugLoc),
            ("debug_loclists", p.debug_loclists.reader().slice(), SectionId::DebugLocLists),
            ("debug_rnglists", p.debug_rnglists.reader().slice(), SectionId::DebugRngLists),
            ("debug_types", p.debug_types.reader().slice(), SectionId::DebugTypes),
        ];
        for g in &got {
            if g.1 != get(g.2) {
                ctx.fail(entry, "field-holds-its-own-section", &format!("wrong-{}", g.0), format!("field {} holds {:?}, want the data of {:?}", g.0, String::from_utf8_lossy(g.1), g.2));
            }
        }
        if !p.empty.is_empty() {
            ctx.fail(entry, "empty-reader-kept", "wrong-empty", String::new());
        }
    }
    ctx.outcome("loader:package-load");
}

fn case_each_type(ctx: &mut Ctx) {
    let marks: Vec<(SectionId, Vec<u8>)> = ALL.iter().map(|x| (x.0, marker(x.0))).collect();
    let get = |id: SectionId| -> &[u8] { &marks.iter().find(|m| m.0 == id).unwrap().1[..] };
    let mut seen_ids = vec![];
    macro_rules! one {
        ($ty:ident, $id:expr) => {{
            ctx.eval(1);
            ctx.nontriv(1);
            let mut asked = vec![];
            let r = guard(|| {
                <gimli::$ty<Rd> as Section<Rd>>::load(|id| {
                    asked.push(id);
                    Ok::<_, ()>(Rd::new(get(id), en(false)))
                })
            });
            let entry = concat!(stringify!($ty), "::load");
            match r {
                Err(p) => ctx.fail_panic(entry, &p, "marker loader".into()),
                Ok(r) => {
                    let sec = r.unwrap();
                    let (_, name, dwo) = ALL.iter().find(|x| x.0 == $id).unwrap();
                    if asked != vec![$id] || sec.reader().slice() != get($id) {
                        ctx.fail(entry, "section-type-loads-its-own-section", "wrong-section", format!("loader asked for {:?}; data {:?}; want {:?}", asked, String::from_utf8_lossy(sec.reader().slice()), $id));
                    }
                    let g = (<gimli::$ty<Rd> as Section<Rd>>::id(), <gimli::$ty<Rd> as Section<Rd>>::section_name(), <gimli::$ty<Rd> as Section<Rd>>::dwo_section_name());
                    if g != ($id, *name, *dwo) {
                        ctx.fail(entry, "section-id-and-names", "wrong-name", format!("got {:?} want {:?}", g, ($id, name, dwo)));
                    }
                    seen_ids.push($id);
                }
            }
        }};
    }
    one!(DebugAbbrev, SectionId::DebugAbbrev);
    one!(DebugAddr, SectionId::DebugAddr);
    one!(DebugAranges, SectionId::DebugAranges);
    one!(DebugCuIndex, SectionId::DebugCuIndex);
    one!(DebugFrame, SectionId::DebugFrame);
    one!(EhFrame, SectionId::EhFrame);
    one!(EhFrameHdr, SectionId::EhFrameHdr);
    one!(DebugInfo, SectionId::DebugInfo);
    one!(DebugLine, SectionId::DebugLine);
    one!(DebugLineStr, SectionId::DebugLineStr);
    one!(DebugLoc, SectionId::DebugLoc);
    one!(DebugLocLists, SectionId::DebugLocLists);
    one!(DebugMacinfo, SectionId::DebugMacinfo);
    one!(DebugMacro, SectionId::DebugMacro);
    one!(DebugNames, SectionId::DebugNames);
    one!(DebugPubNames, SectionId::DebugPubNames);
    one!(DebugPubTypes, SectionId::DebugPubTypes);
    one!(DebugRanges, SectionId::DebugRanges);
    one!(DebugRngLists, SectionId::DebugRngLists);
    one!(DebugStr, SectionId::DebugStr);
    one!(DebugStrOffsets, SectionId::DebugStrOffsets);
    one!(DebugTuIndex, SectionId::DebugTuIndex);
    one!(DebugTypes, SectionId::DebugTypes);
    // SectionId::name / dwo_name for every id
    for (id, name, dwo) in ALL.iter() {
        ctx.eval(1);
        if id.name() != *name || id.dwo_name() != *dwo {
            ctx.fail("SectionId::name", "section-id-and-names", "wrong-name", format!("{:?}: got {} / {:?} want {} / {:?}", id, id.name(), id.dwo_name(), name, dwo));
        }
    }
    let mut s = seen_ids.clone();
    s.sort();
    s.dedup();
    if s.len() == ALL.len() {
        ctx.outcome("loader:every-section-id");
    }
}

fn case_offset_ids(ctx: &mut Ctx) {
    // Readers over distinct buffers: Dwarf::lookup_offset_id attributes an address inside the
    // data of section X to X (for the sections it documents it covers).
    let marks: Vec<(SectionId, Vec<u8>)> = ALL.iter().map(|x| (x.0, marker(x.0))).collect();
    let get = |id: SectionId| -> &[u8] { &marks.iter().find(|m| m.0 == id).unwrap().1[..] };
    let mut d: Dwarf<Rd> = Dwarf::load(|id| Ok::<_, ()>(Rd::new(get(id), en(false)))).unwrap();
    let sup_marks: Vec<(SectionId, Vec<u8>)> = ALL.iter().map(|x| (x.0, marker(x.0))).collect();
    d.load_sup(|id| Ok::<_, ()>(Rd::new(&sup_marks.iter().find(|m| m.0 == id).unwrap().1[..], en(false)))).unwrap();
    // direct view of the two range sections
    ctx.eval(1);
    if d.ranges.debug_ranges().reader().slice() != get(SectionId::DebugRanges) || d.ranges.debug_rnglists().reader().slice() != get(SectionId::DebugRngLists) {
        ctx.fail("Dwarf::load", "field-holds-its-own-section", "wrong-debug_ranges", "RangeLists::debug_ranges()/debug_rnglists() do not hold their own sections".into());
    }
    for &(field, id) in DWARF_FIELDS.iter() {
        for (is_sup, table) in [(false, &marks), (true, &sup_marks)] {
            let data = &table.iter().find(|m| m.0 == id).unwrap().1;
            let mut r = Rd::new(&data[..], en(false));
            r.skip(3).unwrap();
            let oid = r.offset_id();
            ctx.eval(1);
            ctx.nontriv(1);
            match guard(|| d.lookup_offset_id(oid)) {
                Err(p) => ctx.fail_panic("Dwarf::lookup_offset_id", &p, field.into()),
                Ok(Some((s, gid, off))) => {
                    if (s, gid, off) != (is_sup, id, 3) {
                        ctx.fail("Dwarf::lookup_offset_id", "offset-belongs-to-its-section", "wrong-section", format!("offset 3 of {} (sup={}): got ({}, {:?}, {})", field, is_sup, s, gid, off));
                    } else {
                        ctx.outcome("loader:offset-id-found");
                    }
                }
                // sections the function does not consult (not part of the property): noted, not failed
                Ok(None) => ctx.outcome("loader:offset-id-not-covered"),
            }
        }
    }
}

pub fn subs() -> Vec<Sub> {
    vec![Sub::new("loader", 5, "marker loader (returns the SectionId as data) through Dwarf::load, load_sup, Dwarf::borrow, DwarfSections::load/borrow/borrow_with_sup, DwarfPackageSections::load/borrow, DwarfPackage::load, Section::load of all 23 section types; SectionId::name/dwo_name for all 23 ids; Dwarf::lookup_offset_id", |ctx, i| {
        match i {
            0 => case_dwarf_load(ctx),
            1 => case_sections_load(ctx),
            2 => case_package(ctx),
            3 => case_each_type(ctx),
            _ => case_offset_ids(ctx),
        }
        if ctx.want_sample() {
            ctx.sample(format!("loader path {}: loader = |id| Ok((id, file_tag))", i));
        }
    })]
}

pub fn required() -> Vec<&'static str> {
    vec!["loader:fields-checked", "loader:dwarf-load", "loader:sections-load", "loader:package-load", "loader:every-section-id", "loader:offset-id-found"]
}
