//! Byte encoders for the tables C17 looks at, written against the DWARF 5
//! standard (sections 6.1.1, 6.1.2, 7.3.5.3, 7.5.1, 7.5.3, 7.19-7.21, 7.26, 7.27)
//! and the GNU DebugFission "DWARF package file format, version 2" note for the
//! pre-standard index. Nothing here uses gimli: constants are transcribed.
#![allow(dead_code)]

use mcx::enc::Enc;

// ---- constants (DWARF 5 tables 7.1, 7.2, 7.3, 7.5, 7.6, 6.1) ----------------------------------

// DW_SECT_* (DWARF 5 table 7.1)
pub const SECT_INFO: u32 = 1;
pub const SECT_ABBREV: u32 = 3;
pub const SECT_LINE: u32 = 4;
pub const SECT_LOCLISTS: u32 = 5;
pub const SECT_STR_OFFSETS: u32 = 6;
pub const SECT_MACRO: u32 = 7;
pub const SECT_RNGLISTS: u32 = 8;
// DW_SECT_* of the version 2 (GNU) package format
pub const SECT2_INFO: u32 = 1;
pub const SECT2_TYPES: u32 = 2;
pub const SECT2_ABBREV: u32 = 3;
pub const SECT2_LINE: u32 = 4;
pub const SECT2_LOC: u32 = 5;
pub const SECT2_STR_OFFSETS: u32 = 6;
pub const SECT2_MACINFO: u32 = 7;
pub const SECT2_MACRO: u32 = 8;

pub const V5_KINDS: [u32; 7] = [SECT_INFO, SECT_ABBREV, SECT_LINE, SECT_LOCLISTS, SECT_STR_OFFSETS, SECT_MACRO, SECT_RNGLISTS];
pub const V2_KINDS: [u32; 8] = [SECT2_INFO, SECT2_TYPES, SECT2_ABBREV, SECT2_LINE, SECT2_LOC, SECT2_STR_OFFSETS, SECT2_MACINFO, SECT2_MACRO];

// DW_UT_*
pub const UT_COMPILE: u8 = 0x01;
pub const UT_TYPE: u8 = 0x02;
pub const UT_SKELETON: u8 = 0x04;
pub const UT_SPLIT_COMPILE: u8 = 0x05;
pub const UT_SPLIT_TYPE: u8 = 0x06;

// DW_TAG_*
pub const TAG_COMPILE_UNIT: u64 = 0x11;
pub const TAG_STRUCTURE_TYPE: u64 = 0x13;
pub const TAG_BASE_TYPE: u64 = 0x24;
pub const TAG_SUBPROGRAM: u64 = 0x2e;
pub const TAG_VARIABLE: u64 = 0x34;
pub const TAG_NAMESPACE: u64 = 0x39;
pub const TAG_TYPE_UNIT: u64 = 0x41;
pub const TAG_SKELETON_UNIT: u64 = 0x4a;

// DW_AT_*
pub const AT_NAME: u64 = 0x03;
pub const AT_BYTE_SIZE: u64 = 0x0b;
pub const AT_LOW_PC: u64 = 0x11;
pub const AT_DECL_LINE: u64 = 0x3b;
pub const AT_STR_OFFSETS_BASE: u64 = 0x72;
pub const AT_ADDR_BASE: u64 = 0x73;
pub const AT_DWO_NAME: u64 = 0x76;
pub const AT_GNU_DWO_NAME: u64 = 0x2130;
pub const AT_GNU_DWO_ID: u64 = 0x2131;
pub const AT_GNU_ADDR_BASE: u64 = 0x2133;

// DW_FORM_*
pub const FORM_ADDR: u64 = 0x01;
pub const FORM_DATA2: u64 = 0x05;
pub const FORM_DATA4: u64 = 0x06;
pub const FORM_DATA8: u64 = 0x07;
pub const FORM_STRING: u64 = 0x08;
pub const FORM_DATA1: u64 = 0x0b;
pub const FORM_FLAG: u64 = 0x0c;
pub const FORM_STRP: u64 = 0x0e;
pub const FORM_UDATA: u64 = 0x0f;
pub const FORM_REF1: u64 = 0x11;
pub const FORM_REF2: u64 = 0x12;
pub const FORM_REF4: u64 = 0x13;
pub const FORM_REF8: u64 = 0x14;
pub const FORM_REF_UDATA: u64 = 0x15;
pub const FORM_SEC_OFFSET: u64 = 0x17;
pub const FORM_FLAG_PRESENT: u64 = 0x19;
pub const FORM_STRX: u64 = 0x1a;
pub const FORM_ADDRX: u64 = 0x1b;
pub const FORM_STRP_SUP: u64 = 0x1d;
pub const FORM_LINE_STRP: u64 = 0x1f;
pub const FORM_STRX1: u64 = 0x25;
pub const FORM_STRX2: u64 = 0x26;
pub const FORM_STRX3: u64 = 0x27;
pub const FORM_STRX4: u64 = 0x28;
pub const FORM_ADDRX1: u64 = 0x29;
pub const FORM_ADDRX2: u64 = 0x2a;
pub const FORM_ADDRX3: u64 = 0x2b;
pub const FORM_ADDRX4: u64 = 0x2c;
pub const FORM_GNU_ADDR_INDEX: u64 = 0x1f01;
pub const FORM_GNU_STR_INDEX: u64 = 0x1f02;
pub const FORM_GNU_STRP_ALT: u64 = 0x1f21;

// DW_IDX_* (DWARF 5 table 6.1 / 7.23)
pub const IDX_COMPILE_UNIT: u64 = 1;
pub const IDX_TYPE_UNIT: u64 = 2;
pub const IDX_DIE_OFFSET: u64 = 3;
pub const IDX_PARENT: u64 = 4;
pub const IDX_TYPE_HASH: u64 = 5;

pub fn word(fmt64: bool) -> usize {
    if fmt64 {
        8
    } else {
        4
    }
}

// ---- unit index (.debug_cu_index / .debug_tu_index), DWARF 5 section 7.3.5.3 -----------------------

/// Primary and secondary hash of DWARF 5 section 7.3.5.3 (steps 2 and 3), for a
/// table of `slots` = 2^k slots.
pub fn idx_hashes(key: u64, slots: u32) -> (u32, u32) {
    let mask = (slots as u64).wrapping_sub(1);
    let h = key & mask;
    let h2 = ((key >> 32) & mask) | 1;
    (h as u32, h2 as u32)
}

/// The probe sequence of 7.3.5.3 steps 4-5 on a partially filled table:
/// returns the visited slots; the last one is where the search stops (a match
/// or an unused slot). `slot_keys[i] == 0` means unused.
pub fn idx_probe(slot_keys: &[u64], key: u64) -> Vec<u32> {
    let s = slot_keys.len() as u32;
    let mut path = vec![];
    if s == 0 {
        return path;
    }
    let (mut h, h2) = idx_hashes(key, s);
    loop {
        path.push(h);
        if slot_keys[h as usize] == key || slot_keys[h as usize] == 0 {
            return path;
        }
        assert!(path.len() as u32 <= s, "model probe does not terminate: table full");
        h = (h + h2) % s;
    }
}

#[derive(Clone, Debug)]
pub struct IdxModel {
    pub version: u16,
    pub big: bool,
    pub slot_count: u32,
    /// DW_SECT codes in column order.
    pub columns: Vec<u32>,
    /// Units in row order (row number = position + 1): key and (offset, size) per column.
    pub keys: Vec<u64>,
    pub contrib: Vec<Vec<(u32, u32)>>,
    /// slot -> key (0 = unused) and slot -> row number (0 = unused).
    pub slot_keys: Vec<u64>,
    pub slot_rows: Vec<u32>,
}

impl IdxModel {
    /// Place `keys` in insertion order `order` (positions into `keys`) by the
    /// standard's open-addressing scheme.
    pub fn new(version: u16, big: bool, slot_count: u32, columns: Vec<u32>, keys: Vec<u64>, contrib: Vec<Vec<(u32, u32)>>, order: &[usize]) -> IdxModel {
        let mut slot_keys = vec![0u64; slot_count as usize];
        let mut slot_rows = vec![0u32; slot_count as usize];
        for &u in order {
            let k = keys[u];
            assert!(k != 0);
            let path = idx_probe(&slot_keys, k);
            let s = *path.last().unwrap() as usize;
            assert!(slot_keys[s] == 0, "duplicate key");
            slot_keys[s] = k;
            slot_rows[s] = u as u32 + 1;
        }
        IdxModel { version, big, slot_count, columns, keys, contrib, slot_keys, slot_rows }
    }

    pub fn encode(&self) -> Vec<u8> {
        let mut e = Enc::new(self.big);
        if self.version == 2 {
            // GNU package format version 2: 32-bit version word
            e.u32(2);
        } else {
            // DWARF 5: 2-byte version, 2 bytes padding
            e.u16(self.version).u16(0);
        }
        e.u32(self.columns.len() as u32);
        e.u32(self.keys.len() as u32);
        e.u32(self.slot_count);
        for &k in &self.slot_keys {
            e.u64(k);
        }
        for &r in &self.slot_rows {
            e.u32(r);
        }
        // offset table: header row of section identifiers, then one row per unit
        for &c in &self.columns {
            e.u32(c);
        }
        for row in &self.contrib {
            assert_eq!(row.len(), self.columns.len());
            for &(o, _) in row {
                e.u32(o);
            }
        }
        for row in &self.contrib {
            for &(_, s) in row {
                e.u32(s);
            }
        }
        e.buf
    }
}

// ---- DIEs, abbreviations, unit headers (DWARF 5 sections 7.5.1, 7.5.3) ----------------------------

#[derive(Clone, Debug)]
pub enum Val {
    U(u64),
    Str(Vec<u8>),
    Present,
}

#[derive(Clone, Debug)]
pub struct Die {
    pub tag: u64,
    pub attrs: Vec<(u64, u64, Val)>,
    pub children: Vec<Die>,
}

impl Die {
    pub fn new(tag: u64) -> Die {
        Die { tag, attrs: vec![], children: vec![] }
    }
    pub fn attr(mut self, at: u64, form: u64, v: Val) -> Die {
        self.attrs.push((at, form, v));
        self
    }
    pub fn child(mut self, d: Die) -> Die {
        self.children.push(d);
        self
    }
}

#[derive(Clone, Debug)]
pub enum UnitKind {
    /// DWARF <= 4 compilation unit, or DW_UT_compile in DWARF 5
    Compile,
    Skeleton(u64),
    SplitCompile(u64),
    /// DW_UT_type / DW_UT_split_type (DWARF 5) or a .debug_types unit (DWARF 4): signature, index of the
    /// DIE (preorder) the type offset designates
    Type { sig: u64, split: bool, type_die: usize },
}

#[derive(Clone, Debug)]
pub struct UnitModel {
    pub version: u16,
    pub fmt64: bool,
    pub addr_size: u8,
    pub kind: UnitKind,
    /// value of the debug_abbrev_offset header field
    pub abbrev_off: u64,
    /// first abbreviation code used by this unit's DIEs (preorder numbering)
    pub code0: u64,
    pub root: Die,
}

fn form_value(e: &mut Enc, form: u64, v: &Val, fmt64: bool, addr_size: u8) {
    match (form, v) {
        (FORM_STRING, Val::Str(s)) => {
            e.cstr(s);
        }
        (FORM_FLAG_PRESENT, Val::Present) => {}
        (FORM_ADDR, Val::U(x)) => {
            e.addr(*x, addr_size);
        }
        (FORM_DATA1 | FORM_STRX1 | FORM_ADDRX1 | FORM_FLAG | FORM_REF1, Val::U(x)) => {
            e.uint(*x, 1);
        }
        (FORM_DATA2 | FORM_STRX2 | FORM_ADDRX2 | FORM_REF2, Val::U(x)) => {
            e.uint(*x, 2);
        }
        (FORM_STRX3 | FORM_ADDRX3, Val::U(x)) => {
            e.uint(*x, 3);
        }
        (FORM_DATA4 | FORM_STRX4 | FORM_ADDRX4 | FORM_REF4, Val::U(x)) => {
            e.uint(*x, 4);
        }
        (FORM_DATA8 | FORM_REF8, Val::U(x)) => {
            e.uint(*x, 8);
        }
        (FORM_UDATA | FORM_STRX | FORM_ADDRX | FORM_GNU_STR_INDEX | FORM_GNU_ADDR_INDEX | FORM_REF_UDATA, Val::U(x)) => {
            e.uleb(*x);
        }
        (FORM_SEC_OFFSET | FORM_STRP | FORM_LINE_STRP | FORM_STRP_SUP | FORM_GNU_STRP_ALT, Val::U(x)) => {
            e.offset(*x, fmt64);
        }
        _ => panic!("encoder: form {:#x} with value {:?}", form, v),
    }
}

fn enc_die(e: &mut Enc, d: &Die, code: &mut u64, fmt64: bool, addr_size: u8, offsets: &mut Vec<usize>) {
    offsets.push(e.len());
    e.uleb(*code);
    *code += 1;
    for (_, form, v) in &d.attrs {
        form_value(e, *form, v, fmt64, addr_size);
    }
    if !d.children.is_empty() {
        for c in &d.children {
            enc_die(e, c, code, fmt64, addr_size, offsets);
        }
        e.u8(0);
    }
}

fn enc_abbrev_die(e: &mut Enc, d: &Die, code: &mut u64) {
    e.uleb(*code);
    *code += 1;
    e.uleb(d.tag);
    e.u8(if d.children.is_empty() { 0 } else { 1 });
    for (at, form, _) in &d.attrs {
        e.uleb(*at).uleb(*form);
    }
    e.uleb(0).uleb(0);
    for c in &d.children {
        enc_abbrev_die(e, c, code);
    }
}

impl UnitModel {
    /// The abbreviation table of this unit (one declaration per DIE, codes
    /// code0, code0+1, ... in preorder), terminated by a zero code.
    pub fn abbrev_table(&self, big: bool) -> Vec<u8> {
        let mut e = Enc::new(big);
        let mut code = self.code0;
        enc_abbrev_die(&mut e, &self.root, &mut code);
        e.uleb(0);
        e.buf
    }

    fn header_rest_len(&self) -> usize {
        // bytes of the header after the unit_length field
        let w = word(self.fmt64);
        let base = if self.version >= 5 { 2 + 1 + 1 + w } else { 2 + w + 1 };
        base + match self.kind {
            UnitKind::Compile => 0,
            UnitKind::Skeleton(_) | UnitKind::SplitCompile(_) => {
                assert!(self.version >= 5);
                8
            }
            UnitKind::Type { .. } => 8 + w,
        }
    }

    /// Encoded unit (header + DIEs) and the unit-relative offset of every DIE in preorder.
    pub fn encode(&self, big: bool) -> (Vec<u8>, Vec<usize>) {
        let len_size = if self.fmt64 { 12 } else { 4 };
        let hdr = len_size + self.header_rest_len();
        // DIEs first, at their final unit-relative offsets
        let mut dies = Enc::new(big);
        dies.buf.resize(hdr, 0);
        let mut offsets = vec![];
        let mut code = self.code0;
        enc_die(&mut dies, &self.root, &mut code, self.fmt64, self.addr_size, &mut offsets);
        let die_bytes = dies.buf[hdr..].to_vec();
        let mut b = Enc::new(big);
        b.u16(self.version);
        if self.version >= 5 {
            let ut = match self.kind {
                UnitKind::Compile => UT_COMPILE,
                UnitKind::Skeleton(_) => UT_SKELETON,
                UnitKind::SplitCompile(_) => UT_SPLIT_COMPILE,
                UnitKind::Type { split: false, .. } => UT_TYPE,
                UnitKind::Type { split: true, .. } => UT_SPLIT_TYPE,
            };
            b.u8(ut).u8(self.addr_size).offset(self.abbrev_off, self.fmt64);
        } else {
            b.offset(self.abbrev_off, self.fmt64).u8(self.addr_size);
        }
        match self.kind {
            UnitKind::Compile => {}
            UnitKind::Skeleton(id) | UnitKind::SplitCompile(id) => {
                b.u64(id);
            }
            UnitKind::Type { sig, type_die, .. } => {
                b.u64(sig).offset(offsets[type_die] as u64, self.fmt64);
            }
        }
        assert_eq!(b.len(), self.header_rest_len());
        b.bytes(&die_bytes);
        let mut out = Enc::new(big);
        out.with_length(self.fmt64, &b);
        (out.buf, offsets)
    }
}

// ---- .debug_str_offsets (7.26) and .debug_addr (7.27) ------------------------------------------------

/// A DWARF 5 string offsets table: header (unit_length, version 5, padding) + offsets.
/// Returns the bytes and the table-relative offset of the first entry.
pub fn str_offsets_table(big: bool, fmt64: bool, offsets: &[u64]) -> (Vec<u8>, usize) {
    let mut b = Enc::new(big);
    b.u16(5).u16(0);
    for &o in offsets {
        b.offset(o, fmt64);
    }
    let mut e = Enc::new(big);
    e.with_length(fmt64, &b);
    (e.buf, if fmt64 { 16 } else { 8 })
}

/// A DWARF 5 address table: header (unit_length, version 5, address_size, segment_selector_size 0) + addresses.
pub fn addr_table(big: bool, fmt64: bool, addr_size: u8, addrs: &[u64]) -> (Vec<u8>, usize) {
    let mut b = Enc::new(big);
    b.u16(5).u8(addr_size).u8(0);
    for &a in addrs {
        b.addr(a, addr_size);
    }
    let mut e = Enc::new(big);
    e.with_length(fmt64, &b);
    (e.buf, if fmt64 { 16 } else { 8 })
}

// ---- .debug_aranges (6.1.2, 7.21) ----------------------------------------------------------------

/// One address range set. `tuples` are written verbatim; `terminate` appends the (0,0) tuple.
pub fn aranges_set(big: bool, fmt64: bool, version: u16, info_off: u64, addr_size: u8, tuples: &[(u64, u64)], terminate: bool, set_start: usize) -> Vec<u8> {
    let mut b = Enc::new(big);
    b.u16(version).offset(info_off, fmt64).u8(addr_size).u8(0);
    // "The first tuple following the header in each set begins at an offset that is a
    // multiple of the size of a single tuple (that is, twice the size of an address)."
    let hdr = (if fmt64 { 12 } else { 4 }) + b.len();
    let tuple = 2 * addr_size as usize;
    let mut pos = set_start + hdr;
    while pos % tuple != 0 {
        b.u8(0);
        pos += 1;
    }
    for &(a, l) in tuples {
        b.addr(a, addr_size).addr(l, addr_size);
    }
    if terminate {
        b.addr(0, addr_size).addr(0, addr_size);
    }
    let mut e = Enc::new(big);
    e.with_length(fmt64, &b);
    e.buf
}

// ---- .debug_pubnames / .debug_pubtypes (6.1.1 of DWARF 4, 7.19) -------------------------------------

pub fn pub_set(big: bool, fmt64: bool, info_off: u64, info_len: u64, entries: &[(u64, Vec<u8>)], terminate: bool) -> Vec<u8> {
    let mut b = Enc::new(big);
    b.u16(2).offset(info_off, fmt64).offset(info_len, fmt64);
    for (off, name) in entries {
        assert!(*off != 0);
        b.offset(*off, fmt64).cstr(name);
    }
    if terminate {
        b.offset(0, fmt64);
    }
    let mut e = Enc::new(big);
    e.with_length(fmt64, &b);
    e.buf
}

// ---- .debug_names (6.1.1.4) ----------------------------------------------------------------------

#[derive(Clone, Debug, PartialEq, Eq)]
pub enum NVal {
    U(u64),
    /// a reference-class value (die offset)
    Ref(u64),
    /// reference to the entry-pool offset of entry number i (global numbering)
    EntryRef(usize),
    Present,
}

#[derive(Clone, Debug)]
pub struct NEntry {
    pub tag: u64,
    /// (DW_IDX, DW_FORM, value)
    pub attrs: Vec<(u64, u64, NVal)>,
}

#[derive(Clone, Debug)]
pub struct NName {
    /// offset of the string in .debug_str
    pub str_off: u64,
    pub hash: u32,
    /// indexes into NamesModel::entries: this name's series
    pub entries: Vec<usize>,
}

#[derive(Clone, Debug)]
pub struct NamesModel {
    pub big: bool,
    pub fmt64: bool,
    pub cus: Vec<u64>,
    pub local_tus: Vec<u64>,
    pub foreign_tus: Vec<u64>,
    pub bucket_count: u32,
    /// in name-table order: must already be grouped by hash % bucket_count
    pub names: Vec<NName>,
    pub entries: Vec<NEntry>,
    pub augmentation: Vec<u8>,
    /// first abbreviation code; distinct (tag, attrs) signatures get code0, code0+step, ...
    pub code0: u64,
    pub code_step: u64,
}

pub struct NamesLayout {
    pub bytes: Vec<u8>,
    /// entry-pool offset of every entry
    pub entry_off: Vec<u64>,
    /// abbreviation code of every entry
    pub entry_code: Vec<u64>,
    /// buckets array as written (1-based first name index or 0)
    pub buckets: Vec<u32>,
    pub pool_len: usize,
    /// abbreviation table as written: (code, tag, [(DW_IDX, DW_FORM)]) and its size in bytes
    pub abbrevs: Vec<(u64, u64, Vec<(u64, u64)>)>,
    pub abbrev_len: usize,
}

impl NamesModel {
    fn signature(e: &NEntry) -> (u64, Vec<(u64, u64)>) {
        (e.tag, e.attrs.iter().map(|(i, f, _)| (*i, *f)).collect())
    }

    pub fn encode(&self) -> NamesLayout {
        // abbreviations
        let mut sigs: Vec<(u64, Vec<(u64, u64)>)> = vec![];
        let mut entry_code = vec![];
        for e in &self.entries {
            let s = Self::signature(e);
            let pos = match sigs.iter().position(|x| *x == s) {
                Some(p) => p,
                None => {
                    sigs.push(s);
                    sigs.len() - 1
                }
            };
            entry_code.push(self.code0 + self.code_step * pos as u64);
        }
        let mut ab = Enc::new(self.big);
        for (i, (tag, attrs)) in sigs.iter().enumerate() {
            ab.uleb(self.code0 + self.code_step * i as u64).uleb(*tag);
            for (idx, form) in attrs {
                ab.uleb(*idx).uleb(*form);
            }
            ab.uleb(0).uleb(0);
        }
        ab.uleb(0);
        // entry pool: series per name in name-table order, each terminated by a 0 code.
        // Entry references need final offsets: iterate the layout to a fixed point.
        let order: Vec<usize> = self.names.iter().flat_map(|n| n.entries.iter().cloned()).collect();
        {
            let mut seen = order.clone();
            seen.sort();
            seen.dedup();
            assert_eq!(seen.len(), self.entries.len(), "every entry belongs to exactly one name");
        }
        let mut entry_off = vec![0u64; self.entries.len()];
        let mut pool;
        let mut name_series_off = vec![];
        let mut rounds = 0;
        loop {
            pool = Enc::new(self.big);
            name_series_off.clear();
            let mut new_off = entry_off.clone();
            for n in &self.names {
                name_series_off.push(pool.len() as u64);
                for &ei in &n.entries {
                    new_off[ei] = pool.len() as u64;
                    pool.uleb(entry_code[ei]);
                    for (_, form, v) in &self.entries[ei].attrs {
                        let x = match v {
                            NVal::U(x) | NVal::Ref(x) => Val::U(*x),
                            NVal::EntryRef(t) => Val::U(entry_off[*t]),
                            NVal::Present => Val::Present,
                        };
                        form_value(&mut pool, *form, &x, self.fmt64, 8);
                    }
                }
                pool.uleb(0);
            }
            if new_off == entry_off {
                break;
            }
            entry_off = new_off;
            rounds += 1;
            assert!(rounds < 10, "entry pool layout does not converge");
        }
        // buckets
        let mut buckets = vec![0u32; self.bucket_count as usize];
        if self.bucket_count > 0 {
            let mut last = None;
            for (i, n) in self.names.iter().enumerate() {
                let b = n.hash % self.bucket_count;
                if let Some(l) = last {
                    assert!(b >= l, "names must be grouped by bucket");
                }
                last = Some(b);
                if buckets[b as usize] == 0 {
                    buckets[b as usize] = i as u32 + 1;
                }
            }
        }
        let mut b = Enc::new(self.big);
        b.u16(5).u16(0);
        b.u32(self.cus.len() as u32).u32(self.local_tus.len() as u32).u32(self.foreign_tus.len() as u32);
        b.u32(self.bucket_count).u32(self.names.len() as u32).u32(ab.len() as u32);
        // augmentation_string_size is "rounded up to a multiple of 4"
        assert!(self.augmentation.len() % 4 == 0);
        b.u32(self.augmentation.len() as u32).bytes(&self.augmentation);
        for &c in &self.cus {
            b.offset(c, self.fmt64);
        }
        for &c in &self.local_tus {
            b.offset(c, self.fmt64);
        }
        for &c in &self.foreign_tus {
            b.u64(c);
        }
        for &x in &buckets {
            b.u32(x);
        }
        if self.bucket_count > 0 {
            for n in &self.names {
                b.u32(n.hash);
            }
        }
        for n in &self.names {
            b.offset(n.str_off, self.fmt64);
        }
        for &o in &name_series_off {
            b.offset(o, self.fmt64);
        }
        b.append(&ab);
        b.append(&pool);
        let mut e = Enc::new(self.big);
        e.with_length(self.fmt64, &b);
        let abbrevs = sigs.iter().enumerate().map(|(i, (tag, attrs))| (self.code0 + self.code_step * i as u64, *tag, attrs.clone())).collect();
        NamesLayout { bytes: e.buf, entry_off, entry_code, buckets, pool_len: pool.len(), abbrevs, abbrev_len: ab.len() }
    }
}

// ---- DJB hash with simple case folding (DWARF 5 sections 6.1.1.4.5 and 7.33) -------------------------

/// Simple case folding (CaseFolding.txt statuses C and S), plus the DWARF rule
/// that U+0130 and U+0131 fold to 'i'. `None` when the reference has nothing to say
/// about the code point (unassigned in the reference's Unicode version).
pub fn ref_fold(c: u32, fold: &[(u32, u32)], unassigned: &[(u32, u32)]) -> Option<u32> {
    if c < 0x80 {
        return Some(if (0x41..=0x5a).contains(&c) { c + 0x20 } else { c });
    }
    if c == 0x130 || c == 0x131 {
        return Some(0x69);
    }
    if LATER_S_MAPPINGS.iter().any(|p| p.0 == c) {
        return None;
    }
    if let Ok(i) = fold.binary_search_by(|p| p.0.cmp(&c)) {
        return Some(fold[i].1);
    }
    if unassigned.iter().any(|&(a, b)| a <= c && c <= b) {
        return None;
    }
    Some(c)
}

/// Simple (S) mappings that CaseFolding.txt gained in Unicode 15.1 for characters that already
/// existed: before 15.1 these three fold to themselves. The DWARF standard does not pin a Unicode
/// version, so both answers are accepted.
pub const LATER_S_MAPPINGS: [(u32, u32); 3] = [(0x1fd3, 0x390), (0x1fe3, 0x3b0), (0xfb05, 0xfb06)];

pub fn utf8(c: u32, out: &mut Vec<u8>) {
    if c < 0x80 {
        out.push(c as u8);
    } else if c < 0x800 {
        out.push(0xc0 | (c >> 6) as u8);
        out.push(0x80 | (c & 0x3f) as u8);
    } else if c < 0x10000 {
        out.push(0xe0 | (c >> 12) as u8);
        out.push(0x80 | ((c >> 6) & 0x3f) as u8);
        out.push(0x80 | (c & 0x3f) as u8);
    } else {
        out.push(0xf0 | (c >> 18) as u8);
        out.push(0x80 | ((c >> 12) & 0x3f) as u8);
        out.push(0x80 | ((c >> 6) & 0x3f) as u8);
        out.push(0x80 | (c & 0x3f) as u8);
    }
}

/// `hash = hash * 33 + byte` from 5381 over the UTF-8 bytes of the folded string (7.33).
pub fn djb(bytes: &[u8]) -> u32 {
    let mut h: u64 = 5381;
    for &b in bytes {
        h = (h * 33 + b as u64) & 0xffff_ffff;
    }
    h as u32
}

/// Reference hash of a sequence of code points; None if any is outside the reference.
pub fn ref_hash(cps: &[u32], fold: &[(u32, u32)], unassigned: &[(u32, u32)]) -> Option<u32> {
    let mut bytes = vec![];
    for &c in cps {
        utf8(ref_fold(c, fold, unassigned)?, &mut bytes);
    }
    Some(djb(&bytes))
}
