//! C17, flat tables: .debug_aranges, .debug_pubnames/.debug_pubtypes, .debug_str_offsets,
//! .debug_addr, Dwarf::attr_string / attr_address.
use crate::dw::{self, Die, UnitKind, UnitModel, Val};
use crate::{en, hex, Rd};
use gimli::{DebugAddr, DebugAddrBase, DebugAddrIndex, DebugAranges, DebugArangesOffset, DebugPubNames, DebugPubTypes, DebugStrOffsets, DebugStrOffsetsBase, DebugStrOffsetsIndex, Dwarf, Format, SectionId};
use mcx::space::Mix;
use mcx::{guard, Sub, Tier};

fn fmt(fmt64: bool) -> Format {
    if fmt64 {
        Format::Dwarf64
    } else {
        Format::Dwarf32
    }
}

fn ones(size: u8) -> u64 {
    if size == 8 {
        u64::MAX
    } else {
        (1u64 << (8 * size)) - 1
    }
}

// ---------------------------------------------------------------------------------------------
// aranges

/// Tuple alphabet for an address size: (address, length, class)
#[derive(Clone, Copy, PartialEq, Debug)]
enum TClass {
    Plain,
    Zero,      // (0,0) before the end of the set
    Tombstone, // address -1 or -2 in the address size
    TopEnd,    // address + length reaches or passes 2^(8*size)
}

fn tuple_alphabet(size: u8) -> Vec<(u64, u64, TClass)> {
    let m = ones(size);
    vec![
        (0, 0, TClass::Zero),
        (0, 5, TClass::Plain),
        (0x10, 0x20, TClass::Plain),
        (7, 0, TClass::Plain),
        (m / 2 + 1, m / 4, TClass::Plain),
        (m - 2, 2, TClass::Plain),
        (0, m, TClass::Plain),
        (m, 1, TClass::Tombstone),
        (m - 1, 0, TClass::Tombstone),
        (m - 4, 5, TClass::TopEnd),
    ]
}

fn sub_aranges(tier: Tier) -> Sub {
    let max_len = tier.pick(3u32, 4u32);
    let nalpha = 10u64;
    let nseq = mcx::space::seq_count(nalpha, 0, max_len);
    let bound = format!("address range sets: address_size {{1,2,4,8}} x format 32/64 (header padding 0/4/8) x byte order x every tuple list of length 0..={} over a 10-tuple alphabet per size (plain, zero-length, whole address space, (0,0) mid-list, tombstones -1/-2, range ending past the top) x terminator present/absent x set first or second in the section x version {{2}}; headers(), header(offset), entries().next(), next_raw()", max_len);
    Sub::new("aranges", 4 * 2 * 2 * 2 * 2 * nseq, &bound, move |ctx, i| {
        let mut mx = Mix(i);
        let size = *mx.pick(&[1u8, 2, 4, 8]);
        let fmt64 = mx.flag();
        let big = mx.flag();
        let terminate = mx.flag();
        let second = mx.flag();
        let alpha = tuple_alphabet(size);
        let seq: Vec<(u64, u64, TClass)> = mcx::space::seq_decode(nalpha, 0, max_len, mx.0).into_iter().map(|k| alpha[k]).collect();
        let tuples: Vec<(u64, u64)> = seq.iter().map(|t| (t.0, t.1)).collect();
        let info_off = if fmt64 { 0x1_0000_0040u64 } else { 0xfedc_ba98 };
        let mut section = vec![];
        if second {
            // a first set whose total length is a multiple of 16, so that "offset" in the
            // alignment rule means the same relative to the set and to the section
            let first = dw::aranges_set(big, false, 2, 0x77, 4, &[(0x1000, 0x10), (0x2000, 0x20), (0x3000, 0x30)], true, 0);
            assert_eq!(first.len() % 16, 0);
            section.extend_from_slice(&first);
        }
        let start = section.len();
        section.extend_from_slice(&dw::aranges_set(big, fmt64, 2, info_off, size, &tuples, terminate, start));
        let case = || format!("size={} fmt64={} big={} tuples={:x?} terminate={} set_offset={} section={}", size, fmt64, big, tuples, terminate, start, hex(&section));
        ctx.nontriv(1);
        // oracle: the entries present, with the latitude the property leaves:
        //  - a (0,0) tuple before the end: the standard says it terminates the set, gimli documents that it
        //    skips it; both lists are accepted
        //  - tombstone addresses may be skipped by next() (documented) but are returned by next_raw()
        //  - a range reaching past the top of the address space has no representable end: Err or the entry
        let m = ones(size);
        let mk = |stop_at_zero: bool, raw: bool| -> Vec<Result<(u64, u64, u64), ()>> {
            let mut v = vec![];
            for t in &seq {
                match t.2 {
                    TClass::Zero => {
                        if stop_at_zero {
                            break;
                        }
                    }
                    TClass::Tombstone if !raw => {}
                    TClass::TopEnd if !raw => {
                        v.push(Err(()));
                        break;
                    }
                    _ => v.push(Ok((t.0, t.1, if raw { 0 } else { t.0 + t.1 }))),
                }
            }
            v
        };
        let _ = m;
        let da = DebugAranges::new(&section, en(big));
        // headers()
        ctx.eval(1);
        let hs = guard(|| {
            let mut it = da.headers();
            let mut v = vec![];
            loop {
                match it.next() {
                    Ok(Some(h)) => v.push(Ok(h)),
                    Ok(None) => break,
                    Err(e) => {
                        v.push(Err(e));
                        break;
                    }
                }
                if v.len() > 8 {
                    break;
                }
            }
            v
        });
        let hs = match hs {
            Err(p) => {
                ctx.fail_panic("DebugAranges::headers", &p, case());
                return;
            }
            Ok(v) => v,
        };
        let nsets = if second { 2 } else { 1 };
        if hs.len() != nsets || hs.iter().any(|h| h.is_err()) {
            ctx.fail("DebugAranges::headers", "every-set-iterated", "wrong-sets", format!("{}: got {:?}", case(), hs.iter().map(|h| h.as_ref().map(|x| x.offset().0).map_err(|e| *e)).collect::<Vec<_>>()));
            return;
        }
        let h = hs[nsets - 1].as_ref().unwrap();
        let enc = h.encoding();
        let got_h = (h.offset().0 as u64, h.debug_info_offset().0 as u64, enc.address_size, enc.format, enc.version, h.length() as u64);
        let want_h = (start as u64, info_off, size, fmt(fmt64), 2u16, (section.len() - start - if fmt64 { 12 } else { 4 }) as u64);
        if got_h != want_h {
            ctx.fail("ArangeHeader::parse", "header-fields", "wrong-value", format!("{}: got {:x?} want {:x?}", case(), got_h, want_h));
        }
        // header(offset) gives the same header
        ctx.eval(1);
        match guard(|| da.header(DebugArangesOffset(start))) {
            Err(p) => ctx.fail_panic("DebugAranges::header", &p, case()),
            Ok(Ok(h2)) if h2 == *h => {}
            Ok(o) => ctx.fail("DebugAranges::header", "header-at-offset", "wrong-value", format!("{}: got {:?}", case(), o)),
        }
        // entries
        let pad_class = match (size, fmt64) {
            (8, true) => "aranges:padding-8",
            (4, false) | (8, false) => "aranges:padding-4",
            _ => "aranges:padding-0",
        };
        ctx.outcome(pad_class);
        for raw in [false, true] {
            ctx.eval(1);
            let g = guard(|| {
                let mut it = h.entries();
                let mut v: Vec<Result<(u64, u64, u64), ()>> = vec![];
                let mut ended = false;
                loop {
                    let r = if raw { it.next_raw() } else { it.next() };
                    match r {
                        Ok(Some(e)) => v.push(Ok((e.address(), e.length(), e.range().end))),
                        Ok(None) => {
                            ended = true;
                            break;
                        }
                        Err(_) => {
                            v.push(Err(()));
                            break;
                        }
                    }
                    if v.len() > 8 {
                        break;
                    }
                }
                // after the end the iterator stays finished
                let fused = if ended { matches!(if raw { it.next_raw() } else { it.next() }, Ok(None)) } else { true };
                (v, fused)
            });
            let entry = if raw { "ArangeEntryIter::next_raw" } else { "ArangeEntryIter::next" };
            let (g, fused) = match g {
                Err(p) => {
                    ctx.fail_panic(entry, &p, case());
                    continue;
                }
                Ok(x) => x,
            };
            if !fused {
                ctx.fail(entry, "finished-iterator-stays-finished", "resumed", case());
            }
            // accepted answers
            let mut accepted: Vec<Vec<Result<(u64, u64, u64), ()>>> = vec![mk(false, raw), mk(true, raw)];
            if !raw {
                // tombstones reported instead of skipped, top-end range reported with its true end
                let full = |stop: bool| -> Vec<Result<(u64, u64, u64), ()>> {
                    let mut v = vec![];
                    for t in &seq {
                        match t.2 {
                            TClass::Zero => {
                                if stop {
                                    break;
                                }
                            }
                            TClass::TopEnd if size == 8 => {
                                v.push(Err(()));
                                break;
                            }
                            _ => v.push(Ok((t.0, t.1, t.0.wrapping_add(t.1)))),
                        }
                    }
                    v
                };
                accepted.push(full(false));
                accepted.push(full(true));
            }
            if !accepted.contains(&g) {
                ctx.fail(entry, "tuples-of-the-set", "wrong-entries", format!("{}: got {:x?} want {:x?} (or with the set ended by its first (0,0): {:x?})", case(), g, accepted[0], accepted[1]));
            }
            if !raw {
                for t in &seq {
                    ctx.outcome(match t.2 {
                        TClass::Plain => "aranges:plain",
                        TClass::Zero => "aranges:zero-mid-list",
                        TClass::Tombstone => "aranges:tombstone",
                        TClass::TopEnd => "aranges:range-past-top",
                    });
                }
                if seq.is_empty() {
                    ctx.outcome("aranges:empty-set");
                }
            }
        }
        if ctx.want_sample() && seq.len() >= 2 {
            ctx.sample(case());
        }
    })
}

// ---------------------------------------------------------------------------------------------
// pubnames / pubtypes

fn sub_pub(tier: Tier) -> Sub {
    // entry alphabet
    let alpha: Vec<(u64, Vec<u8>)> = vec![(0x0b, b"a".to_vec()), (0x1234, b"".to_vec()), (0xffff_fffe, b"ns::f".to_vec()), (0x1, b"\xc3\xa9".to_vec())];
    let max_e = tier.pick(3u32, 4u32);
    let per_set = mcx::space::seq_count(4, 0, max_e);
    // 0, 1 or 2 sets
    let total_sets = 1 + per_set + per_set * per_set;
    let bound = format!("0..=2 sets x 0..={} entries per set over a 4-entry alphabet (1-byte name, empty name, qualified name, non-ASCII name; small and large DIE offsets) x format 32/64 x byte order x terminator present/absent x table kind (pubnames, pubtypes); items() vs the flat list of (unit offset, DIE offset, name)", max_e);
    Sub::new("pubnames-pubtypes", total_sets * 2 * 2 * 2 * 2, &bound, move |ctx, i| {
        let mut mx = Mix(i);
        let fmt64 = mx.flag();
        let big = mx.flag();
        let terminate = mx.flag();
        let types = mx.flag();
        let si = mx.0;
        let sets: Vec<Vec<usize>> = if si == 0 {
            vec![]
        } else if si <= per_set {
            vec![mcx::space::seq_decode(4, 0, max_e, si - 1)]
        } else {
            let x = si - 1 - per_set;
            vec![mcx::space::seq_decode(4, 0, max_e, x / per_set), mcx::space::seq_decode(4, 0, max_e, x % per_set)]
        };
        let mut section = vec![];
        let mut want: Vec<(u64, u64, Vec<u8>)> = vec![];
        for (k, s) in sets.iter().enumerate() {
            let info_off = if fmt64 { 0x2_0000_0000 + k as u64 } else { 0x100 * (k as u64 + 1) };
            let entries: Vec<(u64, Vec<u8>)> = s.iter().map(|&a| alpha[a].clone()).collect();
            // the second set of a two-set section is written with the other terminator choice
            section.extend_from_slice(&dw::pub_set(big, fmt64, info_off, 0x999, &entries, terminate ^ (k == 1)));
            for (o, n) in entries {
                want.push((info_off, o, n));
            }
        }
        let case = || format!("{} fmt64={} big={} terminate={} sets={:?} section={}", if types { "pubtypes" } else { "pubnames" }, fmt64, big, terminate, sets, hex(&section));
        ctx.eval(1);
        ctx.nontriv(1);
        let g = guard(|| -> Result<Vec<(u64, u64, Vec<u8>)>, gimli::Error> {
            let mut v = vec![];
            if types {
                let mut it = DebugPubTypes::new(&section, en(big)).items();
                while let Some(e) = it.next()? {
                    v.push((e.unit_header_offset().0 as u64, e.die_offset().0 as u64, e.name().slice().to_vec()));
                }
                if it.next()?.is_some() {
                    v.push((u64::MAX, 0, vec![]));
                }
            } else {
                let mut it = DebugPubNames::new(&section, en(big)).items();
                while let Some(e) = it.next()? {
                    v.push((e.unit_header_offset().0 as u64, e.die_offset().0 as u64, e.name().slice().to_vec()));
                }
                if it.next()?.is_some() {
                    v.push((u64::MAX, 0, vec![]));
                }
            }
            Ok(v)
        });
        let entry = if types { "DebugPubTypes::items" } else { "DebugPubNames::items" };
        ctx.outcome(match (sets.len(), want.len()) {
            (0, _) => "pub:no-sets",
            (_, 0) => "pub:only-empty-sets",
            (1, _) => "pub:one-set",
            _ => {
                if sets[0].is_empty() {
                    "pub:empty-set-then-entries"
                } else {
                    "pub:two-sets"
                }
            }
        });
        match g {
            Err(p) => ctx.fail_panic(entry, &p, case()),
            Ok(Ok(v)) if v == want => {}
            Ok(o) => ctx.fail(entry, "flat-list-of-entries", "wrong-entries", format!("{}: got {:x?} want {:x?}", case(), o, want)),
        }
        if ctx.want_sample() && want.len() >= 3 {
            ctx.sample(case());
        }
    })
}

// ---------------------------------------------------------------------------------------------
// str_offsets / addr tables

fn sub_tables() -> Sub {
    Sub::new("stroffsets-addr-tables", 2 * 2 * 2 * 4 * 4 * 4, "sections of [prefix 0/5 bytes][table A with 0..=3 entries][table B with 0..=3 entries]: .debug_str_offsets x format 32/64 and .debug_addr x address_size {1,2,4,8} x format, x byte order; get_str_offset / get_address with base = first entry of A, of B, and 0, every index inside the section and the first index past its end; DebugAddr::headers()/entries()", |ctx, i| {
        let mut mx = Mix(i);
        let big = mx.flag();
        let fmt64 = mx.flag();
        let prefix = if mx.flag() { 5usize } else { 0 };
        let na = mx.take(4) as usize;
        let nb = mx.take(4) as usize;
        let size = *mx.pick(&[1u8, 2, 4, 8]);
        let w = dw::word(fmt64);
        // ---- string offsets
        let a_vals: Vec<u64> = (0..na as u64).map(|k| if fmt64 { 0x1_0000_0000 * (k + 1) + 7 } else { 0x1000 * (k + 1) + 7 }).collect();
        let b_vals: Vec<u64> = (0..nb as u64).map(|k| 0xb0 + k).collect();
        let mut sec = vec![0xcc; prefix];
        let (ta, fa) = dw::str_offsets_table(big, fmt64, &a_vals);
        let base_a = sec.len() + fa;
        sec.extend_from_slice(&ta);
        let (tb, fb) = dw::str_offsets_table(big, fmt64, &b_vals);
        let base_b = sec.len() + fb;
        sec.extend_from_slice(&tb);
        let so = DebugStrOffsets::from(Rd::new(&sec, en(big)));
        let rd = |off: usize, n: usize| -> u64 {
            let mut v = 0u64;
            for k in 0..n {
                let b = sec[off + k] as u64;
                v = if big { (v << 8) | b } else { v | (b << (8 * k)) };
            }
            v
        };
        for (bname, base) in [("A", base_a), ("B", base_b), ("0", 0usize)] {
            let mut idx = 0usize;
            loop {
                let pos = base + idx * w;
                let in_range = pos + w <= sec.len();
                ctx.eval(1);
                ctx.nontriv(1);
                let g = guard(|| so.get_str_offset(fmt(fmt64), DebugStrOffsetsBase(base), DebugStrOffsetsIndex(idx)).map(|o| o.0 as u64));
                // oracle: entry idx of the table whose first entry is at `base` = the word at base + idx*word
                let want = if in_range { Some(rd(pos, w)) } else { None };
                let model = match bname {
                    "A" if idx < na => Some(a_vals[idx]),
                    "B" if idx < nb => Some(b_vals[idx]),
                    _ => None,
                };
                if let (Some(m), Some(wv)) = (model, want) {
                    assert_eq!(m, wv, "encoder self-check");
                    ctx.outcome("stroff:entry-of-table");
                }
                match g {
                    Err(p) => ctx.fail_panic("DebugStrOffsets::get_str_offset", &p, format!("section {} base {} index {}", hex(&sec), base, idx)),
                    Ok(g) => {
                        if g.as_ref().ok() != want.as_ref() {
                            ctx.fail("DebugStrOffsets::get_str_offset", "base-plus-index-times-word", if want.is_none() { "accepted-out-of-range" } else { "wrong-offset" }, format!("section {} fmt64={} big={} base {} index {}: got {:x?} want {:x?}", hex(&sec), fmt64, big, base, idx, g, want));
                        }
                    }
                }
                if !in_range {
                    ctx.outcome("stroff:index-past-section");
                    break;
                }
                idx += 1;
            }
        }
        // ---- addresses
        let m = ones(size);
        let a_vals: Vec<u64> = (0..na as u64).map(|k| (0x1122_3344_5566_7788u64.rotate_left(8 * k as u32)) & m).collect();
        let b_vals: Vec<u64> = (0..nb as u64).map(|k| m - k).collect();
        let mut sec = vec![0xcc; prefix];
        let (ta, fa) = dw::addr_table(big, fmt64, size, &a_vals);
        let off_a = sec.len();
        let base_a = sec.len() + fa;
        sec.extend_from_slice(&ta);
        let (tb, fb) = dw::addr_table(big, !fmt64, size, &b_vals);
        let off_b = sec.len();
        let base_b = sec.len() + fb;
        sec.extend_from_slice(&tb);
        let rd = |off: usize, n: usize| -> u64 {
            let mut v = 0u64;
            for k in 0..n {
                let b = sec[off + k] as u64;
                v = if big { (v << 8) | b } else { v | (b << (8 * k)) };
            }
            v
        };
        let dab = DebugAddr::from(Rd::new(&sec, en(big)));
        for (bname, base) in [("A", base_a), ("B", base_b), ("0", 0usize)] {
            let mut idx = 0usize;
            loop {
                let pos = base + idx * size as usize;
                let in_range = pos + size as usize <= sec.len();
                ctx.eval(1);
                ctx.nontriv(1);
                let g = guard(|| dab.get_address(size, DebugAddrBase(base), DebugAddrIndex(idx)));
                let want = if in_range { Some(rd(pos, size as usize)) } else { None };
                let model = match bname {
                    "A" if idx < na => Some(a_vals[idx]),
                    "B" if idx < nb => Some(b_vals[idx]),
                    _ => None,
                };
                if let (Some(mv), Some(wv)) = (model, want) {
                    assert_eq!(mv, wv, "encoder self-check");
                    ctx.outcome("addr:entry-of-table");
                }
                match g {
                    Err(p) => ctx.fail_panic("DebugAddr::get_address", &p, format!("section {} base {} index {}", hex(&sec), base, idx)),
                    Ok(g) => {
                        if g.as_ref().ok() != want.as_ref() {
                            ctx.fail("DebugAddr::get_address", "base-plus-index-times-size", if want.is_none() { "accepted-out-of-range" } else { "wrong-address" }, format!("section {} size={} big={} base {} index {}: got {:x?} want {:x?}", hex(&sec), size, big, base, idx, g, want));
                        }
                    }
                }
                if !in_range {
                    ctx.outcome("addr:index-past-section");
                    break;
                }
                idx += 1;
            }
        }
        // headers()/entries() only when the section starts with a table
        if prefix == 0 {
            ctx.eval(1);
            let g = guard(|| -> Result<Vec<(u64, u8, Format, Vec<u64>)>, gimli::Error> {
                let mut v = vec![];
                let mut it = dab.headers();
                while let Some(h) = it.next()? {
                    let mut es = vec![];
                    let mut ei = h.entries();
                    while let Some(a) = ei.next()? {
                        es.push(a);
                    }
                    v.push((h.offset().0 as u64, h.encoding().address_size, h.encoding().format, es));
                }
                Ok(v)
            });
            let want = vec![(off_a as u64, size, fmt(fmt64), a_vals.clone()), (off_b as u64, size, fmt(!fmt64), b_vals.clone())];
            match g {
                Err(p) => ctx.fail_panic("DebugAddr::headers", &p, hex(&sec)),
                Ok(Ok(v)) if v == want => ctx.outcome("addr:headers-iterated"),
                Ok(o) => ctx.fail("DebugAddr::headers", "tables-of-the-section", "wrong-tables", format!("section {}: got {:x?} want {:x?}", hex(&sec), o, want)),
            }
        }
        if ctx.want_sample() && na >= 2 && nb >= 1 {
            ctx.sample(format!("big={} fmt64={} prefix={} na={} nb={} addr_size={} debug_addr={}", big, fmt64, prefix, na, nb, size, hex(&sec)));
        }
    })
}

// ---------------------------------------------------------------------------------------------
// attr_string / attr_address through a parsed unit

const STR_FORMS: [(u64, &str); 13] = [
    (dw::FORM_STRING, "string"),
    (dw::FORM_STRP, "strp"),
    (dw::FORM_LINE_STRP, "line_strp"),
    (dw::FORM_STRP_SUP, "strp_sup"),
    (dw::FORM_GNU_STRP_ALT, "GNU_strp_alt"),
    (dw::FORM_STRX, "strx"),
    (dw::FORM_STRX1, "strx1"),
    (dw::FORM_STRX2, "strx2"),
    (dw::FORM_STRX3, "strx3"),
    (dw::FORM_STRX4, "strx4"),
    (dw::FORM_GNU_STR_INDEX, "GNU_str_index"),
    (dw::FORM_DATA1, "data1(not a string)"),
    (dw::FORM_UDATA, "udata(not a string)"),
];

const ADDR_FORMS: [(u64, &str); 9] = [
    (dw::FORM_ADDR, "addr"),
    (dw::FORM_ADDRX, "addrx"),
    (dw::FORM_ADDRX1, "addrx1"),
    (dw::FORM_ADDRX2, "addrx2"),
    (dw::FORM_ADDRX3, "addrx3"),
    (dw::FORM_ADDRX4, "addrx4"),
    (dw::FORM_GNU_ADDR_INDEX, "GNU_addr_index"),
    (dw::FORM_DATA2, "data2(not an address)"),
    (dw::FORM_STRING, "string(not an address)"),
];

fn sub_attr() -> Sub {
    // base mode: 0 = explicit base attribute before the name, 1 = explicit base after the name, 2 = no attribute (default base)
    Sub::new("attr-string-address", (13 + 9) * 2 * 2 * 2 * 3 * 2 * 3, "a unit whose root DIE carries DW_AT_name in each of 11 string forms + 2 non-string forms, or DW_AT_low_pc in each of 7 address forms + 2 non-address forms: x DWARF version {4,5} x format x byte order x base attribute {before, after, absent: default base} x file type {main, dwo} x index/offset choice 0..3; Dwarf::attr_string / attr_address / Unit::name / Unit::low_pc vs the string or address the tables hold", |ctx, i| {
        let mut mx = Mix(i);
        let which = mx.take(22) as usize;
        let v5 = mx.flag();
        let fmt64 = mx.flag();
        let big = mx.flag();
        let base_mode = mx.take(3);
        let dwo = mx.flag();
        let pick = mx.take(3) as usize;
        let version: u16 = if v5 { 5 } else { 4 };
        let addr_size: u8 = if fmt64 { 8 } else { 4 };
        let w = dw::word(fmt64);
        // string sections
        let strings: [&[u8]; 3] = [b"alpha", b"", b"gamma-\xce\xb3"];
        let mk_strs = |tag: &str| -> (Vec<u8>, Vec<u64>) {
            let mut s = format!("{}\0", tag).into_bytes();
            let mut offs = vec![];
            for x in strings.iter() {
                offs.push(s.len() as u64);
                s.extend_from_slice(tag.as_bytes());
                s.push(b':');
                s.extend_from_slice(x);
                s.push(0);
            }
            (s, offs)
        };
        let (str_sec, str_offs) = mk_strs("str");
        let (line_str_sec, line_str_offs) = mk_strs("linestr");
        let (sup_str_sec, sup_str_offs) = mk_strs("sup");
        // .debug_str_offsets: a decoy table, then the unit's table
        let mut so_sec = vec![];
        let (decoy, _) = dw::str_offsets_table(big, fmt64, &[1, 1, 1]);
        let explicit_base;
        if v5 {
            if base_mode == 2 {
                // default base: the unit's table is the first one (dwo: header skipped by default; main: base 0)
                let (t, first) = dw::str_offsets_table(big, fmt64, &str_offs);
                so_sec.extend_from_slice(&t);
                explicit_base = first as u64;
                so_sec.extend_from_slice(&decoy);
            } else {
                so_sec.extend_from_slice(&decoy);
                let (t, first) = dw::str_offsets_table(big, fmt64, &str_offs);
                explicit_base = (so_sec.len() + first) as u64;
                so_sec.extend_from_slice(&t);
            }
        } else {
            // GNU extension: no header, the unit's offsets start at the section start
            let mut e = mcx::enc::Enc::new(big);
            for &o in &str_offs {
                e.offset(o, fmt64);
            }
            so_sec = e.buf;
            explicit_base = 0;
        }
        // effective base per the rules: explicit attribute (DWARF 5 only), else default
        let has_base_attr = v5 && base_mode != 2;
        let default_base: u64 = if v5 && dwo { if fmt64 { 16 } else { 8 } } else { 0 };
        let eff_base = if has_base_attr { explicit_base } else { default_base };
        // .debug_addr
        let addrs: [u64; 3] = [0x1000, 0, ones(addr_size) - 5];
        let (addr_sec, addr_first) = {
            let mut s = vec![];
            let (decoy, _) = dw::addr_table(big, fmt64, addr_size, &[0xdead, 0xdead]);
            s.extend_from_slice(&decoy);
            let (t, f) = dw::addr_table(big, fmt64, addr_size, &addrs);
            let first = s.len() + f;
            s.extend_from_slice(&t);
            (s, first as u64)
        };
        let has_addr_base = base_mode != 2;
        let eff_addr_base = if has_addr_base { addr_first } else { 0 };
        // the attribute under test
        let is_str = which < 13;
        let (form, fname) = if is_str { STR_FORMS[which] } else { ADDR_FORMS[which - 13] };
        let (at, val, want_str, want_addr): (u64, Val, Option<Vec<u8>>, Option<Option<u64>>) = if is_str {
            let tagged = |tag: &str| -> Vec<u8> {
                let mut v = tag.as_bytes().to_vec();
                v.push(b':');
                v.extend_from_slice(strings[pick]);
                v
            };
            match form {
                dw::FORM_STRING => (dw::AT_NAME, Val::Str(strings[pick].to_vec()), Some(strings[pick].to_vec()), None),
                dw::FORM_STRP => (dw::AT_NAME, Val::U(str_offs[pick]), Some(tagged("str")), None),
                dw::FORM_LINE_STRP => (dw::AT_NAME, Val::U(line_str_offs[pick]), Some(tagged("linestr")), None),
                dw::FORM_STRP_SUP | dw::FORM_GNU_STRP_ALT => (dw::AT_NAME, Val::U(sup_str_offs[pick]), Some(tagged("sup")), None),
                dw::FORM_DATA1 | dw::FORM_UDATA => (dw::AT_NAME, Val::U(pick as u64), None, None),
                _ => {
                    // indexed: entry `pick` of the table at the effective base
                    let pos = eff_base as usize + pick * w;
                    let want = if pos + w <= so_sec.len() {
                        let mut v = 0u64;
                        for k in 0..w {
                            let b = so_sec[pos + k] as u64;
                            v = if big { (v << 8) | b } else { v | (b << (8 * k)) };
                        }
                        // the string at that offset of .debug_str, if any
                        if (v as usize) < str_sec.len() {
                            let rest = &str_sec[v as usize..];
                            rest.iter().position(|&b| b == 0).map(|e| rest[..e].to_vec())
                        } else {
                            None
                        }
                    } else {
                        None
                    };
                    (dw::AT_NAME, Val::U(pick as u64), want, None)
                }
            }
        } else {
            match form {
                dw::FORM_ADDR => (dw::AT_LOW_PC, Val::U(addrs[pick]), None, Some(Some(addrs[pick]))),
                dw::FORM_DATA2 => (dw::AT_LOW_PC, Val::U(pick as u64), None, Some(None)),
                dw::FORM_STRING => (dw::AT_LOW_PC, Val::Str(b"x".to_vec()), None, Some(None)),
                _ => {
                    let pos = eff_addr_base as usize + pick * addr_size as usize;
                    let mut v = 0u64;
                    for k in 0..addr_size as usize {
                        let b = addr_sec[pos + k] as u64;
                        v = if big { (v << 8) | b } else { v | (b << (8 * k)) };
                    }
                    (dw::AT_LOW_PC, Val::U(pick as u64), None, Some(Some(v)))
                }
            }
        };
        // forms that do not exist in the unit's DWARF version are still decoded by gimli; we only state
        // expectations for the indexed forms with an effective base that designates the unit's table
        let indexed_str = is_str && want_str.is_some() && !matches!(form, dw::FORM_STRING | dw::FORM_STRP | dw::FORM_LINE_STRP | dw::FORM_STRP_SUP | dw::FORM_GNU_STRP_ALT);
        let base_designates_table = eff_base == explicit_base;
        let mut root = Die::new(dw::TAG_COMPILE_UNIT);
        let base_attrs = |root: &mut Die| {
            if has_base_attr {
                root.attrs.push((dw::AT_STR_OFFSETS_BASE, dw::FORM_SEC_OFFSET, Val::U(explicit_base)));
            }
            if has_addr_base {
                root.attrs.push((if v5 { dw::AT_ADDR_BASE } else { dw::AT_GNU_ADDR_BASE }, dw::FORM_SEC_OFFSET, Val::U(addr_first)));
            }
        };
        if base_mode == 0 {
            base_attrs(&mut root);
        }
        root.attrs.push((at, form, val));
        if base_mode == 1 {
            base_attrs(&mut root);
        }
        // a child carrying the same attribute (resolved with the unit's bases, not the root's position)
        let child = Die { tag: dw::TAG_VARIABLE, attrs: vec![root.attrs.iter().find(|a| a.0 == at).unwrap().clone()], children: vec![] };
        let root = root.child(child);
        let um = UnitModel { version, fmt64, addr_size, kind: UnitKind::Compile, abbrev_off: 0, code0: 1, root };
        let abbrev = um.abbrev_table(big);
        let (info, _) = um.encode(big);
        let case = || format!("form={} v{} fmt64={} big={} base_mode={} dwo={} pick={} info={} abbrev={} str_offsets={} addr={}", fname, version, fmt64, big, base_mode, dwo, pick, hex(&info), hex(&abbrev), hex(&so_sec), hex(&addr_sec));
        let mut dwarf: Dwarf<Rd> = Dwarf::load(|id| {
            Ok::<_, ()>(Rd::new(
                match id {
                    SectionId::DebugInfo => &info[..],
                    SectionId::DebugAbbrev => &abbrev[..],
                    SectionId::DebugStr => &str_sec[..],
                    SectionId::DebugLineStr => &line_str_sec[..],
                    SectionId::DebugStrOffsets => &so_sec[..],
                    SectionId::DebugAddr => &addr_sec[..],
                    _ => &[],
                },
                en(big),
            ))
        })
        .unwrap();
        let with_sup = pick != 1;
        if with_sup {
            dwarf.set_sup(Dwarf::load(|id| Ok::<_, ()>(Rd::new(if id == SectionId::DebugStr { &sup_str_sec[..] } else { &[] }, en(big)))).unwrap());
        }
        if dwo {
            dwarf.file_type = gimli::DwarfFileType::Dwo;
        }
        ctx.eval(1);
        ctx.nontriv(1);
        let r = guard(|| -> Result<_, gimli::Error> {
            let h = dwarf.units().next()?.ok_or(gimli::Error::MissingUnitDie)?;
            let unit = dwarf.unit(h)?;
            let mut cur = unit.entries();
            let mut res = vec![];
            while let Some(e) = cur.next_dfs()? {
                let a = e.attr(gimli::DwAt(at as u16)).ok_or(gimli::Error::MissingUnitDie)?;
                let v = a.value();
                let s = dwarf.attr_string(&unit, v.clone()).map(|s| s.slice().to_vec());
                let ad = dwarf.attr_address(&unit, v.clone());
                let s2 = unit.unit_ref(&dwarf).attr_string(v.clone()).map(|s| s.slice().to_vec());
                let ad2 = unit.unit_ref(&dwarf).attr_address(v);
                res.push((s, ad, s2, ad2));
            }
            Ok((res, unit.name.clone().map(|n| n.slice().to_vec()), unit.low_pc, unit.str_offsets_base.0 as u64, unit.addr_base.0 as u64))
        });
        let (res, uname, ulow, ubase, uabase) = match r {
            Err(p) => {
                ctx.fail_panic("Dwarf::attr_string", &p, case());
                return;
            }
            Ok(Err(e)) => {
                ctx.fail("Dwarf::unit", "well-formed-unit-parses", "rejected", format!("{}: Err({:?})", case(), e));
                return;
            }
            Ok(Ok(x)) => x,
        };
        if res.len() != 2 {
            ctx.machinery(format!("expected 2 DIEs: {}", case()));
            return;
        }
        if ubase != eff_base || uabase != eff_addr_base {
            ctx.fail("Unit::new", "unit-bases", "wrong-base", format!("{}: str_offsets_base {} addr_base {} want {} {}", case(), ubase, uabase, eff_base, eff_addr_base));
        }
        for (k, (s, ad, s2, ad2)) in res.iter().enumerate() {
            if s.as_ref().ok() != s2.as_ref().ok() || ad.as_ref().ok() != ad2.as_ref().ok() {
                ctx.fail("UnitRef::attr_string", "same-as-Dwarf-method", "differs", format!("{} die {}: {:?}/{:?} vs {:?}/{:?}", case(), k, s, ad, s2, ad2));
            }
            if is_str {
                let sup_missing = matches!(form, dw::FORM_STRP_SUP | dw::FORM_GNU_STRP_ALT) && !with_sup;
                let expect: Option<&Vec<u8>> = if sup_missing { None } else { want_str.as_ref() };
                if indexed_str && !base_designates_table {
                    // the default base does not designate the unit's table in this configuration
                    // (e.g. DWARF 5 main file without DW_AT_str_offsets_base): ill-formed unit, any result
                    ctx.outcome("attr:string-indexed-without-usable-base");
                } else if s.as_ref().ok() != expect {
                    ctx.fail("Dwarf::attr_string", "string-the-form-designates", if expect.is_none() { "accepted-non-string" } else { "wrong-string" }, format!("{} die {}: got {:?} want {:?}", case(), k, s.as_ref().map(|b| String::from_utf8_lossy(b).to_string()), expect.map(|b| String::from_utf8_lossy(b).to_string())));
                } else {
                    ctx.outcome(match (expect.is_some(), form) {
                        (false, _) => "attr:string-rejected",
                        (true, dw::FORM_STRING) => "attr:string-inline",
                        (true, dw::FORM_STRP) => "attr:string-strp",
                        (true, dw::FORM_LINE_STRP) => "attr:string-line-strp",
                        (true, dw::FORM_STRP_SUP | dw::FORM_GNU_STRP_ALT) => "attr:string-sup",
                        _ => {
                            if has_base_attr {
                                "attr:string-indexed-explicit-base"
                            } else {
                                "attr:string-indexed-default-base"
                            }
                        }
                    });
                }
                if *ad != Ok(None) {
                    ctx.fail("Dwarf::attr_address", "non-address-form-is-none", "wrong-value", format!("{} die {}: got {:?}", case(), k, ad));
                }
            } else {
                let expect = want_addr.unwrap();
                if ad.as_ref().ok() != Some(&expect) {
                    ctx.fail("Dwarf::attr_address", "address-the-form-designates", "wrong-address", format!("{} die {}: got {:x?} want {:x?}", case(), k, ad, expect));
                } else {
                    ctx.outcome(match (expect.is_some(), form) {
                        (false, _) => "attr:address-none",
                        (true, dw::FORM_ADDR) => "attr:address-inline",
                        _ => {
                            if has_addr_base {
                                "attr:address-indexed-explicit-base"
                            } else {
                                "attr:address-indexed-base-0"
                            }
                        }
                    });
                }
                if form != dw::FORM_STRING && s.is_ok() {
                    ctx.fail("Dwarf::attr_string", "string-the-form-designates", "accepted-non-string", format!("{} die {}: got {:?}", case(), k, s));
                }
            }
        }
        // Unit::name / Unit::low_pc are the root's attributes resolved the same way
        if is_str && !(indexed_str && !base_designates_table) {
            let sup_missing = matches!(form, dw::FORM_STRP_SUP | dw::FORM_GNU_STRP_ALT) && !with_sup;
            let expect = if sup_missing { None } else { want_str.clone() };
            if uname != expect {
                ctx.fail("Unit::new", "unit-name", "wrong-string", format!("{}: unit.name {:?} want {:?}", case(), uname, expect));
            }
        }
        if let Some(Some(a)) = want_addr {
            if ulow != a {
                ctx.fail("Unit::new", "unit-low-pc", "wrong-address", format!("{}: unit.low_pc {:#x} want {:#x}", case(), ulow, a));
            }
        }
        if ctx.want_sample() && which % 5 == 0 {
            ctx.sample(case());
        }
    })
}

pub fn subs(_cli_tier: Tier) -> Vec<Sub> {
    vec![sub_aranges(Tier::Thorough), sub_pub(Tier::Thorough), sub_tables(), sub_attr()] // cheap: thorough bounds in both tiers
}

pub fn required() -> Vec<&'static str> {
    vec![
        "aranges:padding-0",
        "aranges:padding-4",
        "aranges:padding-8",
        "aranges:plain",
        "aranges:zero-mid-list",
        "aranges:tombstone",
        "aranges:range-past-top",
        "aranges:empty-set",
        "pub:no-sets",
        "pub:only-empty-sets",
        "pub:one-set",
        "pub:two-sets",
        "pub:empty-set-then-entries",
        "stroff:entry-of-table",
        "stroff:index-past-section",
        "addr:entry-of-table",
        "addr:index-past-section",
        "addr:headers-iterated",
        "attr:string-inline",
        "attr:string-strp",
        "attr:string-line-strp",
        "attr:string-sup",
        "attr:string-indexed-explicit-base",
        "attr:string-indexed-default-base",
        "attr:string-rejected",
        "attr:address-inline",
        "attr:address-indexed-explicit-base",
        "attr:address-indexed-base-0",
        "attr:address-none",
    ]
}
