//! C11 (written units read back as the same forest, references intact) and
//! C18 (relocation transparency on the reading and the writing side).
use gimli::write as w;
use gimli::{RunTimeEndian, SectionId};
use mcx::space::{self, Mix};
use mcx::{guard, CheckDef, Ctx, Sub, Tier};

#[path = "write/model.rs"]
mod model;
#[path = "write/c18.rs"]
mod c18;

use model::*;

fn main() {
    mcx::engine::main_promoted(&["C18"], |prop, tier| match prop {
        "C11" => Some(c11(tier)),
        "C18" => Some(c18::def(tier)),
        _ => None,
    })
}

// ---------------------------------------------------------------------------
// Running one model through the writer and the oracle

#[derive(Clone, Copy, PartialEq, Debug)]
pub enum Via {
    Dwarf,
    DwarfUnit,
    /// `Dwarf`, with every attribute set twice and a scratch attribute deleted
    DwarfChurn,
}

pub fn endian_name(e: RunTimeEndian) -> &'static str {
    match e {
        RunTimeEndian::Little => "LE",
        RunTimeEndian::Big => "BE",
    }
}

pub fn err_class(e: &w::Error) -> String {
    let s = format!("{:?}", e);
    s.split('(').next().unwrap_or("?").to_string()
}

/// Like `Ctx::fail_panic`, but the site is made independent of where the gimli
/// checkout lives (`src/...` instead of an absolute path), so that a recorded
/// finding is recognised in a scratch worktree too.
pub fn fail_panic_rel(ctx: &mut Ctx, entry: &str, p: &mcx::Panic, case: String) {
    let site = p.site();
    let site = match site.find("src/") {
        Some(i) => site[i..].to_string(),
        None => site,
    };
    ctx.fail(entry, &site, &p.kind(), format!("panic '{}' at {}:{} on {}", p.msg, p.file, p.line, case));
}

/// Write the model; `Ok(Ok(sections))`, `Ok(Err(e))`, or a panic.
pub fn write_model(m: &Model, endian: RunTimeEndian, via: Via) -> Result<Result<w::Sections<WV>, w::Error>, mcx::Panic> {
    guard(|| {
        let mut sections = w::Sections::new(w::EndianVec::new(endian));
        let o = BuildOpts { symbolic: true, churn: via == Via::DwarfChurn };
        let res = match via {
            Via::Dwarf | Via::DwarfChurn => {
                let mut d = build_dwarf(m, o);
                d.write(&mut sections)
            }
            Via::DwarfUnit => {
                let mut d = build_dwarf_unit(m, o);
                d.write(&mut sections)
            }
        };
        res.map(|_| sections)
    })
}

/// The complete C11 judgement of one model. Returns true if the model was
/// written and read back successfully.
pub fn judge(ctx: &mut Ctx, entry: &str, m: &Model, endian: RunTimeEndian, via: Via) -> bool {
    ctx.eval(1);
    let expect = unencodable(m, true);
    let case = || format!("{} {:?} {}", endian_name(endian), via, render(m));
    match write_model(m, endian, via) {
        Err(p) => {
            fail_panic_rel(ctx, entry, &p, case());
            false
        }
        Ok(Err(e)) => {
            match expect {
                Some(reason) => {
                    ctx.outcome(&format!("err:{}", reason));
                    ctx.outcome(&format!("gimli-error:{}", err_class(&e)));
                }
                None => ctx.fail(entry, "encodable-request", &format!("rejected:{}", err_class(&e)), format!("{} => Err({:?}), but the request is encodable", case(), e)),
            }
            false
        }
        Ok(Ok(sections)) => {
            if let Some(reason) = expect {
                ctx.fail(entry, "unencodable-request", &format!("accepted:{}", reason), format!("{} => Ok, sections {}", case(), render_sections(&sections)));
                return false;
            }
            let get = |id: SectionId| -> &[u8] { sections.get(id).map(|w| w.slice()).unwrap_or(&[]) };
            match guard(|| check_sections(m, &get, endian)) {
                Err(p) => {
                    fail_panic_rel(ctx, &format!("{}+read", entry), &p, format!("{} sections {}", case(), render_sections(&sections)));
                    false
                }
                Ok(Err(f)) => {
                    ctx.fail(entry, f.site, f.kind, format!("{} :: {} :: sections {}", f.detail, case(), render_sections(&sections)));
                    false
                }
                Ok(Ok(())) => {
                    ctx.outcome("ok");
                    if ctx.want_sample() {
                        ctx.sample(format!("{} => {}", case(), render_sections(&sections)));
                    }
                    true
                }
            }
        }
    }
}

// ---------------------------------------------------------------------------
// (a) every AttributeValue variant x boundary payloads, placed before referenced entries

fn bytes_n(b: u8, n: usize) -> Vec<u8> {
    vec![b; n]
}

/// (attribute name, value) for every variant with its boundary payloads.
/// Entry indices refer to the skeleton of `variant_model`.
fn variant_payloads() -> Vec<(u16, MV)> {
    const T: Ref = Ref::E(0, 1);
    const A: Ref = Ref::E(0, 2);
    const B: Ref = Ref::E(0, 4);
    const D: Ref = Ref::E(1, 1);
    const ROOT: Ref = Ref::E(0, 0);
    let mut v: Vec<(u16, MV)> = vec![];
    for a in [0u64, 1, 0xffff_ffff, 0x1_0000_0000, u64::MAX] {
        v.push((AT_LOW_PC, MV::Addr(MAddr::C(a))));
    }
    v.push((AT_LOW_PC, MV::Addr(MAddr::Sym { sym: 0, addend: 4 })));
    for n in [0usize, 1, 127, 128, 16384] {
        v.push((AT_CONST_VALUE, MV::Block(bytes_n(0xa5, n))));
    }
    for x in [0u8, 0x7f, 0x80, 0xff] {
        v.push((AT_CONST_VALUE, MV::D1(x)));
    }
    for x in [0u16, 0x1234, 0xffff] {
        v.push((AT_CONST_VALUE, MV::D2(x)));
    }
    for x in [0u32, 0x1234_5678, u32::MAX] {
        v.push((AT_CONST_VALUE, MV::D4(x)));
    }
    for x in [0u64, 0x0123_4567_89ab_cdef, u64::MAX] {
        v.push((AT_CONST_VALUE, MV::D8(x)));
    }
    for x in [0u128, 0x0011_2233_4455_6677_8899_aabb_ccdd_eeff, u128::MAX] {
        v.push((AT_CONST_VALUE, MV::D16(x)));
    }
    for x in [0i64, 1, -1, 63, 64, -64, -65, 8191, 8192, -8192, -8193, i64::MAX, i64::MIN] {
        v.push((AT_CONST_VALUE, MV::S(x)));
    }
    for x in [0u64, 1, 127, 128, 16383, 16384, u32::MAX as u64, u64::MAX] {
        v.push((AT_CONST_VALUE, MV::U(x)));
    }
    for x in [0i64, -1, 63, 64, -65, i64::MIN, i64::MAX] {
        v.push((AT_CONST_VALUE, MV::Implicit(x)));
    }
    let exprs: Vec<Vec<MOp>> = vec![
        vec![],
        vec![MOp::Constu(0)],
        vec![MOp::Constu(31)],
        vec![MOp::Constu(32)],
        vec![MOp::Constu(u64::MAX)],
        vec![MOp::Consts(-1), MOp::StackValue],
        vec![MOp::Consts(i64::MIN)],
        vec![MOp::Addr(MAddr::C(0x1000))],
        vec![MOp::Addr(MAddr::C(0x1_0000_0000))],
        vec![MOp::Addr(MAddr::Sym { sym: 0, addend: 0 })],
        vec![MOp::Fbreg(-8), MOp::Deref],
        vec![MOp::PlusUconst(128)],
        vec![MOp::Reg(31)],
        vec![MOp::Reg(32)],
        vec![MOp::Breg(31, -1)],
        vec![MOp::Breg(40, 64)],
        vec![MOp::Reg(1), MOp::Piece(4), MOp::Reg(2), MOp::Piece(128)],
        vec![MOp::ImplicitValue(bytes_n(7, 125))],
        vec![MOp::ImplicitValue(bytes_n(7, 126))],
        vec![MOp::ImplicitValue(bytes_n(7, 200)), MOp::StackValue],
        vec![MOp::ConstType(T, vec![1, 2, 3, 4])],
        vec![MOp::ConstType(T, bytes_n(9, 255))],
        vec![MOp::ConstType(T, bytes_n(9, 256))],
        vec![MOp::RegvalType(3, T)],
        vec![MOp::RegvalType(300, T)],
        vec![MOp::DerefType(4, T)],
        vec![MOp::Convert(Some(T))],
        vec![MOp::Convert(None)],
        vec![MOp::Reinterpret(Some(T))],
        vec![MOp::Reinterpret(None)],
        vec![MOp::Call4(T)],
        vec![MOp::Call4(A)],
        vec![MOp::Call4(B)],
        vec![MOp::ParameterRef(T)],
        vec![MOp::ParameterRef(B)],
        vec![MOp::CallRef(B)],
        vec![MOp::CallRef(D)],
        vec![MOp::CallRef(ROOT)],
        vec![MOp::CallRefSym(1)],
        vec![MOp::ImplicitPointer(B, -3)],
        vec![MOp::ImplicitPointer(D, 0x4000)],
        vec![MOp::VariableValue(B)],
        vec![MOp::VariableValue(D)],
        vec![MOp::EntryValue(vec![MOp::Reg(5)]), MOp::StackValue],
        vec![MOp::EntryValue(vec![MOp::CallRef(B), MOp::ConstType(T, vec![0])])],
        vec![MOp::ConstType(B, vec![1])],
        vec![MOp::Convert(Some(B))],
    ];
    for x in exprs {
        v.push((AT_LOCATION, MV::Expr(x)));
    }
    v.push((AT_EXTERNAL, MV::Flag(false)));
    v.push((AT_EXTERNAL, MV::Flag(true)));
    v.push((AT_EXTERNAL, MV::FlagPresent));
    for r in [B, ROOT, A, T] {
        v.push((AT_TYPE, MV::URef(r)));
    }
    for r in [B, D, ROOT, A, Ref::E(1, 0)] {
        v.push((AT_ABSTRACT_ORIGIN, MV::IRef(r)));
    }
    v.push((AT_ABSTRACT_ORIGIN, MV::IRefSym(2)));
    for x in [0u64, 0x1234, u32::MAX as u64, 1 << 32, u64::MAX >> 1] {
        v.push((AT_IMPORT, MV::IRefSup(x)));
        v.push((AT_DESCRIPTION, MV::StrSup(x)));
        v.push((AT_MACRO_INFO, MV::Macinfo(x)));
        v.push((AT_MACROS, MV::Macro(x)));
    }
    v.push((AT_STMT_LIST, MV::LineRef));
    v.push((AT_LOCATION, MV::LocRef(0)));
    v.push((AT_LOCATION, MV::LocRef(1)));
    v.push((AT_RANGES, MV::RngRef(0)));
    v.push((AT_RANGES, MV::RngRef(1)));
    for x in [0u64, 0x0123_4567_89ab_cdef, u64::MAX] {
        v.push((AT_SIGNATURE, MV::Sig(x)));
    }
    for s in [vec![], b"a".to_vec(), bytes_n(b'q', 200)] {
        v.push((AT_PRODUCER, MV::StrRef(s.clone())));
        v.push((AT_PRODUCER, MV::LineStrRef(s)));
    }
    // A string already present in the table (the identity of another entry is not in
    // .debug_str, but the line program's comp_dir may be): duplicates are covered in (d).
    for s in [vec![], b"a".to_vec(), bytes_n(b'z', 127), bytes_n(b'z', 128), vec![0xff, 0x80, 0x01]] {
        v.push((AT_PRODUCER, MV::Str(s)));
    }
    for x in [0u8, 1, 0x7f, 0x80, 0xff] {
        v.push((AT_ENCODING, MV::Encoding(x)));
        v.push((AT_DECIMAL_SIGN, MV::DecimalSign(x)));
        v.push((AT_ENDIANITY, MV::Endianity(x)));
        v.push((AT_ACCESSIBILITY, MV::Access(x)));
        v.push((AT_VISIBILITY, MV::Vis(x)));
        v.push((AT_VIRTUALITY, MV::Virt(x)));
        v.push((AT_IDENTIFIER_CASE, MV::IdCase(x)));
        v.push((AT_CALLING_CONVENTION, MV::CC(x)));
        v.push((AT_INLINE, MV::Inline(x)));
        v.push((AT_ORDERING, MV::Ordering(x)));
    }
    for x in [0u16, 0x7f, 0x80, 0x3fff, 0x4000, 0xffff] {
        v.push((AT_LANGUAGE, MV::Lang(x)));
    }
    for x in [0u64, 127, 128, u64::MAX] {
        v.push((AT_ADDRESS_CLASS, MV::AddrClass(x)));
    }
    v.push((AT_DECL_FILE, MV::FileIdx(None)));
    v.push((AT_DECL_FILE, MV::FileIdx(Some(0))));
    v.push((AT_DECL_FILE, MV::FileIdx(Some(1))));
    v
}

fn std_line(u: usize, form: u8) -> MLine {
    MLine {
        enc: None,
        str_form: form,
        comp_dir: format!("/dir{}", u).into_bytes(),
        comp_file: format!("unit{}.c", u).into_bytes(),
        files: vec![format!("u{}f0.h", u).into_bytes(), format!("u{}f1.h", u).into_bytes()],
        seqs: vec![MSeq { start: Some(MAddr::C(0x1000)), rows: vec![(0, 1, usize::MAX), (4, 3, 1), (4, 0, 0), (0x100, 70000, 0)], end: 0x104 }],
    }
}

fn std_ranges() -> Vec<Vec<MRange>> {
    vec![
        vec![MRange::StartEnd(MAddr::C(0x1000), MAddr::C(0x1010)), MRange::Base(MAddr::C(0x2000)), MRange::OffsetPair(0x10, 0x20)],
        vec![MRange::StartLength(MAddr::C(0x3000), 0x80)],
    ]
}

fn std_locs() -> Vec<Vec<MLoc>> {
    vec![
        vec![MLoc::StartEnd(MAddr::C(0x1000), MAddr::C(0x1010), vec![MOp::Reg(1)]), MLoc::Base(MAddr::C(0x2000)), MLoc::OffsetPair(1, 2, vec![MOp::Fbreg(4)])],
        // all offsets are known when location lists are written: forward references are fine here
        vec![MLoc::StartLength(MAddr::C(0x3000), 0x80, vec![MOp::CallRef(Ref::E(1, 1)), MOp::ConstType(Ref::E(0, 1), vec![1, 2]), MOp::Call4(Ref::E(0, 5)), MOp::ImplicitPointer(Ref::E(0, 4), 1)])],
    ]
}

/// Skeleton for (a): the attribute under test sits on entry A, which precedes
/// the referenced entries B, C and the whole second unit.
///
/// unit0: 0 root{type->B} 1 T(base_type) 2 A{TEST, sibling}(3 A1) 4 B 5 C{type->B, origin->u1.D}
/// unit1: 0 root{type->D} 1 D{origin->u0.B, spec->u0.C, type->root}
fn variant_model(enc0: Enc, enc1: Enc, test: &(u16, MV)) -> Model {
    let forest0 = [usize::MAX, usize::MAX, 1, usize::MAX, usize::MAX];
    let tags0 = [TAG_COMPILE_UNIT, TAG_BASE_TYPE, TAG_SUBPROGRAM, TAG_FORMAL_PARAMETER, TAG_VARIABLE, TAG_VARIABLE];
    let mut u0 = MUnit::from_forest(0, enc0, &forest0, |i| tags0[i]);
    u0.entries[0].attrs.push((AT_TYPE, MV::URef(Ref::E(0, 4))));
    u0.entries[2].sibling = true;
    u0.entries[2].attrs.push(test.clone());
    u0.entries[5].attrs.push((AT_TYPE, MV::URef(Ref::E(0, 4))));
    u0.entries[5].attrs.push((AT_ABSTRACT_ORIGIN, MV::IRef(Ref::E(1, 1))));
    u0.line = Some(std_line(0, 0));
    u0.ranges = std_ranges();
    u0.locs = std_locs();
    let mut u1 = MUnit::from_forest(1, enc1, &[usize::MAX], |_| TAG_VARIABLE);
    u1.entries[1].attrs.push((AT_ABSTRACT_ORIGIN, MV::IRef(Ref::E(0, 4))));
    u1.entries[1].attrs.push((AT_SPECIFICATION, MV::IRef(Ref::E(0, 5))));
    // unit-relative references in a unit that does not start at section offset 0
    u1.entries[0].attrs.push((AT_TYPE, MV::URef(Ref::E(1, 1))));
    u1.entries[1].attrs.push((AT_TYPE, MV::URef(Ref::E(1, 0))));
    Model { units: vec![u0, u1], syms: vec![0x4000, 0x5000, 0x6000] }
}

fn flip(e: Enc) -> Enc {
    Enc { version: 7 - e.version, fmt64: !e.fmt64, asz: e.asz }
}

fn sub_variants(tier: Tier) -> Sub {
    let payloads = variant_payloads();
    let encs = Enc::all16();
    let n1 = tier.pick(1u64, 2);
    let len = payloads.len() as u64 * 16 * 2 * n1 * 2;
    Sub::new(
        "a-variants",
        len,
        "every write::AttributeValue variant x its boundary payloads (see variant_payloads) on an entry with a sibling pointer that precedes entries referenced by UnitRef and by DebugInfoRef from both units x version 2-5 x format x address size 4/8 x endian; second unit in the same (quick) or also the flipped (thorough) encoding x attributes set once / set to a placeholder first then replaced, with a scratch attribute deleted",
        move |ctx, i| {
            let mut mx = Mix(i);
            let p = mx.pick(&payloads);
            let e0 = *mx.pick(&encs);
            let endian = if mx.flag() { RunTimeEndian::Big } else { RunTimeEndian::Little };
            let e1 = if mx.take(n1) == 1 { flip(e0) } else { e0 };
            let via = if mx.flag() { Via::DwarfChurn } else { Via::Dwarf };
            let m = variant_model(e0, e1, p);
            ctx.nontriv(1);
            if judge(ctx, "Dwarf::write", &m, endian, via) {
                if via == Via::DwarfChurn {
                    ctx.outcome("attribute-set-twice-and-deleted");
                }
                ctx.outcome(&format!("variant:{}", p.1.variant()));
                ctx.outcome(&format!("variant-v{}:{}", e0.version, p.1.variant()));
            }
        },
    )
}

/// (a2) the line program may use another version / format than its unit.
fn sub_line_mix(_tier: Tier) -> Sub {
    let encs = Enc::all16();
    // line version 2..=5, line format 32/64, string form 0..=2, probe 0..=3
    let len = 16 * 4 * 2 * 3 * 4 * 2;
    Sub::new(
        "a2-line-program-encoding-mix",
        len,
        "unit encoding (16) x line program version 2-5 x line program format x line string form (string / line_strp / strp) x probe {DW_AT_stmt_list only, FileIndex(first added file), FileIndex(second added file), LineProgramRef on a child} x endian: Err iff the combination is documented as incompatible (v5 program in a v2-4 unit, strp forms before v5); otherwise the file index must select the intended file of the program DW_AT_stmt_list points to",
        move |ctx, idx| {
            let mut mx = Mix(idx);
            let enc = *mx.pick(&encs);
            let lver = 2 + mx.take(4) as u16;
            let l64 = mx.flag();
            let form = mx.take(3) as u8;
            let probe = mx.take(4);
            let endian = if mx.flag() { RunTimeEndian::Big } else { RunTimeEndian::Little };
            let mut u = MUnit::from_forest(0, enc, &[usize::MAX, usize::MAX], |i| tag_for(1, i));
            let mut l = std_line(0, form);
            l.enc = Some(Enc { version: lver, fmt64: l64, asz: enc.asz });
            u.line = Some(l);
            match probe {
                0 => {}
                1 => u.entries[1].attrs.push((AT_DECL_FILE, MV::FileIdx(Some(0)))),
                2 => u.entries[2].attrs.push((AT_DECL_FILE, MV::FileIdx(Some(1)))),
                _ => u.entries[2].attrs.push((AT_STMT_LIST, MV::LineRef)),
            }
            let m = Model { units: vec![u], syms: vec![] };
            ctx.nontriv(1);
            if judge(ctx, "Dwarf::write", &m, endian, Via::Dwarf) {
                ctx.outcome(&format!("line-mix:unit-v{}-line-v{}", enc.version, lver));
            }
        },
    )
}

/// (a3) more than 127 distinct abbreviations (two-byte abbreviation codes) and
/// abbreviations that differ only in has_children / implicit-const value.
fn sub_many_abbrevs(_tier: Tier) -> Sub {
    let encs = Enc::all16();
    let len = 16 * 2 * 3;
    Sub::new(
        "a3-abbreviation-table",
        len,
        "a unit with 0 / 126 / 140 entries of pairwise different abbreviations in front of: two entries differing only in has_children, two differing only in the ImplicitConst value, two identical ones, and a referenced last entry (UnitRef from the root and from the first entry, DebugInfoRef from a second unit) x 16 encodings x endian",
        move |ctx, idx| {
            let mut mx = Mix(idx);
            let enc = *mx.pick(&encs);
            let endian = if mx.flag() { RunTimeEndian::Big } else { RunTimeEndian::Little };
            let distinct = [0usize, 126, 140][mx.take(3) as usize];
            let mut forest: Vec<usize> = vec![];
            for _ in 0..distinct {
                forest.push(usize::MAX);
            }
            let k = forest.len(); // entries k+1.. (model index = forest index + 1)
            // P(k+1){Q(k+2)}  R(k+3)  I1(k+4) I2(k+5) S1(k+6) S2(k+7) LAST(k+8)
            forest.extend([usize::MAX, k, usize::MAX, usize::MAX, usize::MAX, usize::MAX, usize::MAX, usize::MAX]);
            let mut u = MUnit::from_forest(0, enc, &forest, |_| TAG_VARIABLE);
            for i in 1..=distinct {
                u.entries[i].attrs.push((0x2100 + i as u16, MV::D1(i as u8)));
            }
            u.entries[k + 4].attrs.push((AT_CONST_VALUE, MV::Implicit(1)));
            u.entries[k + 5].attrs.push((AT_CONST_VALUE, MV::Implicit(2)));
            let last = k + 8;
            u.entries[0].attrs.push((AT_TYPE, MV::URef(Ref::E(0, last))));
            u.entries[1].attrs.push((AT_TYPE, MV::URef(Ref::E(0, last))));
            u.entries[last].attrs.push((AT_TYPE, MV::URef(Ref::E(0, 1))));
            let mut u1 = MUnit::from_forest(1, enc, &[usize::MAX], |_| TAG_VARIABLE);
            u1.entries[1].attrs.push((AT_ABSTRACT_ORIGIN, MV::IRef(Ref::E(0, last))));
            let m = Model { units: vec![u, u1], syms: vec![] };
            ctx.nontriv(1);
            if judge(ctx, "Dwarf::write", &m, endian, Via::Dwarf) {
                ctx.outcome(&format!("abbrevs:{}", if distinct > 127 { "two-byte-codes" } else { "one-byte-codes" }));
            }
        },
    )
}

// ---------------------------------------------------------------------------
// (b) forest shapes x sibling flags x every ordered reference pair

fn shapes_upto(n: usize) -> Vec<Vec<usize>> {
    let mut v = vec![];
    for k in 0..=n {
        if k == 0 {
            v.push(vec![]);
        } else {
            v.extend(space::forests(k));
        }
    }
    v
}

fn tag_for(mode: u64, i: usize) -> u16 {
    const CYCLE: [u16; 6] = [TAG_SUBPROGRAM, TAG_VARIABLE, TAG_LEXICAL_BLOCK, TAG_STRUCTURE_TYPE, TAG_MEMBER, TAG_TYPEDEF];
    match mode {
        0 => TAG_VARIABLE,
        1 => CYCLE[i % 6],
        _ => {
            if i % 2 == 1 {
                TAG_BASE_TYPE
            } else {
                TAG_VARIABLE
            }
        }
    }
}

/// Sibling-flag patterns over `n` entries: all subsets for n <= 5 (root + 4),
/// otherwise none / all / even / odd.
fn sibling_patterns(n: usize) -> Vec<u64> {
    if n <= 5 {
        (0..(1u64 << n)).collect()
    } else {
        let all = (1u64 << n) - 1;
        vec![0, all, 0x5555_5555 & all, 0xaaaa_aaaa & all]
    }
}

fn apply_siblings(u: &mut MUnit, mask: u64) {
    for (i, e) in u.entries.iter_mut().enumerate() {
        e.sibling = mask >> i & 1 == 1;
    }
}

#[derive(Clone, Copy, Debug, PartialEq)]
enum RefKind {
    UnitRef,
    InfoRef,
    ExprCallRef,
    ExprCall4,
    ExprImplicitPointer,
    /// DW_OP_deref_type: ULEB unit offset, encodable only when the target is emitted first
    ExprTyped,
}

fn ref_attr(kind: RefKind, target: Ref) -> (u16, MV) {
    match kind {
        RefKind::UnitRef => (AT_TYPE, MV::URef(target)),
        RefKind::InfoRef => (AT_ABSTRACT_ORIGIN, MV::IRef(target)),
        RefKind::ExprCallRef => (AT_LOCATION, MV::Expr(vec![MOp::CallRef(target)])),
        RefKind::ExprCall4 => (AT_LOCATION, MV::Expr(vec![MOp::Call4(target)])),
        RefKind::ExprImplicitPointer => (AT_LOCATION, MV::Expr(vec![MOp::ImplicitPointer(target, 2), MOp::StackValue])),
        RefKind::ExprTyped => (AT_LOCATION, MV::Expr(vec![MOp::DerefType(4, target)])),
    }
}

fn note_ref(ctx: &mut Ctx, ok: bool, kind: RefKind, m: &Model, su: usize, si: usize, target: Ref, reserved: bool) {
    if !ok {
        return;
    }
    if let Ref::E(tu, ti) = target {
        let dir = if su != tu {
            if su < tu {
                "cross-unit-forward"
            } else {
                "cross-unit-backward"
            }
        } else {
            let order = m.units[su].emit_order();
            let ps = order.iter().position(|&x| x == si).unwrap();
            let pt = order.iter().position(|&x| x == ti).unwrap();
            if pt > ps {
                "forward"
            } else if pt < ps {
                "backward"
            } else {
                "self"
            }
        };
        ctx.outcome(&format!("ref:{:?}:{}", kind, dir));
        if reserved {
            ctx.outcome(&format!("ref:{:?}:reserved-then-added", kind));
        }
    }
}

fn sub_forest1(tier: Tier, never_added: bool) -> Sub {
    let nmax = tier.pick(4usize, 6);
    let shapes = shapes_upto(nmax);
    let encs = Enc::all16();
    let len = shapes.len() as u64 * 16 * 3 * 2;
    let (name, bound) = if never_added {
        (
            format!("b1x-never-added-n<={}", nmax),
            "one unit = root + every forest shape with <= N further entries x tag pattern x 16 encodings x endian; inside a case: sibling flags none/all x every entry i x {UnitRef, DebugInfoRef, DW_OP_call4, DW_OP_deref_type} referring to an id reserved before all adds and never added / reserved after all adds and never added / added and removed again with delete_child: each must be Err",
        )
    } else {
        (
            format!("b1-forest-1unit-n<={}", nmax),
            "one unit = root + every forest shape with <= N further entries x tag pattern (one tag / six tags / base types at odd entries) x 16 encodings x endian; inside a case: sibling flags (all subsets up to 5 entries, else none/all/even/odd) x every ordered pair (i -> j) x {UnitRef, DebugInfoRef, DW_OP_call_ref, DW_OP_call4, DW_OP_implicit_pointer, DW_OP_deref_type (Err when forward)} x target added plainly / reserved-then-added, and (UnitRef, deref_type) with the entries added level by level instead of in preorder",
        )
    };
    Sub::new(&name, len, bound, move |ctx, idx| {
        let mut mx = Mix(idx);
        // (the encoding is the lowest digit so that every worker sees every shape)
        let enc = *mx.pick(&encs);
        let shape = mx.pick(&shapes).clone();
        let tagmode = mx.take(3);
        let endian = if mx.flag() { RunTimeEndian::Big } else { RunTimeEndian::Little };
        let n = shape.len() + 1;
        let base = MUnit::from_forest(0, enc, &shape, |i| tag_for(tagmode, i));
        let kinds = [RefKind::UnitRef, RefKind::InfoRef, RefKind::ExprCallRef, RefKind::ExprCall4, RefKind::ExprImplicitPointer, RefKind::ExprTyped];
        let mut cases = 0u64;
        if never_added {
            for mask in [0u64, u64::MAX] {
                let mut u = base.clone();
                apply_siblings(&mut u, mask);
                for i in 0..n {
                    for late in 0..3 {
                        for kind in [RefKind::UnitRef, RefKind::InfoRef, RefKind::ExprCall4, RefKind::ExprTyped] {
                            let mut u2 = u.clone();
                            match late {
                                0 => u2.phantoms_early = 1,
                                1 => u2.phantoms_deleted = 1,
                                _ => u2.phantoms_late = 1,
                            }
                            u2.entries[i].attrs.push(ref_attr(kind, Ref::Phantom(0, 0)));
                            let m = Model { units: vec![u2], syms: vec![] };
                            judge(ctx, "Dwarf::write", &m, endian, Via::Dwarf);
                            cases += 1;
                        }
                    }
                }
            }
            ctx.nontriv(cases);
            return;
        }
        for mask in sibling_patterns(n) {
            let mut u = base.clone();
            apply_siblings(&mut u, mask);
            // no reference at all (pure tree / sibling / abbreviation check)
            let m = Model { units: vec![u.clone()], syms: vec![] };
            judge(ctx, "Dwarf::write", &m, endian, Via::Dwarf);
            cases += 1;
            for i in 0..n {
                for j in 0..n {
                    for kind in kinds {
                        for reserved in [false, true] {
                            if reserved && j == 0 {
                                continue; // the root is created by Unit::new
                            }
                            let mut u2 = u.clone();
                            if reserved {
                                u2.entries[j].mode = AddMode::ReservedEarly;
                            }
                            u2.entries[i].attrs.push(ref_attr(kind, Ref::E(0, j)));
                            let m = Model { units: vec![u2], syms: vec![] };
                            let ok = judge(ctx, "Dwarf::write", &m, endian, Via::Dwarf);
                            note_ref(ctx, ok, kind, &m, 0, i, Ref::E(0, j), reserved);
                            cases += 1;
                        }
                        // entries added level by level: ids in breadth-first order
                        if matches!(kind, RefKind::UnitRef | RefKind::ExprTyped) && n > 2 {
                            let mut u2 = u.clone();
                            u2.add_bfs = true;
                            u2.entries[i].attrs.push(ref_attr(kind, Ref::E(0, j)));
                            let m = Model { units: vec![u2], syms: vec![] };
                            if judge(ctx, "Dwarf::write", &m, endian, Via::Dwarf) {
                                ctx.outcome("entries-added-level-by-level");
                            }
                            cases += 1;
                        }
                    }
                }
            }
        }
        ctx.nontriv(cases);
    })
}

fn enc_pairs() -> Vec<(Enc, Enc)> {
    let mut v = vec![];
    for e in Enc::all16() {
        v.push((e, e));
    }
    for e in Enc::all16() {
        v.push((e, flip(e)));
    }
    v
}

fn sub_forest2(tier: Tier) -> Sub {
    let nmax = tier.pick(2usize, 3);
    let shapes = shapes_upto(nmax);
    let pairs = enc_pairs();
    let len = (shapes.len() * shapes.len()) as u64 * pairs.len() as u64 * 2;
    Sub::new(
        &format!("b2-forest-2units-n<={}", nmax),
        len,
        "two units, each root + every forest shape with <= N further entries x 32 encoding pairs (same / version-and-format-flipped) x endian; inside a case: all sibling subsets on unit 0 x none/all on unit 1 x both directions x every pair (i in source unit -> j in target unit) x {DebugInfoRef, DW_OP_call_ref, DW_OP_implicit_pointer} x target plain / reserved-then-added, plus reserved-never-added and added-then-deleted targets in the other unit, plus every pair inside the second unit as UnitRef / DW_OP_call4 / DW_OP_deref_type",
        move |ctx, idx| {
            let mut mx = Mix(idx);
            let (e0, e1) = *mx.pick(&pairs);
            let s0 = mx.pick(&shapes).clone();
            let s1 = mx.pick(&shapes).clone();
            let endian = if mx.flag() { RunTimeEndian::Big } else { RunTimeEndian::Little };
            let b0 = MUnit::from_forest(0, e0, &s0, |i| tag_for(1, i));
            let b1 = MUnit::from_forest(1, e1, &s1, |i| tag_for(1, i));
            let kinds = [RefKind::InfoRef, RefKind::ExprCallRef, RefKind::ExprImplicitPointer];
            let mut cases = 0u64;
            for mask0 in sibling_patterns(b0.entries.len()) {
                for all1 in [false, true] {
                    let mut u0 = b0.clone();
                    let mut u1 = b1.clone();
                    apply_siblings(&mut u0, mask0);
                    apply_siblings(&mut u1, if all1 { u64::MAX } else { 0 });
                    // unit-relative references inside the second unit (its offset in the section is not 0)
                    {
                        let n1 = u1.entries.len();
                        for i in 0..n1 {
                            for j in 0..n1 {
                                for kind in [RefKind::UnitRef, RefKind::ExprCall4, RefKind::ExprTyped] {
                                    let mut us = [u0.clone(), u1.clone()];
                                    us[1].entries[i].attrs.push(ref_attr(kind, Ref::E(1, j)));
                                    let m = Model { units: us.to_vec(), syms: vec![] };
                                    if judge(ctx, "Dwarf::write", &m, endian, Via::Dwarf) {
                                        ctx.outcome(&format!("ref:{:?}:inside-second-unit", kind));
                                    }
                                    cases += 1;
                                }
                            }
                        }
                    }
                    for (su, tu) in [(0usize, 1usize), (1, 0)] {
                        let ns = if su == 0 { u0.entries.len() } else { u1.entries.len() };
                        let nt = if tu == 0 { u0.entries.len() } else { u1.entries.len() };
                        for i in 0..ns {
                            for j in 0..nt {
                                for kind in kinds {
                                    for reserved in [false, true] {
                                        if reserved && j == 0 {
                                            continue;
                                        }
                                        let mut us = [u0.clone(), u1.clone()];
                                        if reserved {
                                            us[tu].entries[j].mode = AddMode::ReservedEarly;
                                        }
                                        us[su].entries[i].attrs.push(ref_attr(kind, Ref::E(tu, j)));
                                        let m = Model { units: us.to_vec(), syms: vec![] };
                                        let ok = judge(ctx, "Dwarf::write", &m, endian, Via::Dwarf);
                                        note_ref(ctx, ok, kind, &m, su, i, Ref::E(tu, j), reserved);
                                        cases += 1;
                                    }
                                }
                            }
                            for late in 0..3 {
                                let mut us = [u0.clone(), u1.clone()];
                                match late {
                                    0 => us[tu].phantoms_early = 1,
                                    1 => us[tu].phantoms_deleted = 1,
                                    _ => us[tu].phantoms_late = 1,
                                }
                                us[su].entries[i].attrs.push(ref_attr(RefKind::InfoRef, Ref::Phantom(tu, 0)));
                                let m = Model { units: us.to_vec(), syms: vec![] };
                                judge(ctx, "Dwarf::write", &m, endian, Via::Dwarf);
                                cases += 1;
                            }
                        }
                    }
                }
            }
            ctx.nontriv(cases);
        },
    )
}

fn sub_forest3(tier: Tier) -> Sub {
    let nmax = tier.pick(1usize, 2);
    let shapes = shapes_upto(nmax);
    let encs = Enc::all16();
    let ns = shapes.len() as u64;
    let len = ns * ns * ns * 16 * 2;
    Sub::new(
        &format!("b3-forest-3units-n<={}", nmax),
        len,
        "three units, each root + every forest shape with <= N further entries, encodings e / flipped(e) / e over the 16 encodings x endian; inside a case: sibling flags none/all x every ordered unit pair (a -> b) x every entry pair x DebugInfoRef, and one model holding all those references at once",
        move |ctx, idx| {
            let mut mx = Mix(idx);
            let e = *mx.pick(&encs);
            let s: Vec<Vec<usize>> = (0..3).map(|_| mx.pick(&shapes).clone()).collect();
            let endian = if mx.flag() { RunTimeEndian::Big } else { RunTimeEndian::Little };
            let es = [e, flip(e), e];
            let mut cases = 0u64;
            for sib in [false, true] {
                let units: Vec<MUnit> = (0..3)
                    .map(|u| {
                        let mut mu = MUnit::from_forest(u, es[u], &s[u], |i| tag_for(1, i));
                        apply_siblings(&mut mu, if sib { u64::MAX } else { 0 });
                        mu
                    })
                    .collect();
                let mut all = units.clone();
                for a in 0..3 {
                    for b in 0..3 {
                        if a == b {
                            continue;
                        }
                        for i in 0..units[a].entries.len() {
                            for j in 0..units[b].entries.len() {
                                let mut us = units.clone();
                                us[a].entries[i].attrs.push(ref_attr(RefKind::InfoRef, Ref::E(b, j)));
                                // distinct attribute names so that `set` does not replace
                                all[a].entries[i].attrs.push((0x2000 + (b * 8 + j) as u16, MV::IRef(Ref::E(b, j))));
                                let m = Model { units: us, syms: vec![] };
                                let ok = judge(ctx, "Dwarf::write", &m, endian, Via::Dwarf);
                                note_ref(ctx, ok, RefKind::InfoRef, &m, a, i, Ref::E(b, j), false);
                                cases += 1;
                            }
                        }
                    }
                }
                let m = Model { units: all, syms: vec![] };
                if judge(ctx, "Dwarf::write", &m, endian, Via::Dwarf) {
                    ctx.outcome("three-units-all-refs");
                }
                cases += 1;
            }
            ctx.nontriv(cases);
        },
    )
}

// ---------------------------------------------------------------------------
// (c) base types anywhere among the root's children, typed expression operations

fn sub_basetypes(tier: Tier) -> Sub {
    let kmax = tier.pick(3usize, 4);
    // (k, kind mask) for k = 1..=kmax
    let mut layouts: Vec<(usize, u64)> = vec![];
    for k in 1..=kmax {
        for mask in 0..(1u64 << k) {
            layouts.push((k, mask));
        }
    }
    let encs = Enc::all16();
    let len = layouts.len() as u64 * 16 * 2;
    Sub::new(
        &format!("c-basetypes-k<={}", kmax),
        len,
        "root with k <= K children, every assignment base_type/other, each child with one nested child (a base_type under odd children) x 16 encodings x padding none / 200 bytes before the children (2-byte ULEB offsets); inside a case: every referrer (child or nested) x every target (child or nested) x {const_type, regval_type, deref_type, convert, reinterpret} in an attribute expression (Ok iff the target is emitted at or before the referrer after base types are moved first) and in a location list (always Ok)",
        move |ctx, idx| {
            let mut mx = Mix(idx);
            let enc = *mx.pick(&encs);
            let (k, mask) = *mx.pick(&layouts);
            let pad = mx.flag();
            let endian = if idx % 3 == 0 { RunTimeEndian::Big } else { RunTimeEndian::Little };
            // forest: children c0..ck-1, each with one nested child
            let mut forest = vec![];
            let mut tags = vec![TAG_COMPILE_UNIT];
            for c in 0..k {
                let me = forest.len();
                forest.push(usize::MAX);
                tags.push(if mask >> c & 1 == 1 { TAG_BASE_TYPE } else { TAG_VARIABLE });
                forest.push(me);
                tags.push(if c % 2 == 1 { TAG_BASE_TYPE } else { TAG_MEMBER });
            }
            let mut base = MUnit::from_forest(0, enc, &forest, |i| tags[i]);
            if pad {
                base.entries[0].attrs.push((AT_PRODUCER, MV::Str(bytes_n(b'p', 200))));
            }
            let n = base.entries.len();
            let mut cases = 0u64;
            for r in 1..n {
                for t in 1..n {
                    let tr = Ref::E(0, t);
                    let ops: [Vec<MOp>; 5] = [vec![MOp::ConstType(tr, vec![1, 2, 3, 4])], vec![MOp::RegvalType(7, tr)], vec![MOp::DerefType(8, tr)], vec![MOp::Constu(1), MOp::Convert(Some(tr))], vec![MOp::Constu(1), MOp::Reinterpret(Some(tr))]];
                    for (oi, op) in ops.iter().enumerate() {
                        let mut u = base.clone();
                        u.entries[r].attrs.push((AT_LOCATION, MV::Expr(op.clone())));
                        let m = Model { units: vec![u], syms: vec![] };
                        let expect_ok = unencodable(&m, true).is_none();
                        let ok = judge(ctx, "Dwarf::write", &m, endian, Via::Dwarf);
                        if ok {
                            let is_base_child = base.entries[t].tag == TAG_BASE_TYPE && base.entries[t].parent == 0;
                            ctx.outcome(&format!("typed-op{}:{}", oi, if is_base_child { "base-type-child" } else { "other-target" }));
                            if is_base_child && t > r {
                                ctx.outcome("typed-op:base-type-moved-before-referrer");
                            }
                        }
                        let _ = expect_ok;
                        cases += 1;
                    }
                    // the same reference from a location list: all offsets are known by then
                    let mut u = base.clone();
                    u.locs = vec![vec![MLoc::StartEnd(MAddr::C(0x10), MAddr::C(0x20), vec![MOp::ConstType(tr, vec![9])])]];
                    u.entries[r].attrs.push((AT_LOCATION, MV::LocRef(0)));
                    let m = Model { units: vec![u], syms: vec![] };
                    if judge(ctx, "Dwarf::write", &m, endian, Via::Dwarf) {
                        ctx.outcome("typed-op:location-list");
                    }
                    cases += 1;
                }
            }
            ctx.nontriv(cases);
        },
    )
}

// ---------------------------------------------------------------------------
// (d) duplicate strings, shared range/location lists

fn sub_shared(_tier: Tier) -> Sub {
    let encs = Enc::all16();
    // which of the three string kinds each of three entries uses (3^3), x list sharing pattern (4)
    let len = 16 * 27 * 5 * 2;
    Sub::new(
        "d-shared-strings-lists",
        len,
        "three entries whose names are given as String / StringRef / LineStringRef (all 27 assignments) with two of them naming the same text twice (StringTable / LineStringTable de-duplication), range and location lists added once and referenced twice / added twice with equal contents / two different lists / list referenced from both a child and the root / an empty list added before another list x 16 encodings x endian; line program string forms string / line_strp / strp",
        move |ctx, idx| {
            let mut mx = Mix(idx);
            let enc = *mx.pick(&encs);
            let kinds: Vec<u64> = (0..3).map(|_| mx.take(3)).collect();
            let pattern = mx.take(5);
            let endian = if mx.flag() { RunTimeEndian::Big } else { RunTimeEndian::Little };
            let mut u = MUnit::from_forest(0, enc, &[usize::MAX, usize::MAX, 1], |i| tag_for(1, i));
            let text: [&[u8]; 3] = [b"dup", b"dup", b"other"];
            for e in 1..=3 {
                let s = text[e - 1].to_vec();
                let v = match kinds[e - 1] {
                    0 => MV::Str(s),
                    1 => MV::StrRef(s),
                    _ => MV::LineStrRef(s),
                };
                u.entries[e].attrs.push((AT_LINKAGE_NAME, v));
                // the same text again through .debug_str and .debug_line_str
                u.entries[e].attrs.push((AT_PRODUCER, MV::StrRef(b"dup".to_vec())));
                u.entries[e].attrs.push((AT_DESCRIPTION, MV::LineStrRef(b"dup".to_vec())));
            }
            let r0 = vec![MRange::StartEnd(MAddr::C(0x100), MAddr::C(0x200))];
            let r1 = vec![MRange::StartEnd(MAddr::C(0x300), MAddr::C(0x400)), MRange::StartLength(MAddr::C(0x500), 4)];
            let l0 = vec![MLoc::StartEnd(MAddr::C(0x100), MAddr::C(0x200), vec![MOp::Reg(3)])];
            let l1 = vec![MLoc::StartLength(MAddr::C(0x300), 8, vec![MOp::Fbreg(-4)]), MLoc::StartEnd(MAddr::C(0x600), MAddr::C(0x700), vec![MOp::CallRef(Ref::E(0, 3))])];
            match pattern {
                0 => {
                    // one list, referenced twice
                    u.ranges = vec![r0.clone()];
                    u.locs = vec![l0.clone()];
                    u.entries[1].attrs.push((AT_RANGES, MV::RngRef(0)));
                    u.entries[3].attrs.push((AT_RANGES, MV::RngRef(0)));
                    u.entries[1].attrs.push((AT_LOCATION, MV::LocRef(0)));
                    u.entries[2].attrs.push((AT_LOCATION, MV::LocRef(0)));
                }
                1 => {
                    // equal lists added twice (the table de-duplicates), plus a different one
                    u.ranges = vec![r0.clone(), r1.clone(), r0.clone()];
                    u.locs = vec![l0.clone(), l1.clone(), l0.clone()];
                    u.entries[1].attrs.push((AT_RANGES, MV::RngRef(0)));
                    u.entries[2].attrs.push((AT_RANGES, MV::RngRef(1)));
                    u.entries[3].attrs.push((AT_RANGES, MV::RngRef(2)));
                    u.entries[1].attrs.push((AT_LOCATION, MV::LocRef(2)));
                    u.entries[2].attrs.push((AT_LOCATION, MV::LocRef(1)));
                    u.entries[3].attrs.push((AT_LOCATION, MV::LocRef(0)));
                }
                2 => {
                    // different lists in reverse reference order; root refers too
                    u.ranges = vec![r0.clone(), r1.clone()];
                    u.locs = vec![l0.clone(), l1.clone()];
                    u.entries[0].attrs.push((AT_RANGES, MV::RngRef(1)));
                    u.entries[1].attrs.push((AT_RANGES, MV::RngRef(1)));
                    u.entries[2].attrs.push((AT_RANGES, MV::RngRef(0)));
                    u.entries[1].attrs.push((AT_LOCATION, MV::LocRef(1)));
                    u.entries[3].attrs.push((AT_LOCATION, MV::LocRef(0)));
                }
                4 => {
                    // an empty list added before another list: each reference still reaches its own list
                    u.ranges = vec![vec![], r1.clone()];
                    u.locs = vec![vec![], l1.clone()];
                    u.entries[1].attrs.push((AT_RANGES, MV::RngRef(0)));
                    u.entries[2].attrs.push((AT_RANGES, MV::RngRef(1)));
                    u.entries[1].attrs.push((AT_LOCATION, MV::LocRef(0)));
                    u.entries[3].attrs.push((AT_LOCATION, MV::LocRef(1)));
                }
                _ => {
                    // lists present but never referenced; line program with shared strings
                    u.ranges = vec![r1.clone()];
                    u.locs = vec![l1.clone()];
                    let form = if enc.version >= 5 { 1 + (idx % 2) as u8 } else { 0 };
                    let mut l = std_line(0, form);
                    l.comp_dir = b"dup".to_vec();
                    l.files = vec![b"dup".to_vec(), b"other".to_vec()];
                    u.line = Some(l);
                    u.entries[2].attrs.push((AT_DECL_FILE, MV::FileIdx(Some(1))));
                    u.entries[3].attrs.push((AT_STMT_LIST, MV::LineRef));
                }
            }
            // second unit shares the global string tables
            let mut u1 = MUnit::from_forest(1, enc, &[usize::MAX], |_| TAG_VARIABLE);
            u1.entries[1].attrs.push((AT_PRODUCER, MV::StrRef(b"dup".to_vec())));
            u1.entries[1].attrs.push((AT_DESCRIPTION, MV::LineStrRef(b"other".to_vec())));
            u1.ranges = vec![r0.clone()];
            u1.entries[1].attrs.push((AT_RANGES, MV::RngRef(0)));
            let m = Model { units: vec![u, u1], syms: vec![] };
            ctx.nontriv(1);
            if judge(ctx, "Dwarf::write", &m, endian, Via::Dwarf) {
                ctx.outcome(&format!("shared:pattern{}", pattern));
            }
        },
    )
}

// ---------------------------------------------------------------------------
// (e) Dwarf::write vs DwarfUnit::write vs incremental ConvertUnit::write

fn sub_dwarf_unit(tier: Tier) -> Sub {
    let payloads: Vec<(u16, MV)> = variant_payloads()
        .into_iter()
        .filter(|(_, v)| {
            // no cross-unit requests: a DwarfUnit has no UnitId to name
            fn ops_local(ops: &[MOp]) -> bool {
                ops.iter().all(|o| match o {
                    MOp::CallRef(_) | MOp::ImplicitPointer(..) | MOp::VariableValue(_) => false,
                    MOp::EntryValue(x) => ops_local(x),
                    _ => true,
                })
            }
            match v {
                MV::IRef(_) => false,
                MV::Expr(ops) => ops_local(ops),
                MV::LocRef(1) => false,
                _ => true,
            }
        })
        .collect();
    let nmax = tier.pick(3usize, 4);
    let shapes = shapes_upto(nmax);
    let encs = Enc::all16();
    let np = payloads.len() as u64;
    let nsh = shapes.len() as u64;
    let len = (np + nsh) * 16 * 2;
    Sub::new(
        "e-dwarfunit-vs-dwarf",
        len,
        "single-unit models written through DwarfUnit::write and through Dwarf::write: both must pass the read-back oracle and produce identical sections; models: every variant payload of (a) that needs no second unit, and every forest shape with <= N entries x all sibling subsets x every UnitRef pair; x 16 encodings x endian",
        move |ctx, idx| {
            let mut mx = Mix(idx);
            let enc = *mx.pick(&encs);
            let k = mx.take(np + nsh);
            let endian = if mx.flag() { RunTimeEndian::Big } else { RunTimeEndian::Little };
            let mut models: Vec<Model> = vec![];
            if k < np {
                let mut m = variant_model(enc, enc, &payloads[k as usize]);
                // drop the second unit and the cross-unit requests
                m.units.truncate(1);
                m.units[0].entries[5].attrs.retain(|(_, v)| !matches!(v, MV::IRef(_)));
                m.units[0].locs.truncate(1);
                models.push(m);
            } else {
                let shape = &shapes[(k - np) as usize];
                let base = MUnit::from_forest(0, enc, shape, |i| tag_for(2, i));
                let n = base.entries.len();
                for mask in sibling_patterns(n) {
                    let mut u = base.clone();
                    apply_siblings(&mut u, mask);
                    models.push(Model { units: vec![u.clone()], syms: vec![] });
                    for i in 0..n {
                        for j in 0..n {
                            let mut u2 = u.clone();
                            u2.entries[i].attrs.push(ref_attr(RefKind::UnitRef, Ref::E(0, j)));
                            if j > 0 && (i + j) % 2 == 1 {
                                u2.entries[j].mode = AddMode::ReservedEarly;
                            }
                            models.push(Model { units: vec![u2], syms: vec![] });
                        }
                    }
                }
            }
            ctx.nontriv(models.len() as u64);
            for m in &models {
                let ok_u = judge(ctx, "DwarfUnit::write", m, endian, Via::DwarfUnit);
                let ok_d = judge(ctx, "Dwarf::write", m, endian, Via::Dwarf);
                if ok_u != ok_d {
                    ctx.fail("DwarfUnit::write", "dwarf-vs-dwarfunit", "different-verdict", format!("DwarfUnit ok={} Dwarf ok={} on {}", ok_u, ok_d, render(m)));
                } else if ok_u {
                    // identical requests, identical documents
                    let a = write_model(m, endian, Via::DwarfUnit).ok().and_then(|r| r.ok()).map(|s| section_map(&s));
                    let b = write_model(m, endian, Via::Dwarf).ok().and_then(|r| r.ok()).map(|s| section_map(&s));
                    ctx.eval(2);
                    if a != b {
                        ctx.outcome("dwarfunit:bytes-differ-but-both-read-back");
                    } else {
                        ctx.outcome("dwarfunit:bytes-equal");
                    }
                }
            }
        },
    )
}

/// Incremental path: the model is written with Dwarf::write, read, converted unit
/// by unit with each unit written immediately through `ConvertUnit::write`
/// (`Dwarf::write` at the end resolves pending cross-unit references), and the
/// result must again read back as the model.
fn incremental(m: &Model, endian: RunTimeEndian) -> Result<Result<w::Sections<WV>, String>, mcx::Panic> {
    let first = match write_model(m, endian, Via::Dwarf)? {
        Ok(s) => s,
        Err(e) => return Ok(Err(format!("first write: {:?}", e))),
    };
    guard(|| {
        let get = |id: SectionId| -> &[u8] { first.get(id).map(|w| w.slice()).unwrap_or(&[]) };
        let rd = load(&get, endian);
        let mut sections = w::Sections::new(w::EndianVec::new(endian));
        let mut dwarf = w::Dwarf::new();
        {
            let mut conv = match dwarf.convert(&rd) {
                Ok(c) => c,
                Err(e) => return Err(format!("convert: {:?}", e)),
            };
            loop {
                let (mut unit, root) = match conv.read_unit() {
                    Ok(Some(x)) => x,
                    Ok(None) => break,
                    Err(e) => return Err(format!("read_unit: {:?}", e)),
                };
                if let Err(e) = unit.convert(root, &|a| Some(w::Address::Constant(a))) {
                    return Err(format!("unit.convert: {:?}", e));
                }
                if let Err(e) = unit.write(&mut sections) {
                    return Err(format!("ConvertUnit::write: {:?}", e));
                }
            }
        }
        if let Err(e) = dwarf.write(&mut sections) {
            return Err(format!("final Dwarf::write: {:?}", e));
        }
        Ok(sections)
    })
}

fn sub_incremental(tier: Tier) -> Sub {
    let nmax = tier.pick(1usize, 2);
    let shapes = shapes_upto(nmax);
    let pairs = enc_pairs();
    let len = (shapes.len() * shapes.len()) as u64 * pairs.len() as u64;
    Sub::new(
        &format!("e-incremental-n<={}", nmax),
        len,
        "two-unit models (every forest shape with <= N entries per unit, sibling flags none/all, 32 encoding pairs) with one cross-unit reference (both directions, every entry pair, DebugInfoRef / DW_OP_call_ref) or one UnitRef: written, read, converted and re-written unit by unit through ConvertUnit::write + final Dwarf::write; the incrementally written sections must read back as the model",
        move |ctx, idx| {
            let mut mx = Mix(idx);
            let (e0, e1) = *mx.pick(&pairs);
            let s0 = mx.pick(&shapes).clone();
            let s1 = mx.pick(&shapes).clone();
            let endian = if (idx / 32) % 2 == 0 { RunTimeEndian::Little } else { RunTimeEndian::Big };
            let mut cases = 0u64;
            for sib in [false, true] {
                let mut u0 = MUnit::from_forest(0, e0, &s0, |i| tag_for(1, i));
                let mut u1 = MUnit::from_forest(1, e1, &s1, |i| tag_for(1, i));
                // (not on the root: conversion does not carry a root DW_AT_sibling over, a C12 matter)
                apply_siblings(&mut u0, if sib { u64::MAX & !1 } else { 0 });
                apply_siblings(&mut u1, if sib { u64::MAX & !1 } else { 0 });
                let units = [u0, u1];
                let mut models = vec![];
                for (su, tu) in [(0usize, 1usize), (1, 0), (0, 0), (1, 1)] {
                    for i in 0..units[su].entries.len() {
                        for j in 0..units[tu].entries.len() {
                            let kinds: &[RefKind] = if su == tu { &[RefKind::UnitRef] } else { &[RefKind::InfoRef, RefKind::ExprCallRef] };
                            for &kind in kinds {
                                let mut us = units.clone();
                                us[su].entries[i].attrs.push(ref_attr(kind, Ref::E(tu, j)));
                                models.push((Model { units: us.to_vec(), syms: vec![] }, su, tu, kind));
                            }
                        }
                    }
                }
                for (m, su, tu, kind) in &models {
                    ctx.eval(3);
                    cases += 1;
                    let case = || format!("{} incremental {}", endian_name(endian), render(m));
                    match incremental(m, endian) {
                        Err(p) => fail_panic_rel(ctx, "ConvertUnit::write", &p, case()),
                        Ok(Err(e)) => ctx.fail("ConvertUnit::write", "encodable-request", "rejected", format!("{} => {}", case(), e)),
                        Ok(Ok(sections)) => {
                            let get = |id: SectionId| -> &[u8] { sections.get(id).map(|w| w.slice()).unwrap_or(&[]) };
                            match guard(|| check_sections(m, &get, endian)) {
                                Err(p) => fail_panic_rel(ctx, "ConvertUnit::write+read", &p, case()),
                                Ok(Err(f)) => ctx.fail("ConvertUnit::write", f.site, f.kind, format!("{} :: {} :: sections {}", f.detail, case(), render_sections(&sections))),
                                Ok(Ok(())) => {
                                    ctx.outcome(&format!("incremental:{:?}:{}", kind, if su == tu { "same-unit" } else if su < tu { "to-later-unit" } else { "to-earlier-unit" }));
                                    if ctx.want_sample() {
                                        ctx.sample(format!("{} => {}", case(), render_sections(&sections)));
                                    }
                                }
                            }
                        }
                    }
                }
            }
            ctx.nontriv(cases);
        },
    )
}

// ---------------------------------------------------------------------------
// (f) requests that cannot be encoded

fn sub_errors(_tier: Tier) -> Sub {
    let encs = Enc::all16();
    const NCASE: u64 = 25;
    let len = 16 * NCASE * 2;
    Sub::new(
        "f-unencodable",
        len,
        "25 kinds of request that cannot be encoded (unit version 0/1/6/0xffff, line program version 1/6, v5 line program in a v2-4 unit, line program address size mismatch, line_strp/strp line strings before v5, constant address wider than the address size in an attribute / expression / range list / location list / line sequence, symbolic address or symbolic DebugInfoRef with a plain writer, supplementary/macro offsets >= 2^32 in 32-bit format, LineProgramRef without a line program (absent / present but unused), forward reference in an attribute expression, references to reserved-never-added ids, DefaultLocation before v5, const_type value longer than 255, location-list expression longer than 65535 bytes before v5) x 16 encodings x endian: each must return Err",
        move |ctx, idx| {
            let mut mx = Mix(idx);
            let enc = *mx.pick(&encs);
            let c = mx.take(NCASE);
            let endian = if mx.flag() { RunTimeEndian::Big } else { RunTimeEndian::Little };
            let t = (AT_CONST_VALUE, MV::D1(1));
            let mut m = variant_model(enc, enc, &t);
            let big = if enc.asz == 4 { 0x1_0000_0000u64 } else { 0x7fff_ffff_ffff_0000 }; // representable for asz 8
            let mut expect_err = true;
            match c {
                0 => m.units[0].enc.version = 0,
                1 => m.units[0].enc.version = 1,
                2 => m.units[1].enc.version = 6,
                3 => m.units[1].enc.version = 0xffff,
                4 => m.units[0].line.as_mut().unwrap().enc = Some(Enc { version: 1, ..enc }),
                5 => m.units[0].line.as_mut().unwrap().enc = Some(Enc { version: 6, ..enc }),
                6 => {
                    m.units[0].line.as_mut().unwrap().enc = Some(Enc { version: 5, ..enc });
                    expect_err = enc.version < 5;
                }
                7 => m.units[0].line.as_mut().unwrap().enc = Some(Enc { asz: 12 - enc.asz, ..enc }),
                8 => {
                    m.units[0].line.as_mut().unwrap().str_form = 1;
                    expect_err = enc.version < 5;
                }
                9 => {
                    m.units[0].line.as_mut().unwrap().str_form = 2;
                    expect_err = enc.version < 5;
                }
                10 => {
                    m.units[0].entries[4].attrs.push((AT_LOW_PC, MV::Addr(MAddr::C(big))));
                    expect_err = enc.asz == 4;
                }
                11 => {
                    m.units[0].entries[4].attrs.push((AT_LOCATION, MV::Expr(vec![MOp::Addr(MAddr::C(big))])));
                    expect_err = enc.asz == 4;
                }
                12 => {
                    m.units[0].ranges[1] = vec![MRange::StartEnd(MAddr::C(1), MAddr::C(big))];
                    expect_err = enc.asz == 4;
                }
                13 => {
                    m.units[0].locs[0] = vec![MLoc::StartEnd(MAddr::C(1), MAddr::C(big), vec![])];
                    expect_err = enc.asz == 4;
                }
                14 => {
                    m.units[0].line.as_mut().unwrap().seqs[0].start = Some(MAddr::C(big));
                    expect_err = enc.asz == 4;
                }
                15 => m.units[0].entries[5].attrs.push((AT_LOW_PC, MV::Addr(MAddr::Sym { sym: 1, addend: 0 }))),
                16 => m.units[1].entries[1].attrs.push((AT_IMPORT, MV::IRefSym(0))),
                17 => {
                    m.units[1].entries[0].attrs.push((AT_IMPORT, MV::IRefSup(1 << 32)));
                    expect_err = !enc.fmt64;
                }
                18 => {
                    // no line program at all
                    m.units[1].entries[1].attrs.push((AT_STMT_LIST, MV::LineRef));
                }
                19 => {
                    // a line program that is never used (no rows, no file index)
                    let mut l = std_line(1, 0);
                    l.seqs.clear();
                    m.units[1].line = Some(l);
                    m.units[1].entries[1].attrs.push((AT_STMT_LIST, MV::LineRef));
                }
                20 => m.units[0].entries[2].attrs.push((AT_FRAME_BASE, MV::Expr(vec![MOp::Convert(Some(Ref::E(0, 5)))]))),
                21 => {
                    m.units[0].phantoms_early = 1;
                    m.units[1].entries[1].attrs.push((AT_IMPORT, MV::IRef(Ref::Phantom(0, 0))));
                }
                22 => {
                    m.units[0].locs[0] = vec![MLoc::Default(vec![MOp::Reg(0)])];
                    expect_err = enc.version < 5;
                }
                23 => m.units[0].entries[4].attrs.push((AT_LOCATION, MV::Expr(vec![MOp::ConstType(Ref::E(0, 1), bytes_n(1, 256))]))),
                _ => {
                    m.units[0].locs[0] = vec![MLoc::StartEnd(MAddr::C(1), MAddr::C(2), vec![MOp::ImplicitValue(bytes_n(3, 0x10000))])];
                    expect_err = enc.version < 5;
                }
            }
            ctx.nontriv(1);
            let model_says_err = unencodable(&m, true).is_some();
            if model_says_err != expect_err {
                ctx.machinery(format!("error case {}: model expectation {} != intended {}", c, model_says_err, expect_err));
            }
            judge(ctx, "Dwarf::write", &m, endian, Via::Dwarf);
        },
    )
}

// ---------------------------------------------------------------------------

fn c11(tier: Tier) -> CheckDef {
    let th = Tier::Thorough; // sub-spaces whose thorough bound costs < 3 s run it in both tiers
    let mut required: Vec<String> = vec!["ok".into(), "attribute-set-twice-and-deleted".into()];
    for v in ALL_VARIANTS.iter().chain(["FileIndex"].iter()) {
        required.push(format!("variant:{}", v));
        for ver in 2..=5 {
            required.push(format!("variant-v{}:{}", ver, v));
        }
    }
    for kind in ["UnitRef", "InfoRef", "ExprCallRef", "ExprImplicitPointer", "ExprCall4"] {
        for dir in ["forward", "backward", "self"] {
            required.push(format!("ref:{}:{}", kind, dir));
        }
        required.push(format!("ref:{}:reserved-then-added", kind));
    }
    for kind in ["UnitRef", "ExprCall4", "ExprTyped"] {
        required.push(format!("ref:{}:inside-second-unit", kind));
    }
    required.push("ref:ExprTyped:backward".into());
    required.push("ref:ExprTyped:self".into());
    required.push("ref:ExprTyped:reserved-then-added".into());
    for kind in ["InfoRef", "ExprCallRef", "ExprImplicitPointer"] {
        required.push(format!("ref:{}:cross-unit-forward", kind));
        required.push(format!("ref:{}:cross-unit-backward", kind));
    }
    for r in [
        "version",
        "line-version",
        "line-incompatible",
        "line-string-form",
        "address-too-large",
        "symbolic-address",
        "symbolic-reference",
        "offset-too-large-for-format",
        "lineref-without-program",
        "expr-forward-ref",
        "ref-never-added",
        "default-location-pre-v5",
        "const-type-len",
        "loc-expression-too-long",
    ] {
        required.push(format!("err:{}", r));
    }
    required.push("typed-op:base-type-moved-before-referrer".into());
    required.push("typed-op:location-list".into());
    required.push("three-units-all-refs".into());
    required.push("entries-added-level-by-level".into());
    required.push("abbrevs:two-byte-codes".into());
    required.push("abbrevs:one-byte-codes".into());
    for (uv, lv) in [(5, 2), (5, 4), (5, 5), (4, 2), (4, 4), (3, 3), (2, 2), (2, 4)] {
        required.push(format!("line-mix:unit-v{}-line-v{}", uv, lv));
    }
    required.push("dwarfunit:bytes-equal".into());
    for p in 0..4 {
        required.push(format!("shared:pattern{}", p));
    }
    for k in ["incremental:InfoRef:to-later-unit", "incremental:InfoRef:to-earlier-unit", "incremental:ExprCallRef:to-later-unit", "incremental:ExprCallRef:to-earlier-unit", "incremental:UnitRef:same-unit"] {
        required.push(k.into());
    }
    CheckDef {
        level: "exploration",
        rule: "one evaluation = one abstract unit table built through gimli::write (Unit::add/reserve/add_reserved, set, RangeListTable/LocationListTable/StringTable::add, LineProgram) and serialised by Dwarf::write / DwarfUnit::write / ConvertUnit::write, then read with gimli::read and compared entry by entry with the model (tags, nesting, attribute order, forms from an independent per-version table, values, every reference resolved to the entry carrying the intended identity name, strings, lists, line program), or required to be Err when the model marks the request unencodable; distinct = distinct (model, endianness, write path)".into(),
        assumptions: vec![
            "gimli's reader is the oracle for the written bytes (decided by C02-C08); expected forms and constants are transcribed from DWARF 5 table 7.5/7.6 in model.rs".into(),
            "forms that exist only in later DWARF versions (data16, line_strp, strp_sup, ref_sup, ref_sig8 ...) are written by gimli under any unit version without error; the oracle accepts that (the output reads back unambiguously)".into(),
            "ids are only used with the table that issued them; strings contain no NUL; entries are added in tree order per parent (ids may be reserved earlier)".into(),
            "address sizes 4 and 8; at most 3 units; entry counts as stated per sub-space".into(),
        ],
        subs: vec![sub_variants(th), sub_line_mix(tier), sub_many_abbrevs(tier), sub_forest1(tier, false), sub_forest1(th, true), sub_forest2(tier), sub_forest3(th), sub_basetypes(th), sub_shared(tier), sub_dwarf_unit(th), sub_incremental(th), sub_errors(tier)],
        required_outcomes: required,
    }
}
