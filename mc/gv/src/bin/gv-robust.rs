//! C01: untrusted DWARF never panics, aborts, overflows the stack or hangs.
//!
//! Fault enumeration: exhaustive short strings, structure-aware extreme-value
//! mutation of every numeric field of well-formed seeds (lengths kept
//! consistent), splices, every truncation point, every failing reader
//! operation, depth/length stressors — each driven through every public entry
//! point with errors ignored, in the `dbg` (opt-level 0, overflow checks) and
//! `rel` (optimised, no checks) flavours, in crash-isolated worker processes.
#[path = "robust/drivers.rs"]
mod drivers;
#[path = "robust/fault.rs"]
mod fault;
#[path = "robust/seeds.rs"]
mod seeds;
#[path = "robust/stress.rs"]
mod stress;

use drivers::*;
use fault::{FaultReader, FaultState};
use gimli::{EndianSlice, RunTimeEndian};
use mcx::space::Mix;
use mcx::{guard, CheckDef, Ctx, Sub, Tier};
use seeds::{SecSet, G, SECTION_NAMES};
use std::rc::Rc;


#[derive(Clone, Copy, Debug, PartialEq)]
pub enum Plan {
    /// plain borrowed reader
    Slice,
    /// FaultReader that never fails (counts operations)
    Count,
    /// FaultReader failing `len` operations starting at operation `k`
    FailAt(u64, u64),
    /// RelocateReader with the identity relocation over the borrowed reader
    Reloc,
}

#[derive(Debug, Clone, Copy)]
struct Ident;
impl gimli::Relocate<usize> for Ident {
    fn relocate_address(&self, _offset: usize, value: u64) -> gimli::Result<u64> {
        Ok(value)
    }
    fn relocate_offset(&self, _offset: usize, value: usize) -> gimli::Result<usize> {
        Ok(value)
    }
}

fn endian(big: bool) -> RunTimeEndian {
    if big {
        RunTimeEndian::Big
    } else {
        RunTimeEndian::Little
    }
}

/// Run the driver group for `primary` over the section set with reader kind R.
fn dispatch<R: Rd>(p: &mut Probe, mk: &dyn Fn(&[u8]) -> R, ss: &SecSet, primary: usize, cfg: Cfg, choice: u64) {
    let secs = Secs {
        abbrev: mk(&ss.abbrev),
        info: mk(&ss.info),
        types: mk(&ss.types),
        str_: mk(&ss.str_),
        str_offsets: mk(&ss.str_offsets),
        line: mk(&ss.line),
        line_str: mk(&ss.line_str),
        addr: mk(&ss.addr),
        ranges: mk(&ss.ranges),
        rnglists: mk(&ss.rnglists),
        loc: mk(&ss.loc),
        loclists: mk(&ss.loclists),
        macinfo: mk(&ss.macinfo),
        macro_: mk(&ss.macro_),
        aranges: mk(&ss.aranges),
        names: mk(&ss.names),
    };
    match primary {
        0 => {
            drv_abbrev(p, secs.abbrev.clone());
            drv_info(p, secs.info.clone(), secs.abbrev.clone(), false);
            drv_dwarf(p, &secs, false, 1);
        }
        1 => {
            drv_info(p, secs.info.clone(), secs.abbrev.clone(), false);
            drv_dwarf(p, &secs, false, (choice % 3) as u8);
            drv_dwarf(p, &secs, true, 2);
            drv_convert(p, &secs, cfg);
        }
        2 => {
            drv_info(p, secs.types.clone(), secs.abbrev.clone(), true);
            drv_dwarf(p, &secs, false, 0);
            drv_convert(p, &secs, cfg);
        }
        3 | 6 => drv_str(p, mk(ss.get(primary))),
        4 => drv_str_offsets(p, secs.str_offsets.clone()),
        5 => {
            drv_line(p, secs.line.clone(), cfg.address_size);
            drv_convert(p, &secs, cfg);
        }
        7 => drv_addr(p, secs.addr.clone(), cfg.address_size),
        8 => drv_ranges(p, secs.ranges.clone(), false, cfg),
        9 => drv_ranges(p, secs.rnglists.clone(), true, cfg),
        10 => drv_locs(p, secs.loc.clone(), false, cfg),
        11 => drv_locs(p, secs.loclists.clone(), true, cfg),
        12 => drv_macros(p, secs.macinfo.clone(), true),
        13 => drv_macros(p, secs.macro_.clone(), false),
        14 => drv_aranges(p, secs.aranges.clone()),
        15 => drv_names(p, secs.names.clone(), secs.str_.clone()),
        16 => drv_pub(p, mk(&ss.pubnames)),
        17 => {
            drv_index(p, mk(&ss.cu_index), false);
            drv_package(p, mk(&ss.cu_index), mk(&ss.tu_index), &secs);
        }
        18 => {
            drv_index(p, mk(&ss.tu_index), true);
            drv_package(p, mk(&ss.cu_index), mk(&ss.tu_index), &secs);
        }
        19 => {
            drv_frame(p, mk(&ss.debug_frame), false, cfg);
            drv_convert_frame(p, mk(&ss.debug_frame), false, cfg);
        }
        20 => {
            drv_frame(p, mk(&ss.eh_frame), true, cfg);
            drv_convert_frame(p, mk(&ss.eh_frame), true, cfg);
        }
        21 => drv_eh_hdr(p, mk(&ss.eh_frame_hdr), mk(&ss.eh_frame), cfg),
        _ => {
            drv_expr_ops(p, mk(&ss.expr), cfg.encoding());
            // callee expressions in buffers of their own: skip +0; lit1; bra +1; nop; lit1 / skip -3 / reg0 followed by nops
            const CALLEES: [&[u8]; 4] = [&[0x2f, 0x00, 0x00, 0x31], &[0x31, 0x28, 0x01, 0x00, 0x96, 0x31], &[0x2f, 0xfd, 0xff], &[0x50, 0x96, 0x96, 0x96, 0x96, 0x96, 0x96, 0x96, 0x96, 0x96, 0x96, 0x96, 0x96, 0x96, 0x96, 0x96]];
            let others: Vec<R> = CALLEES.iter().map(|b| mk(b)).collect();
            drv_eval(p, mk(&ss.expr), cfg.encoding(), choice, &others);
        }
    }
}

pub struct Outcome {
    pub ops: u64,
    pub fired: bool,
}

/// One execution: returns the number of reader operations performed (FaultReader plans).
pub fn run_case(ctx: &mut Ctx, label: &dyn Fn() -> String, ss: &SecSet, primary: usize, cfg: Cfg, plan: Plan, choice: u64) -> Outcome {
    ctx.eval(1);
    let mut p = Probe::new(ss.total());
    let e = endian(cfg.big);
    let mut out = Outcome { ops: 0, fired: false };
    let res = match plan {
        Plan::Slice => guard(|| {
            // SAFETY-free lifetime trick: readers borrow `ss`, which outlives this call.
            let mk = |b: &[u8]| -> EndianSlice<'_, RunTimeEndian> { EndianSlice::new(unsafe { std::slice::from_raw_parts(b.as_ptr(), b.len()) }, e) };
            dispatch(&mut p, &mk, ss, primary, cfg, choice)
        }),
        Plan::Reloc => guard(|| {
            let mk = |b: &[u8]| -> gimli::RelocateReader<EndianSlice<'_, RunTimeEndian>, Ident> { gimli::RelocateReader::new(EndianSlice::new(unsafe { std::slice::from_raw_parts(b.as_ptr(), b.len()) }, e), Ident) };
            dispatch(&mut p, &mk, ss, primary, cfg, choice)
        }),
        Plan::Count | Plan::FailAt(..) => {
            let st: Rc<FaultState> = match plan {
                Plan::FailAt(k, l) => FaultState::at(k, l),
                _ => FaultState::never(),
            };
            let st2 = st.clone();
            let r = guard(|| {
                let mk = |b: &[u8]| -> FaultReader<'_> { FaultReader::new(unsafe { std::slice::from_raw_parts(b.as_ptr(), b.len()) }, e, st2.clone()) };
                dispatch(&mut p, &mk, ss, primary, cfg, choice)
            });
            out.ops = st.ops.get();
            out.fired = st.fired.get();
            r
        }
    };
    let group = format!("drv:{}", SECTION_NAMES[primary]);
    match res {
        Err(pn) => {
            ctx.outcome("panic");
            ctx.fail_panic(&group, &pn, format!("{} cfg={:?} plan={:?} choice={}", label(), cfg, plan, choice));
        }
        Ok(()) => {
            if p.errs > 0 {
                ctx.outcome("returned-errors");
            } else {
                ctx.outcome("clean");
            }
            if p.items > 0 {
                ctx.nontriv(1);
            }
            for (entry, site, kind, detail) in p.fails.drain(..) {
                ctx.outcome(&format!("oracle:{}", kind));
                ctx.fail(&entry, &site, &kind, format!("{} on {} cfg={:?} plan={:?}", detail, label(), cfg, plan));
            }
        }
    }
    out
}

fn cfgs_of(g: G) -> Cfg {
    Cfg { big: g.big, address_size: g.asz, format64: g.f64_, version: 4, aarch64: false }
}

fn gs(all: bool) -> Vec<G> {
    let mut v = vec![];
    for big in [false, true] {
        for f64_ in [false, true] {
            for asz in [4u8, 8] {
                v.push(G { big, f64_, asz });
            }
        }
    }
    if !all {
        // covering pair: every value of every axis appears
        return vec![v[0], v[7], v[2], v[5]];
    }
    v
}

pub const EXTREMES8: [u64; 8] = [0, 0x80, 0xffff, 0xffff_fff0, 1 << 32, 1 << 61, 1 << 63, u64::MAX];
pub const EXTREMES: [u64; 16] = [0, 1, 2, 0x7f, 0x80, 0xff, 0xffff, 1 << 31, 0xffff_fff0, 0xffff_ffff, 1 << 32, 1 << 61, (1 << 63) - 1, 1 << 63, u64::MAX - 1, u64::MAX];
const PAIR_VALUES: [u64; 5] = [0, 1 << 63, u64::MAX, 0xff, 0xffff_ffff];

/// Bounds per (tier, flavour): the opt-level-0 flavour is ~6x slower, so its quick
/// tier enumerates smaller (still exhaustive, still stated) spaces.
#[derive(Clone, Copy)]
pub struct Sz {
    pub fl: &'static str,
    pub tier: Tier,
    /// 0 = quick/dbg, 1 = quick/rel or thorough/dbg, 2 = thorough/rel
    pub level: u8,
}

impl Sz {
    pub fn pick<T>(&self, a: T, b: T, c: T) -> T {
        match self.level {
            0 => a,
            1 => b,
            _ => c,
        }
    }
    pub fn fl(&self) -> &'static [&'static str] {
        if self.fl == "dbg" {
            &["dbg"]
        } else {
            &["rel"]
        }
    }
    pub fn tag(&self, name: &str) -> String {
        format!("{}@{}", name, self.fl)
    }
}

fn c01(tier: Tier) -> CheckDef {
    let mut subs: Vec<Sub> = vec![];
    for fl in ["dbg", "rel"] {
        let level = match (tier, fl) {
            (Tier::Quick, "dbg") => 0,
            (Tier::Quick, _) => 1,
            (Tier::Thorough, "dbg") => 1,
            _ => 2,
        };
        add_seed_subs(&mut subs, Sz { fl, tier, level });
        stress::add_subs(&mut subs, Sz { fl, tier, level });
    }
    CheckDef {
        level: "fault_enumeration",
        rule: "every case is one (section set, driver group, configuration, reader plan) executed in a crash-isolated worker; cases are distinct by construction (index -> input); non-trivial = the drivers obtained at least one item (header, entry, row, ...) before any error, i.e. the input was parsed beyond its first field. Sub-spaces are suffixed @dbg / @rel: the same generators with bounds sized per build flavour".into(),
        assumptions: vec![
            "API-contract panics documented in rustdoc (Reader::read_uint n outside 1..=8, range/split_at out of bounds, UnitOffset::to_unit_section_offset on unchecked offsets, Evaluation protocol misuse, write-side id misuse) are excluded: drivers never make those calls".into(),
            "termination bound: an iterator over L input bytes must reach Ok(None) within 4L+64 calls with errors ignored; Evaluation is driven with max_iterations = 64".into(),
            "stop-after-error is demanded only of iterators whose rustdoc promises it (AddrEntryIter, ArangeEntryIter::next, LineInstructions, pubnames/pubtypes)".into(),
            "out-of-bounds reads are impossible for the borrowed reader (safe Rust); the shared-buffer reader's unsafe code is C10's subject".into(),
            "recursion in the caller's own tree walk is capped at depth 256; gimli's own recursion is not".into(),
        ],
        subs,
        required_outcomes: vec!["clean".into(), "returned-errors".into(), "fault-fired".into(), "panic-free-stressor".into()],
    }
}

/// Number of primitive reader operations the drivers perform on seed `si` under `g`
/// (None: the drivers panicked or did not return within 10 s).
fn count_ops_watched(si: usize, g: G) -> Option<u64> {
    let (tx, rx) = std::sync::mpsc::channel();
    let _ = std::thread::Builder::new().stack_size(64 << 20).spawn(move || {
        let r = mcx::guard(|| {
            let s = &seeds::seeds()[si];
            let ss = (s.gen)(g);
            let mut c = mcx::engine::placeholder_ctx();
            run_case(&mut c, &|| String::new(), &ss, s.primary, cfgs_of(g), Plan::Count, 0).ops
        });
        let _ = tx.send(r.ok());
    });
    rx.recv_timeout(std::time::Duration::from_secs(10)).ok().flatten()
}

fn add_seed_subs(subs: &mut Vec<Sub>, sz: Sz) {
    let tier = sz.tier;
    let _ = tier;
    let sd = seeds::seeds();
    let ns = sd.len() as u64;

    // --- seeds as they are, every reader plan
    {
        let g_all = gs(true);
        let ng = g_all.len() as u64;
        subs.push(
            Sub::new(&sz.tag("seeds"), ns * ng * 3, "every well-formed seed x {LE,BE} x {32,64-bit} x address size {4,8} x {borrowed reader, counting FaultReader, identity RelocateReader}", move |ctx, i| {
                let mut m = Mix(i);
                let plan = [Plan::Slice, Plan::Count, Plan::Reloc][m.take(3) as usize];
                let g = *m.pick(&g_all);
                let s = &seeds::seeds()[m.take(ns) as usize];
                let ss = (s.gen)(g);
                let name = s.name;
                if ctx.want_sample() {
                    ctx.sample(format!("seed {} {:?}: {}", name, g, ss.render()));
                }
                let o = run_case(ctx, &|| format!("seed {} {:?}", name, g), &ss, s.primary, cfgs_of(g), plan, 0);
                if plan == Plan::Count {
                    ctx.outcome_n("reader-ops", o.ops);
                }
            })
            .flavours(sz.fl()),
        );
    }

    // --- structure-aware extreme values: one field at a time
    {
        let g_set: Vec<G> = gs(sz.level == 2).into_iter().take(sz.pick(1, 4, 8)).collect();
        let ng = g_set.len() as u64;
        let nx = sz.pick(8usize, 16, 16);
        // field counts per (seed, g)
        let mut offs: Vec<(usize, usize, u64, u64)> = vec![]; // seed, g, start, nfields
        let mut total = 0u64;
        for (si, s) in sd.iter().enumerate() {
            for (gi, g) in g_set.iter().enumerate() {
                let (_, n) = mcx::enc::with_mutation(None, None, || (s.gen)(*g));
                offs.push((si, gi, total, n));
                total += n * nx as u64;
            }
        }
        let _ = ng;
        let g_set2 = g_set.clone();
        subs.push(
            Sub::new(&sz.tag("field-extremes-1"), total, &format!("for every seed x {} configs, every numeric field (fixed-width, LEB128, address, offset, length) overridden in turn by each of {} extreme values (16: {{0,1,2,0x7f,0x80,0xff,2^16-1,2^31,2^32-16,2^32-1,2^32,2^61,2^63-1,2^63,2^64-2,2^64-1}}; 8: every second one starting at 1 plus 0 and 2^64-1); enclosing lengths recomputed", ng, nx), move |ctx, i| {
                let pos = offs.partition_point(|o| o.2 <= i) - 1;
                let (si, gi, start, _n) = offs[pos];
                let rel = i - start;
                let k = rel / nx as u64;
                let xi = (rel % nx as u64) as usize;
                let v = if nx == 16 { EXTREMES[xi] } else { EXTREMES8[xi] };
                let s = &seeds::seeds()[si];
                let g = g_set2[gi];
                let (ss, _) = mcx::enc::with_mutation(Some((k, v)), None, || (s.gen)(g));
                let name = s.name;
                if ctx.want_sample() {
                    ctx.sample(format!("seed {} {:?} field#{}={:#x}: {}", name, g, k, v, ss.render()));
                }
                ctx.log(&format!("sections: {}", ss.render()));
                run_case(ctx, &|| format!("seed {} {:?} field#{}={:#x}", name, g, k, v), &ss, s.primary, cfgs_of(g), Plan::Slice, k);
            })
            .flavours(sz.fl()),
        );
    }

    // --- pairs of nearby fields (thorough: distance <= 8; quick: distance <= 2)
    {
        let g_set = gs(false);
        let dist = sz.pick(1u64, 2, 8);
        let mut offs: Vec<(usize, usize, u64, u64)> = vec![];
        let mut total = 0u64;
        let npv = sz.pick(3usize, 5, 5);
        let per = dist * (npv * npv) as u64;
        for (si, s) in sd.iter().enumerate() {
            for (gi, g) in g_set.iter().enumerate().take(sz.pick(1, 1, 4)) {
                let (_, n) = mcx::enc::with_mutation(None, None, || (s.gen)(*g));
                offs.push((si, gi, total, n));
                total += n * per;
            }
        }
        let g_set2 = g_set.clone();
        subs.push(
            Sub::new(&sz.tag("field-extremes-2"), total, &format!("pairs of numeric fields at distance <= {}, both overridden, values from the first {} of {{0,2^63,2^64-1,0xff,2^32-1}} squared, {} config(s) per seed", dist, npv, sz.pick(1, 1, 4)), move |ctx, i| {
                let pos = offs.partition_point(|o| o.2 <= i) - 1;
                let (si, gi, start, n) = offs[pos];
                let mut m = Mix(i - start);
                let v2 = *m.pick(&PAIR_VALUES[..npv]);
                let v1 = *m.pick(&PAIR_VALUES[..npv]);
                let d = m.take(dist) + 1;
                let k1 = m.0;
                let k2 = k1 + d;
                if k2 >= n {
                    ctx.outcome("pair-out-of-range");
                    return;
                }
                let s = &seeds::seeds()[si];
                let g = g_set2[gi];
                let (ss, _) = mcx::enc::with_mutation(Some((k1, v1)), Some((k2, v2)), || (s.gen)(g));
                let name = s.name;
                ctx.log(&format!("sections: {}", ss.render()));
                run_case(ctx, &|| format!("seed {} {:?} field#{}={:#x} field#{}={:#x}", name, g, k1, v1, k2, v2), &ss, s.primary, cfgs_of(g), Plan::Slice, 0);
            })
            .flavours(sz.fl()),
        );
    }

    // --- truncation at every byte of the primary section
    {
        let g_set: Vec<G> = gs(sz.level == 2).into_iter().take(sz.pick(2, 4, 8)).collect();
        let mut offs: Vec<(usize, usize, u64, u64)> = vec![];
        let mut total = 0u64;
        for (si, s) in sd.iter().enumerate() {
            for (gi, g) in g_set.iter().enumerate() {
                let n = (s.gen)(*g).get(s.primary).len() as u64;
                offs.push((si, gi, total, n));
                total += n;
            }
        }
        let g_set2 = g_set.clone();
        subs.push(
            Sub::new(&sz.tag("truncate"), total, "every seed x config with its primary section cut to its first n bytes, every n in 0..len, read through the borrowed reader and through the identity RelocateReader", move |ctx, i| {
                let pos = offs.partition_point(|o| o.2 <= i) - 1;
                let (si, gi, start, _) = offs[pos];
                let n = (i - start) as usize;
                let s = &seeds::seeds()[si];
                let g = g_set2[gi];
                let mut ss = (s.gen)(g);
                ss.get_mut(s.primary).truncate(n);
                let name = s.name;
                if ctx.want_sample() {
                    ctx.sample(format!("seed {} {:?} truncated to {} bytes", name, g, n));
                }
                run_case(ctx, &|| format!("seed {} {:?} truncated to {}", name, g, n), &ss, s.primary, cfgs_of(g), Plan::Slice, 0);
                run_case(ctx, &|| format!("seed {} {:?} truncated to {} (RelocateReader)", name, g, n), &ss, s.primary, cfgs_of(g), Plan::Reloc, 0);
            })
            .flavours(sz.fl()),
        );
    }

    // --- reader failure at every operation
    {
        let g_set = gs(false);
        let g_use = sz.pick(1usize, 1, 4);
        let cap = sz.pick(150u64, 600, 6000);
        let mut offs: Vec<(usize, usize, u64, u64)> = vec![];
        let mut total = 0u64;
        let mut capped = 0u64;
        for (si, s) in sd.iter().enumerate() {
            for (gi, g) in g_set.iter().enumerate().take(g_use) {
                // Counting executes the subject: do it on a watched thread, so that a hang or panic
                // there cannot stop this process before the first case (it is then reproduced, and
                // attributed, by the cases themselves, which run with the largest count).
                let ops = count_ops_watched(si, *g).unwrap_or(u64::MAX);
                let _ = s;
                let n = ops.min(cap);
                if ops > cap {
                    capped += 1;
                }
                offs.push((si, gi, total, n));
                total += n * 2;
            }
        }
        let g_set2 = g_set.clone();
        let bound = format!("every seed x config: the k-th primitive reader operation (read_slice/skip/split/truncate/find/to_slice/to_string*) fails with Error::Io, for every k below min(ops, {}) — once, and persistently from k on; {} seed-configs have more operations than the cap (the tail repeats probe loops)", cap, capped);
        subs.push(
            Sub::new(&sz.tag("fail-at"), total, &bound, move |ctx, i| {
                let pos = offs.partition_point(|o| o.2 <= i) - 1;
                let (si, gi, start, _) = offs[pos];
                let r = i - start;
                let k = r / 2;
                let len = if r % 2 == 0 { 1 } else { u64::MAX };
                let s = &seeds::seeds()[si];
                let g = g_set2[gi];
                let ss = (s.gen)(g);
                let name = s.name;
                let o = run_case(ctx, &|| format!("seed {} {:?} reader op {} fails (x{})", name, g, k, if len == 1 { "1".to_string() } else { "inf".to_string() }), &ss, s.primary, cfgs_of(g), Plan::FailAt(k, len), 0);
                if o.fired {
                    ctx.outcome("fault-fired");
                }
                if ctx.want_sample() {
                    ctx.sample(format!("seed {} {:?}: reader operation #{} fails {}", name, g, k, if len == 1 { "once" } else { "persistently" }));
                }
            })
            .flavours(sz.fl()),
        );
    }

}

fn main() {
    mcx::engine::main(|prop, tier| match prop {
        "C01" => Some(c01(tier)),
        _ => None,
    })
}
