//! gv-lists: C08 (range/location lists resolve to the standard's address
//! ranges) and C16 (written range/location lists read back as the same lists).
//!
//! Modules: lists/model.rs (abstract entries, independent encoder, reference
//! resolver, minimal .debug_info/.debug_abbrev encoder; no gimli),
//! lists/c08.rs (read side), lists/c16.rs (write side).

#[path = "lists/model.rs"]
mod model;
#[path = "lists/c08.rs"]
mod c08;
#[path = "lists/c16.rs"]
mod c16;

fn main() {
    mcx::engine::main(|prop, tier| match prop {
        "C08" => Some(c08::def(tier)),
        "C16" => Some(c16::def(tier)),
        _ => None,
    })
}
