//! Abstract units / DIE forests, an independent byte encoder for .debug_abbrev
//! and .debug_info/.debug_types (on `mcx::enc::Enc`), and the expected values.
//! No gimli types or constants are used here.
#![allow(dead_code)]
use super::dw::*;
use mcx::enc::Enc;
use mcx::leb;

#[derive(Clone, Copy, Debug, PartialEq, Eq, Hash)]
pub struct Cfg {
    pub version: u16,
    pub fmt64: bool,
    pub asz: u8,
    pub big: bool,
}

impl Cfg {
    pub fn off_size(&self) -> usize {
        if self.fmt64 {
            8
        } else {
            4
        }
    }
    /// version {2,3,4,5} x format x address size {1,2,4,8} x byte order = 64
    pub fn all() -> Vec<Cfg> {
        let mut v = vec![];
        for version in [2u16, 3, 4, 5] {
            for fmt64 in [false, true] {
                for asz in [1u8, 2, 4, 8] {
                    for big in [false, true] {
                        v.push(Cfg { version, fmt64, asz, big });
                    }
                }
            }
        }
        v
    }
    pub fn render(&self) -> String {
        format!("v{}/{}bit/addr{}/{}", self.version, if self.fmt64 { 64 } else { 32 }, self.asz, if self.big { "BE" } else { "LE" })
    }
}

/// Harness-side mirror of the attribute value variants (the observation type
/// and the oracle's expectation type).
#[derive(Clone, Debug, PartialEq, Eq)]
pub enum PV {
    Addr(u64),
    Block(Vec<u8>),
    Data1(u8),
    Data2(u16),
    Data4(u32),
    Data8(u64),
    Data16(u128),
    Sdata(i64),
    Udata(u64),
    Exprloc(Vec<u8>),
    Flag(bool),
    SecOffset(u64),
    DebugAddrBase(u64),
    DebugAddrIndex(u64),
    UnitRef(u64),
    DebugInfoRef(u64),
    DebugInfoRefSup(u64),
    DebugLineRef(u64),
    LocationListsRef(u64),
    DebugLocListsBase(u64),
    DebugLocListsIndex(u64),
    DebugMacinfoRef(u64),
    DebugMacroRef(u64),
    RangeListsRef(u64),
    DebugRngListsBase(u64),
    DebugRngListsIndex(u64),
    DebugTypesRef(u64),
    DebugStrRef(u64),
    DebugStrRefSup(u64),
    DebugStrOffsetsBase(u64),
    DebugStrOffsetsIndex(u64),
    DebugLineStrRef(u64),
    String(Vec<u8>),
    Encoding(u8),
    DecimalSign(u8),
    Endianity(u8),
    Accessibility(u8),
    Visibility(u8),
    Virtuality(u8),
    Language(u16),
    AddressClass(u64),
    IdentifierCase(u8),
    CallingConvention(u8),
    Inline(u8),
    Ordering(u8),
    FileIndex(u64),
    DwoId(u64),
}

/// Payload of a value independent of its variant: a number or a byte string.
#[derive(Clone, Debug, PartialEq, Eq)]
pub enum Pay {
    Num(i128),
    Wide(u128),
    Bytes(Vec<u8>),
    Bool(bool),
}

impl PV {
    pub fn payload(&self) -> Pay {
        use PV::*;
        match self {
            Block(b) | Exprloc(b) | String(b) => Pay::Bytes(b.clone()),
            Flag(b) => Pay::Bool(*b),
            Data16(v) => Pay::Wide(*v),
            Sdata(v) => Pay::Num(*v as i128),
            Data1(v) | Encoding(v) | DecimalSign(v) | Endianity(v) | Accessibility(v) | Visibility(v) | Virtuality(v) | IdentifierCase(v) | CallingConvention(v) | Inline(v) | Ordering(v) => Pay::Num(*v as i128),
            Data2(v) | Language(v) => Pay::Num(*v as i128),
            Data4(v) => Pay::Num(*v as i128),
            Addr(v) | Data8(v) | Udata(v) | SecOffset(v) | DebugAddrBase(v) | DebugAddrIndex(v) | UnitRef(v) | DebugInfoRef(v) | DebugInfoRefSup(v) | DebugLineRef(v) | LocationListsRef(v) | DebugLocListsBase(v)
            | DebugLocListsIndex(v) | DebugMacinfoRef(v) | DebugMacroRef(v) | RangeListsRef(v) | DebugRngListsBase(v) | DebugRngListsIndex(v) | DebugTypesRef(v) | DebugStrRef(v) | DebugStrRefSup(v) | DebugStrOffsetsBase(v)
            | DebugStrOffsetsIndex(v) | DebugLineStrRef(v) | AddressClass(v) | FileIndex(v) | DwoId(v) => Pay::Num(*v as i128),
        }
    }
    /// Class `constant` (including the dedicated enumeration variants).
    pub fn is_constant_class(&self) -> bool {
        use PV::*;
        matches!(
            self,
            Data1(_) | Data2(_) | Data4(_) | Data8(_) | Sdata(_) | Udata(_) | Encoding(_) | DecimalSign(_) | Endianity(_) | Accessibility(_) | Visibility(_) | Virtuality(_) | Language(_) | AddressClass(_) | IdentifierCase(_) | CallingConvention(_) | Inline(_) | Ordering(_) | FileIndex(_) | DwoId(_)
        )
    }
    pub fn variant(&self) -> String {
        // cheap for large byte payloads: format an emptied copy
        let small = match self {
            PV::Block(_) => PV::Block(vec![]),
            PV::Exprloc(_) => PV::Exprloc(vec![]),
            PV::String(_) => PV::String(vec![]),
            other => other.clone(),
        };
        let s = format!("{:?}", small);
        s.split('(').next().unwrap_or("").to_string()
    }
}

/// Abstract attribute payload (what the producer meant).
#[derive(Clone, Debug, PartialEq, Eq)]
pub enum Payload {
    Int(u64),
    Sint(i64),
    Bytes(Vec<u8>),
    Wide(u128),
    Nothing,
    /// unsigned LEB128 padded with continuation bytes to exactly n bytes
    PaddedU(u64, usize),
    /// signed LEB128 padded to exactly n bytes
    PaddedS(i64, usize),
    /// DW_FORM_indirect: the actual form code, then its payload
    Indirect(u16, Box<Payload>),
}

impl Payload {
    pub fn int(&self) -> u64 {
        match self {
            Payload::Int(v) | Payload::PaddedU(v, _) => *v,
            Payload::Sint(v) | Payload::PaddedS(v, _) => *v as u64,
            Payload::Wide(v) => *v as u64,
            _ => 0,
        }
    }
    pub fn sint(&self) -> i64 {
        self.int() as i64
    }
    pub fn bytes(&self) -> &[u8] {
        match self {
            Payload::Bytes(b) => b,
            _ => &[],
        }
    }
    pub fn wide(&self) -> u128 {
        match self {
            Payload::Wide(v) => *v,
            _ => self.int() as u128,
        }
    }
    pub fn render(&self) -> String {
        match self {
            Payload::Int(v) => format!("{:#x}", v),
            Payload::Sint(v) => format!("{}", v),
            Payload::Bytes(b) => {
                if b.len() <= 8 {
                    format!("bytes[{}]", mcx::hex(b))
                } else {
                    format!("bytes[len {}: {}..]", b.len(), mcx::hex(&b[..4]))
                }
            }
            Payload::Wide(v) => format!("{:#x}u128", v),
            Payload::Nothing => "-".into(),
            Payload::PaddedU(v, n) => format!("{:#x} as {}-byte ULEB", v, n),
            Payload::PaddedS(v, n) => format!("{} as {}-byte SLEB", v, n),
            Payload::Indirect(f, p) => format!("indirect({})->{}", form_name(*f), p.render()),
        }
    }
}

pub fn enc_sleb_padded(v: i64, n: usize, out: &mut Vec<u8>) {
    let mut tmp = vec![];
    leb::enc_sleb(v, &mut tmp);
    assert!(tmp.len() <= n);
    if tmp.len() == n {
        out.extend(tmp);
        return;
    }
    let l = tmp.len();
    tmp[l - 1] |= 0x80;
    let fill: u8 = if v < 0 { 0x7f } else { 0x00 };
    for _ in l..n - 1 {
        tmp.push(fill | 0x80);
    }
    tmp.push(fill);
    out.extend(tmp);
}

fn put_uint(e: &mut Enc, v: u64, n: usize) {
    e.raw_uint(v, n);
}

/// Encode one attribute value of form kind `fk` (DWARF 5 section 7.5.5/7.5.6).
pub fn emit(e: &mut Enc, cfg: Cfg, fk: FK, p: &Payload) {
    let uleb = |e: &mut Enc, p: &Payload| match p {
        Payload::PaddedU(v, n) => leb::enc_uleb_padded(*v, *n, &mut e.buf),
        _ => leb::enc_uleb(p.int(), &mut e.buf),
    };
    match fk {
        FK::Addr => put_uint(e, p.int(), cfg.asz as usize),
        FK::BlockN(n) => {
            put_uint(e, p.bytes().len() as u64, n as usize);
            e.buf.extend_from_slice(p.bytes());
        }
        FK::BlockU | FK::Exprloc => {
            leb::enc_uleb(p.bytes().len() as u64, &mut e.buf);
            e.buf.extend_from_slice(p.bytes());
        }
        FK::Data(n) => put_uint(e, p.int(), n as usize),
        FK::Data16 => {
            let v = p.wide();
            if cfg.big {
                put_uint(e, (v >> 64) as u64, 8);
                put_uint(e, v as u64, 8);
            } else {
                put_uint(e, v as u64, 8);
                put_uint(e, (v >> 64) as u64, 8);
            }
        }
        FK::Sdata => match p {
            Payload::PaddedS(v, n) => enc_sleb_padded(*v, *n, &mut e.buf),
            _ => leb::enc_sleb(p.sint(), &mut e.buf),
        },
        FK::Udata | FK::RefUdata | FK::StrxU | FK::AddrxU | FK::Loclistx | FK::Rnglistx => uleb(e, p),
        FK::Flag => put_uint(e, p.int(), 1),
        FK::FlagPresent | FK::ImplicitConst => {}
        FK::SecOffset | FK::GnuRefAlt | FK::Strp | FK::StrpSup | FK::LineStrp => put_uint(e, p.int(), cfg.off_size()),
        FK::RefN(n) | FK::RefSup(n) | FK::StrxN(n) | FK::AddrxN(n) => put_uint(e, p.int(), n as usize),
        FK::RefAddr => put_uint(e, p.int(), if cfg.version == 2 { cfg.asz as usize } else { cfg.off_size() }),
        FK::RefSig8 => put_uint(e, p.int(), 8),
        FK::String => {
            e.buf.extend_from_slice(p.bytes());
            e.buf.push(0);
        }
        FK::Indirect => {
            if let Payload::Indirect(code, inner) = p {
                leb::enc_uleb(*code as u64, &mut e.buf);
                if let Some(k) = form_kind(*code) {
                    emit(e, cfg, k, inner);
                }
            }
        }
    }
}

/// The value DWARF assigns to the encoding produced by `emit` (before any
/// name-dependent interpretation). `implicit` is the abbreviation's constant.
pub fn raw_pv(fk: FK, p: &Payload, implicit: i64) -> PV {
    match fk {
        FK::Addr => PV::Addr(p.int()),
        FK::BlockN(_) | FK::BlockU => PV::Block(p.bytes().to_vec()),
        FK::Data(1) => PV::Data1(p.int() as u8),
        FK::Data(2) => PV::Data2(p.int() as u16),
        FK::Data(4) => PV::Data4(p.int() as u32),
        FK::Data(_) => PV::Data8(p.int()),
        FK::Data16 => PV::Data16(p.wide()),
        FK::Sdata => PV::Sdata(p.sint()),
        FK::Udata => PV::Udata(p.int()),
        FK::Exprloc => PV::Exprloc(p.bytes().to_vec()),
        FK::Flag => PV::Flag(p.int() != 0),
        FK::FlagPresent => PV::Flag(true),
        FK::SecOffset => PV::SecOffset(p.int()),
        FK::RefN(_) | FK::RefUdata => PV::UnitRef(p.int()),
        FK::RefAddr => PV::DebugInfoRef(p.int()),
        FK::RefSig8 => PV::DebugTypesRef(p.int()),
        FK::RefSup(_) | FK::GnuRefAlt => PV::DebugInfoRefSup(p.int()),
        FK::String => PV::String(p.bytes().to_vec()),
        FK::Strp => PV::DebugStrRef(p.int()),
        FK::StrpSup => PV::DebugStrRefSup(p.int()),
        FK::LineStrp => PV::DebugLineStrRef(p.int()),
        FK::ImplicitConst => PV::Sdata(implicit),
        FK::StrxU | FK::StrxN(_) => PV::DebugStrOffsetsIndex(p.int()),
        FK::AddrxU | FK::AddrxN(_) => PV::DebugAddrIndex(p.int()),
        FK::Loclistx => PV::DebugLocListsIndex(p.int()),
        FK::Rnglistx => PV::DebugRngListsIndex(p.int()),
        FK::Indirect => match p {
            Payload::Indirect(code, inner) => match form_kind(*code) {
                Some(k) => raw_pv(k, inner, implicit),
                None => PV::Flag(false),
            },
            _ => PV::Flag(false),
        },
    }
}

/// The form kind that finally carries the value (through indirection).
pub fn final_kind(fk: FK, p: &Payload) -> Option<FK> {
    match (fk, p) {
        (FK::Indirect, Payload::Indirect(code, inner)) => form_kind(*code).and_then(|k| final_kind(k, inner)),
        (FK::Indirect, _) => None,
        (k, _) => Some(k),
    }
}

/// Fixed encoded size of a form under `cfg`, if the standard fixes it.
pub fn fixed_size(cfg: Cfg, fk: FK) -> Option<usize> {
    Some(match fk {
        FK::Addr => cfg.asz as usize,
        FK::Data(n) | FK::RefN(n) | FK::RefSup(n) | FK::StrxN(n) | FK::AddrxN(n) => n as usize,
        FK::Data16 => 16,
        FK::Flag => 1,
        FK::FlagPresent | FK::ImplicitConst => 0,
        FK::SecOffset | FK::GnuRefAlt | FK::Strp | FK::StrpSup | FK::LineStrp => cfg.off_size(),
        FK::RefAddr => {
            if cfg.version == 2 {
                cfg.asz as usize
            } else {
                cfg.off_size()
            }
        }
        FK::RefSig8 => 8,
        _ => return None,
    })
}

// ---------------------------------------------------------------------------
// Abbreviations

#[derive(Clone, Debug)]
pub struct AbbrevDecl {
    pub code: u64,
    pub tag: u16,
    pub children: bool,
    /// (name, form, implicit const value used when form == implicit_const)
    pub attrs: Vec<(u16, u16, i64)>,
}

pub fn encode_abbrev_decl(e: &mut Enc, d: &AbbrevDecl) {
    leb::enc_uleb(d.code, &mut e.buf);
    leb::enc_uleb(d.tag as u64, &mut e.buf);
    e.buf.push(if d.children { 1 } else { 0 }); // DW_CHILDREN_yes = 1, DW_CHILDREN_no = 0
    for &(n, f, ic) in &d.attrs {
        leb::enc_uleb(n as u64, &mut e.buf);
        leb::enc_uleb(f as u64, &mut e.buf);
        if f == F_IMPLICIT_CONST {
            leb::enc_sleb(ic, &mut e.buf);
        }
    }
    e.buf.push(0);
    e.buf.push(0);
}

/// One abbreviation table (declarations in the given order, null terminated).
pub fn encode_abbrev_table(decls: &[AbbrevDecl]) -> Vec<u8> {
    let mut e = Enc::new(false);
    for d in decls {
        encode_abbrev_decl(&mut e, d);
    }
    e.buf.push(0);
    e.buf
}

// ---------------------------------------------------------------------------
// Unit headers

#[derive(Clone, Copy, Debug, PartialEq, Eq, Hash)]
pub enum UKind {
    /// v2-4: a unit in .debug_info; v5: DW_UT_compile
    Compile,
    /// v2-4: a unit in .debug_types; v5: DW_UT_type (in .debug_info)
    Type,
    Partial,
    Skeleton,
    SplitCompile,
    SplitType,
}

impl UKind {
    pub fn for_version(v: u16) -> &'static [UKind] {
        if v >= 5 {
            &[UKind::Compile, UKind::Type, UKind::Partial, UKind::Skeleton, UKind::SplitCompile, UKind::SplitType]
        } else {
            &[UKind::Compile, UKind::Type]
        }
    }
    pub fn name(&self) -> &'static str {
        match self {
            UKind::Compile => "compile",
            UKind::Type => "type",
            UKind::Partial => "partial",
            UKind::Skeleton => "skeleton",
            UKind::SplitCompile => "split_compile",
            UKind::SplitType => "split_type",
        }
    }
}

#[derive(Clone, Copy, Debug)]
pub struct HeaderSpec {
    pub cfg: Cfg,
    pub kind: UKind,
    pub abbrev_off: u64,
    /// type signature (type units) or DWO id (skeleton / split compile)
    pub id: u64,
    /// type units: unit offset of the type DIE
    pub type_off: u64,
}

impl HeaderSpec {
    pub fn in_debug_types(&self) -> bool {
        self.cfg.version < 5 && self.kind == UKind::Type
    }
    pub fn initial_length_size(&self) -> u64 {
        if self.cfg.fmt64 {
            12
        } else {
            4
        }
    }
    /// DWARF 5 section 7.5.1.1-7.5.1.3; DWARF 4 section 7.5.1.1/7.5.1.2.
    pub fn header_size(&self) -> u64 {
        let off = self.cfg.off_size() as u64;
        let common = self.initial_length_size() + 2 + off + 1 + if self.cfg.version >= 5 { 1 } else { 0 };
        common
            + match self.kind {
                UKind::Compile | UKind::Partial => 0,
                UKind::Skeleton | UKind::SplitCompile => 8,
                UKind::Type | UKind::SplitType => 8 + off,
            }
    }
}

/// Encode one unit: header + DIE bytes. Returns the bytes.
pub fn encode_unit(h: &HeaderSpec, dies: &[u8]) -> Vec<u8> {
    let c = h.cfg;
    let mut b = Enc::new(c.big);
    b.raw_uint(c.version as u64, 2);
    if c.version >= 5 {
        let ut = match h.kind {
            UKind::Compile => DW_UT_COMPILE,
            UKind::Type => DW_UT_TYPE,
            UKind::Partial => DW_UT_PARTIAL,
            UKind::Skeleton => DW_UT_SKELETON,
            UKind::SplitCompile => DW_UT_SPLIT_COMPILE,
            UKind::SplitType => DW_UT_SPLIT_TYPE,
        };
        b.raw_uint(ut as u64, 1);
        b.raw_uint(c.asz as u64, 1);
        b.raw_uint(h.abbrev_off, c.off_size());
    } else {
        b.raw_uint(h.abbrev_off, c.off_size());
        b.raw_uint(c.asz as u64, 1);
    }
    match h.kind {
        UKind::Compile | UKind::Partial => {}
        UKind::Skeleton | UKind::SplitCompile => b.raw_uint(h.id, 8),
        UKind::Type | UKind::SplitType => {
            b.raw_uint(h.id, 8);
            b.raw_uint(h.type_off, c.off_size());
        }
    }
    b.buf.extend_from_slice(dies);
    let mut out = Enc::new(c.big);
    out.with_length(c.fmt64, &b);
    out.buf
}

// ---------------------------------------------------------------------------
// DIE forests

#[derive(Clone, Copy, Debug, PartialEq, Eq, Hash)]
pub enum SibTarget {
    /// the next sibling entry, or the null closing the parent's child list, or
    /// (top level) whatever follows the subtree
    Next,
    /// the entry's own offset (must be ignored)
    SelfOff,
    /// the offset of the preceding stream element (must be ignored)
    Back,
    /// zero (must be ignored)
    Zero,
}

#[derive(Clone, Debug)]
pub enum AVal {
    P(Payload),
    Sibling(SibTarget),
}

#[derive(Clone, Debug)]
pub struct AttrSpec {
    pub name: u16,
    pub form: u16,
    /// actual form when `form` is DW_FORM_indirect and the value is a sibling reference
    pub inner: u16,
    pub implicit: i64,
    pub val: AVal,
}

#[derive(Clone, Debug)]
pub struct NodeSpec {
    /// usize::MAX for top-level entries
    pub parent: usize,
    pub tag: u16,
    pub children_flag: bool,
    pub code: u64,
    pub attrs: Vec<AttrSpec>,
}

#[derive(Clone, Debug, PartialEq, Eq)]
pub struct Elem {
    /// unit offset
    pub off: u64,
    /// depth with the first top-level entry at 0
    pub depth: isize,
    /// None = null entry
    pub node: Option<usize>,
}

#[derive(Clone, Debug)]
pub struct NodeModel {
    pub parent: Option<usize>,
    pub children: Vec<usize>,
    pub tag: u16,
    pub children_flag: bool,
    pub code: u64,
    pub attrs: Vec<(u16, u16, PV)>,
    /// index into `elems`
    pub elem: usize,
    /// index of the stream element following this entry's subtree
    pub after: usize,
}

#[derive(Clone, Debug)]
pub struct UnitModel {
    pub h: HeaderSpec,
    /// offset of the unit in its section
    pub unit_off: u64,
    pub hsize: u64,
    /// value of the unit_length field
    pub unit_len: u64,
    /// unit offset one past the last byte
    pub end: u64,
    pub elems: Vec<Elem>,
    /// depth after the last element (what a further element would have)
    pub end_depth: isize,
    pub nodes: Vec<NodeModel>,
    pub bytes: Vec<u8>,
}

impl UnitModel {
    pub fn elem_index_at(&self, off: u64) -> Option<usize> {
        self.elems.iter().position(|e| e.off == off)
    }
}

/// Abbreviation declarations for a forest: one per node, in node order.
pub fn forest_abbrevs(nodes: &[NodeSpec]) -> Vec<AbbrevDecl> {
    nodes
        .iter()
        .map(|n| AbbrevDecl { code: n.code, tag: n.tag, children: n.children_flag, attrs: n.attrs.iter().map(|a| (a.name, a.form, a.implicit)).collect() })
        .collect()
}

fn sib_form_kind(a: &AttrSpec) -> FK {
    let f = if a.form == F_INDIRECT { a.inner } else { a.form };
    form_kind(f).expect("sibling form")
}

/// Build the unit for a forest. `pad` = number of null entries after the last
/// top-level subtree.
pub fn build_unit(h: HeaderSpec, unit_off: u64, nodes: &[NodeSpec], pad: usize) -> UnitModel {
    let n = nodes.len();
    let hsize = h.header_size();
    let mut children: Vec<Vec<usize>> = vec![vec![]; n];
    let mut tops = vec![];
    for (i, nd) in nodes.iter().enumerate() {
        if nd.parent == usize::MAX {
            tops.push(i);
        } else {
            assert!(nd.parent < i, "preorder parent vector");
            children[nd.parent].push(i);
        }
    }
    for (i, nd) in nodes.iter().enumerate() {
        assert!(nd.children_flag || children[i].is_empty(), "node with children must be flagged");
    }
    // sibling values, refined to a fixed point (ref_udata sizes depend on them)
    let mut sib: Vec<u64> = vec![0; n];
    let mut result = None;
    for _round in 0..24 {
        let mut e = Enc::new(h.cfg.big);
        let mut elems: Vec<Elem> = vec![];
        let mut node_elem = vec![0usize; n];
        let mut node_after = vec![0usize; n];
        // iterative preorder emission
        fn emit_node(i: usize, depth: isize, nodes: &[NodeSpec], children: &[Vec<usize>], h: &HeaderSpec, hsize: u64, unit_off: u64, sib: &[u64], e: &mut Enc, elems: &mut Vec<Elem>, node_elem: &mut [usize], node_after: &mut [usize]) {
            let nd = &nodes[i];
            node_elem[i] = elems.len();
            elems.push(Elem { off: hsize + e.buf.len() as u64, depth, node: Some(i) });
            leb::enc_uleb(nd.code, &mut e.buf);
            for a in &nd.attrs {
                let fk = form_kind(a.form).expect("known form in forest");
                match &a.val {
                    AVal::P(p) => emit(e, h.cfg, fk, p),
                    AVal::Sibling(_) => {
                        let k = sib_form_kind(a);
                        let v = if k == FK::RefAddr { unit_off + sib[i] } else { sib[i] };
                        if a.form == F_INDIRECT {
                            emit(e, h.cfg, FK::Indirect, &Payload::Indirect(a.inner, Box::new(Payload::Int(v))));
                        } else {
                            emit(e, h.cfg, k, &Payload::Int(v));
                        }
                    }
                }
            }
            if nd.children_flag {
                for &c in &children[i] {
                    emit_node(c, depth + 1, nodes, children, h, hsize, unit_off, sib, e, elems, node_elem, node_after);
                }
                elems.push(Elem { off: hsize + e.buf.len() as u64, depth: depth + 1, node: None });
                e.buf.push(0);
            }
            node_after[i] = elems.len();
        }
        for &t in &tops {
            emit_node(t, 0, nodes, &children, &h, hsize, unit_off, &sib, &mut e, &mut elems, &mut node_elem, &mut node_after);
        }
        let mut d = 0isize;
        for _ in 0..pad {
            elems.push(Elem { off: hsize + e.buf.len() as u64, depth: d, node: None });
            e.buf.push(0);
            d -= 1;
        }
        let end = hsize + e.buf.len() as u64;
        // recompute sibling values
        let mut new_sib = vec![0u64; n];
        for i in 0..n {
            let target = nodes[i].attrs.iter().find_map(|a| if let AVal::Sibling(t) = a.val { Some(t) } else { None });
            new_sib[i] = match target {
                None => 0,
                Some(SibTarget::Next) => elems.get(node_after[i]).map(|x| x.off).unwrap_or(end),
                Some(SibTarget::SelfOff) => elems[node_elem[i]].off,
                Some(SibTarget::Back) => {
                    if node_elem[i] > 0 {
                        elems[node_elem[i] - 1].off
                    } else {
                        hsize.saturating_sub(1)
                    }
                }
                Some(SibTarget::Zero) => 0,
            };
        }
        if new_sib == sib {
            result = Some((e.buf, elems, node_elem, node_after, end, d));
            break;
        }
        sib = new_sib;
    }
    let (dies, elems, node_elem, node_after, end, end_depth) = result.expect("sibling offsets did not converge");
    let bytes = encode_unit(&h, &dies);
    assert_eq!(bytes.len() as u64, end, "header size model vs encoder");
    // expected attribute values
    let mut nm = vec![];
    for (i, nd) in nodes.iter().enumerate() {
        let mut attrs = vec![];
        for a in &nd.attrs {
            let fk = form_kind(a.form).unwrap();
            let pv = match &a.val {
                AVal::P(p) => raw_pv(fk, p, a.implicit),
                AVal::Sibling(_) => {
                    let k = sib_form_kind(a);
                    let v = if k == FK::RefAddr { unit_off + sib[i] } else { sib[i] };
                    raw_pv(k, &Payload::Int(v), 0)
                }
            };
            attrs.push((a.name, a.form, pv));
        }
        nm.push(NodeModel {
            parent: if nd.parent == usize::MAX { None } else { Some(nd.parent) },
            children: children[i].clone(),
            tag: nd.tag,
            children_flag: nd.children_flag,
            code: nd.code,
            attrs,
            elem: node_elem[i],
            after: node_after[i],
        });
    }
    // self-check: the depths assigned from the tree structure equal the running
    // "+1 on children flag, -1 on null" counter of DWARF 5 section 7.5.3
    let mut run = 0isize;
    for el in &elems {
        assert_eq!(el.depth, run, "tree depth vs running depth");
        match el.node {
            None => run -= 1,
            Some(i) => {
                if nodes[i].children_flag {
                    run += 1
                }
            }
        }
    }
    assert_eq!(run, end_depth);
    let unit_len = end - h.initial_length_size();
    UnitModel { h, unit_off, hsize, unit_len, end, elems, end_depth, nodes: nm, bytes }
}

/// What one reported stream element must look like.
#[derive(Clone, Debug, PartialEq, Eq)]
pub struct Obs {
    pub off: u64,
    pub depth: isize,
    pub null: bool,
    pub tag: u16,
    pub children: bool,
    pub attrs: Vec<(u16, u16, PV)>,
}

impl UnitModel {
    /// Expected observation of element `j` when reading started at element `start`.
    pub fn expect(&self, j: usize, start: usize) -> Obs {
        let el = &self.elems[j];
        let depth = el.depth - self.elems[start].depth;
        match el.node {
            None => Obs { off: el.off, depth, null: true, tag: 0, children: false, attrs: vec![] },
            Some(i) => {
                let n = &self.nodes[i];
                Obs { off: el.off, depth, null: false, tag: n.tag, children: n.children_flag, attrs: n.attrs.clone() }
            }
        }
    }
    pub fn render(&self) -> String {
        let mut s = format!("{} {} unit@{:#x} hdr {} len {:#x} abbrev@{:#x} bytes {} | ", self.h.cfg.render(), self.h.kind.name(), self.unit_off, self.hsize, self.unit_len, self.h.abbrev_off, mcx::hex(&self.bytes));
        for el in &self.elems {
            match el.node {
                None => s.push_str(&format!("[{:#x} d{} null] ", el.off, el.depth)),
                Some(i) => {
                    let n = &self.nodes[i];
                    s.push_str(&format!("[{:#x} d{} code {:#x} tag {:#x} ch {} attrs {:?}] ", el.off, el.depth, n.code, n.tag, n.children_flag, n.attrs));
                }
            }
        }
        s
    }
}

// ---------------------------------------------------------------------------
// Abbreviation code schemes

#[derive(Clone, Copy, Debug, PartialEq, Eq, Hash)]
pub enum CodeScheme {
    Sequential,
    Reversed,
    Rotated,
    Sparse,
    AboveU32,
    NearU64Max,
}

pub const CODE_SCHEMES: [CodeScheme; 6] = [CodeScheme::Sequential, CodeScheme::Reversed, CodeScheme::Rotated, CodeScheme::Sparse, CodeScheme::AboveU32, CodeScheme::NearU64Max];

impl CodeScheme {
    /// Code of the i-th of n declarations (declaration order = node order).
    pub fn code(&self, i: usize, n: usize) -> u64 {
        match self {
            CodeScheme::Sequential => i as u64 + 1,
            CodeScheme::Reversed => (n - i) as u64,
            CodeScheme::Rotated => ((i + 1) % n) as u64 + 1,
            CodeScheme::Sparse => [1u64, 3, 1000, 2, 128, 16384, 0x20_0000, 7, 6, 99][i],
            CodeScheme::AboveU32 => (1u64 << 32) + 1 + i as u64,
            CodeScheme::NearU64Max => u64::MAX - i as u64,
        }
    }
}
