//! Tree API operation sequences: EntriesTree::root, EntriesTreeNode::children,
//! EntriesTreeIter::next, abandoning an iterator.
use super::*;
use gimli::{EntriesTree, EntriesTreeIter, EntriesTreeNode};

#[derive(Clone, Copy, Debug, PartialEq, Eq)]
pub enum Act {
    /// tree.root(): enabled when no iterator/node is alive (start, or after going up past the root)
    Root,
    /// iterator.next()
    Next,
    /// node.children(): enabled right after an operation that produced a node
    Descend,
    /// drop the innermost iterator (abandon the rest of this child list)
    Up,
}
pub const ACTS: [Act; 4] = [Act::Root, Act::Next, Act::Descend, Act::Up];

enum Flow {
    /// the sequence ended
    Done,
    /// the action that follows is not for this node: the node is dropped
    NodeDropped,
    /// the innermost iterator was dropped
    Up,
    /// an action was not enabled in the state it met: the sequence is not a history
    Pruned,
}

struct Env<'x> {
    um: &'x UnitModel,
    start: usize,
    acts: &'x [Act],
    pos: usize,
    steps: u64,
    seen: Vec<&'static str>,
}

type TR<T> = Result<T, String>;

fn at_node<'a, 't>(env: &mut Env, node: EntriesTreeNode<'a, 't, R<'_>>, i: usize) -> gimli::Result<TR<Flow>> {
    // rustdoc: entry() "Returns the current entry in the tree"; depth relative to the start entry
    let want = env.um.expect(env.um.nodes[i].elem, env.start);
    let got = obs_entry(node.entry());
    if got != want {
        return Ok(Err(format!("node entry {:?} want {:?}", got, want)));
    }
    match env.acts.get(env.pos) {
        None => Ok(Ok(Flow::Done)),
        Some(Act::Descend) => {
            env.pos += 1;
            env.steps += 1;
            env.seen.push("tree:descend");
            let it = node.children();
            in_iter(env, it, i)
        }
        Some(_) => Ok(Ok(Flow::NodeDropped)),
    }
}

fn in_iter<'a, 't>(env: &mut Env, mut it: EntriesTreeIter<'a, 't, R<'_>>, parent: usize) -> gimli::Result<TR<Flow>> {
    // the model of an iterator: the k-th call of next() yields the k-th child of
    // `parent`, whatever was done with the previously yielded nodes
    let mut k = 0usize;
    loop {
        let Some(&a) = env.acts.get(env.pos) else { return Ok(Ok(Flow::Done)) };
        env.pos += 1;
        match a {
            Act::Next => {
                env.steps += 1;
                let kids = &env.um.nodes[parent].children;
                match it.next()? {
                    None => {
                        if k < kids.len() {
                            return Ok(Err(format!("children of node {} ended after {} of {}", parent, k, kids.len())));
                        }
                        env.seen.push("tree:next:none");
                    }
                    Some(ch) => {
                        if k >= kids.len() {
                            return Ok(Err(format!("node {} yielded extra child {:?}", parent, obs_entry(ch.entry()))));
                        }
                        env.seen.push("tree:next:child");
                        let ci = kids[k];
                        k += 1;
                        match at_node(env, ch, ci)? {
                            Err(e) => return Ok(Err(e)),
                            Ok(Flow::NodeDropped) | Ok(Flow::Up) => {}
                            Ok(f) => return Ok(Ok(f)),
                        }
                    }
                }
            }
            Act::Up => {
                env.steps += 1;
                env.seen.push("tree:up");
                return Ok(Ok(Flow::Up));
            }
            Act::Root | Act::Descend => return Ok(Ok(Flow::Pruned)),
        }
    }
}

/// Run one action sequence from scratch. Ok(true) = a complete enabled history.
fn run_seq(env: &mut Env, tree: &mut EntriesTree<'_, R<'_>>) -> gimli::Result<TR<bool>> {
    let mut roots = 0;
    loop {
        let Some(&a) = env.acts.get(env.pos) else { return Ok(Ok(true)) };
        env.pos += 1;
        if a != Act::Root {
            return Ok(Ok(false));
        }
        env.steps += 1;
        roots += 1;
        if roots > 1 {
            env.seen.push("tree:root-again");
        }
        let root_node = env.um.elems[env.start].node;
        let node = match (tree.root(), root_node) {
            (Ok(n), Some(_)) => n,
            (Err(gimli::Error::NoEntryAtGivenOffset(x)), None) if x == env.um.elems[env.start].off => continue,
            (Err(e), _) => return Err(e),
            (Ok(n), None) => return Ok(Err(format!("root() at a null entry returned {:?}", obs_entry(n.entry())))),
        };
        match at_node(env, node, root_node.unwrap())? {
            Err(e) => return Ok(Err(e)),
            Ok(Flow::Done) => return Ok(Ok(true)),
            Ok(Flow::Pruned) => return Ok(Ok(false)),
            Ok(Flow::NodeDropped) | Ok(Flow::Up) => {}
        }
    }
}

/// Every tree-API sequence of length 1..=maxlen from the unit root of an already built
/// unit (used for units whose DW_AT_sibling placement is an arbitrary subset of entries:
/// a pointer on a deeper entry while the skipped entry at the iterated level has none).
pub fn check_root_sequences(ctx: &mut Ctx, b: &Built, um: &UnitModel, h: &UnitHeader<R<'_>>, ab: &Abbreviations, maxlen: u32) {
    let nseq = mcx::space::seq_count(4, 1, maxlen);
    let mut steps = 0u64;
    for si in 0..nseq {
        let acts: Vec<Act> = mcx::space::seq_decode(4, 1, maxlen, si).into_iter().map(|x| ACTS[x]).collect();
        let mut env = Env { um, start: 0, acts: &acts, pos: 0, steps: 0, seen: vec![] };
        let r = guard(|| -> gimli::Result<TR<bool>> {
            let mut tree = h.entries_tree(ab, None)?;
            run_seq(&mut env, &mut tree)
        });
        steps += env.steps;
        let render = || format!("sequence {:?} (failed at action {}) from the root on {}", acts, env.pos, b.render());
        match r {
            Err(pn) => {
                ctx.fail_panic("EntriesTree", &pn, render());
                break;
            }
            Ok(Err(e)) => {
                ctx.fail("EntriesTree", "ok-on-well-formed", "error-on-well-formed", format!("{:?} on {}", e, render()));
                break;
            }
            Ok(Ok(Err(d))) => {
                ctx.fail("EntriesTree", "iterator-yields-children-in-order", "wrong-tree", format!("{} on {}", d, render()));
                break;
            }
            Ok(Ok(Ok(_))) => {}
        }
    }
    ctx.eval(steps);
    ctx.transitions += steps;
}

pub fn sub_tree_sequences(tier: Tier) -> Sub {
    let maxn = tier.pick(4, 5);
    let maxlen = tier.pick(6u32, 8u32);
    let cs = combos(1, maxn);
    let slots = (2 * maxn + 1 + 1) as u64;
    let sibs = [SIB_MODES[0], SIB_MODES[1], SIB_MODES[6], SIB_MODES[9]];
    let nseq = mcx::space::seq_count(4, 1, maxlen);
    let len = cs.len() as u64 * 2 * sibs.len() as u64 * slots;
    let bound = format!(
        "every sequence of length 1..={} over {{root(), iter.next(), node.children(), drop innermost iterator}} ({} sequences, those meeting a disabled action are pruned) re-executed from scratch, for every unit with 1..={} nodes x leaf flags x padding {{0,1}} x 4 sibling modes x every start position entries_tree(None | Some(every stream element offset)); an iterator must yield exactly the children of its node in order, whatever was done below the nodes it yielded before",
        maxlen, nseq, maxn
    );
    Sub::new("tree-sequences", len, &bound, move |ctx, i| {
        let mut mx = Mix(i);
        let slot = mx.take(slots) as usize;
        let sib = *mx.pick(&sibs);
        let pad = mx.take(2) as usize;
        let combo = &cs[mx.take(cs.len() as u64) as usize];
        let (cfg, kind) = SHAPE_CFGS[pad];
        let nodes = make_nodes(combo, sib, CodeScheme::Rotated, true);
        let b = build(cfg, kind, &nodes, pad, false, 0, 0, 0);
        let um = &b.units[0];
        if slot > um.elems.len() {
            ctx.outcome("tree-sequences:index-slot-unused");
            return;
        }
        let Some(p) = parse_and_check_headers(ctx, &b) else { return };
        let (h, ab) = (&p.headers[0], &p.abbrevs[0]);
        let start = slot.saturating_sub(1);
        let off = if slot == 0 { None } else { Some(UnitOffset(um.elems[start].off as usize)) };
        let mut steps = 0u64;
        let mut histories = 0u64;
        let mut seen_all: std::collections::BTreeSet<&'static str> = Default::default();
        for si in 0..nseq {
            let acts: Vec<Act> = mcx::space::seq_decode(4, 1, maxlen, si).into_iter().map(|x| ACTS[x]).collect();
            let mut env = Env { um, start, acts: &acts, pos: 0, steps: 0, seen: vec![] };
            let r = guard(|| -> gimli::Result<TR<bool>> {
                let mut tree = h.entries_tree(ab, off)?;
                run_seq(&mut env, &mut tree)
            });
            steps += env.steps;
            let render = || format!("sequence {:?} (failed at action {}) start slot {} on {}", acts, env.pos, slot, b.render());
            match r {
                Err(pn) => {
                    ctx.fail_panic("EntriesTree", &pn, render());
                    break;
                }
                Ok(Err(e)) => {
                    ctx.fail("EntriesTree", "ok-on-well-formed", "error-on-well-formed", format!("{:?} on {}", e, render()));
                    break;
                }
                Ok(Ok(Err(d))) => {
                    ctx.fail("EntriesTree", "iterator-yields-children-in-order", "wrong-tree", format!("{} on {}", d, render()));
                    break;
                }
                Ok(Ok(Ok(complete))) => {
                    if complete {
                        histories += 1;
                        seen_all.extend(env.seen.iter());
                    }
                }
            }
        }
        ctx.eval(steps);
        ctx.transitions += steps;
        ctx.traces += histories;
        ctx.nontriv(histories);
        for s in seen_all {
            ctx.outcome(s);
        }
        if ctx.want_sample() {
            ctx.sample(format!("start slot {}: {} enabled histories of {} sequences, {} API calls :: {}", slot, histories, nseq, steps, b.render()));
        }
    })
}
