//! Abbreviation sets: every code sequence over a small alphabet, lookup of
//! every code, duplicate rejection.
use super::*;

pub const CODE_ALPHABET: [u64; 8] = [1, 2, 3, 4, 5, 7, 1 << 32, u64::MAX];
/// codes that are looked up in every accepted table (present or not)
const PROBES: [u64; 14] = [0, 1, 2, 3, 4, 5, 6, 7, 8, (1 << 32) - 1, 1 << 32, (1 << 32) + 1, u64::MAX - 1, u64::MAX];

fn decl_for(pos: usize, code: u64) -> AbbrevDecl {
    // every declaration is distinguishable: tag, children flag and attribute list depend on the position
    let nattr = pos % 4 + if pos == 5 { 3 } else { 0 }; // position 5 has 6 attributes (beyond gimli's inline capacity of 5)
    let attrs = (0..nattr).map(|k| (0x2200 + (pos * 8 + k) as u16, [F_DATA1, F_STRING, F_UDATA, F_IMPLICIT_CONST, F_REF4, F_FLAG_PRESENT][k % 6], -(pos as i64) - 1)).collect();
    AbbrevDecl { code, tag: 0x100 + pos as u16, children: pos % 2 == 0, attrs }
}

pub fn sub_abbrev_sets(tier: Tier) -> Sub {
    let maxlen = tier.pick(5u32, 6u32);
    let n = mcx::space::seq_count(8, 0, maxlen);
    let bound = format!(
        "every sequence of 0..={} abbreviation codes over {{1,2,3,4,5,7,2^32,2^64-1}} ({} tables, declaration order = sequence order, every declaration distinguishable) x table at offset 0 / behind another table; accepted iff no code repeats (else DuplicateAbbreviationCode(first repeated code)); get(c) for 14 probe codes incl. 0, absent, 2^32+-1, 2^64-2",
        maxlen, n
    );
    Sub::new("abbreviation-sets", n * 2, &bound, move |ctx, i| {
        let behind = i % 2 == 1;
        let seq: Vec<u64> = mcx::space::seq_decode(8, 0, maxlen, i / 2).into_iter().map(|x| CODE_ALPHABET[x]).collect();
        let decls: Vec<AbbrevDecl> = seq.iter().enumerate().map(|(p, &c)| decl_for(p, c)).collect();
        let mut sec = vec![];
        if behind {
            // a table with the codes 1..=3 and 7 in front: must not leak into the table under test
            let front: Vec<AbbrevDecl> = [1u64, 2, 3, 7].iter().enumerate().map(|(p, &c)| decl_for(p + 6, c)).collect();
            sec.extend(encode_abbrev_table(&front));
        }
        let off = sec.len();
        sec.extend(encode_abbrev_table(&decls));
        // something after the table must not be read
        sec.extend_from_slice(&[0x09, 0x11, 0x01, 0x00, 0x00, 0x00]);
        let case = || format!("codes {:x?} at offset {} section {}", seq, off, mcx::hex(&sec));
        if ctx.want_sample() {
            ctx.sample(case());
        }
        ctx.eval(1);
        let da = gimli::DebugAbbrev::new(&sec, gimli::LittleEndian);
        let r = match guard(|| da.abbreviations(gimli::DebugAbbrevOffset(off))) {
            Err(p) => {
                ctx.fail_panic("DebugAbbrev::abbreviations", &p, case());
                return;
            }
            Ok(r) => r,
        };
        // first repeated code
        let dup = (0..seq.len()).find(|&k| seq[..k].contains(&seq[k])).map(|k| seq[k]);
        match (r, dup) {
            (Err(gimli::Error::DuplicateAbbreviationCode(c)), Some(d)) => {
                if c != d {
                    ctx.fail("DebugAbbrev::abbreviations", "duplicate-code-reported", "wrong-code-in-error", format!("got {:#x} want {:#x} on {}", c, d, case()));
                }
                ctx.outcome("abbrev:duplicate-rejected");
            }
            (Err(e), _) => ctx.fail("DebugAbbrev::abbreviations", "accepted-iff-no-duplicate", "wrong-error", format!("{:?} (duplicate: {:x?}) on {}", e, dup, case())),
            (Ok(_), Some(d)) => ctx.fail("DebugAbbrev::abbreviations", "accepted-iff-no-duplicate", "duplicate-accepted", format!("code {:#x} declared twice, table accepted on {}", d, case())),
            (Ok(a), None) => {
                ctx.outcome("abbrev:accepted");
                ctx.nontriv(1);
                for c in PROBES {
                    ctx.eval(1);
                    let want = seq.iter().position(|&x| x == c).map(|p| &decls[p]);
                    let got = match guard(|| a.get(c).cloned()) {
                        Err(p) => {
                            ctx.fail_panic("Abbreviations::get", &p, case());
                            continue;
                        }
                        Ok(g) => g,
                    };
                    let ok = match (&got, want) {
                        (None, None) => {
                            ctx.outcome("abbrev:lookup-miss");
                            true
                        }
                        (Some(g), Some(w)) => {
                            ctx.outcome("abbrev:lookup-hit");
                            g.code() == w.code
                                && g.tag().0 == w.tag
                                && g.has_children() == w.children
                                && g.attributes().len() == w.attrs.len()
                                && g.attributes().iter().zip(w.attrs.iter()).all(|(s, m)| s.name().0 == m.0 && s.form().0 == m.1 && s.implicit_const_value() == if m.1 == F_IMPLICIT_CONST { Some(m.2) } else { None })
                        }
                        _ => false,
                    };
                    if !ok {
                        ctx.fail("Abbreviations::get", "declaration-for-code", "wrong-declaration", format!("get({:#x}) = {:?} want {:?} on {}", c, got, want, case()));
                    }
                }
            }
        }
    })
}
