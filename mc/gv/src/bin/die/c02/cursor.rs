//! Cursor operation histories: explicit-state exploration of EntriesCursor
//! against a model cursor transcribed from the rustdoc.
use super::*;
use gimli::EntriesCursor;
use mcx::explore::bfs;
use std::cell::RefCell;
use std::collections::BTreeSet;

#[derive(Clone, Copy, Debug, PartialEq, Eq, Hash)]
pub enum Cur {
    /// fresh cursor: not pointing at an entry
    Init,
    /// pointing at stream element j (entry or null)
    At(usize),
    /// an operation reported the end of the entries; `depth` is Some(d) when the
    /// rustdoc fixes depth() (next_sibling: "the depth of the cursor is never
    /// changed if this method returns Ok")
    End { depth: Option<isize> },
}

/// The model: position in the element stream + what the cursor points at.
#[derive(Clone, Copy, Debug, PartialEq, Eq, Hash)]
pub struct MC {
    pub next: usize,
    pub cur: Cur,
}

#[derive(Debug, PartialEq, Eq)]
pub enum Res {
    Bool(bool),
    Entry(Option<usize>),
}

pub const ACTIONS: [&str; 3] = ["next_entry", "next_dfs", "next_sibling"];

/// Model transition. rustdoc: next_entry "Returns true if there is a next
/// entry, even if this entry is null"; next_dfs skips nulls, None at the end;
/// next_sibling: Ok(None) without moving when not on an entry, otherwise the
/// next element of the same depth (None if that is the list's null), None at
/// the end of the entries.
pub fn model_step(um: &UnitModel, start: usize, m: &mut MC, a: usize, seen: &mut BTreeSet<&'static str>) -> Res {
    let len = um.elems.len();
    match a {
        0 => {
            if m.next >= len {
                m.cur = Cur::End { depth: None };
                seen.insert("cursor:next_entry:end");
                Res::Bool(false)
            } else {
                m.cur = Cur::At(m.next);
                seen.insert(if um.elems[m.next].node.is_some() { "cursor:next_entry:entry" } else { "cursor:next_entry:null" });
                m.next += 1;
                Res::Bool(true)
            }
        }
        1 => loop {
            if m.next >= len {
                m.cur = Cur::End { depth: None };
                seen.insert("cursor:next_dfs:end");
                return Res::Entry(None);
            }
            let j = m.next;
            m.cur = Cur::At(j);
            m.next += 1;
            if um.elems[j].node.is_some() {
                seen.insert("cursor:next_dfs:entry");
                return Res::Entry(Some(j));
            }
        },
        _ => {
            let j0 = match m.cur {
                Cur::At(j) if um.elems[j].node.is_some() => j,
                _ => {
                    seen.insert("cursor:next_sibling:noop-on-null");
                    return Res::Entry(None);
                }
            };
            let d = um.elems[j0].depth;
            let mut j = m.next;
            while j < len && um.elems[j].depth != d {
                debug_assert!(um.elems[j].depth > d);
                j += 1;
            }
            if j >= len {
                m.next = len;
                m.cur = Cur::End { depth: Some(d - um.elems[start].depth) };
                seen.insert("cursor:next_sibling:end-of-unit");
                return Res::Entry(None);
            }
            m.cur = Cur::At(j);
            m.next = j + 1;
            if um.elems[j].node.is_some() {
                seen.insert("cursor:next_sibling:sibling");
                Res::Entry(Some(j))
            } else {
                seen.insert("cursor:next_sibling:closing-null");
                Res::Entry(None)
            }
        }
    }
}

pub type Fail = (String, String, String);

/// Apply action `a` to the real cursor and the model, compare everything the
/// rustdoc defines. Hard mismatches are returned; the documented-depth clause
/// is reported through `soft` so that exploration continues behind it.
pub fn real_step(um: &UnitModel, start: usize, c: &mut EntriesCursor<'_, R<'_>>, m: &mut MC, a: usize, seen: &mut BTreeSet<&'static str>, soft: &mut Vec<Fail>) -> Result<(), Fail> {
    let before = *m;
    let want = model_step(um, start, m, a, seen);
    let name = ACTIONS[a];
    let fail = |site: &str, kind: &str, d: String| -> Result<(), Fail> { Err((format!("{}/{}", name, site), kind.to_string(), format!("{} from model state {:?}: {}", name, before, d))) };
    let got = guard(|| -> gimli::Result<Res> {
        Ok(match a {
            0 => Res::Bool(c.next_entry()?),
            1 => Res::Entry(c.next_dfs()?.map(|e| e.offset().0)),
            _ => Res::Entry(c.next_sibling()?.map(|e| e.offset().0)),
        })
    });
    let got = match got {
        Err(p) => return Err((p.site(), p.kind(), format!("{} from model state {:?}: panic {}", name, before, p.msg))),
        Ok(Err(e)) => return fail("ok-on-well-formed", "error-on-well-formed", format!("{:?}", e)),
        Ok(Ok(r)) => r,
    };
    // result
    let want_r = match want {
        Res::Bool(b) => Res::Bool(b),
        Res::Entry(j) => Res::Entry(j.map(|j| um.elems[j].off as usize)),
    };
    if got != want_r {
        return fail("result", "wrong-result", format!("got {:?} want {:?} (returned entry identified by unit offset)", got, want_r));
    }
    // what the cursor points at
    match m.cur {
        Cur::At(j) => {
            let w = um.expect(j, start);
            match (c.current(), w.null) {
                (None, true) => {}
                (Some(e), false) => {
                    let g = obs_entry(e);
                    if g != w {
                        return fail("current", "wrong-entry", format!("current() {:?} want {:?}", g, w));
                    }
                }
                (g, _) => return fail("current", "null-mismatch", format!("current() {:?} want {:?}", g.map(obs_entry), w)),
            }
            if c.offset().0 as u64 != w.off {
                return fail("offset", "wrong-offset", format!("offset() {:#x} want {:#x}", c.offset().0, w.off));
            }
            if c.depth() != w.depth {
                return fail("depth", "wrong-depth", format!("depth() {} want {}", c.depth(), w.depth));
            }
        }
        Cur::End { depth } => {
            if let Some(e) = c.current() {
                return fail("current", "entry-after-end", format!("current() {:?} after the end was reported", obs_entry(e)));
            }
            if let Some(d) = depth {
                if c.depth() != d {
                    soft.push((format!("{}/depth-unchanged-on-ok", name), "depth-changed".to_string(), format!("{} from model state {:?}: returned Ok(None) at the end of the entries with depth() {} (offset() {:#x}); depth() was {} before the call and the rustdoc says it is never changed when Ok is returned", name, before, c.depth(), c.offset().0, d)));
                }
            }
        }
        Cur::Init => {
            if c.current().is_some() {
                return fail("current", "entry-before-start", "current() is Some on a cursor that did not move".into());
            }
        }
    }
    // where the next read happens
    let want_no = if m.next < um.elems.len() { um.elems[m.next].off } else { um.end };
    if c.next_offset().0 as u64 != want_no {
        return fail("next_offset", "wrong-offset", format!("next_offset() {:#x} want {:#x}", c.next_offset().0, want_no));
    }
    if m.next < um.elems.len() {
        let wd = um.elems[m.next].depth - um.elems[start].depth;
        if c.next_depth() != wd {
            return fail("next_depth", "wrong-depth", format!("next_depth() {} want {}", c.next_depth(), wd));
        }
    }
    Ok(())
}

const HIST_CFGS: [usize; 2] = [0, 1];

fn decode_unit(cs: &[Combo], mx: &mut Mix, sibs: &[SibMode], pads: &[usize]) -> (Built, SibMode) {
    let ci = HIST_CFGS[mx.take(2) as usize];
    let (cfg, kind) = SHAPE_CFGS[ci];
    let sib = *mx.pick(sibs);
    let pad = *mx.pick(pads);
    let combo = &cs[mx.take(cs.len() as u64) as usize];
    let nodes = make_nodes(combo, sib, if ci == 0 { CodeScheme::Sequential } else { CodeScheme::Sparse }, true);
    (build(cfg, kind, &nodes, pad, false, 0, 0, 0), sib)
}

#[derive(Clone)]
struct St<'a, 'b> {
    c: EntriesCursor<'a, R<'b>>,
    m: MC,
    path: Vec<u16>,
}

pub fn sub_histories(tier: Tier) -> Sub {
    let maxn = tier.pick(5, 7);
    let cs = combos(1, maxn);
    let slots = (2 * maxn + 3 + 1) as u64;
    let pads = [0usize, 1, 3];
    let len = cs.len() as u64 * 3 * SIB_MODES.len() as u64 * 2 * slots;
    let bound = format!(
        "for every unit with 1..={} nodes x leaf flags x padding {{0,1,3}} x {} sibling modes x 2 settings, and for every start position (entries() and entries_at_offset at EVERY stream element): BFS over all histories of {{next_entry,next_dfs,next_sibling}} to the fixed point (hence every sequence of every length); each transition executed on a clone of the live cursor and compared with the model (result, current(), offset(), depth(), next_offset(), next_depth())",
        maxn,
        SIB_MODES.len()
    );
    Sub::new("cursor-histories", len, &bound, move |ctx, i| {
        let mut mx = Mix(i);
        let slot = mx.take(slots) as usize;
        let (b, sib) = decode_unit(&cs, &mut mx, &SIB_MODES, &pads);
        let um = &b.units[0];
        if slot > um.elems.len() {
            ctx.outcome("cursor-histories:index-slot-unused");
            return;
        }
        let Some(p) = parse_and_check_headers(ctx, &b) else { return };
        let (h, ab) = (&p.headers[0], &p.abbrevs[0]);
        let start = slot.saturating_sub(1);
        let c0 = if slot == 0 {
            h.entries(ab)
        } else {
            match h.entries_at_offset(ab, UnitOffset(um.elems[start].off as usize)) {
                Ok(c) => c,
                Err(e) => {
                    ctx.fail("UnitHeader::entries_at_offset", "well-formed-unit-accepted", "error-on-well-formed", format!("{:?} on {}", e, b.render()));
                    return;
                }
            }
        };
        let seen = RefCell::new(BTreeSet::new());
        let soft: RefCell<Vec<(Fail, Vec<u16>)>> = RefCell::new(vec![]);
        let init = St { c: c0, m: MC { next: start, cur: Cur::Init }, path: vec![] };
        let entry = "EntriesCursor";
        let stats = bfs(
            ctx,
            entry,
            init,
            3,
            64,
            |s: &St| (s.c.next_offset().0, s.c.next_depth(), s.c.offset().0, s.c.depth(), s.c.current().map(|e| e.tag().0), s.m),
            |s, a| {
                let mut n = s.clone();
                n.path.push(a as u16);
                let mut sf = vec![];
                let r = real_step(um, start, &mut n.c, &mut n.m, a, &mut seen.borrow_mut(), &mut sf);
                for f in sf {
                    soft.borrow_mut().push((f, n.path.clone()));
                }
                match r {
                    Ok(()) => Ok(Some(n)),
                    Err((site, kind, d)) => Err((site, kind, format!("{} | start slot {} on {}", d, slot, b.render()))),
                }
            },
            |a| ACTIONS[a].to_string(),
        );
        for s in seen.borrow().iter() {
            ctx.outcome(s);
        }
        for ((site, kind, d), path) in soft.borrow().iter() {
            let ps = path.iter().map(|x| x.to_string()).collect::<Vec<_>>().join(",");
            let names = path.iter().map(|&x| ACTIONS[x as usize]).collect::<Vec<_>>().join(" ; ");
            ctx.fail_path(entry, site, kind, ps, format!("path [{}]: {} | start slot {} on {}", names, d, slot, b.render()));
        }
        ctx.nontriv(stats.states);
        ctx.outcome(&format!("cursor:closed:{}", stats.closed));
        if !stats.closed && ctx.extra.is_none() {
            ctx.machinery(format!("cursor exploration did not reach the fixed point within depth 64 on {}", b.render()));
        }
        if ctx.want_sample() {
            ctx.sample(format!("start slot {} {}: {} states {} transitions max depth {} closed {} :: {}", slot, sib.render(), stats.states, stats.transitions, stats.max_depth, stats.closed, b.render()));
        }
    })
}

pub fn sub_sequences(tier: Tier) -> Sub {
    let maxn = tier.pick(4, 5);
    let maxlen = tier.pick(7usize, 9usize);
    let cs = combos(1, maxn);
    let slots = (2 * maxn + 1 + 1) as u64;
    let sibs = [SIB_MODES[0], SIB_MODES[1], SIB_MODES[6], SIB_MODES[10]];
    let pads = [0usize, 1];
    let len = cs.len() as u64 * 2 * sibs.len() as u64 * 2 * slots;
    let bound = format!(
        "no de-duplication: EVERY sequence over {{next_entry,next_dfs,next_sibling}} of length <= {} (3^{} leaves per start) for every unit with 1..={} nodes x leaf flags x padding {{0,1}} x 4 sibling modes x 2 settings x every start position; cross-checks the state key of cursor-histories",
        maxlen, maxlen, maxn
    );
    Sub::new("cursor-sequences", len, &bound, move |ctx, i| {
        let mut mx = Mix(i);
        let slot = mx.take(slots) as usize;
        let (b, _sib) = decode_unit(&cs, &mut mx, &sibs, &pads);
        let um = &b.units[0];
        if slot > um.elems.len() {
            ctx.outcome("cursor-sequences:index-slot-unused");
            return;
        }
        let Some(p) = parse_and_check_headers(ctx, &b) else { return };
        let (h, ab) = (&p.headers[0], &p.abbrevs[0]);
        let start = slot.saturating_sub(1);
        let c0 = if slot == 0 { h.entries(ab) } else { h.entries_at_offset(ab, UnitOffset(um.elems[start].off as usize)).expect("in-bounds start") };
        struct Env<'x> {
            um: &'x UnitModel,
            start: usize,
            seen: BTreeSet<&'static str>,
            fails: Vec<(Fail, Vec<u8>)>,
            steps: u64,
        }
        fn rec(env: &mut Env, c: &EntriesCursor<'_, R<'_>>, m: MC, left: usize, path: &mut Vec<u8>) {
            if left == 0 || env.fails.len() > 4 {
                return;
            }
            for a in 0..3 {
                let mut c2 = c.clone();
                let mut m2 = m;
                path.push(a as u8);
                env.steps += 1;
                let mut sf = vec![];
                let r = real_step(env.um, env.start, &mut c2, &mut m2, a, &mut env.seen, &mut sf);
                for f in sf {
                    env.fails.push((f, path.clone()));
                }
                match r {
                    Ok(()) => rec(env, &c2, m2, left - 1, path),
                    Err(f) => env.fails.push((f, path.clone())),
                }
                path.pop();
            }
        }
        let mut env = Env { um, start, seen: BTreeSet::new(), fails: vec![], steps: 0 };
        rec(&mut env, &c0, MC { next: start, cur: Cur::Init }, maxlen, &mut vec![]);
        ctx.eval(env.steps);
        ctx.transitions += env.steps;
        ctx.traces += env.steps;
        ctx.nontriv(1);
        for s in env.seen.iter() {
            ctx.outcome(s);
        }
        for ((site, kind, d), path) in env.fails.iter() {
            let names = path.iter().map(|&x| ACTIONS[x as usize]).collect::<Vec<_>>().join(" ; ");
            ctx.fail("EntriesCursor", site, kind, format!("sequence [{}]: {} | start slot {} on {}", names, d, slot, b.render()));
        }
        if ctx.want_sample() {
            ctx.sample(format!("start slot {}: {} steps :: {}", slot, env.steps, b.render()));
        }
    })
}
