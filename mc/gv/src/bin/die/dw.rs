//! DWARF constants and class tables transcribed from the DWARF standard
//! (DWARF 5 section 7.5: tables 7.2 unit types, 7.3 tags, 7.5 attribute
//! encodings with their value classes, 7.6 attribute form encodings; DWARF 2-4
//! differences noted inline; GNU extensions as documented by GCC/binutils).
//! Nothing here is taken from gimli.
#![allow(dead_code)]

// ---- unit types (DWARF 5 table 7.2)
pub const DW_UT_COMPILE: u8 = 0x01;
pub const DW_UT_TYPE: u8 = 0x02;
pub const DW_UT_PARTIAL: u8 = 0x03;
pub const DW_UT_SKELETON: u8 = 0x04;
pub const DW_UT_SPLIT_COMPILE: u8 = 0x05;
pub const DW_UT_SPLIT_TYPE: u8 = 0x06;

// ---- tags used to identify nodes (DWARF 5 table 7.3 + vendor range ends)
pub const DW_TAG_COMPILE_UNIT: u16 = 0x11;
/// Unique tag per node index; includes multi-byte ULEB tags (0x4109
/// DW_TAG_GNU_call_site, 0xffff DW_TAG_hi_user).
pub const NODE_TAGS: [u16; 10] = [
    0x11,   // compile_unit
    0x2e,   // subprogram
    0x34,   // variable
    0x24,   // base_type
    0x13,   // structure_type
    0x0d,   // member
    0x4109, // GNU_call_site
    0xffff, // hi_user
    0x0b,   // lexical_block
    0x05,   // formal_parameter
];

// ---- forms (DWARF 5 table 7.6)
pub const F_ADDR: u16 = 0x01;
pub const F_BLOCK2: u16 = 0x03;
pub const F_BLOCK4: u16 = 0x04;
pub const F_DATA2: u16 = 0x05;
pub const F_DATA4: u16 = 0x06;
pub const F_DATA8: u16 = 0x07;
pub const F_STRING: u16 = 0x08;
pub const F_BLOCK: u16 = 0x09;
pub const F_BLOCK1: u16 = 0x0a;
pub const F_DATA1: u16 = 0x0b;
pub const F_FLAG: u16 = 0x0c;
pub const F_SDATA: u16 = 0x0d;
pub const F_STRP: u16 = 0x0e;
pub const F_UDATA: u16 = 0x0f;
pub const F_REF_ADDR: u16 = 0x10;
pub const F_REF1: u16 = 0x11;
pub const F_REF2: u16 = 0x12;
pub const F_REF4: u16 = 0x13;
pub const F_REF8: u16 = 0x14;
pub const F_REF_UDATA: u16 = 0x15;
pub const F_INDIRECT: u16 = 0x16;
pub const F_SEC_OFFSET: u16 = 0x17;
pub const F_EXPRLOC: u16 = 0x18;
pub const F_FLAG_PRESENT: u16 = 0x19;
pub const F_STRX: u16 = 0x1a;
pub const F_ADDRX: u16 = 0x1b;
pub const F_REF_SUP4: u16 = 0x1c;
pub const F_STRP_SUP: u16 = 0x1d;
pub const F_DATA16: u16 = 0x1e;
pub const F_LINE_STRP: u16 = 0x1f;
pub const F_REF_SIG8: u16 = 0x20;
pub const F_IMPLICIT_CONST: u16 = 0x21;
pub const F_LOCLISTX: u16 = 0x22;
pub const F_RNGLISTX: u16 = 0x23;
pub const F_REF_SUP8: u16 = 0x24;
pub const F_STRX1: u16 = 0x25;
pub const F_STRX2: u16 = 0x26;
pub const F_STRX3: u16 = 0x27;
pub const F_STRX4: u16 = 0x28;
pub const F_ADDRX1: u16 = 0x29;
pub const F_ADDRX2: u16 = 0x2a;
pub const F_ADDRX3: u16 = 0x2b;
pub const F_ADDRX4: u16 = 0x2c;
// GNU extensions
pub const F_GNU_ADDR_INDEX: u16 = 0x1f01;
pub const F_GNU_STR_INDEX: u16 = 0x1f02;
pub const F_GNU_REF_ALT: u16 = 0x1f20;
pub const F_GNU_STRP_ALT: u16 = 0x1f21;
/// Form codes with no assignment in DWARF 2-5 or the GNU range.
pub const UNASSIGNED_FORMS: [u16; 3] = [0x02, 0x2d, 0x1f00];

/// How a form is encoded in a DIE (DWARF 5 section 7.5.5/7.5.6).
#[derive(Clone, Copy, Debug, PartialEq, Eq)]
pub enum FK {
    /// address-size bytes
    Addr,
    /// 1/2/4-byte length, then bytes
    BlockN(u8),
    /// ULEB length, then bytes
    BlockU,
    /// fixed-size constant
    Data(u8),
    Data16,
    Sdata,
    Udata,
    /// ULEB length, then a DWARF expression
    Exprloc,
    /// one byte; non-zero = true
    Flag,
    /// no bytes; true
    FlagPresent,
    /// 4 bytes (32-bit format) or 8 bytes (64-bit format)
    SecOffset,
    /// 1/2/4/8-byte offset from the unit header
    RefN(u8),
    RefUdata,
    /// DWARF 2: address-size; DWARF 3+: offset-size
    RefAddr,
    RefSig8,
    /// 4/8-byte offset into the supplementary .debug_info
    RefSup(u8),
    /// GNU: offset-size offset into the alternate .debug_info
    GnuRefAlt,
    /// inline NUL-terminated string
    String,
    /// offset-size offset into .debug_str
    Strp,
    /// offset-size offset into the supplementary .debug_str (DW_FORM_strp_sup, DW_FORM_GNU_strp_alt)
    StrpSup,
    /// offset-size offset into .debug_line_str
    LineStrp,
    /// no bytes; the value is the SLEB in the abbreviation
    ImplicitConst,
    /// ULEB index into .debug_str_offsets (DW_FORM_strx, DW_FORM_GNU_str_index)
    StrxU,
    /// 1/2/3/4-byte index into .debug_str_offsets
    StrxN(u8),
    /// ULEB index into .debug_addr (DW_FORM_addrx, DW_FORM_GNU_addr_index)
    AddrxU,
    AddrxN(u8),
    Loclistx,
    Rnglistx,
    /// ULEB form code, then that form's encoding
    Indirect,
}

pub const FORMS: &[(u16, &str, FK)] = &[
    (F_ADDR, "addr", FK::Addr),
    (F_BLOCK2, "block2", FK::BlockN(2)),
    (F_BLOCK4, "block4", FK::BlockN(4)),
    (F_DATA2, "data2", FK::Data(2)),
    (F_DATA4, "data4", FK::Data(4)),
    (F_DATA8, "data8", FK::Data(8)),
    (F_STRING, "string", FK::String),
    (F_BLOCK, "block", FK::BlockU),
    (F_BLOCK1, "block1", FK::BlockN(1)),
    (F_DATA1, "data1", FK::Data(1)),
    (F_FLAG, "flag", FK::Flag),
    (F_SDATA, "sdata", FK::Sdata),
    (F_STRP, "strp", FK::Strp),
    (F_UDATA, "udata", FK::Udata),
    (F_REF_ADDR, "ref_addr", FK::RefAddr),
    (F_REF1, "ref1", FK::RefN(1)),
    (F_REF2, "ref2", FK::RefN(2)),
    (F_REF4, "ref4", FK::RefN(4)),
    (F_REF8, "ref8", FK::RefN(8)),
    (F_REF_UDATA, "ref_udata", FK::RefUdata),
    (F_INDIRECT, "indirect", FK::Indirect),
    (F_SEC_OFFSET, "sec_offset", FK::SecOffset),
    (F_EXPRLOC, "exprloc", FK::Exprloc),
    (F_FLAG_PRESENT, "flag_present", FK::FlagPresent),
    (F_STRX, "strx", FK::StrxU),
    (F_ADDRX, "addrx", FK::AddrxU),
    (F_REF_SUP4, "ref_sup4", FK::RefSup(4)),
    (F_STRP_SUP, "strp_sup", FK::StrpSup),
    (F_DATA16, "data16", FK::Data16),
    (F_LINE_STRP, "line_strp", FK::LineStrp),
    (F_REF_SIG8, "ref_sig8", FK::RefSig8),
    (F_IMPLICIT_CONST, "implicit_const", FK::ImplicitConst),
    (F_LOCLISTX, "loclistx", FK::Loclistx),
    (F_RNGLISTX, "rnglistx", FK::Rnglistx),
    (F_REF_SUP8, "ref_sup8", FK::RefSup(8)),
    (F_STRX1, "strx1", FK::StrxN(1)),
    (F_STRX2, "strx2", FK::StrxN(2)),
    (F_STRX3, "strx3", FK::StrxN(3)),
    (F_STRX4, "strx4", FK::StrxN(4)),
    (F_ADDRX1, "addrx1", FK::AddrxN(1)),
    (F_ADDRX2, "addrx2", FK::AddrxN(2)),
    (F_ADDRX3, "addrx3", FK::AddrxN(3)),
    (F_ADDRX4, "addrx4", FK::AddrxN(4)),
    (F_GNU_ADDR_INDEX, "GNU_addr_index", FK::AddrxU),
    (F_GNU_STR_INDEX, "GNU_str_index", FK::StrxU),
    (F_GNU_REF_ALT, "GNU_ref_alt", FK::GnuRefAlt),
    (F_GNU_STRP_ALT, "GNU_strp_alt", FK::StrpSup),
];

pub fn form_kind(code: u16) -> Option<FK> {
    FORMS.iter().find(|f| f.0 == code).map(|f| f.2)
}
pub fn form_name(code: u16) -> std::string::String {
    FORMS.iter().find(|f| f.0 == code).map(|f| f.1.to_string()).unwrap_or_else(|| format!("form{:#x}", code))
}

// ---- attributes and their value classes (DWARF 5 table 7.5)
#[derive(Clone, Copy, Debug, PartialEq, Eq)]
pub enum Cls {
    Address,
    Block,
    Constant,
    Exprloc,
    Flag,
    LinePtr,
    /// loclist (DWARF 5) / loclistptr (DWARF 3, 4): .debug_loc or .debug_loclists
    LocList,
    /// macptr into .debug_macinfo (DW_AT_macro_info)
    MacInfoPtr,
    /// macptr into .debug_macro (DW_AT_macros)
    MacroPtr,
    /// rnglist (DWARF 5) / rangelistptr (DWARF 3, 4)
    RngList,
    Reference,
    String,
    StrOffsetsPtr,
    AddrPtr,
    RngListsPtr,
    LocListsPtr,
}

/// Attributes whose constant values have a dedicated meaning (enumerations of
/// section 7.7-7.15, file indices, DWO ids).
#[derive(Clone, Copy, Debug, PartialEq, Eq)]
pub enum Special {
    None,
    Ordering,
    Language,
    Visibility,
    Inline,
    Accessibility,
    AddressClass,
    CallingConvention,
    Encoding,
    IdentifierCase,
    Virtuality,
    DecimalSign,
    Endianity,
    FileIndex,
    DwoId,
}

pub struct AtInfo {
    pub code: u16,
    pub name: &'static str,
    pub classes: &'static [Cls],
    pub special: Special,
}

use Cls::*;
macro_rules! at {
    ($c:expr, $n:expr, [$($k:expr),*]) => { AtInfo { code: $c, name: $n, classes: &[$($k),*], special: Special::None } };
    ($c:expr, $n:expr, [$($k:expr),*], $s:expr) => { AtInfo { code: $c, name: $n, classes: &[$($k),*], special: $s } };
}

pub const AT_SIBLING: u16 = 0x01;
pub const AT_LOCATION: u16 = 0x02;
pub const AT_NAME: u16 = 0x03;
pub const AT_BYTE_SIZE: u16 = 0x0b;
pub const AT_STMT_LIST: u16 = 0x10;
pub const AT_START_SCOPE: u16 = 0x2c;
pub const AT_DATA_MEMBER_LOCATION: u16 = 0x38;
pub const AT_DECL_LINE: u16 = 0x3b;
pub const AT_MACROS: u16 = 0x79;

/// DWARF 5 table 7.5 (bit_offset 0x0c and macro_info 0x43 as in DWARF 4), plus
/// the GNU split-DWARF attributes. DW_AT_call_origin is listed with both the
/// class of table 7.5 (exprloc) and of section 3.4.1 (reference).
pub const ATTRS: &[AtInfo] = &[
    at!(0x01, "sibling", [Reference]),
    at!(0x02, "location", [Exprloc, LocList]),
    at!(0x03, "name", [String]),
    at!(0x09, "ordering", [Constant], Special::Ordering),
    at!(0x0b, "byte_size", [Constant, Exprloc, Reference]),
    at!(0x0c, "bit_offset", [Constant, Exprloc, Reference]),
    at!(0x0d, "bit_size", [Constant, Exprloc, Reference]),
    at!(0x10, "stmt_list", [LinePtr]),
    at!(0x11, "low_pc", [Address]),
    at!(0x12, "high_pc", [Address, Constant]),
    at!(0x13, "language", [Constant], Special::Language),
    at!(0x15, "discr", [Reference]),
    at!(0x16, "discr_value", [Constant]),
    at!(0x17, "visibility", [Constant], Special::Visibility),
    at!(0x18, "import", [Reference]),
    at!(0x19, "string_length", [Exprloc, LocList, Reference]),
    at!(0x1a, "common_reference", [Reference]),
    at!(0x1b, "comp_dir", [String]),
    at!(0x1c, "const_value", [Block, Constant, String]),
    at!(0x1d, "containing_type", [Reference]),
    at!(0x1e, "default_value", [Constant, Reference, Flag]),
    at!(0x20, "inline", [Constant], Special::Inline),
    at!(0x21, "is_optional", [Flag]),
    at!(0x22, "lower_bound", [Constant, Exprloc, Reference]),
    at!(0x25, "producer", [String]),
    at!(0x27, "prototyped", [Flag]),
    at!(0x2a, "return_addr", [Exprloc, LocList]),
    at!(0x2c, "start_scope", [Constant, RngList]),
    at!(0x2e, "bit_stride", [Constant, Exprloc, Reference]),
    at!(0x2f, "upper_bound", [Constant, Exprloc, Reference]),
    at!(0x31, "abstract_origin", [Reference]),
    at!(0x32, "accessibility", [Constant], Special::Accessibility),
    at!(0x33, "address_class", [Constant], Special::AddressClass),
    at!(0x34, "artificial", [Flag]),
    at!(0x35, "base_types", [Reference]),
    at!(0x36, "calling_convention", [Constant], Special::CallingConvention),
    at!(0x37, "count", [Constant, Exprloc, Reference]),
    at!(0x38, "data_member_location", [Constant, Exprloc, LocList]),
    at!(0x39, "decl_column", [Constant]),
    at!(0x3a, "decl_file", [Constant], Special::FileIndex),
    at!(0x3b, "decl_line", [Constant]),
    at!(0x3c, "declaration", [Flag]),
    at!(0x3d, "discr_list", [Block]),
    at!(0x3e, "encoding", [Constant], Special::Encoding),
    at!(0x3f, "external", [Flag]),
    at!(0x40, "frame_base", [Exprloc, LocList]),
    at!(0x41, "friend", [Reference]),
    at!(0x42, "identifier_case", [Constant], Special::IdentifierCase),
    at!(0x43, "macro_info", [MacInfoPtr]),
    at!(0x44, "namelist_item", [Reference]),
    at!(0x45, "priority", [Reference]),
    at!(0x46, "segment", [Exprloc, LocList]),
    at!(0x47, "specification", [Reference]),
    at!(0x48, "static_link", [Exprloc, LocList]),
    at!(0x49, "type", [Reference]),
    at!(0x4a, "use_location", [Exprloc, LocList]),
    at!(0x4b, "variable_parameter", [Flag]),
    at!(0x4c, "virtuality", [Constant], Special::Virtuality),
    at!(0x4d, "vtable_elem_location", [Exprloc, LocList]),
    at!(0x4e, "allocated", [Constant, Exprloc, Reference]),
    at!(0x4f, "associated", [Constant, Exprloc, Reference]),
    at!(0x50, "data_location", [Exprloc]),
    at!(0x51, "byte_stride", [Constant, Exprloc, Reference]),
    at!(0x52, "entry_pc", [Address, Constant]),
    at!(0x53, "use_UTF8", [Flag]),
    at!(0x54, "extension", [Reference]),
    at!(0x55, "ranges", [RngList]),
    at!(0x56, "trampoline", [Address, Flag, Reference, String]),
    at!(0x57, "call_column", [Constant]),
    at!(0x58, "call_file", [Constant], Special::FileIndex),
    at!(0x59, "call_line", [Constant]),
    at!(0x5a, "description", [String]),
    at!(0x5b, "binary_scale", [Constant]),
    at!(0x5c, "decimal_scale", [Constant]),
    at!(0x5d, "small", [Reference]),
    at!(0x5e, "decimal_sign", [Constant], Special::DecimalSign),
    at!(0x5f, "digit_count", [Constant]),
    at!(0x60, "picture_string", [String]),
    at!(0x61, "mutable", [Flag]),
    at!(0x62, "threads_scaled", [Flag]),
    at!(0x63, "explicit", [Flag]),
    at!(0x64, "object_pointer", [Reference]),
    at!(0x65, "endianity", [Constant], Special::Endianity),
    at!(0x66, "elemental", [Flag]),
    at!(0x67, "pure", [Flag]),
    at!(0x68, "recursive", [Flag]),
    at!(0x69, "signature", [Reference]),
    at!(0x6a, "main_subprogram", [Flag]),
    at!(0x6b, "data_bit_offset", [Constant]),
    at!(0x6c, "const_expr", [Flag]),
    at!(0x6d, "enum_class", [Flag]),
    at!(0x6e, "linkage_name", [String]),
    at!(0x6f, "string_length_bit_size", [Constant]),
    at!(0x70, "string_length_byte_size", [Constant]),
    at!(0x71, "rank", [Constant, Exprloc]),
    at!(0x72, "str_offsets_base", [StrOffsetsPtr]),
    at!(0x73, "addr_base", [AddrPtr]),
    at!(0x74, "rnglists_base", [RngListsPtr]),
    at!(0x76, "dwo_name", [String]),
    at!(0x77, "reference", [Flag]),
    at!(0x78, "rvalue_reference", [Flag]),
    at!(0x79, "macros", [MacroPtr]),
    at!(0x7a, "call_all_calls", [Flag]),
    at!(0x7b, "call_all_source_calls", [Flag]),
    at!(0x7c, "call_all_tail_calls", [Flag]),
    at!(0x7d, "call_return_pc", [Address]),
    at!(0x7e, "call_value", [Exprloc]),
    at!(0x7f, "call_origin", [Exprloc, Reference]),
    at!(0x80, "call_parameter", [Reference]),
    at!(0x81, "call_pc", [Address]),
    at!(0x82, "call_tail_call", [Flag]),
    at!(0x83, "call_target", [Exprloc]),
    at!(0x84, "call_target_clobbered", [Exprloc]),
    at!(0x85, "call_data_location", [Exprloc]),
    at!(0x86, "call_data_value", [Exprloc]),
    at!(0x87, "noreturn", [Flag]),
    at!(0x88, "alignment", [Constant]),
    at!(0x89, "export_symbols", [Flag]),
    at!(0x8a, "deleted", [Flag]),
    at!(0x8b, "defaulted", [Constant]),
    at!(0x8c, "loclists_base", [LocListsPtr]),
    // GNU split DWARF (pre-DWARF 5)
    at!(0x2131, "GNU_dwo_id", [Constant], Special::DwoId),
    at!(0x2132, "GNU_ranges_base", [RngListsPtr]),
    at!(0x2133, "GNU_addr_base", [AddrPtr]),
];

/// Attribute names without any class information in the oracle (vendor
/// attributes, a reserved code and the end of the user range): values must come
/// through normalisation unchanged in class and payload.
pub const EXTRA_NAMES: &[(u16, &str)] = &[(0x75, "reserved_0x75"), (0x2111, "GNU_call_site_value"), (0x2119, "GNU_macros"), (0x2130, "GNU_dwo_name"), (0x3fff, "hi_user")];

pub fn at_info(code: u16) -> Option<&'static AtInfo> {
    ATTRS.iter().find(|a| a.code == code)
}
pub fn at_name(code: u16) -> std::string::String {
    if let Some(a) = at_info(code) {
        return a.name.to_string();
    }
    EXTRA_NAMES.iter().find(|e| e.0 == code).map(|e| e.1.to_string()).unwrap_or_else(|| format!("at{:#x}", code))
}

/// Every attribute name enumerated by C03.
pub fn all_names() -> Vec<u16> {
    let mut v: Vec<u16> = ATTRS.iter().map(|a| a.code).collect();
    v.extend(EXTRA_NAMES.iter().map(|e| e.0));
    v
}

/// DWARF 2/3: attributes whose data4 (32-bit format) / data8 (64-bit format)
/// value can only be a section offset (classes lineptr, loclistptr, macptr,
/// rangelistptr without a competing constant class; DWARF 3 section 7.5.4).
pub const LEGACY_PTR_ONLY: &[u16] = &[
    0x02, // location
    0x10, // stmt_list
    0x19, // string_length
    0x2a, // return_addr
    0x40, // frame_base
    0x43, // macro_info
    0x46, // segment
    0x48, // static_link
    0x4a, // use_location
    0x4d, // vtable_elem_location
    0x55, // ranges
];
