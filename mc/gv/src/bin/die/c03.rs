//! C03: every attribute form decodes to its DWARF value; skipping == reading;
//! advertised fixed sizes; name-based normalisation keeps payload and target.
use super::dw::*;
use super::model::*;
use super::obs::*;
use gimli::{Abbreviations, DebugAbbrev, DebugInfo, UnitHeader};
use mcx::enc::Enc;
use mcx::space::Mix;
use mcx::{guard, CheckDef, Ctx, Sub, Tier};

// ---------------------------------------------------------------------------
// Payload alphabets (boundary values per encoding)

fn ints(width_bytes: usize) -> Vec<u64> {
    let bits = 8 * width_bytes as u32;
    let max = if bits == 64 { u64::MAX } else { (1u64 << bits) - 1 };
    let mut v = vec![0, 1, 0x7f, 0x80, 0xff, max >> 1, (max >> 1) + 1, max, 0x0102_0304_0506_0708u64 >> (64 - bits)];
    v.retain(|x| *x <= max);
    v.sort();
    v.dedup();
    v
}

fn block(len: usize) -> Vec<u8> {
    // includes NUL and 0x80.. bytes
    (0..len).map(|i| (i as u8).wrapping_mul(7).wrapping_add(if i % 5 == 0 { 0 } else { 0x81 })).collect()
}

fn string(len: usize) -> Vec<u8> {
    (0..len).map(|i| [0x41u8, 0xff, 0x80, 0x7f, 0x01][i % 5]).collect()
}

pub fn payloads(fk: FK, cfg: Cfg, thorough: bool) -> Vec<Payload> {
    let int = |w: usize| ints(w).into_iter().map(Payload::Int).collect::<Vec<_>>();
    let uleb = || {
        let mut v: Vec<Payload> = [0u64, 1, 0x7f, 0x80, 0x3fff, 0x4000, 0xffff_ffff, 1 << 32, 1 << 63, u64::MAX].iter().map(|&x| Payload::Int(x)).collect();
        v.push(Payload::PaddedU(1, 2));
        v.push(Payload::PaddedU(0x7f, 5));
        v.push(Payload::PaddedU(0, 10));
        v
    };
    match fk {
        FK::Addr => int(cfg.asz as usize),
        FK::BlockN(n) => {
            let mut lens = vec![0usize, 1, 127, 128, 255];
            if n > 1 {
                lens.push(256);
                if thorough {
                    lens.push(65535);
                }
            }
            lens.into_iter().map(|l| Payload::Bytes(block(l))).collect()
        }
        FK::BlockU | FK::Exprloc => [0usize, 1, 127, 128, 255, 256, 16384].iter().filter(|&&l| thorough || l < 16384).map(|&l| Payload::Bytes(block(l))).collect(),
        FK::Data(n) | FK::RefN(n) | FK::RefSup(n) | FK::StrxN(n) | FK::AddrxN(n) => int(n as usize),
        FK::Data16 => [0u128, 1, u128::MAX, 1 << 127, (1 << 127) - 1, 0x0102_0304_0506_0708_090a_0b0c_0d0e_0f10, 1 << 64].iter().map(|&x| Payload::Wide(x)).collect(),
        FK::Sdata => {
            let mut v: Vec<Payload> = [0i64, 1, -1, 63, 64, -64, -65, 127, 128, -128, -129, i32::MAX as i64, i32::MIN as i64 - 1, i64::MAX, i64::MIN].iter().map(|&x| Payload::Sint(x)).collect();
            v.push(Payload::PaddedS(-1, 3));
            v.push(Payload::PaddedS(1, 10));
            v.push(Payload::PaddedS(-2, 10));
            v
        }
        FK::Udata | FK::RefUdata | FK::StrxU | FK::AddrxU | FK::Loclistx | FK::Rnglistx => uleb(),
        FK::Flag => [0u64, 1, 2, 0x80, 0xff].iter().map(|&x| Payload::Int(x)).collect(),
        FK::FlagPresent => vec![Payload::Nothing],
        FK::ImplicitConst => [i64::MIN, -1, 0, 1, 127, 128, i64::MAX].iter().map(|&x| Payload::Sint(x)).collect(),
        FK::SecOffset | FK::GnuRefAlt | FK::Strp | FK::StrpSup | FK::LineStrp => int(cfg.off_size()),
        FK::RefAddr => int(if cfg.version == 2 { cfg.asz as usize } else { cfg.off_size() }),
        FK::RefSig8 => int(8),
        FK::String => [0usize, 1, 5, 200].iter().map(|&l| Payload::Bytes(string(l))).collect(),
        FK::Indirect => vec![],
    }
}

// ---------------------------------------------------------------------------
// A planned unit: a root entry and one child entry per planned attribute list

#[derive(Clone, Debug)]
pub struct PlanAttr {
    pub name: u16,
    pub form: u16,
    pub implicit: i64,
    pub p: Payload,
}

pub const SENTINEL_VALUE: u64 = 0xa55a;

pub struct DieLayout {
    pub off: u64,
    pub code_len: usize,
    pub sizes: Vec<usize>,
}

pub struct PlanUnit {
    pub cfg: Cfg,
    pub info: Vec<u8>,
    pub abbrev: Vec<u8>,
    pub layout: Vec<DieLayout>,
    pub hsize: u64,
}

pub fn build_plan(cfg: Cfg, dies: &[Vec<PlanAttr>]) -> PlanUnit {
    let h = HeaderSpec { cfg, kind: UKind::Compile, abbrev_off: 0, id: 0, type_off: 0 };
    let hsize = h.header_size();
    let mut decls = vec![AbbrevDecl { code: 1, tag: DW_TAG_COMPILE_UNIT, children: true, attrs: vec![] }];
    let mut e = Enc::new(cfg.big);
    e.buf.push(1);
    let mut layout = vec![];
    for (k, attrs) in dies.iter().enumerate() {
        let code = k as u64 + 2;
        let mut spec: Vec<(u16, u16, i64)> = attrs.iter().map(|a| (a.name, a.form, a.implicit)).collect();
        spec.push((AT_DECL_LINE, F_DATA2, 0));
        decls.push(AbbrevDecl { code, tag: 0x34, children: false, attrs: spec });
        let off = hsize + e.buf.len() as u64;
        let l0 = e.buf.len();
        mcx::leb::enc_uleb(code, &mut e.buf);
        let code_len = e.buf.len() - l0;
        let mut sizes = vec![];
        for a in attrs {
            let l = e.buf.len();
            match form_kind(a.form) {
                Some(fk) => emit(&mut e, cfg, fk, &a.p),
                None => {}
            }
            sizes.push(e.buf.len() - l);
        }
        e.raw_uint(SENTINEL_VALUE, 2);
        // bytes that a reader running too far would misread as an entry
        layout.push(DieLayout { off, code_len, sizes });
    }
    e.buf.push(0);
    let info = encode_unit(&h, &e.buf);
    PlanUnit { cfg, info, abbrev: encode_abbrev_table(&decls), layout, hsize }
}

pub fn parse_plan<'a>(ctx: &mut Ctx, pu: &'a PlanUnit, case: &dyn Fn() -> String) -> Option<(UnitHeader<R<'a>>, Abbreviations)> {
    let e = endian(pu.cfg.big);
    let r = guard(|| -> gimli::Result<_> {
        let h = DebugInfo::new(&pu.info, e).units().next()?.ok_or(gimli::Error::MissingUnitDie)?;
        let ab = h.abbreviations(&DebugAbbrev::new(&pu.abbrev, e))?;
        Ok((h, ab))
    });
    match r {
        Err(p) => {
            ctx.fail_panic("DebugInfo::units", &p, case());
            None
        }
        Ok(Err(err)) => {
            ctx.fail("DebugInfo::units", "well-formed-unit-accepted", "error-on-well-formed", format!("{:?} on {}", err, case()));
            None
        }
        Ok(Ok(x)) => Some(x),
    }
}

// ---------------------------------------------------------------------------
// The oracle for name-dependent interpretation

fn ptr_variant(name: u16, v: u64) -> Option<PV> {
    let info = at_info(name)?;
    for c in info.classes {
        let pv = match c {
            Cls::LinePtr => PV::DebugLineRef(v),
            Cls::LocList => PV::LocationListsRef(v),
            Cls::MacInfoPtr => PV::DebugMacinfoRef(v),
            Cls::MacroPtr => PV::DebugMacroRef(v),
            Cls::RngList => PV::RangeListsRef(v),
            Cls::StrOffsetsPtr => PV::DebugStrOffsetsBase(v),
            Cls::AddrPtr => PV::DebugAddrBase(v),
            Cls::RngListsPtr => PV::DebugRngListsBase(v),
            Cls::LocListsPtr => PV::DebugLocListsBase(v),
            _ => continue,
        };
        return Some(pv);
    }
    None
}

fn special_variant(s: Special, v: u64) -> Option<PV> {
    let b = u8::try_from(v).ok();
    Some(match s {
        Special::None => return None,
        Special::Ordering => PV::Ordering(b?),
        Special::Language => PV::Language(u16::try_from(v).ok()?),
        Special::Visibility => PV::Visibility(b?),
        Special::Inline => PV::Inline(b?),
        Special::Accessibility => PV::Accessibility(b?),
        Special::AddressClass => PV::AddressClass(v),
        Special::CallingConvention => PV::CallingConvention(b?),
        Special::Encoding => PV::Encoding(b?),
        Special::IdentifierCase => PV::IdentifierCase(b?),
        Special::Virtuality => PV::Virtuality(b?),
        Special::DecimalSign => PV::DecimalSign(b?),
        Special::Endianity => PV::Endianity(b?),
        Special::FileIndex => PV::FileIndex(v),
        Special::DwoId => PV::DwoId(v),
    })
}

#[derive(Clone, Copy, Debug, PartialEq, Eq)]
pub enum Legacy {
    /// data4/data8 is a constant whatever the name (DWARF 4 section 7.5.4: "members of class constant in all cases"), or the name never has a pointer class
    MustConst,
    /// DWARF 2/3, the attribute only has a section-pointer class, and the width equals the offset size of the format
    MustOffset,
    /// the raw value must stay a constant (width differs from the format's offset size); the interpretation is left open
    RawConst,
    /// the standard does not define the combination: both readings accepted
    Open,
}

pub fn legacy(name: u16, cfg: Cfg, width: usize) -> Legacy {
    let Some(info) = at_info(name) else { return Legacy::MustConst };
    let legacy_ptr = info.classes.iter().any(|c| matches!(c, Cls::LinePtr | Cls::LocList | Cls::MacInfoPtr | Cls::MacroPtr | Cls::RngList));
    let base_ptr = info.classes.iter().any(|c| matches!(c, Cls::StrOffsetsPtr | Cls::AddrPtr | Cls::RngListsPtr | Cls::LocListsPtr));
    if !legacy_ptr && !base_ptr {
        return Legacy::MustConst;
    }
    if base_ptr {
        return Legacy::Open;
    }
    if width != cfg.off_size() {
        return Legacy::RawConst;
    }
    if cfg.version <= 3 {
        if LEGACY_PTR_ONLY.contains(&name) {
            Legacy::MustOffset
        } else {
            Legacy::Open
        }
    } else if info.classes.contains(&Cls::Constant) {
        Legacy::MustConst
    } else {
        Legacy::Open
    }
}

/// Check raw_value() and value() of one decoded attribute against the oracle.
/// Returns (site, kind, detail) of the first disagreement.
pub fn check_values(name: u16, cfg: Cfg, fk: FK, want_raw: &PV, got_raw: &PV, got_val: &PV) -> Option<(String, &'static str, String)> {
    let data_width = match fk {
        FK::Data(4) => Some(4),
        FK::Data(8) => Some(8),
        _ => None,
    };
    let leg = data_width.map(|w| legacy(name, cfg, w));
    let num = match want_raw.payload() {
        Pay::Num(n) => Some(n),
        _ => None,
    };
    // ---- raw value
    let raw_ok = match leg {
        Some(Legacy::MustOffset) | Some(Legacy::Open) => got_raw == want_raw || *got_raw == PV::SecOffset(num.unwrap() as u64),
        _ => got_raw == want_raw,
    };
    if !raw_ok {
        if let (Some(Legacy::MustConst), Some(w), PV::SecOffset(_)) = (leg, data_width, got_raw) {
            // a finding of its own, identified by the attribute name
            return Some((format!("dwarf4-data-form-is-constant:{}", at_name(name)), "decoded-as-section-offset", format!("raw_value {:?} value() {:?}; DWARF gives DW_FORM_data{} class constant here: want raw {:?}", got_raw, got_val, w, want_raw)));
        }
        return Some(("raw-value".into(), if got_raw.variant() != want_raw.variant() { "wrong-variant" } else { "wrong-payload" }, format!("raw_value {:?} want {:?}", got_raw, want_raw)));
    }
    // ---- normalised value
    if got_val.payload() != got_raw.payload() {
        return Some(("normalised-payload".into(), "payload-changed", format!("value() {:?} from raw {:?}", got_val, got_raw)));
    }
    let constant_rule = |raw: &PV| -> bool {
        let special = at_info(name).map(|i| i.special).unwrap_or(Special::None);
        if let (Some(n), true) = (num, special != Special::None) {
            if n >= 0 {
                if let Some(sv) = special_variant(special, n as u64) {
                    return *got_val == sv;
                }
            }
        }
        got_val.is_constant_class() && got_val.payload() == raw.payload()
    };
    let (ok, clause): (bool, &'static str) = match (leg, want_raw) {
        (Some(Legacy::MustOffset), _) => (Some(got_val) == ptr_variant(name, num.unwrap() as u64).as_ref(), "legacy-section-offset"),
        (Some(Legacy::MustConst), _) => (constant_rule(want_raw), "constant-stays-constant"),
        (Some(Legacy::Open), _) | (Some(Legacy::RawConst), _) => {
            let v = num.unwrap() as u64;
            (got_val.is_constant_class() || *got_val == PV::SecOffset(v) || Some(got_val) == ptr_variant(name, v).as_ref(), "open-data-offset")
        }
        (None, PV::Data1(_)) | (None, PV::Data2(_)) | (None, PV::Udata(_)) | (None, PV::Sdata(_)) => (constant_rule(want_raw), "constant-stays-constant"),
        (None, PV::SecOffset(v)) => (*got_val == ptr_variant(name, *v).unwrap_or(PV::SecOffset(*v)), "section-offset-target"),
        (None, PV::Block(b)) => (*got_val == PV::Block(b.clone()) || *got_val == PV::Exprloc(b.clone()), "block-stays-bytes"),
        (None, other) => (got_val == other, "unchanged"),
    };
    if !ok {
        return Some((clause.into(), "wrong-normalised-value", format!("value() {:?} from raw {:?} ({})", got_val, got_raw, clause)));
    }
    None
}

fn sign_extend(v: u64, bits: u32) -> i64 {
    ((v << (64 - bits)) as i64) >> (64 - bits)
}

/// Accessor helpers on the raw value (arithmetic on the payload).
pub fn check_accessors(a: &gimli::Attribute<R<'_>>, raw: &PV) -> Option<(&'static str, &'static str, String)> {
    let (want_u, want_s): (Option<Option<u64>>, Option<Option<i64>>) = match raw {
        PV::Data1(v) => (Some(Some(*v as u64)), Some(Some(sign_extend(*v as u64, 8)))),
        PV::Data2(v) => (Some(Some(*v as u64)), Some(Some(sign_extend(*v as u64, 16)))),
        PV::Data4(v) => (Some(Some(*v as u64)), Some(Some(sign_extend(*v as u64, 32)))),
        PV::Data8(v) => (Some(Some(*v)), Some(Some(*v as i64))),
        PV::Udata(v) => (Some(Some(*v)), Some(if *v <= i64::MAX as u64 { Some(*v as i64) } else { None })),
        PV::Sdata(v) => (Some(if *v >= 0 { Some(*v as u64) } else { None }), Some(Some(*v))),
        _ => (None, None),
    };
    let (u, s, u8v, u16v, off, ex) = (a.udata_value(), a.sdata_value(), a.u8_value(), a.u16_value(), a.offset_value(), a.exprloc_value());
    if let Some(w) = want_u {
        if u != w {
            return Some(("udata_value", "wrong-value", format!("udata_value {:?} want {:?} for {:?}", u, w, raw)));
        }
        let w8 = w.and_then(|x| u8::try_from(x).ok());
        let w16 = w.and_then(|x| u16::try_from(x).ok());
        if u8v != w8 || u16v != w16 {
            return Some(("u8_value", "wrong-value", format!("u8_value {:?} u16_value {:?} want {:?} {:?} for {:?}", u8v, u16v, w8, w16, raw)));
        }
    } else if let (Some(x), Pay::Num(n)) = (u, raw.payload()) {
        if x as i128 != n {
            return Some(("udata_value", "wrong-value", format!("udata_value {:?} for {:?}", u, raw)));
        }
    }
    if let Some(w) = want_s {
        if s != w {
            return Some(("sdata_value", "wrong-value", format!("sdata_value {:?} want {:?} for {:?}", s, w, raw)));
        }
    } else if let (Some(x), Pay::Num(n)) = (s, raw.payload()) {
        if x as i128 != n {
            return Some(("sdata_value", "wrong-value", format!("sdata_value {:?} for {:?}", s, raw)));
        }
    }
    match (raw, off) {
        (PV::SecOffset(v), o) => {
            if o.map(|x| x as u64) != Some(*v) {
                return Some(("offset_value", "wrong-value", format!("offset_value {:?} for {:?}", o, raw)));
            }
        }
        (_, Some(x)) => {
            if raw.payload() != Pay::Num(x as i128) {
                return Some(("offset_value", "wrong-value", format!("offset_value {:?} for {:?}", off, raw)));
            }
        }
        _ => {}
    }
    match (raw, ex) {
        (PV::Block(b), e) | (PV::Exprloc(b), e) => {
            if e.map(|x| x.0.slice().to_vec()).as_ref() != Some(b) {
                return Some(("exprloc_value", "wrong-value", format!("exprloc_value for {:?}", raw)));
            }
        }
        (_, Some(x)) => {
            if raw.payload() != Pay::Bytes(x.0.slice().to_vec()) {
                return Some(("exprloc_value", "wrong-value", format!("exprloc_value {:?} for {:?}", x.0.slice(), raw)));
            }
        }
        _ => {}
    }
    None
}

// ---------------------------------------------------------------------------
// Checking one planned unit

pub struct Opts {
    /// check value()/accessors (decode sub) or only raw values and positions (list subs)
    pub deep: bool,
}

fn render_attr(a: &PlanAttr) -> String {
    format!("{}({:#x})/{} = {}", at_name(a.name), a.name, form_name(a.form), a.p.render())
}

/// Reads every planned entry attribute by attribute, skips it on a clone,
/// and compares positions and values. Returns the attributes as read, per entry.
pub fn check_plan(ctx: &mut Ctx, pu: &PlanUnit, dies: &[Vec<PlanAttr>], h: &UnitHeader<R<'_>>, ab: &Abbreviations, opts: &Opts) {
    let cfg = pu.cfg;
    let mut raw = match h.entries_raw(ab, None) {
        Ok(r) => r,
        Err(e) => {
            ctx.fail("UnitHeader::entries_raw", "well-formed-unit-accepted", "error-on-well-formed", format!("{:?}", e));
            return;
        }
    };
    let _ = raw.read_abbreviation();
    let mut read_back: Vec<Vec<gimli::Attribute<R<'_>>>> = Vec::with_capacity(dies.len());
    for (k, attrs) in dies.iter().enumerate() {
        let lay = &pu.layout[k];
        let case = || format!("{} entry [{}] + sentinel, entry bytes {}", cfg.render(), attrs.iter().map(render_attr).collect::<Vec<_>>().join(", "), mcx::hex(&pu.info[lay.off as usize..(lay.off as usize + lay.code_len + lay.sizes.iter().sum::<usize>() + 2).min(pu.info.len()).min(lay.off as usize + 64)]));
        if raw.next_offset().0 as u64 != lay.off {
            ctx.fail("EntriesRaw::read_attribute", "entry-offset", "desynchronised", format!("next_offset {:#x} want {:#x} before {}", raw.next_offset().0, lay.off, case()));
            return;
        }
        let abbrev = match guard(|| raw.read_abbreviation()) {
            Ok(Ok(Some(a))) => a,
            Ok(other) => {
                ctx.fail("EntriesRaw::read_abbreviation", "well-formed-unit-accepted", "error-on-well-formed", format!("{:?} on {}", other.map(|o| o.map(|a| a.code())), case()));
                return;
            }
            Err(p) => {
                ctx.fail_panic("EntriesRaw::read_abbreviation", &p, case());
                return;
            }
        };
        let specs = abbrev.attributes();
        if specs.len() != attrs.len() + 1 {
            ctx.fail("Abbreviation::attributes", "attribute-count", "wrong-count", format!("{} on {}", specs.len(), case()));
            return;
        }
        // skip on a clone
        ctx.eval(2);
        let mut sk = raw.clone();
        let skipped = guard(|| sk.skip_attributes(specs).map(|_| sk.next_offset().0 as u64));
        // read one by one
        let mut got = vec![];
        let mut pos = raw.next_offset().0 as u64;
        let mut failed = false;
        let mut value_bad = false;
        for (ai, spec) in specs.iter().enumerate() {
            let r = guard(|| raw.read_attribute(*spec));
            let a = match r {
                Err(p) => {
                    ctx.fail_panic("EntriesRaw::read_attribute", &p, case());
                    return;
                }
                Ok(Err(e)) => {
                    ctx.fail("EntriesRaw::read_attribute", "decodes-on-well-formed", "error-on-well-formed", format!("attribute {}: {:?} on {}", ai, e, case()));
                    failed = true;
                    break;
                }
                Ok(Ok(a)) => a,
            };
            let now = raw.next_offset().0 as u64;
            let consumed = (now - pos) as usize;
            pos = now;
            let graw = proj(&a.raw_value());
            if ai == attrs.len() {
                // sentinel
                if graw != PV::Data2(SENTINEL_VALUE as u16) || consumed != 2 || a.name().0 != AT_DECL_LINE {
                    ctx.fail("EntriesRaw::read_attribute", "sentinel-intact", "following-attribute-corrupted", format!("sentinel read as {:?} ({} bytes) on {}", graw, consumed, case()));
                    failed = true;
                }
                got.push(a);
                break;
            }
            let pa = &attrs[ai];
            let fk = form_kind(pa.form).unwrap();
            let want_raw = raw_pv(fk, &pa.p, pa.implicit);
            if consumed != lay.sizes[ai] {
                ctx.fail("EntriesRaw::read_attribute", "consumed-equals-encoded-size", "wrong-size", format!("attribute {} consumed {} want {} on {}", ai, consumed, lay.sizes[ai], case()));
                failed = true;
            }
            if a.name().0 != pa.name || (pa.form != F_INDIRECT && a.form().0 != pa.form) {
                ctx.fail("EntriesRaw::read_attribute", "name-and-form", "wrong-name-or-form", format!("attribute {}: name {:#x} form {:#x} on {}", ai, a.name().0, a.form().0, case()));
            }
            // advertised fixed size
            match guard(|| spec.size(h)) {
                Err(p) => ctx.fail_panic("AttributeSpecification::size", &p, case()),
                Ok(Some(n)) => {
                    ctx.outcome("size:some");
                    if n != consumed {
                        ctx.fail("AttributeSpecification::size", "advertised-size-equals-consumed", "wrong-size", format!("attribute {}: size() Some({}) but reading consumed {} on {}", ai, n, consumed, case()));
                    }
                }
                Ok(None) => {
                    ctx.outcome("size:none");
                }
            }
            let ic = spec.implicit_const_value();
            if ic != if pa.form == F_IMPLICIT_CONST { Some(pa.implicit) } else { None } {
                ctx.fail("AttributeSpecification::implicit_const_value", "implicit-const", "wrong-value", format!("{:?} on {}", ic, case()));
            }
            let ffk = final_kind(fk, &pa.p).unwrap_or(fk);
            if opts.deep {
                let gval = proj(&a.value());
                if let Some((site, kind, d)) = check_values(pa.name, cfg, ffk, &want_raw, &graw, &gval) {
                    ctx.fail(if site == "raw-value" || kind == "decoded-as-section-offset" { "Attribute::raw_value" } else { "Attribute::value" }, &site, kind, format!("{} on {}", d, case()));
                    value_bad = true;
                }
                if let Some((site, kind, d)) = check_accessors(&a, &graw) {
                    ctx.fail("Attribute::accessors", site, kind, format!("{} on {}", d, case()));
                }
                if gval != graw {
                    ctx.outcome(&format!("norm:{}", gval.variant()));
                }
                if let (Some(w), PV::SecOffset(_)) = (match ffk {
                    FK::Data(4) => Some(4),
                    FK::Data(8) => Some(8),
                    _ => None,
                }, &graw)
                {
                    ctx.outcome(&format!("legacy-secoffset:{:?}", legacy(pa.name, cfg, w)));
                }
            } else if graw != want_raw {
                ctx.fail("Attribute::raw_value", "raw-value", if graw.variant() != want_raw.variant() { "wrong-variant" } else { "wrong-payload" }, format!("attribute {}: raw_value {:?} want {:?} on {}", ai, graw, want_raw, case()));
                value_bad = true;
            }
            got.push(a);
        }
        if failed {
            return;
        }
        // skip == read
        match skipped {
            Err(p) => {
                ctx.fail_panic("EntriesRaw::skip_attributes", &p, case());
                return;
            }
            Ok(Err(e)) => {
                ctx.fail("EntriesRaw::skip_attributes", "skip-equals-read", "skip-failed-where-read-succeeds", format!("{:?} on {}", e, case()));
                return;
            }
            Ok(Ok(o)) => {
                if o != pos {
                    ctx.fail("EntriesRaw::skip_attributes", "skip-equals-read", "wrong-skip-length", format!("skip ends at {:#x}, read ends at {:#x} on {}", o, pos, case()));
                    return;
                }
            }
        }
        if !value_bad {
            ctx.nontriv(1);
        }
        read_back.push(got);
    }
    // the same entries through read_entry / read_attributes (cursor) must give equal attributes
    ctx.eval(1);
    let r = guard(|| -> gimli::Result<Option<String>> {
        let mut c = h.entries(ab);
        c.next_dfs()?;
        for (k, want) in read_back.iter().enumerate() {
            match c.next_dfs()? {
                None => return Ok(Some(format!("entry {} missing", k))),
                Some(e) => {
                    // entry-level lookup helpers: first attribute with the name, raw and normalised
                    if let Some(first) = want.first() {
                        let n = first.name();
                        if e.attr(n) != Some(first) || e.attr_value_raw(n) != Some(first.raw_value()) || e.attr_value(n) != Some(first.value()) || !e.has_attr(n) || e.has_attr(gimli::DwAt(0x3ffe)) {
                            return Ok(Some(format!("entry {} at {:#x}: attr()/attr_value()/has_attr() disagree with the attribute list", k, e.offset().0)));
                        }
                    }
                    if e.offset().0 as u64 != pu.layout[k].off || e.attrs() != &want[..] {
                        return Ok(Some(format!("entry {} at {:#x}: read_entry attributes {:?} differ from read_attribute {:?}", k, e.offset().0, e.attrs().iter().map(attr_triple).collect::<Vec<_>>(), want.iter().map(attr_triple).collect::<Vec<_>>())));
                    }
                }
            }
        }
        if read_back.len() == dies.len() && c.next_dfs()?.is_some() {
            return Ok(Some("extra entry".into()));
        }
        Ok(None)
    });
    match r {
        Err(p) => ctx.fail_panic("EntriesCursor::next_dfs", &p, format!("{} planned unit", cfg.render())),
        Ok(Err(e)) => ctx.fail("EntriesCursor::next_dfs", "decodes-on-well-formed", "error-on-well-formed", format!("{:?} on {} planned unit {}", e, cfg.render(), mcx::hex(&pu.info[..pu.info.len().min(200)]))),
        Ok(Ok(Some(d))) => ctx.fail("EntriesRaw::read_entry", "read_entry-equals-read_attribute", "attributes-differ", format!("{} on {}", d, cfg.render())),
        Ok(Ok(None)) => {}
    }
}

// ---------------------------------------------------------------------------
// Subs

fn decode_forms() -> Vec<(u16, &'static str, FK)> {
    FORMS.iter().filter(|f| f.2 != FK::Indirect).cloned().collect()
}

fn sub_decode(tier: Tier) -> Sub {
    let forms = decode_forms();
    let cfgs = Cfg::all();
    let names = all_names();
    let thorough = tier == Tier::Thorough;
    let len = forms.len() as u64 * cfgs.len() as u64;
    let bound = format!(
        "{} forms (DWARF 2-5 + GNU addr_index/str_index/ref_alt/strp_alt) x {} attribute names (every name of DWARF 5 table 7.5 + GNU split-DWARF names + {} names without class information) x boundary payloads per encoding (integers 0,1,0x7f,0x80,0xff,max/2,max/2+1,max,byte pattern; 1..10-byte and over-long LEB128; blocks of 0,1,127,128,255,256{} bytes; strings of 0,1,5,200 bytes; implicit constants min,-1,0,1,127,128,max) x version {{2,3,4,5}} x format x address size {{1,2,4,8}} x byte order (64 encodings): full product{}; every attribute followed by a sentinel attribute",
        forms.len(),
        names.len(),
        EXTRA_NAMES.len(),
        if thorough { ",16384,65535" } else { "" },
        ""
    );
    Sub::new("decode-form-x-name-x-payload-x-encoding", len, &bound, move |ctx, i| {
        let mut mx = Mix(i);
        let cfg = *mx.pick(&cfgs);
        let (form, fname, fk) = *mx.pick(&forms);
        let ps = payloads(fk, cfg, thorough);
        let mut dies = vec![];
        for &name in &names {
            for p in &ps {
                let implicit = if fk == FK::ImplicitConst { p.sint() } else { 0 };
                dies.push(vec![PlanAttr { name, form, implicit, p: p.clone() }]);
            }
        }
        let pu = build_plan(cfg, &dies);
        let case = || format!("{} form {} x {} names x {} payloads", cfg.render(), fname, names.len(), ps.len());
        if ctx.want_sample() {
            ctx.sample(format!("{}; first entries: {} ...", case(), mcx::hex(&pu.info[..pu.info.len().min(64)])));
        }
        let Some((h, ab)) = parse_plan(ctx, &pu, &case) else { return };
        let before = ctx.nontrivial;
        check_plan(ctx, &pu, &dies, &h, &ab, &Opts { deep: true });
        if ctx.nontrivial - before == dies.len() as u64 {
            ctx.outcome(&format!("form:{}", fname));
        }
    })
}

/// Alphabet of the attribute-list subs: every form, plus indirection to a
/// fixed-size, a block, a LEB and a two-byte-code form.
fn list_symbols() -> Vec<(u16, u16)> {
    let mut v: Vec<(u16, u16)> = decode_forms().iter().map(|f| (f.0, 0u16)).collect();
    for inner in [F_DATA1, F_BLOCK1, F_UDATA, F_GNU_STR_INDEX] {
        v.push((F_INDIRECT, inner));
    }
    v
}

fn list_payload(cfg: Cfg, sym: (u16, u16), big: bool) -> (Payload, i64) {
    let (form, inner) = sym;
    let pick = |fk: FK| -> Payload {
        let ps = payloads(fk, cfg, false);
        if !big {
            return ps[0].clone();
        }
        match fk {
            FK::BlockN(_) | FK::BlockU | FK::Exprloc => Payload::Bytes(block(130)),
            FK::String => Payload::Bytes(string(5)),
            FK::Sdata => Payload::Sint(i64::MIN),
            FK::ImplicitConst => Payload::Sint(-129),
            FK::FlagPresent => Payload::Nothing,
            _ => ps.iter().filter(|p| matches!(p, Payload::Int(_) | Payload::Wide(_))).last().cloned().unwrap_or(ps[0].clone()),
        }
    };
    if form == F_INDIRECT {
        let p = pick(form_kind(inner).unwrap());
        (Payload::Indirect(inner, Box::new(p)), 0)
    } else {
        let fk = form_kind(form).unwrap();
        let p = pick(fk);
        let ic = if fk == FK::ImplicitConst { p.sint() } else { 0 };
        (p, ic)
    }
}

fn sub_lists(tier: Tier) -> Sub {
    sub_lists_with("skip-vs-read-attribute-lists", tier == Tier::Thorough, Cfg::all())
}

/// Quick tier only: the length-3 lists under a diagonal of 8 of the 64 encodings (every
/// version, format, address size and byte order occurs).
fn sub_lists3_diagonal() -> Sub {
    let all = Cfg::all();
    let diag: Vec<Cfg> = (0..all.len()).filter(|k| k % 9 == 0).map(|k| all[k]).collect();
    sub_lists_with("skip-vs-read-attribute-lists-len3-diagonal", true, diag)
}

fn sub_lists_with(name: &str, three: bool, cfgs: Vec<Cfg>) -> Sub {
    let syms = list_symbols();
    let ns = syms.len() as u64;
    let ncfg = cfgs.len() as u64;
    // quick: case = (s1, cfg), inner s2 in syms+none; thorough: case = (s1, s2|none, cfg), inner s3 in syms+none
    let len = if three { ns * (ns + 1) * ncfg } else { ns * ncfg };
    let bound = format!(
        "every attribute list of length 1..={} over {} form symbols ({} forms + indirect->{{data1,block1,udata,GNU_str_index}}) ({} lists) x {} encodings x 2 payload sets (shortest / long: max integers, 130-byte blocks, 10-byte LEBs), each list followed by a sentinel attribute: read_attribute one by one vs skip_attributes vs read_entry, advertised sizes",
        if three { 3 } else { 2 },
        ns,
        ns - 4,
        if three { ns + ns * ns + ns * ns * ns } else { ns + ns * ns },
        ncfg
    );
    Sub::new(name, len, &bound, move |ctx, i| {
        let mut mx = Mix(i);
        let cfg = *mx.pick(&cfgs);
        let s1 = *mx.pick(&syms);
        let s2: Option<(u16, u16)> = if three {
            let k = mx.take(ns + 1) as usize;
            syms.get(k).cloned()
        } else {
            None
        };
        let mut dies = vec![];
        for big in [false, true] {
            for k in 0..=syms.len() {
                let last = syms.get(k).cloned();
                let list: Vec<(u16, u16)> = if three {
                    match (s2, last) {
                        (None, Some(_)) => continue, // enumerated as (s1, last, none)
                        (None, None) => vec![s1],
                        (Some(b), None) => vec![s1, b],
                        (Some(b), Some(c)) => vec![s1, b, c],
                    }
                } else {
                    match last {
                        None => vec![s1],
                        Some(b) => vec![s1, b],
                    }
                };
                let attrs: Vec<PlanAttr> = list
                    .iter()
                    .enumerate()
                    .map(|(ai, &s)| {
                        let (p, ic) = list_payload(cfg, s, big);
                        PlanAttr { name: 0x2201 + ai as u16, form: s.0, implicit: ic, p }
                    })
                    .collect();
                dies.push(attrs);
            }
        }
        let pu = build_plan(cfg, &dies);
        let case = || format!("{} lists starting with {}{}", cfg.render(), form_name(s1.0), s2.map(|s| format!(", {}", form_name(s.0))).unwrap_or_default());
        if ctx.want_sample() {
            ctx.sample(format!("{}: {} entries; unit starts {}", case(), dies.len(), mcx::hex(&pu.info[..pu.info.len().min(64)])));
        }
        let Some((h, ab)) = parse_plan(ctx, &pu, &case) else { return };
        check_plan(ctx, &pu, &dies, &h, &ab, &Opts { deep: false });
        ctx.outcome("lists:checked");
    })
}

/// Long runs of fixed-size attributes (skip_attributes adds their sizes up before skipping).
fn sub_long_runs() -> Sub {
    let forms: Vec<u16> = vec![F_DATA1, F_DATA2, F_DATA4, F_DATA8, F_DATA16, F_REF4, F_ADDR, F_STRP, F_FLAG];
    let totals: Vec<usize> = vec![200, 254, 255, 256, 257, 300, 511, 512, 513, 1024];
    let cfgs: Vec<Cfg> = Cfg::all().into_iter().filter(|c| c.version == 5).collect();
    let nf = forms.len() as u64;
    let nc = cfgs.len() as u64;
    Sub::new(
        "skip-vs-read-long-fixed-runs",
        nf * nc,
        "runs of one fixed-size form {data1,data2,data4,data8,data16,ref4,addr,strp,flag} whose sizes add up to about {200,254,255,256,257,300,511,512,513,1024} bytes, ended by {nothing, udata, string, another fixed form} x version 5 encodings x byte order, each list followed by a sentinel: read_attribute one by one vs skip_attributes vs read_entry",
        move |ctx, i| {
            let mut mx = Mix(i);
            let cfg = *mx.pick(&cfgs);
            let f = *mx.pick(&forms);
            let mut dies = vec![];
            for big in [false, true] {
                let one: usize = match f {
                    F_DATA1 | F_FLAG => 1,
                    F_DATA2 => 2,
                    F_DATA4 | F_REF4 => 4,
                    F_DATA8 => 8,
                    F_DATA16 => 16,
                    F_ADDR => cfg.asz as usize,
                    _ => cfg.off_size(),
                };
                for &t in &totals {
                    let n = (t + one - 1) / one;
                    for tail in [None, Some(F_UDATA), Some(F_STRING), Some(F_DATA2)] {
                        let mut attrs: Vec<PlanAttr> = (0..n)
                            .map(|ai| {
                                let (p, ic) = list_payload(cfg, (f, 0), big);
                                PlanAttr { name: 0x2201 + ai as u16, form: f, implicit: ic, p }
                            })
                            .collect();
                        if let Some(tf) = tail {
                            let (p, ic) = list_payload(cfg, (tf, 0), big);
                            attrs.push(PlanAttr { name: 0x2201 + n as u16, form: tf, implicit: ic, p });
                        }
                        dies.push(attrs);
                    }
                }
            }
            let pu = build_plan(cfg, &dies);
            let case = || format!("{} runs of {}", cfg.render(), form_name(f));
            if ctx.want_sample() {
                ctx.sample(format!("{}: {} entries", case(), dies.len()));
            }
            let Some((h, ab)) = parse_plan(ctx, &pu, &case) else { return };
            check_plan(ctx, &pu, &dies, &h, &ab, &Opts { deep: false });
            ctx.outcome("lists:long-runs-checked");
        },
    )
}

fn sub_indirect(_tier: Tier) -> Sub {
    let forms = decode_forms();
    let cfgs = Cfg::all();
    let len = forms.len() as u64 * 64;
    let bound = "DW_FORM_indirect chains of depth 1, 2 and 3 ending in every form x every boundary payload x 64 encodings, under names {location, stmt_list, vendor}; indirect->implicit_const and indirect->unassigned form codes {0x02, 0x2d, 0x1f00} and the unassigned codes used directly: read must fail without panicking and skip must not claim success where a later read would misparse";
    Sub::new("indirect-chains-and-unknown-forms", len, bound, move |ctx, i| {
        let mut mx = Mix(i);
        let cfg = *mx.pick(&cfgs);
        let (form, fname, fk) = *mx.pick(&forms);
        let ps = payloads(fk, cfg, false);
        let case = || format!("{} indirect chains ending in {}", cfg.render(), fname);
        if fk == FK::ImplicitConst {
            // no value exists for an indirect implicit_const: reading must fail (any error), never panic
            for depth in 1..=3 {
                let mut p = Payload::Indirect(form, Box::new(Payload::Nothing));
                for _ in 1..depth {
                    p = Payload::Indirect(F_INDIRECT, Box::new(p));
                }
                expect_read_error(ctx, cfg, PlanAttr { name: 0x2201, form: F_INDIRECT, implicit: 0, p }, "indirect-implicit-const");
            }
            return;
        }
        let mut dies = vec![];
        for name in [AT_LOCATION, AT_STMT_LIST, 0x2201u16] {
            for p in &ps {
                for depth in 1..=3 {
                    let mut q = Payload::Indirect(form, Box::new(p.clone()));
                    for _ in 1..depth {
                        q = Payload::Indirect(F_INDIRECT, Box::new(q));
                    }
                    dies.push(vec![PlanAttr { name, form: F_INDIRECT, implicit: 0, p: q }]);
                }
            }
        }
        let pu = build_plan(cfg, &dies);
        if ctx.want_sample() {
            ctx.sample(format!("{}: {} entries; unit starts {}", case(), dies.len(), mcx::hex(&pu.info[..pu.info.len().min(64)])));
        }
        let Some((h, ab)) = parse_plan(ctx, &pu, &case) else { return };
        let before = ctx.nontrivial;
        check_plan(ctx, &pu, &dies, &h, &ab, &Opts { deep: true });
        if ctx.nontrivial - before == dies.len() as u64 {
            ctx.outcome("indirect:depth3");
        }
        // unknown forms: once per encoding (on the first form index)
        if form == F_ADDR {
            for u in UNASSIGNED_FORMS {
                expect_read_error(ctx, cfg, PlanAttr { name: 0x2201, form: u, implicit: 0, p: Payload::Nothing }, "unknown-form");
                expect_read_error(ctx, cfg, PlanAttr { name: 0x2201, form: F_INDIRECT, implicit: 0, p: Payload::Indirect(u, Box::new(Payload::Nothing)) }, "unknown-form");
            }
        }
    })
}

/// The attribute has no defined value: reading it must return an error (no
/// panic); skipping is not constrained by the property (reading does not succeed).
fn expect_read_error(ctx: &mut Ctx, cfg: Cfg, a: PlanAttr, class: &str) {
    let dies = vec![vec![a.clone()]];
    let pu = build_plan(cfg, &dies);
    let case = || format!("{} {} unit {} abbrev {}", cfg.render(), render_attr(&a), mcx::hex(&pu.info), mcx::hex(&pu.abbrev));
    let Some((h, ab)) = parse_plan(ctx, &pu, &case) else { return };
    ctx.eval(2);
    let r = guard(|| -> gimli::Result<_> {
        let mut raw = h.entries_raw(&ab, None)?;
        raw.read_abbreviation()?;
        let abbrev = raw.read_abbreviation()?.ok_or(gimli::Error::MissingUnitDie)?;
        let mut sk = raw.clone();
        let s = sk.skip_attributes(abbrev.attributes());
        let rd = raw.read_attribute(abbrev.attributes()[0]);
        Ok((rd.map(|a| proj(&a.raw_value())), s))
    });
    match r {
        Err(p) => ctx.fail_panic("EntriesRaw::read_attribute", &p, case()),
        Ok(Err(e)) => ctx.fail("EntriesRaw::read_abbreviation", "well-formed-unit-accepted", "error-on-well-formed", format!("{:?} on {}", e, case())),
        Ok(Ok((Ok(v), _))) => ctx.fail("EntriesRaw::read_attribute", "undefined-form-has-no-value", "value-invented", format!("read returned {:?} on {}", v, case())),
        Ok(Ok((Err(_), _))) => {
            ctx.nontriv(1);
            ctx.outcome(class)
        }
    }
}

pub fn def(tier: Tier) -> CheckDef {
    let mut required: Vec<String> = decode_forms().iter().map(|f| format!("form:{}", f.1)).collect();
    for o in ["size:some", "size:none", "lists:checked", "indirect:depth3", "indirect-implicit-const", "unknown-form", "legacy-secoffset:MustOffset"] {
        required.push(o.to_string());
    }
    for v in [
        "Encoding", "DecimalSign", "Endianity", "Accessibility", "Visibility", "Virtuality", "Language", "AddressClass", "IdentifierCase", "CallingConvention", "Inline", "Ordering", "FileIndex", "DwoId", "Udata", "Exprloc", "DebugLineRef", "LocationListsRef", "DebugMacinfoRef", "DebugMacroRef",
        "RangeListsRef", "DebugStrOffsetsBase", "DebugAddrBase", "DebugRngListsBase", "DebugLocListsBase",
    ] {
        required.push(format!("norm:{}", v));
    }
    CheckDef {
        level: "exploration",
        rule: "a case is one unit holding one entry per (attribute name, payload) or per attribute list, for one (form, encoding); an evaluation is one read_attribute / skip_attributes / read_entry call; non-trivial = an entry whose every attribute decoded to the expected value with the expected size, whose sentinel was intact and whose skip ended where the read ended".into(),
        assumptions: vec![
            "oracle: form encodings and value classes transcribed from DWARF 5 sections 7.5.5/7.5.6 (tables 7.5, 7.6), DWARF 4 section 7.5.4 (data4/data8 are constants in all cases from version 4 on) and the DWARF 2/3 class rules (data4/data8 as lineptr/loclistptr/macptr/rangelistptr); cross-checked once against LLVM's Dwarf.def, never taken from gimli".into(),
            "forms are decoded by their code whatever the unit version (producers use newer forms as extensions); only DW_FORM_ref_addr (address-sized in version 2) and data4/data8 depend on the version".into(),
            "left open (both readings accepted): data4/data8 on attributes whose only classes are section pointers in versions >= 4 (invalid DWARF), on DW_AT_data_member_location / DW_AT_start_scope / DW_AT_macros in versions 2-3, on the DWARF 5 *_base attributes; the class of block forms (block or exprloc); Attribute::form() for DW_FORM_indirect; accessor results on classes they are not documented for; skip_attributes when reading fails".into(),
            "the line-table variant of parse_attribute (src/read/line.rs) belongs to C04".into(),
        ],
        subs: {
            let mut v = vec![sub_decode(tier), sub_lists(tier), sub_indirect(tier), sub_long_runs()];
            if tier == Tier::Quick {
                v.push(sub_lists3_diagonal());
            }
            v
        },
        required_outcomes: required,
    }
}
