//! Observation helpers: project gimli's values onto the harness types.
#![allow(dead_code)]
use super::model::{Cfg, Obs, PV};
use gimli::{Attribute, AttributeValue, DebuggingInformationEntry, EndianSlice, RunTimeEndian};

pub type R<'a> = EndianSlice<'a, RunTimeEndian>;

pub fn endian(big: bool) -> RunTimeEndian {
    if big {
        RunTimeEndian::Big
    } else {
        RunTimeEndian::Little
    }
}

pub fn proj(v: &AttributeValue<R<'_>>) -> PV {
    use AttributeValue as A;
    match v {
        A::Addr(a) => PV::Addr(*a),
        A::Block(r) => PV::Block(r.slice().to_vec()),
        A::Data1(d) => PV::Data1(*d),
        A::Data2(d) => PV::Data2(*d),
        A::Data4(d) => PV::Data4(*d),
        A::Data8(d) => PV::Data8(*d),
        A::Data16(d) => PV::Data16(*d),
        A::Sdata(d) => PV::Sdata(*d),
        A::Udata(d) => PV::Udata(*d),
        A::Exprloc(e) => PV::Exprloc(e.0.slice().to_vec()),
        A::Flag(f) => PV::Flag(*f),
        A::SecOffset(o) => PV::SecOffset(*o as u64),
        A::DebugAddrBase(o) => PV::DebugAddrBase(o.0 as u64),
        A::DebugAddrIndex(o) => PV::DebugAddrIndex(o.0 as u64),
        A::UnitRef(o) => PV::UnitRef(o.0 as u64),
        A::DebugInfoRef(o) => PV::DebugInfoRef(o.0 as u64),
        A::DebugInfoRefSup(o) => PV::DebugInfoRefSup(o.0 as u64),
        A::DebugLineRef(o) => PV::DebugLineRef(o.0 as u64),
        A::LocationListsRef(o) => PV::LocationListsRef(o.0 as u64),
        A::DebugLocListsBase(o) => PV::DebugLocListsBase(o.0 as u64),
        A::DebugLocListsIndex(o) => PV::DebugLocListsIndex(o.0 as u64),
        A::DebugMacinfoRef(o) => PV::DebugMacinfoRef(o.0 as u64),
        A::DebugMacroRef(o) => PV::DebugMacroRef(o.0 as u64),
        A::RangeListsRef(o) => PV::RangeListsRef(o.0 as u64),
        A::DebugRngListsBase(o) => PV::DebugRngListsBase(o.0 as u64),
        A::DebugRngListsIndex(o) => PV::DebugRngListsIndex(o.0 as u64),
        A::DebugTypesRef(s) => PV::DebugTypesRef(s.0),
        A::DebugStrRef(o) => PV::DebugStrRef(o.0 as u64),
        A::DebugStrRefSup(o) => PV::DebugStrRefSup(o.0 as u64),
        A::DebugStrOffsetsBase(o) => PV::DebugStrOffsetsBase(o.0 as u64),
        A::DebugStrOffsetsIndex(o) => PV::DebugStrOffsetsIndex(o.0 as u64),
        A::DebugLineStrRef(o) => PV::DebugLineStrRef(o.0 as u64),
        A::String(r) => PV::String(r.slice().to_vec()),
        A::Encoding(c) => PV::Encoding(c.0),
        A::DecimalSign(c) => PV::DecimalSign(c.0),
        A::Endianity(c) => PV::Endianity(c.0),
        A::Accessibility(c) => PV::Accessibility(c.0),
        A::Visibility(c) => PV::Visibility(c.0),
        A::Virtuality(c) => PV::Virtuality(c.0),
        A::Language(c) => PV::Language(c.0),
        A::AddressClass(c) => PV::AddressClass(c.0),
        A::IdentifierCase(c) => PV::IdentifierCase(c.0),
        A::CallingConvention(c) => PV::CallingConvention(c.0),
        A::Inline(c) => PV::Inline(c.0),
        A::Ordering(c) => PV::Ordering(c.0),
        A::FileIndex(i) => PV::FileIndex(*i),
        A::DwoId(i) => PV::DwoId(i.0),
    }
}

pub fn attr_triple(a: &Attribute<R<'_>>) -> (u16, u16, PV) {
    (a.name().0, a.form().0, proj(&a.raw_value()))
}

pub fn obs_entry(e: &DebuggingInformationEntry<R<'_>>) -> Obs {
    Obs { off: e.offset().0 as u64, depth: e.depth(), null: e.is_null(), tag: e.tag().0, children: e.has_children(), attrs: e.attrs().iter().map(attr_triple).collect() }
}

pub fn gimli_format(c: Cfg) -> gimli::Format {
    if c.fmt64 {
        gimli::Format::Dwarf64
    } else {
        gimli::Format::Dwarf32
    }
}
