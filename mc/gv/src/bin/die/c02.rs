//! C02: the DIE forest is reported exactly as encoded by every navigation API.
use super::dw::*;
use super::model::*;
use super::obs::*;
use gimli::{Abbreviations, DebugAbbrev, DebugInfo, DebugTypes, Reader, UnitHeader, UnitOffset, UnitSectionOffset, UnitType};
use mcx::space::Mix;
use mcx::{guard, CheckDef, Ctx, Sub, Tier};

mod cursor;
mod sets;
mod treeapi;

// ---------------------------------------------------------------------------
// The unit space

#[derive(Clone, Debug)]
pub struct Combo {
    pub parents: Vec<usize>,
    /// bit i set: node i (a leaf) is flagged DW_CHILDREN_yes with an empty child list
    pub leaf_mask: u32,
}

/// Every ordered tree with 1..=max nodes x every subset of its leaves.
pub fn combos(min: usize, max: usize) -> Vec<Combo> {
    let mut out = vec![];
    for n in min..=max {
        for t in mcx::space::trees(n) {
            let mut has_child = vec![false; n];
            for &p in &t {
                if p != usize::MAX {
                    has_child[p] = true;
                }
            }
            let leaves: Vec<usize> = (0..n).filter(|&i| !has_child[i]).collect();
            for m in 0..(1u32 << leaves.len()) {
                let mut mask = 0u32;
                for (k, &l) in leaves.iter().enumerate() {
                    if m >> k & 1 == 1 {
                        mask |= 1 << l;
                    }
                }
                out.push(Combo { parents: t.clone(), leaf_mask: mask });
            }
        }
    }
    out
}

/// Forests with several top-level entries (as seen by positioned reads, and by
/// producers that emit sibling entries at the top level).
pub fn forest_combos(max: usize) -> Vec<Combo> {
    let mut out = vec![];
    for n in 2..=max {
        for t in mcx::space::forests(n) {
            if t.iter().filter(|&&p| p == usize::MAX).count() < 2 {
                continue;
            }
            out.push(Combo { parents: t.clone(), leaf_mask: 0 });
        }
    }
    out
}

#[derive(Clone, Copy, Debug, PartialEq, Eq)]
pub enum Which {
    None,
    /// every entry flagged DW_CHILDREN_yes
    Parents,
    All,
    Mask(u32),
}

#[derive(Clone, Copy, Debug)]
pub struct SibMode {
    pub which: Which,
    pub form: u16,
    pub inner: u16,
    pub target: SibTarget,
}

pub const SIB_MODES: [SibMode; 13] = [
    SibMode { which: Which::None, form: F_REF4, inner: 0, target: SibTarget::Next },
    SibMode { which: Which::Parents, form: F_REF4, inner: 0, target: SibTarget::Next },
    SibMode { which: Which::All, form: F_REF4, inner: 0, target: SibTarget::Next },
    SibMode { which: Which::Parents, form: F_REF1, inner: 0, target: SibTarget::Next },
    SibMode { which: Which::Parents, form: F_REF2, inner: 0, target: SibTarget::Next },
    SibMode { which: Which::Parents, form: F_REF8, inner: 0, target: SibTarget::Next },
    SibMode { which: Which::All, form: F_REF_UDATA, inner: 0, target: SibTarget::Next },
    SibMode { which: Which::Parents, form: F_REF_ADDR, inner: 0, target: SibTarget::Next },
    SibMode { which: Which::Parents, form: F_INDIRECT, inner: F_REF4, target: SibTarget::Next },
    SibMode { which: Which::All, form: F_REF4, inner: 0, target: SibTarget::SelfOff },
    SibMode { which: Which::All, form: F_REF4, inner: 0, target: SibTarget::Back },
    SibMode { which: Which::All, form: F_REF_UDATA, inner: 0, target: SibTarget::Zero },
    SibMode { which: Which::All, form: F_REF_ADDR, inner: 0, target: SibTarget::SelfOff },
];

impl SibMode {
    pub fn render(&self) -> String {
        format!("sibling {:?} form {}{} target {:?}", self.which, form_name(self.form), if self.form == F_INDIRECT { format!("->{}", form_name(self.inner)) } else { String::new() }, self.target)
    }
}

/// (cfg, unit kind) pairs against which every shape is enumerated.
pub const SHAPE_CFGS: [(Cfg, UKind); 6] = [
    (Cfg { version: 4, fmt64: false, asz: 8, big: false }, UKind::Compile),
    (Cfg { version: 5, fmt64: true, asz: 4, big: true }, UKind::Compile),
    (Cfg { version: 2, fmt64: false, asz: 4, big: true }, UKind::Compile),
    (Cfg { version: 3, fmt64: true, asz: 8, big: false }, UKind::Compile),
    (Cfg { version: 4, fmt64: false, asz: 8, big: false }, UKind::Type),
    (Cfg { version: 5, fmt64: false, asz: 2, big: false }, UKind::SplitType),
];

pub fn make_nodes(c: &Combo, sib: SibMode, scheme: CodeScheme, filler: bool) -> Vec<NodeSpec> {
    let n = c.parents.len();
    let mut has_child = vec![false; n];
    for &p in &c.parents {
        if p != usize::MAX {
            has_child[p] = true;
        }
    }
    (0..n)
        .map(|i| {
            let children_flag = has_child[i] || (c.leaf_mask >> i & 1 == 1);
            let mut attrs = vec![];
            let with_sib = match sib.which {
                Which::None => false,
                Which::Parents => children_flag,
                Which::All => true,
                Which::Mask(m) => m >> i & 1 == 1,
            };
            if filler && i % 2 == 1 {
                attrs.push(AttrSpec { name: AT_DECL_LINE, form: F_DATA1, inner: 0, implicit: 0, val: AVal::P(Payload::Int(i as u64 + 1)) });
            }
            if with_sib {
                attrs.push(AttrSpec { name: AT_SIBLING, form: sib.form, inner: sib.inner, implicit: 0, val: AVal::Sibling(sib.target) });
            }
            if filler && i % 2 == 0 {
                attrs.push(AttrSpec { name: AT_DECL_LINE, form: F_DATA1, inner: 0, implicit: 0, val: AVal::P(Payload::Int(i as u64 + 1)) });
            }
            if filler && i % 3 == 1 {
                attrs.push(AttrSpec { name: AT_NAME, form: F_STRING, inner: 0, implicit: 0, val: AVal::P(Payload::Bytes(vec![b'n', b'0' + i as u8])) });
            }
            NodeSpec { parent: c.parents[i], tag: NODE_TAGS[i], children_flag, code: scheme.code(i, n), attrs }
        })
        .collect()
}

/// Gives every node one more attribute (vendor name 0x2201) whose FORM rotates through every
/// form that exists in the unit's version, with a boundary payload: entries of a forest are
/// then separated by attributes of every encoded size (fixed, format-dependent,
/// address-size-dependent, LEB128, block, string), so that reading, skipping and the
/// advertised sizes all matter for where the next entry starts.
pub fn add_form_rotation(nodes: &mut [NodeSpec], cfg: Cfg, salt: usize) {
    let mut forms: Vec<u16> = vec![F_DATA1, F_DATA2, F_DATA4, F_DATA8, F_ADDR, F_STRP, F_REF_ADDR, F_UDATA, F_SDATA, F_FLAG, F_BLOCK1, F_BLOCK2, F_BLOCK4, F_BLOCK, F_STRING, F_REF1, F_REF2, F_REF4, F_REF8, F_REF_UDATA];
    if cfg.version >= 4 {
        forms.extend_from_slice(&[F_SEC_OFFSET, F_FLAG_PRESENT, F_EXPRLOC, F_REF_SIG8]);
    }
    if cfg.version >= 5 {
        forms.extend_from_slice(&[F_LINE_STRP, F_STRX, F_STRX1, F_STRX2, F_STRX3, F_STRX4, F_ADDRX, F_ADDRX1, F_ADDRX2, F_ADDRX3, F_ADDRX4, F_DATA16, F_REF_SUP4, F_REF_SUP8, F_STRP_SUP, F_LOCLISTX, F_RNGLISTX, F_IMPLICIT_CONST]);
    }
    // the GNU vendor forms (two-byte form codes), directly and as the dynamic form of DW_FORM_indirect
    let mut forms: Vec<(u16, u16)> = forms.into_iter().map(|f| (f, 0)).collect();
    for f in [F_GNU_ADDR_INDEX, F_GNU_STR_INDEX, F_GNU_REF_ALT, F_GNU_STRP_ALT] {
        forms.push((f, 0));
    }
    for inner in [F_DATA1, F_UDATA, F_BLOCK1, F_GNU_STR_INDEX, F_GNU_ADDR_INDEX, F_GNU_STRP_ALT] {
        forms.push((F_INDIRECT, inner));
    }
    for (i, nd) in nodes.iter_mut().enumerate() {
        let (form, inner) = forms[(salt + i * 7) % forms.len()];
        let fk = form_kind(if form == F_INDIRECT { inner } else { form }).expect("form table");
        let ps = super::c03::payloads(fk, cfg, false);
        // one of the first (short) payloads: units must stay small enough for DW_FORM_ref1 siblings
        let p = ps[(salt / forms.len() + i) % ps.len().min(3)].clone();
        let implicit = if fk == FK::ImplicitConst { -5 - i as i64 } else { 0 };
        let p = if fk == FK::ImplicitConst { Payload::Nothing } else { p };
        let p = if form == F_INDIRECT { Payload::Indirect(inner, Box::new(p)) } else { p };
        // in front of the sibling attribute for odd nodes, after everything for even ones
        let at = if i % 2 == 1 { 0 } else { nd.attrs.len() };
        nd.attrs.insert(at, AttrSpec { name: 0x2201, form, inner, implicit, val: AVal::P(p) });
    }
}

pub struct Built {
    pub big: bool,
    pub info: Vec<u8>,
    pub types: Vec<u8>,
    pub abbrev: Vec<u8>,
    /// units in section order; the unit under test is the last one
    pub units: Vec<UnitModel>,
    pub in_types: bool,
}

impl Built {
    pub fn section(&self) -> &[u8] {
        if self.in_types {
            &self.types
        } else {
            &self.info
        }
    }
    pub fn render(&self) -> String {
        format!("section {} abbrev {} :: {}", if self.in_types { ".debug_types" } else { ".debug_info" }, mcx::hex(&self.abbrev), self.units.iter().map(|u| u.render()).collect::<Vec<_>>().join(" || "))
    }
}

/// Build a section holding (optionally a fixed first unit and) the unit for `nodes`.
pub fn build(cfg: Cfg, kind: UKind, nodes: &[NodeSpec], pad: usize, two_units: bool, abbrev_prefix: usize, id: u64, type_off_elem: usize) -> Built {
    let mut abbrev = vec![];
    let mut sec = vec![];
    let mut units = vec![];
    let probe = HeaderSpec { cfg, kind, abbrev_off: 0, id, type_off: 0 };
    let in_types = probe.in_debug_types();
    // unrelated table first so that offset 0 is not the table of the unit under test
    if abbrev_prefix > 0 {
        let junk = AbbrevDecl { code: 1, tag: 0x3b, children: true, attrs: vec![(AT_NAME, F_STRP, 0); abbrev_prefix] };
        abbrev.extend(encode_abbrev_table(&[junk]));
    }
    if two_units {
        let a_nodes = vec![
            NodeSpec { parent: usize::MAX, tag: NODE_TAGS[8], children_flag: true, code: 1, attrs: vec![AttrSpec { name: AT_DECL_LINE, form: F_DATA2, inner: 0, implicit: 0, val: AVal::P(Payload::Int(0x1234)) }] },
            NodeSpec { parent: 0, tag: NODE_TAGS[9], children_flag: false, code: 2, attrs: vec![] },
        ];
        let a_cfg = Cfg { version: if in_types { 4 } else { 4 }, fmt64: !cfg.fmt64, asz: 4, big: cfg.big };
        let a_h = HeaderSpec { cfg: a_cfg, kind: if in_types { UKind::Type } else { UKind::Compile }, abbrev_off: abbrev.len() as u64, id: 0x1111_2222_3333_4444, type_off: 0 };
        let mut a_h2 = a_h;
        a_h2.type_off = a_h.header_size();
        abbrev.extend(encode_abbrev_table(&forest_abbrevs(&a_nodes)));
        let um = build_unit(a_h2, 0, &a_nodes, 1);
        sec.extend_from_slice(&um.bytes);
        units.push(um);
    }
    let mut h = HeaderSpec { cfg, kind, abbrev_off: abbrev.len() as u64, id, type_off: 0 };
    abbrev.extend(encode_abbrev_table(&forest_abbrevs(nodes)));
    // type_off points at a stream element of the unit; resolve it from a first layout
    let unit_off = sec.len() as u64;
    let first = build_unit(h, unit_off, nodes, pad);
    h.type_off = first.elems[type_off_elem.min(first.elems.len() - 1)].off;
    let um = build_unit(h, unit_off, nodes, pad);
    sec.extend_from_slice(&um.bytes);
    units.push(um);
    let (info, types) = if in_types { (vec![], sec) } else { (sec, vec![]) };
    Built { big: cfg.big, info, types, abbrev, units, in_types }
}

// ---------------------------------------------------------------------------
// Parsing and header checks

pub struct Parsed<'a> {
    pub headers: Vec<UnitHeader<R<'a>>>,
    pub abbrevs: Vec<Abbreviations>,
}

fn expect_type(um: &UnitModel) -> UnitType<usize> {
    let sig = gimli::DebugTypeSignature(um.h.id);
    let to = UnitOffset(um.h.type_off as usize);
    match um.h.kind {
        UKind::Compile => UnitType::Compilation,
        UKind::Partial => UnitType::Partial,
        UKind::Type => UnitType::Type { type_signature: sig, type_offset: to },
        UKind::SplitType => UnitType::SplitType { type_signature: sig, type_offset: to },
        UKind::Skeleton => UnitType::Skeleton(gimli::DwoId(um.h.id)),
        UKind::SplitCompile => UnitType::SplitCompilation(gimli::DwoId(um.h.id)),
    }
}

/// Iterate the unit headers of the section, check every header accessor
/// against the model and parse each unit's abbreviations.
pub fn parse_and_check_headers<'a>(ctx: &mut Ctx, b: &'a Built) -> Option<Parsed<'a>> {
    let e = endian(b.big);
    let case = || b.render();
    let da = DebugAbbrev::new(&b.abbrev, e);
    let di = DebugInfo::new(&b.info, e);
    let dt = DebugTypes::new(&b.types, e);
    let hs: Result<gimli::Result<Vec<UnitHeader<R<'a>>>>, _> = guard(|| {
        let mut v = vec![];
        if b.in_types {
            let mut it = dt.units();
            while let Some(h) = it.next()? {
                v.push(h);
            }
        } else {
            let mut it = di.units();
            while let Some(h) = it.next()? {
                v.push(h);
            }
        }
        Ok(v)
    });
    let entry = if b.in_types { "DebugTypes::units" } else { "DebugInfo::units" };
    ctx.eval(1);
    let headers = match hs {
        Err(p) => {
            ctx.fail_panic(entry, &p, case());
            return None;
        }
        Ok(Err(err)) => {
            ctx.fail(entry, "well-formed-unit-accepted", "error-on-well-formed", format!("{:?} on {}", err, case()));
            return None;
        }
        Ok(Ok(v)) => v,
    };
    if headers.len() != b.units.len() {
        ctx.fail(entry, "unit-count", "wrong-unit-count", format!("got {} want {} on {}", headers.len(), b.units.len(), case()));
        return None;
    }
    let mut abbrevs = vec![];
    for (h, um) in headers.iter().zip(b.units.iter()) {
        macro_rules! bad {
            ($site:expr, $kind:expr, $d:expr) => {
                ctx.fail("UnitHeader", $site, $kind, format!("{} on {}", $d, b.render()))
            };
        }
        let want_section = if b.in_types { gimli::SectionId::DebugTypes } else { gimli::SectionId::DebugInfo };
        if h.section() != want_section {
            bad!("section", "wrong-section", format!("{:?}", h.section()));
        }
        if h.offset() != UnitSectionOffset(um.unit_off as usize) {
            bad!("offset", "wrong-unit-offset", format!("got {:?} want {:#x}", h.offset(), um.unit_off));
        }
        let dio = h.debug_info_offset().map(|o| o.0 as u64);
        let dto = h.debug_types_offset().map(|o| o.0 as u64);
        let (wi, wt) = if b.in_types { (None, Some(um.unit_off)) } else { (Some(um.unit_off), None) };
        if dio != wi || dto != wt {
            bad!("offset", "wrong-section-offset-conversion", format!("debug_info_offset {:?} debug_types_offset {:?}", dio, dto));
        }
        if h.unit_length() as u64 != um.unit_len {
            bad!("unit_length", "wrong-length", format!("got {:#x} want {:#x}", h.unit_length(), um.unit_len));
        }
        if h.length_including_self() as u64 != um.end {
            bad!("length_including_self", "wrong-length", format!("got {:#x} want {:#x}", h.length_including_self(), um.end));
        }
        if h.header_size() as u64 != um.hsize || h.size_of_header() as u64 != um.hsize || h.root_offset().0 as u64 != um.hsize {
            bad!("header_size", "wrong-header-size", format!("header_size {} size_of_header {} root_offset {:#x} want {}", h.header_size(), h.size_of_header(), h.root_offset().0, um.hsize));
        }
        let enc = h.encoding();
        let c = um.h.cfg;
        if enc.version != c.version || enc.address_size != c.asz || enc.format != gimli_format(c) || h.version() != c.version || h.address_size() != c.asz || h.format() != gimli_format(c) {
            bad!("encoding", "wrong-encoding", format!("got {:?} want {}", enc, c.render()));
        }
        if h.debug_abbrev_offset().0 as u64 != um.h.abbrev_off {
            bad!("debug_abbrev_offset", "wrong-abbrev-offset", format!("got {:#x} want {:#x}", h.debug_abbrev_offset().0, um.h.abbrev_off));
        }
        if h.type_() != expect_type(um) {
            bad!("type_", "wrong-unit-type", format!("got {:?} want {:?}", h.type_(), expect_type(um)));
        }
        // bounds: header_size-1 out, header_size in, end-1 in, end out
        for (x, want) in [(um.hsize - 1, false), (um.hsize, true), (um.end - 1, true), (um.end, false), (0, false)] {
            let uo = UnitOffset(x as usize);
            let got = uo.is_in_bounds(h);
            let conv = UnitSectionOffset((um.unit_off + x) as usize).to_unit_offset(h);
            let back = uo.to_unit_section_offset(h);
            if got != want || conv != if want { Some(uo) } else { None } || back != UnitSectionOffset((um.unit_off + x) as usize) {
                bad!("is_in_bounds", "wrong-bounds", format!("unit offset {:#x}: is_in_bounds {} to_unit_offset {:?} to_unit_section_offset {:?}, want in-bounds {}", x, got, conv, back, want));
            }
            let r = guard(|| h.range_from(uo..));
            match r {
                Err(p) => ctx.fail_panic("UnitHeader::range_from", &p, b.render()),
                Ok(r) => {
                    let ok = match (&r, want) {
                        (Ok(rd), true) => rd.len() as u64 == um.end - x,
                        (Err(gimli::Error::OffsetOutOfBounds(o)), false) => *o == x,
                        _ => false,
                    };
                    if !ok {
                        ctx.fail("UnitHeader::range_from", "bounds", "wrong-range", format!("offset {:#x}: {:?} on {}", x, r.map(|r| r.len()), b.render()));
                    }
                }
            }
        }
        if um.unit_off > 0 && UnitSectionOffset((um.unit_off - 1) as usize).to_unit_offset(h).is_some() {
            ctx.fail("UnitHeader", "is_in_bounds", "wrong-bounds", format!("section offset before the unit converted on {}", b.render()));
        }
        // header_from_offset
        if !b.in_types {
            match guard(|| di.header_from_offset(gimli::DebugInfoOffset(um.unit_off as usize))) {
                Err(p) => ctx.fail_panic("DebugInfo::header_from_offset", &p, b.render()),
                Ok(Ok(h2)) => {
                    if &h2 != h {
                        ctx.fail("DebugInfo::header_from_offset", "same-header", "header-differs", format!("{:?} vs {:?} on {}", h2, h, b.render()));
                    }
                }
                Ok(Err(err)) => ctx.fail("DebugInfo::header_from_offset", "well-formed-unit-accepted", "error-on-well-formed", format!("{:?} on {}", err, b.render())),
            }
        }
        ctx.outcome(&format!("unit-type:{}{}", um.h.kind.name(), if um.h.in_debug_types() { "(.debug_types)" } else { "" }));
        // abbreviations
        match guard(|| h.abbreviations(&da)) {
            Err(p) => {
                ctx.fail_panic("UnitHeader::abbreviations", &p, b.render());
                return None;
            }
            Ok(Err(err)) => {
                ctx.fail("UnitHeader::abbreviations", "well-formed-table-accepted", "error-on-well-formed", format!("{:?} on {}", err, b.render()));
                return None;
            }
            Ok(Ok(a)) => {
                for n in &um.nodes {
                    let ok = match a.get(n.code) {
                        Some(d) => d.code() == n.code && d.tag().0 == n.tag && d.has_children() == n.children_flag && d.attributes().len() == n.attrs.len() && d.attributes().iter().zip(n.attrs.iter()).all(|(s, m)| s.name().0 == m.0 && s.form().0 == m.1),
                        None => false,
                    };
                    if !ok {
                        ctx.fail("Abbreviations::get", "declaration-for-code", "wrong-declaration", format!("code {:#x}: got {:?} on {}", n.code, a.get(n.code), b.render()));
                    }
                }
                abbrevs.push(a);
            }
        }
    }
    Some(Parsed { headers, abbrevs })
}

// ---------------------------------------------------------------------------
// Traversals

fn diff(got: &Obs, want: &Obs) -> Option<&'static str> {
    if got.null != want.null {
        Some("null-mismatch")
    } else if got.off != want.off {
        Some("wrong-offset")
    } else if got.depth != want.depth {
        Some("wrong-depth")
    } else if got.tag != want.tag {
        Some("wrong-tag")
    } else if got.children != want.children {
        Some("wrong-children-flag")
    } else if got.attrs != want.attrs {
        Some("wrong-attrs")
    } else {
        None
    }
}

fn cmp_seq(ctx: &mut Ctx, entry: &str, got: &[Obs], want: &[Obs], case: &dyn Fn() -> String) {
    for (i, (g, w)) in got.iter().zip(want.iter()).enumerate() {
        if let Some(k) = diff(g, w) {
            ctx.fail(entry, "entry-sequence", k, format!("element {}: got {:?} want {:?} on {}", i, g, w, case()));
            return;
        }
    }
    if got.len() != want.len() {
        ctx.fail(entry, "entry-sequence", "wrong-entry-count", format!("got {} elements want {} on {}", got.len(), want.len(), case()));
    }
}

macro_rules! run {
    ($ctx:expr, $entry:expr, $case:expr, $body:expr) => {
        match guard(|| -> gimli::Result<_> { $body }) {
            Err(p) => {
                $ctx.fail_panic($entry, &p, $case());
                None
            }
            Ok(Err(err)) => {
                $ctx.fail($entry, "well-formed-unit-accepted", "error-on-well-formed", format!("{:?} on {}", err, $case()));
                None
            }
            Ok(Ok(v)) => Some(v),
        }
    };
}

/// All read-only traversal styles from every stream element of one unit.
pub fn check_traversals(ctx: &mut Ctx, b: &Built, um: &UnitModel, h: &UnitHeader<R<'_>>, ab: &Abbreviations, every_start: bool) {
    let m = um.elems.len();
    let case = || b.render();
    let starts: Vec<Option<usize>> = if every_start { std::iter::once(None).chain((0..m).map(Some)).collect() } else { vec![None] };
    for st in starts {
        let k = st.unwrap_or(0);
        let off = st.map(|k| UnitOffset(um.elems[k].off as usize));
        let want: Vec<Obs> = (k..m).map(|j| um.expect(j, k)).collect();
        let want_nonnull: Vec<Obs> = want.iter().filter(|o| !o.null).cloned().collect();
        let what = |api: &str| format!("{} from {}", api, match st { None => "root".to_string(), Some(k) => format!("{:#x}", um.elems[k].off) });
        let _ = what;
        // raw: read_entry
        ctx.eval(1);
        if let Some(got) = run!(ctx, "EntriesRaw::read_entry", case, {
            let mut raw = h.entries_raw(ab, off)?;
            let mut e = gimli::DebuggingInformationEntry::null();
            let mut v = vec![];
            while !raw.is_empty() {
                let nd = raw.next_depth();
                let no = raw.next_offset();
                let nonnull = raw.read_entry(&mut e)?;
                let mut o = obs_entry(&e);
                if nonnull == e.is_null() || nd != o.depth || no.0 as u64 != o.off {
                    o.off = u64::MAX; // forces a report below
                }
                v.push(o);
            }
            Ok((v, raw.next_offset().0 as u64, raw.next_depth()))
        }) {
            cmp_seq(ctx, "EntriesRaw::read_entry", &got.0, &want, &case);
            if got.1 != um.end || got.2 != um.end_depth - um.elems[k].depth {
                ctx.fail("EntriesRaw::read_entry", "end-position", "wrong-end-state", format!("next_offset {:#x} next_depth {} want {:#x} {} on {}", got.1, got.2, um.end, um.end_depth - um.elems[k].depth, case()));
            }
        }
        // raw: read_abbreviation + read_attribute / skip_attributes alternately
        for skip in [false, true] {
            ctx.eval(1);
            let entry = if skip { "EntriesRaw::skip_attributes" } else { "EntriesRaw::read_attribute" };
            if let Some(got) = run!(ctx, entry, case, {
                let mut raw = h.entries_raw(ab, off)?;
                let mut v = vec![];
                while !raw.is_empty() {
                    let depth = raw.next_depth();
                    let o = raw.next_offset().0 as u64;
                    match raw.read_abbreviation()? {
                        None => v.push(Obs { off: o, depth, null: true, tag: 0, children: false, attrs: vec![] }),
                        Some(a) => {
                            let mut attrs = vec![];
                            if skip {
                                raw.skip_attributes(a.attributes())?;
                            } else {
                                for s in a.attributes() {
                                    attrs.push(attr_triple(&raw.read_attribute(*s)?));
                                }
                            }
                            v.push(Obs { off: o, depth, null: false, tag: a.tag().0, children: a.has_children(), attrs });
                        }
                    }
                }
                Ok(v)
            }) {
                if skip {
                    let w: Vec<Obs> = want.iter().map(|o| Obs { attrs: vec![], ..o.clone() }).collect();
                    cmp_seq(ctx, entry, &got, &w, &case);
                } else {
                    cmp_seq(ctx, entry, &got, &want, &case);
                }
            }
        }
        // cursor: next_entry until false
        ctx.eval(1);
        if let Some(got) = run!(ctx, "EntriesCursor::next_entry", case, {
            let mut c = match off {
                None => h.entries(ab),
                Some(o) => h.entries_at_offset(ab, o)?,
            };
            let mut v = vec![];
            while c.next_entry()? {
                let mut o = match c.current() {
                    Some(e) => obs_entry(e),
                    None => Obs { off: c.offset().0 as u64, depth: c.depth(), null: true, tag: 0, children: false, attrs: vec![] },
                };
                if c.offset().0 as u64 != o.off || c.depth() != o.depth {
                    o.off = u64::MAX;
                }
                v.push(o);
            }
            Ok(v)
        }) {
            cmp_seq(ctx, "EntriesCursor::next_entry", &got, &want, &case);
        }
        // cursor: next_dfs until None
        ctx.eval(1);
        if let Some(got) = run!(ctx, "EntriesCursor::next_dfs", case, {
            let mut c = match off {
                None => h.entries(ab),
                Some(o) => h.entries_at_offset(ab, o)?,
            };
            let mut v = vec![];
            while let Some(e) = c.next_dfs()? {
                v.push(obs_entry(e));
            }
            Ok(v)
        }) {
            cmp_seq(ctx, "EntriesCursor::next_dfs", &got, &want_nonnull, &case);
        }
        // positioned single read
        if let Some(k) = st {
            ctx.eval(1);
            let o = UnitOffset(um.elems[k].off as usize);
            match guard(|| h.entry(ab, o)) {
                Err(p) => ctx.fail_panic("UnitHeader::entry", &p, case()),
                Ok(r) => match (r, um.elems[k].node) {
                    (Ok(e), Some(_)) => {
                        if let Some(kind) = diff(&obs_entry(&e), &want[0]) {
                            ctx.fail("UnitHeader::entry", "entry-at-offset", kind, format!("got {:?} want {:?} on {}", obs_entry(&e), want[0], case()));
                        }
                    }
                    (Err(gimli::Error::NoEntryAtGivenOffset(x)), None) if x == um.elems[k].off => ctx.outcome("positioned:null-entry-error"),
                    (r, _) => ctx.fail("UnitHeader::entry", "entry-at-offset", "wrong-result", format!("at {:#x}: got {:?} on {}", um.elems[k].off, r.map(|e| obs_entry(&e)), case())),
                },
            }
        }
        // children of the start entry by next_entry + next_sibling, and following siblings
        if let Some(i) = um.elems[k].node {
            ctx.eval(1);
            let node = &um.nodes[i];
            if let Some(got) = run!(ctx, "EntriesCursor::next_sibling", case, {
                let mut c = match off {
                    None => h.entries(ab),
                    Some(o) => h.entries_at_offset(ab, o)?,
                };
                c.next_entry()?;
                let mut kids = vec![];
                let mut end_state = None;
                if c.current().map(|e| e.has_children()) == Some(true) {
                    c.next_entry()?;
                    while let Some(e) = c.current() {
                        kids.push(obs_entry(e));
                        c.next_sibling()?;
                    }
                    end_state = Some((c.offset().0 as u64, c.depth()));
                }
                // following siblings of the start entry
                let mut c2 = match off {
                    None => h.entries(ab),
                    Some(o) => h.entries_at_offset(ab, o)?,
                };
                c2.next_entry()?;
                let mut sibs = vec![];
                while let Some(e) = c2.next_sibling()? {
                    sibs.push(obs_entry(e));
                }
                Ok((kids, end_state, sibs))
            }) {
                let wk: Vec<Obs> = node.children.iter().map(|&c| um.expect(um.nodes[c].elem, k)).collect();
                cmp_seq(ctx, "EntriesCursor::next_sibling", &got.0, &wk, &case);
                if node.children_flag {
                    // the walk ends on the null closing this entry's child list
                    let closing = &um.elems[node.after - 1];
                    if got.1 != Some((closing.off, 1)) {
                        ctx.fail("EntriesCursor::next_sibling", "ends-on-closing-null", "wrong-end-position", format!("got {:?} want ({:#x}, 1) on {}", got.1, closing.off, case()));
                    }
                    ctx.outcome(if node.children.is_empty() { "children:empty-list" } else { "children:some" });
                }
                let mut ws = vec![];
                let mut j = node.after;
                while j < m {
                    match um.elems[j].node {
                        Some(s) if um.elems[j].depth == um.elems[k].depth => {
                            ws.push(um.expect(j, k));
                            j = um.nodes[s].after;
                        }
                        _ => break,
                    }
                }
                cmp_seq(ctx, "EntriesCursor::next_sibling", &got.2, &ws, &case);
            }
        }
        // tree API: full recursive walk
        ctx.eval(1);
        match guard(|| -> gimli::Result<Result<(), String>> {
            let mut t = h.entries_tree(ab, off)?;
            match um.elems[k].node {
                None => match t.root() {
                    Err(gimli::Error::NoEntryAtGivenOffset(x)) if x == um.elems[k].off => Ok(Ok(())),
                    Err(e) => Err(e),
                    Ok(n) => Ok(Err(format!("root() at a null entry returned {:?}", obs_entry(n.entry())))),
                },
                Some(i) => {
                    fn walk(um: &UnitModel, k: usize, i: usize, node: gimli::EntriesTreeNode<'_, '_, R<'_>>) -> gimli::Result<Result<(), String>> {
                        let want = um.expect(um.nodes[i].elem, k);
                        let got = obs_entry(node.entry());
                        if let Some(kind) = diff(&got, &want) {
                            return Ok(Err(format!("{}: got {:?} want {:?}", kind, got, want)));
                        }
                        let mut it = node.children();
                        for &c in &um.nodes[i].children {
                            match it.next()? {
                                None => return Ok(Err(format!("children of node {} ended before child {}", i, c))),
                                Some(ch) => {
                                    if let Err(e) = walk(um, k, c, ch)? {
                                        return Ok(Err(e));
                                    }
                                }
                            }
                        }
                        if let Some(x) = it.next()? {
                            return Ok(Err(format!("extra child {:?} of node {}", obs_entry(x.entry()), i)));
                        }
                        if it.next()?.is_some() {
                            return Ok(Err(format!("child after exhaustion of node {}", i)));
                        }
                        Ok(Ok(()))
                    }
                    let r = walk(um, k, i, t.root()?)?;
                    if r.is_err() {
                        return Ok(r);
                    }
                    // root() again restarts
                    let n = t.root()?;
                    let got = obs_entry(n.entry());
                    if diff(&got, &um.expect(k, k)).is_some() {
                        return Ok(Err(format!("second root(): {:?}", got)));
                    }
                    Ok(Ok(()))
                }
            }
        }) {
            Err(p) => ctx.fail_panic("EntriesTree", &p, case()),
            Ok(Err(err)) => ctx.fail("EntriesTree", "well-formed-unit-accepted", "error-on-well-formed", format!("{:?} on {}", err, case())),
            Ok(Ok(Err(d))) => ctx.fail("EntriesTree", "tree-equals-encoded-forest", "wrong-tree", format!("start {:?}: {} on {}", st, d, case())),
            Ok(Ok(Ok(()))) => {}
        }
    }
    // out-of-bounds start positions are rejected, not misread
    for x in [um.end, um.hsize - 1] {
        let o = UnitOffset(x as usize);
        let r1 = guard(|| h.entries_at_offset(ab, o).map(|_| ()));
        let r2 = guard(|| h.entries_raw(ab, Some(o)).map(|_| ()));
        let r3 = guard(|| h.entries_tree(ab, Some(o)).map(|_| ()));
        let r4 = guard(|| h.entry(ab, o).map(|_| ()));
        for (name, r) in [("UnitHeader::entries_at_offset", r1), ("UnitHeader::entries_raw", r2), ("UnitHeader::entries_tree", r3), ("UnitHeader::entry", r4)] {
            match r {
                Err(p) => ctx.fail_panic(name, &p, case()),
                Ok(Err(gimli::Error::OffsetOutOfBounds(y))) if y == x => {}
                Ok(other) => ctx.fail(name, "bounds", "out-of-bounds-start-accepted", format!("offset {:#x}: {:?} on {}", x, other, case())),
            }
        }
    }
}

/// The same forest through `gimli::Dwarf` / `gimli::Unit` (src/read/dwarf.rs).
pub fn check_dwarf_level(ctx: &mut Ctx, b: &Built) {
    let e = endian(b.big);
    let case = || b.render();
    ctx.eval(1);
    let r = guard(|| -> gimli::Result<Vec<Vec<Obs>>> {
        let dwarf = gimli::Dwarf::load(|id| -> gimli::Result<R<'_>> {
            Ok(gimli::EndianSlice::new(
                match id {
                    gimli::SectionId::DebugInfo => &b.info,
                    gimli::SectionId::DebugTypes => &b.types,
                    gimli::SectionId::DebugAbbrev => &b.abbrev,
                    _ => &[],
                },
                e,
            ))
        })?;
        let mut out = vec![];
        let mut hs = vec![];
        if b.in_types {
            let mut it = dwarf.type_units();
            while let Some(h) = it.next()? {
                hs.push(h);
            }
        } else {
            let mut it = dwarf.units();
            while let Some(h) = it.next()? {
                hs.push(h);
            }
        }
        for h in hs {
            let unit = dwarf.unit(h)?;
            let mut c = unit.entries();
            let mut v = vec![];
            while let Some(en) = c.next_dfs()? {
                v.push(obs_entry(en));
            }
            // tree root through Unit
            let mut t = unit.entries_tree(None)?;
            let root = obs_entry(t.root()?.entry());
            v.push(root);
            out.push(v);
        }
        Ok(out)
    });
    match r {
        Err(p) => ctx.fail_panic("Dwarf::unit", &p, case()),
        Ok(Err(err)) => ctx.fail("Dwarf::unit", "well-formed-unit-accepted", "error-on-well-formed", format!("{:?} on {}", err, case())),
        Ok(Ok(got)) => {
            if got.len() != b.units.len() {
                ctx.fail("Dwarf::units", "unit-count", "wrong-unit-count", format!("{} on {}", got.len(), case()));
                return;
            }
            for (g, um) in got.iter().zip(b.units.iter()) {
                let mut want: Vec<Obs> = (0..um.elems.len()).map(|j| um.expect(j, 0)).filter(|o| !o.null).collect();
                want.push(um.expect(0, 0));
                cmp_seq(ctx, "Unit::entries", g, &want, &case);
            }
        }
    }
}

// ---------------------------------------------------------------------------
// Subs

fn traversal_case(ctx: &mut Ctx, combo: &Combo, pad: usize, sib: SibMode, scheme: CodeScheme, cfg: Cfg, kind: UKind, two: bool) {
    let mut nodes = make_nodes(combo, sib, scheme, true);
    // (a one-byte sibling reference cannot span the larger entries)
    if !(sib.which != Which::None && (sib.form == F_REF1 || sib.inner == F_REF1)) {
        add_form_rotation(&mut nodes, cfg, combo.parents.len() * 5 + pad + combo.leaf_mask as usize);
    }
    let b = build(cfg, kind, &nodes, pad, two, 0, 0x0102_0304_0506_0708, combo.parents.len() - 1);
    if ctx.want_sample() {
        ctx.sample(format!("{} codes {:?} pad {} :: {}", sib.render(), scheme, pad, b.render()));
    }
    let Some(p) = parse_and_check_headers(ctx, &b) else { return };
    for (ui, um) in b.units.iter().enumerate() {
        // the fixed first unit is traversed from its root only
        check_traversals(ctx, &b, um, &p.headers[ui], &p.abbrevs[ui], ui + 1 == b.units.len());
    }
    check_dwarf_level(ctx, &b);
    ctx.nontriv(1);
    ctx.outcome(&format!("sibling-form:{}", form_name(if sib.which == Which::None { 0 } else { sib.form })));
    ctx.outcome(&format!("codes:{:?}", scheme));
}

const PADS: [usize; 3] = [0, 1, 3];

/// Full product of all dimensions.
fn sub_traversals(tier: Tier) -> Sub {
    let maxn = tier.pick(4, 6);
    let cs = combos(1, maxn);
    let len = cs.len() as u64 * 3 * SIB_MODES.len() as u64 * CODE_SCHEMES.len() as u64 * SHAPE_CFGS.len() as u64 * 2;
    let bound = format!(
        "FULL PRODUCT: every ordered tree with 1..={} nodes x every subset of leaves flagged DW_CHILDREN_yes with an empty child list ({} shape/flag combinations) x trailing null padding {{0,1,3}} x {} DW_AT_sibling modes (none/parents/all; ref1,ref2,ref4,ref8,ref_udata,indirect->ref4; ref_addr, self, backward, zero = must be ignored) x 6 abbreviation code schemes (sequential, reversed, rotated, sparse, > 2^32, down from 2^64-1) x 6 (version,format,address size,endian,unit type) settings x {{1,2}} units per section; every traversal style (raw read_entry, raw read_abbreviation+read_attribute, raw +skip_attributes, cursor next_entry, next_dfs, next_entry+next_sibling child walk, following siblings, tree iterator, entry(off), Dwarf/Unit level) from the root and from EVERY stream element offset",
        maxn,
        cs.len(),
        SIB_MODES.len()
    );
    Sub::new("forest-traversals", len, &bound, move |ctx, i| {
        let mut mx = Mix(i);
        let two = mx.flag();
        let (cfg, kind) = *mx.pick(&SHAPE_CFGS);
        let scheme = *mx.pick(&CODE_SCHEMES);
        let sib = *mx.pick(&SIB_MODES);
        let pad = *mx.pick(&PADS);
        let combo = &cs[mx.take(cs.len() as u64) as usize];
        traversal_case(ctx, combo, pad, sib, scheme, cfg, kind, two);
    })
}

/// The largest trees: shape x flags x padding x sibling mode in full; code
/// scheme, encoding and unit count vary together (6 diagonal settings), since
/// they do not interact with the shape in the code under test.
fn sub_traversals_large(tier: Tier) -> Sub {
    let (lo, n) = tier.pick((5, 6), (7, 7));
    let cs = combos(lo, n);
    let len = cs.len() as u64 * 3 * SIB_MODES.len() as u64 * 6;
    let bound = format!(
        "every ordered tree with {}..={} nodes x every leaf-flag subset ({} combinations) x padding {{0,1,3}} x {} sibling modes x 6 diagonal settings (code scheme k, encoding/unit type k, 1 or 2 units); same traversal styles from every stream element offset",
        lo,
        n,
        cs.len(),
        SIB_MODES.len()
    );
    Sub::new("forest-traversals-largest-trees", len, &bound, move |ctx, i| {
        let mut mx = Mix(i);
        let k = mx.take(6) as usize;
        let sib = *mx.pick(&SIB_MODES);
        let pad = *mx.pick(&PADS);
        let combo = &cs[mx.take(cs.len() as u64) as usize];
        let (cfg, kind) = SHAPE_CFGS[k];
        traversal_case(ctx, combo, pad, sib, CODE_SCHEMES[(k + pad) % 6], cfg, kind, (k + i as usize / 6) % 2 == 1);
    })
}

fn sub_forests(tier: Tier) -> Sub {
    let cs = forest_combos(tier.pick(4, 5));
    let len = cs.len() as u64 * 2 * 3 * 2;
    let bound = format!("every forest with >= 2 top-level entries and 2..={} nodes ({} forests) x padding {{0,2}} x sibling modes {{none, all ref4, all ref_udata}} x 2 settings; every traversal style from every stream element offset", tier.pick(4, 5), cs.len());
    Sub::new("top-level-forests", len, &bound, move |ctx, i| {
        let mut mx = Mix(i);
        let (cfg, kind) = SHAPE_CFGS[mx.take(2) as usize];
        let sib = [SIB_MODES[0], SIB_MODES[2], SIB_MODES[6]][mx.take(3) as usize];
        let pad = [0usize, 2][mx.take(2) as usize];
        let combo = &cs[mx.take(cs.len() as u64) as usize];
        let nodes = make_nodes(combo, sib, CodeScheme::Sequential, true);
        let b = build(cfg, kind, &nodes, pad, false, 0, 0, 0);
        if ctx.want_sample() {
            ctx.sample(b.render());
        }
        let Some(p) = parse_and_check_headers(ctx, &b) else { return };
        check_traversals(ctx, &b, &b.units[0], &p.headers[0], &p.abbrevs[0], true);
        ctx.nontriv(1);
    })
}

fn sub_sibling_subsets(tier: Tier) -> Sub {
    let cs = combos(2, tier.pick(5, 6));
    // index space: combo x mask (2^n, n <= 6 -> 64 slots, masks >= 2^n are folded by modulo and skipped) x pad x form
    let len = cs.len() as u64 * 64 * 2 * 2;
    let seq_len = tier.pick(5u32, 6u32);
    let bound = format!("every tree with 2..={} nodes x leaf flags x EVERY subset of entries carrying DW_AT_sibling x padding {{0,1}} x form {{ref4, ref_udata}}; all traversal styles plus every tree-API sequence of length <= {} from the root", tier.pick(5, 6), seq_len);
    Sub::new("sibling-subsets", len, &bound, move |ctx, i| {
        let mut mx = Mix(i);
        let form = [F_REF4, F_REF_UDATA][mx.take(2) as usize];
        let pad = mx.take(2) as usize;
        let mask = mx.take(64) as u32;
        let combo = &cs[mx.take(cs.len() as u64) as usize];
        if mask >= 1 << combo.parents.len() {
            ctx.outcome("sibling-subsets:index-slot-unused");
            return;
        }
        let sib = SibMode { which: Which::Mask(mask), form, inner: 0, target: SibTarget::Next };
        let nodes = make_nodes(combo, sib, CodeScheme::Sequential, mask % 2 == 0);
        let (cfg, kind) = SHAPE_CFGS[(mask as usize + pad) % 2];
        let b = build(cfg, kind, &nodes, pad, false, 0, 0, 0);
        if ctx.want_sample() {
            ctx.sample(format!("{} :: {}", sib.render(), b.render()));
        }
        let Some(p) = parse_and_check_headers(ctx, &b) else { return };
        check_traversals(ctx, &b, &b.units[0], &p.headers[0], &p.abbrevs[0], true);
        // partial tree walks: the sibling fast path must also be right on entries below
        // the level being iterated
        treeapi::check_root_sequences(ctx, &b, &b.units[0], &p.headers[0], &p.abbrevs[0], seq_len);
        ctx.nontriv(1);
    })
}

fn sub_headers(_tier: Tier) -> Sub {
    // (version, kind) pairs
    let mut vk = vec![];
    for v in [2u16, 3, 4, 5] {
        for &k in UKind::for_version(v) {
            vk.push((v, k));
        }
    }
    let shapes: Vec<Combo> = vec![
        Combo { parents: vec![usize::MAX], leaf_mask: 0 },
        Combo { parents: vec![usize::MAX], leaf_mask: 1 },
        Combo { parents: vec![usize::MAX, 0, 0], leaf_mask: 0 },
        Combo { parents: vec![usize::MAX, 0, 1, 2], leaf_mask: 0 },
        Combo { parents: vec![usize::MAX, 0, 1, 0, 3], leaf_mask: 1 << 2 },
        Combo { parents: vec![usize::MAX, 0, 0, 2, 2, 0], leaf_mask: 1 << 1 },
    ];
    let ids = [0u64, 0x0102_0304_0506_0708, u64::MAX];
    let len = vk.len() as u64 * 2 * 4 * 2 * 3 * shapes.len() as u64 * ids.len() as u64;
    let bound = "version {2,3,4,5} x unit type {v2-4: .debug_info, .debug_types; v5: compile, type, partial, skeleton, split_compile, split_type} x format x address size {1,2,4,8} x byte order x abbreviation-table offset {0, 10, 302} (+ the first unit's table when there are two units) x signature/dwo id {0, 0x0102030405060708, 2^64-1} x 6 fixed shapes (type_offset = last stream element); every header accessor, bounds at header_size-1/header_size/end-1/end, second unit offset";
    Sub::new("header-layouts", len, bound, move |ctx, i| {
        let mut mx = Mix(i);
        let id = *mx.pick(&ids);
        let combo = mx.pick(&shapes).clone();
        let prefix = [0usize, 2, 148][mx.take(3) as usize];
        let big = mx.flag();
        let asz = [1u8, 2, 4, 8][mx.take(4) as usize];
        let fmt64 = mx.flag();
        let (version, kind) = *mx.pick(&vk);
        let cfg = Cfg { version, fmt64, asz, big };
        let sib = SIB_MODES[(i % 3) as usize];
        let mut nodes = make_nodes(&combo, sib, CODE_SCHEMES[(i % 6) as usize], true);
        if !(sib.which != Which::None && (sib.form == F_REF1 || sib.inner == F_REF1)) {
            add_form_rotation(&mut nodes, cfg, i as usize);
        }
        let b = build(cfg, kind, &nodes, (i % 2) as usize, i % 4 < 2, prefix, id, usize::MAX - 1);
        if ctx.want_sample() {
            ctx.sample(b.render());
        }
        let Some(p) = parse_and_check_headers(ctx, &b) else { return };
        let ui = b.units.len() - 1;
        check_traversals(ctx, &b, &b.units[ui], &p.headers[ui], &p.abbrevs[ui], true);
        check_dwarf_level(ctx, &b);
        ctx.nontriv(1);
        ctx.outcome(&format!("header:v{}", version));
    })
}

pub fn def(tier: Tier) -> CheckDef {
    let subs = vec![sub_traversals(tier), sub_traversals_large(tier), sub_forests(tier), sub_sibling_subsets(tier), sub_headers(tier), cursor::sub_histories(tier), cursor::sub_sequences(tier), treeapi::sub_tree_sequences(tier), sets::sub_abbrev_sets(Tier::Thorough)];
    let mut required: Vec<String> = vec![];
    for k in ["compile", "type", "type(.debug_types)", "partial", "skeleton", "split_compile", "split_type"] {
        required.push(format!("unit-type:{}", k));
    }
    for f in ["ref1", "ref2", "ref4", "ref8", "ref_udata", "ref_addr", "indirect", "form0x0"] {
        required.push(format!("sibling-form:{}", f));
    }
    for s in CODE_SCHEMES {
        required.push(format!("codes:{:?}", s));
    }
    for o in [
        "positioned:null-entry-error",
        "children:empty-list",
        "children:some",
        "header:v2",
        "header:v3",
        "header:v4",
        "header:v5",
        "cursor:next_entry:entry",
        "cursor:next_entry:null",
        "cursor:next_entry:end",
        "cursor:next_dfs:entry",
        "cursor:next_dfs:end",
        "cursor:next_sibling:sibling",
        "cursor:next_sibling:closing-null",
        "cursor:next_sibling:end-of-unit",
        "cursor:next_sibling:noop-on-null",
        "cursor:closed:true",
        "tree:next:child",
        "tree:next:none",
        "tree:descend",
        "tree:up",
        "tree:root-again",
        "abbrev:accepted",
        "abbrev:duplicate-rejected",
        "abbrev:lookup-hit",
        "abbrev:lookup-miss",
    ] {
        required.push(o.to_string());
    }
    CheckDef {
        level: "model_checking",
        rule: "a case is one encoded section (abstract forest x code scheme x sibling placement x padding x encoding); distinct by construction of the index space; non-trivial = the section was accepted and every traversal style was compared with the abstract forest from every start position. Cursor histories: explicit-state BFS over {next_entry,next_dfs,next_sibling} on the live EntriesCursor, state key = (next_offset,next_depth,offset,depth,current tag/null) + model state; the cursor's whole state is (reader position, depth counter, cached entry) and the cached entry is a function of its offset, so equal keys have equal futures".into(),
        assumptions: vec![
            "small-scope: trees up to 7 nodes, units of at most 2 per section; the compiler-corpus / llvm-dwarfdump clause of the quantifier is a different technique and is not decided here".into(),
            "DW_AT_sibling values are either correct (next sibling / closing null / end of top level) or of a kind the rustdoc says is ignored (not a unit reference, not strictly forward); forward-but-wrong pointers are ill-formed input (C01)".into(),
            "model cursor transcribed from the rustdoc of EntriesCursor::{next_entry,next_dfs,next_sibling,current,offset,depth,next_offset,next_depth}; offset()/depth() after next_entry/next_dfs reported the end are not documented and not compared".into(),
            "DWARF constants and header layouts are transcribed from the standard (die/dw.rs, die/model.rs), cross-checked once against LLVM's Dwarf.def, never taken from gimli".into(),
        ],
        subs,
        required_outcomes: required,
    }
}
