//! Independent reference for DWARF line-number programs (DWARF 5 section 6.2,
//! versions 2-5): byte encoder for headers and instructions (on `mcx::enc::Enc`),
//! byte decoder, and the line-number state machine in 128-bit arithmetic so
//! that every overflow is *detected* (such programs are ill-formed: only the
//! "for any input" clause of C04 applies to them).
//!
//! Nothing here uses gimli. All constants are transcribed from the DWARF 5
//! standard (tables 7.6, 7.25, 7.26, 7.27).
#![allow(dead_code)]

use mcx::enc::Enc;
use mcx::leb::{self, Dec};

// Table 7.25: line number standard opcode encodings
pub const LNS_COPY: u8 = 0x01;
pub const LNS_ADVANCE_PC: u8 = 0x02;
pub const LNS_ADVANCE_LINE: u8 = 0x03;
pub const LNS_SET_FILE: u8 = 0x04;
pub const LNS_SET_COLUMN: u8 = 0x05;
pub const LNS_NEGATE_STMT: u8 = 0x06;
pub const LNS_SET_BASIC_BLOCK: u8 = 0x07;
pub const LNS_CONST_ADD_PC: u8 = 0x08;
pub const LNS_FIXED_ADVANCE_PC: u8 = 0x09;
pub const LNS_SET_PROLOGUE_END: u8 = 0x0a;
pub const LNS_SET_EPILOGUE_BEGIN: u8 = 0x0b;
pub const LNS_SET_ISA: u8 = 0x0c;
/// Number of LEB128 operands of standard opcodes 1..=12 (section 6.2.5.2;
/// DW_LNS_fixed_advance_pc takes one *uhalf*, listed as 1 in every producer's
/// standard_opcode_lengths).
pub const STD_OPERANDS: [u8; 12] = [0, 1, 1, 1, 1, 0, 0, 0, 1, 0, 0, 1];

// Table 7.26: line number extended opcode encodings
pub const LNE_END_SEQUENCE: u8 = 0x01;
pub const LNE_SET_ADDRESS: u8 = 0x02;
pub const LNE_DEFINE_FILE: u8 = 0x03; // reserved in DWARF 5
pub const LNE_SET_DISCRIMINATOR: u8 = 0x04;

// Table 7.27: line number header entry format encodings
pub const LNCT_PATH: u64 = 0x1;
pub const LNCT_DIRECTORY_INDEX: u64 = 0x2;
pub const LNCT_TIMESTAMP: u64 = 0x3;
pub const LNCT_SIZE: u64 = 0x4;
pub const LNCT_MD5: u64 = 0x5;
/// LLVM vendor extension (DW_LNCT_LLVM_source), in the lo_user..hi_user range.
pub const LNCT_LLVM_SOURCE: u64 = 0x2001;

// Table 7.6: attribute form encodings
pub const FORM_BLOCK2: u64 = 0x03;
pub const FORM_BLOCK4: u64 = 0x04;
pub const FORM_DATA2: u64 = 0x05;
pub const FORM_DATA4: u64 = 0x06;
pub const FORM_DATA8: u64 = 0x07;
pub const FORM_STRING: u64 = 0x08;
pub const FORM_BLOCK: u64 = 0x09;
pub const FORM_BLOCK1: u64 = 0x0a;
pub const FORM_DATA1: u64 = 0x0b;
pub const FORM_STRP: u64 = 0x0e;
pub const FORM_UDATA: u64 = 0x0f;
pub const FORM_STRX: u64 = 0x1a;
pub const FORM_DATA16: u64 = 0x1e;
pub const FORM_LINE_STRP: u64 = 0x1f;
pub const FORM_STRX1: u64 = 0x25;
pub const FORM_STRX2: u64 = 0x26;
pub const FORM_STRX3: u64 = 0x27;
pub const FORM_STRX4: u64 = 0x28;

pub fn form_name(f: u64) -> &'static str {
    match f {
        FORM_BLOCK2 => "block2",
        FORM_BLOCK4 => "block4",
        FORM_DATA2 => "data2",
        FORM_DATA4 => "data4",
        FORM_DATA8 => "data8",
        FORM_STRING => "string",
        FORM_BLOCK => "block",
        FORM_BLOCK1 => "block1",
        FORM_DATA1 => "data1",
        FORM_STRP => "strp",
        FORM_UDATA => "udata",
        FORM_STRX => "strx",
        FORM_DATA16 => "data16",
        FORM_LINE_STRP => "line_strp",
        FORM_STRX1 => "strx1",
        FORM_STRX2 => "strx2",
        FORM_STRX3 => "strx3",
        FORM_STRX4 => "strx4",
        _ => "form?",
    }
}

pub fn is_string_form(f: u64) -> bool {
    matches!(f, FORM_STRING | FORM_STRP | FORM_LINE_STRP | FORM_STRX | FORM_STRX1 | FORM_STRX2 | FORM_STRX3 | FORM_STRX4)
}
pub fn is_int_form(f: u64) -> bool {
    matches!(f, FORM_UDATA | FORM_DATA1 | FORM_DATA2 | FORM_DATA4 | FORM_DATA8)
}

/// A file entry of a version 2-4 header or of DW_LNE_define_file.
#[derive(Clone, Debug, PartialEq, Eq)]
pub struct FileV4 {
    pub name: Vec<u8>,
    pub dir: u64,
    pub mtime: u64,
    pub len: u64,
}

/// A value in a version 5 directory/file entry.
#[derive(Clone, Debug, PartialEq, Eq)]
pub enum Val {
    Str(Vec<u8>),
    LineStrp(u64),
    Strp(u64),
    Strx(u64),
    Int(u64),
    Data16([u8; 16]),
    Block(Vec<u8>),
}

#[derive(Clone, Debug, Default)]
pub struct V5Table {
    /// (content type code, form code) pairs
    pub fmt: Vec<(u64, u64)>,
    /// one value per format column, per entry
    pub entries: Vec<Vec<Val>>,
}

#[derive(Clone, Debug)]
pub enum Tables {
    V4 { dirs: Vec<Vec<u8>>, files: Vec<FileV4> },
    V5 { dirs: V5Table, files: V5Table },
}

#[derive(Clone, Debug)]
pub struct Hdr {
    pub version: u16,
    pub fmt64: bool,
    pub addr_size: u8,
    pub big: bool,
    pub min_inst: u8,
    /// Encoded only for version >= 4; earlier versions have none (= 1).
    pub max_ops: u8,
    /// The default_is_stmt byte as encoded (any non-zero value is "true").
    pub stmt_byte: u8,
    pub line_base: i8,
    pub line_range: u8,
    pub opcode_base: u8,
    /// opcode_base - 1 entries
    pub std_lengths: Vec<u8>,
    pub tables: Tables,
    /// Bytes between the end of the file table and the first opcode (covered
    /// by header_length, to be skipped by a consumer).
    pub pad: usize,
}

impl Hdr {
    pub fn eff_max_ops(&self) -> u8 {
        if self.version >= 4 {
            self.max_ops
        } else {
            1
        }
    }
    pub fn addr_mask(&self) -> u64 {
        if self.addr_size >= 8 {
            u64::MAX
        } else {
            (1u64 << (8 * self.addr_size as u32)) - 1
        }
    }
    pub fn default_is_stmt(&self) -> bool {
        self.stmt_byte != 0
    }
    pub fn render(&self) -> String {
        format!(
            "v{} {} addr{} {} min_inst={} max_ops={} stmt={:#x} line_base={} line_range={} opcode_base={} lens={} pad={}",
            self.version,
            if self.fmt64 { "dwarf64" } else { "dwarf32" },
            self.addr_size,
            if self.big { "BE" } else { "LE" },
            self.min_inst,
            self.max_ops,
            self.stmt_byte,
            self.line_base,
            self.line_range,
            self.opcode_base,
            mcx::hex(&self.std_lengths),
            self.pad
        )
    }
}

/// standard_opcode_lengths: the standard's counts for opcodes 1..=12 and
/// `unknown(opcode)` for opcodes >= 13.
pub fn std_lengths(opcode_base: u8, unknown: impl Fn(u8) -> u8) -> Vec<u8> {
    (1..opcode_base).map(|op| if op <= 12 { STD_OPERANDS[op as usize - 1] } else { unknown(op) }).collect()
}

pub fn enc_val(e: &mut Enc, form: u64, v: &Val, fmt64: bool) {
    match (form, v) {
        (FORM_STRING, Val::Str(s)) => {
            e.cstr(s);
        }
        (FORM_LINE_STRP, Val::LineStrp(o)) | (FORM_STRP, Val::Strp(o)) => {
            e.offset(*o, fmt64);
        }
        (FORM_STRX, Val::Strx(i)) => {
            e.uleb(*i);
        }
        (FORM_STRX1, Val::Strx(i)) => {
            e.uint(*i, 1);
        }
        (FORM_STRX2, Val::Strx(i)) => {
            e.uint(*i, 2);
        }
        (FORM_STRX3, Val::Strx(i)) => {
            e.uint(*i, 3);
        }
        (FORM_STRX4, Val::Strx(i)) => {
            e.uint(*i, 4);
        }
        (FORM_UDATA, Val::Int(v)) => {
            e.uleb(*v);
        }
        (FORM_DATA1, Val::Int(v)) => {
            e.uint(*v, 1);
        }
        (FORM_DATA2, Val::Int(v)) => {
            e.uint(*v, 2);
        }
        (FORM_DATA4, Val::Int(v)) => {
            e.uint(*v, 4);
        }
        (FORM_DATA8, Val::Int(v)) => {
            e.uint(*v, 8);
        }
        (FORM_DATA16, Val::Data16(b)) => {
            e.bytes(b);
        }
        (FORM_BLOCK, Val::Block(b)) => {
            e.uleb(b.len() as u64);
            e.bytes(b);
        }
        (FORM_BLOCK1, Val::Block(b)) => {
            e.u8(b.len() as u8);
            e.bytes(b);
        }
        (FORM_BLOCK2, Val::Block(b)) => {
            e.u16(b.len() as u16);
            e.bytes(b);
        }
        (FORM_BLOCK4, Val::Block(b)) => {
            e.u32(b.len() as u32);
            e.bytes(b);
        }
        _ => panic!("harness: value {:?} does not fit form {:#x}", v, form),
    }
}

/// A deterministic value fitting `form`, varied by `salt` so that entries and
/// columns are distinguishable; wide enough to exercise multi-byte encodings.
pub fn default_val(form: u64, salt: u64) -> Val {
    match form {
        FORM_STRING => Val::Str(format!("s{}", salt).into_bytes()),
        FORM_LINE_STRP => Val::LineStrp(0x100 + salt),
        FORM_STRP => Val::Strp(0x20000 + salt),
        FORM_STRX => Val::Strx(0x80 + salt),
        FORM_STRX1 => Val::Strx(0xf0 + (salt & 0xf)),
        FORM_STRX2 => Val::Strx(0xf100 + salt),
        FORM_STRX3 => Val::Strx(0xf2_0100 + salt),
        FORM_STRX4 => Val::Strx(0xf3_0201_00 + salt),
        FORM_UDATA => Val::Int(0x3f80 + salt),
        FORM_DATA1 => Val::Int(0xa0 + (salt & 0xf)),
        FORM_DATA2 => Val::Int(0xa100 + (salt & 0xfff)),
        FORM_DATA4 => Val::Int(0xa2_0304_00 + salt),
        FORM_DATA8 => Val::Int(0xa3_0405_0607_0800 + salt),
        FORM_DATA16 => {
            let mut b = [0u8; 16];
            for (i, x) in b.iter_mut().enumerate() {
                *x = 0x10u8.wrapping_mul((salt as u8).wrapping_add(1)).wrapping_add(i as u8);
            }
            Val::Data16(b)
        }
        FORM_BLOCK | FORM_BLOCK1 | FORM_BLOCK2 | FORM_BLOCK4 => Val::Block((0..(salt % 4) as u8 + 1).map(|i| 0xb0 + i).collect()),
        _ => panic!("harness: no default value for form {:#x}", form),
    }
}

fn enc_v5_table(e: &mut Enc, t: &V5Table, fmt64: bool) {
    e.u8(t.fmt.len() as u8);
    for &(ct, form) in &t.fmt {
        e.uleb(ct);
        e.uleb(form);
    }
    e.uleb(t.entries.len() as u64);
    for ent in &t.entries {
        assert_eq!(ent.len(), t.fmt.len());
        for (v, &(_, form)) in ent.iter().zip(&t.fmt) {
            enc_val(e, form, v, fmt64);
        }
    }
}

/// Everything of a unit between the unit_length field and the program body.
#[derive(Clone, Debug)]
pub struct HdrImage {
    pub pre: Vec<u8>,
    pub header_length: u64,
}

impl Hdr {
    pub fn image(&self) -> HdrImage {
        let mut rest = Enc::new(self.big);
        rest.u8(self.min_inst);
        if self.version >= 4 {
            rest.u8(self.max_ops);
        }
        rest.u8(self.stmt_byte);
        rest.u8(self.line_base as u8);
        rest.u8(self.line_range);
        rest.u8(self.opcode_base);
        assert_eq!(self.std_lengths.len(), self.opcode_base as usize - 1);
        rest.bytes(&self.std_lengths);
        match &self.tables {
            Tables::V4 { dirs, files } => {
                assert!(self.version <= 4);
                for d in dirs {
                    assert!(!d.is_empty());
                    rest.cstr(d);
                }
                rest.u8(0);
                for f in files {
                    assert!(!f.name.is_empty());
                    rest.cstr(&f.name);
                    rest.uleb(f.dir);
                    rest.uleb(f.mtime);
                    rest.uleb(f.len);
                }
                rest.u8(0);
            }
            Tables::V5 { dirs, files } => {
                assert!(self.version >= 5);
                enc_v5_table(&mut rest, dirs, self.fmt64);
                enc_v5_table(&mut rest, files, self.fmt64);
            }
        }
        for i in 0..self.pad {
            // would be a sequence of special opcodes / garbage if executed
            rest.u8(0xe0 + i as u8);
        }
        let mut pre = Enc::new(self.big);
        pre.u16(self.version);
        if self.version >= 5 {
            pre.u8(self.addr_size);
            pre.u8(0); // segment_selector_size
        }
        pre.offset(rest.len() as u64, self.fmt64);
        pre.append(&rest);
        HdrImage { pre: pre.buf, header_length: rest.len() as u64 }
    }
}

/// Append `unit_length | image | body` to `out`; returns unit_length.
pub fn push_unit(h: &Hdr, img: &HdrImage, body: &[u8], out: &mut Vec<u8>) -> u64 {
    let len = (img.pre.len() + body.len()) as u64;
    let mut e = Enc::new(h.big);
    if h.fmt64 {
        e.u32(0xffff_ffff);
        e.u64(len);
    } else {
        e.u32(len as u32);
    }
    out.extend_from_slice(&e.buf);
    out.extend_from_slice(&img.pre);
    out.extend_from_slice(body);
    len
}

// ---------------------------------------------------------------------------
// Instructions

#[derive(Clone, Debug, PartialEq, Eq)]
pub enum Ins {
    Special(u8),
    Copy,
    AdvancePc(u64),
    AdvanceLine(i64),
    SetFile(u64),
    SetColumn(u64),
    NegateStmt,
    SetBasicBlock,
    ConstAddPc,
    FixedAdvancePc(u16),
    SetPrologueEnd,
    SetEpilogueBegin,
    SetIsa(u64),
    /// Standard opcode >= 13 (and < opcode_base): `nargs` LEB128 operands,
    /// `raw` = their bytes, `first` = value of the first operand (if any).
    UnknownStd { op: u8, nargs: u8, raw: Vec<u8>, first: u64 },
    /// `surplus` = bytes inside the extended op's length after its operands.
    EndSequence { surplus: usize },
    SetAddress { addr: u64, surplus: usize },
    DefineFile { f: FileV4, surplus: usize },
    SetDiscriminator { v: u64, surplus: usize },
    UnknownExt { op: u8, payload: Vec<u8> },
}

impl Ins {
    pub fn class(&self) -> &'static str {
        match self {
            Ins::Special(_) => "ins:special",
            Ins::Copy => "ins:copy",
            Ins::AdvancePc(_) => "ins:advance_pc",
            Ins::AdvanceLine(_) => "ins:advance_line",
            Ins::SetFile(_) => "ins:set_file",
            Ins::SetColumn(_) => "ins:set_column",
            Ins::NegateStmt => "ins:negate_stmt",
            Ins::SetBasicBlock => "ins:set_basic_block",
            Ins::ConstAddPc => "ins:const_add_pc",
            Ins::FixedAdvancePc(_) => "ins:fixed_advance_pc",
            Ins::SetPrologueEnd => "ins:set_prologue_end",
            Ins::SetEpilogueBegin => "ins:set_epilogue_begin",
            Ins::SetIsa(_) => "ins:set_isa",
            Ins::UnknownStd { nargs: 0, .. } => "ins:unknown_std0",
            Ins::UnknownStd { nargs: 1, .. } => "ins:unknown_std1",
            Ins::UnknownStd { .. } => "ins:unknown_stdN",
            Ins::EndSequence { .. } => "ins:end_sequence",
            Ins::SetAddress { .. } => "ins:set_address",
            Ins::DefineFile { .. } => "ins:define_file",
            Ins::SetDiscriminator { .. } => "ins:set_discriminator",
            Ins::UnknownExt { .. } => "ins:unknown_ext",
        }
    }
    pub fn surplus(&self) -> usize {
        match self {
            Ins::EndSequence { surplus } | Ins::SetAddress { surplus, .. } | Ins::DefineFile { surplus, .. } | Ins::SetDiscriminator { surplus, .. } => *surplus,
            _ => 0,
        }
    }
}

pub fn render_ins(i: &Ins) -> String {
    match i {
        Ins::Special(b) => format!("special({:#x})", b),
        Ins::Copy => "copy".into(),
        Ins::AdvancePc(v) => format!("advance_pc({})", v),
        Ins::AdvanceLine(v) => format!("advance_line({})", v),
        Ins::SetFile(v) => format!("set_file({})", v),
        Ins::SetColumn(v) => format!("set_column({})", v),
        Ins::NegateStmt => "negate_stmt".into(),
        Ins::SetBasicBlock => "set_basic_block".into(),
        Ins::ConstAddPc => "const_add_pc".into(),
        Ins::FixedAdvancePc(v) => format!("fixed_advance_pc({:#x})", v),
        Ins::SetPrologueEnd => "set_prologue_end".into(),
        Ins::SetEpilogueBegin => "set_epilogue_begin".into(),
        Ins::SetIsa(v) => format!("set_isa({})", v),
        Ins::UnknownStd { op, nargs, raw, .. } => format!("unknown_std(op={:#x},nargs={},{})", op, nargs, mcx::hex(raw)),
        Ins::EndSequence { surplus } => format!("end_sequence{}", if *surplus > 0 { format!("(+{})", surplus) } else { String::new() }),
        Ins::SetAddress { addr, surplus } => format!("set_address({:#x}{})", addr, if *surplus > 0 { format!(",+{}", surplus) } else { String::new() }),
        Ins::DefineFile { f, surplus } => format!("define_file({:?},{},{},{}{})", String::from_utf8_lossy(&f.name), f.dir, f.mtime, f.len, if *surplus > 0 { format!(",+{}", surplus) } else { String::new() }),
        Ins::SetDiscriminator { v, surplus } => format!("set_discriminator({}{})", v, if *surplus > 0 { format!(",+{}", surplus) } else { String::new() }),
        Ins::UnknownExt { op, payload } => format!("unknown_ext(op={:#x},{})", op, mcx::hex(payload)),
    }
}

pub fn render_prog(p: &[Ins]) -> String {
    p.iter().map(render_ins).collect::<Vec<_>>().join("; ")
}

/// Encode one instruction. The caller is responsible for the opcode being a
/// standard opcode under the header (`op < opcode_base`); if it is not, the
/// bytes mean something else and the reference *decoder* says what.
pub fn enc_ins(e: &mut Enc, h: &Hdr, i: &Ins) {
    fn ext(e: &mut Enc, op: u8, payload: &[u8]) {
        e.u8(0);
        e.uleb(1 + payload.len() as u64);
        e.u8(op);
        e.bytes(payload);
    }
    match i {
        Ins::Special(b) => {
            e.u8(*b);
        }
        Ins::Copy => {
            e.u8(LNS_COPY);
        }
        Ins::AdvancePc(v) => {
            e.u8(LNS_ADVANCE_PC).uleb(*v);
        }
        Ins::AdvanceLine(v) => {
            e.u8(LNS_ADVANCE_LINE).sleb(*v);
        }
        Ins::SetFile(v) => {
            e.u8(LNS_SET_FILE).uleb(*v);
        }
        Ins::SetColumn(v) => {
            e.u8(LNS_SET_COLUMN).uleb(*v);
        }
        Ins::NegateStmt => {
            e.u8(LNS_NEGATE_STMT);
        }
        Ins::SetBasicBlock => {
            e.u8(LNS_SET_BASIC_BLOCK);
        }
        Ins::ConstAddPc => {
            e.u8(LNS_CONST_ADD_PC);
        }
        Ins::FixedAdvancePc(v) => {
            e.u8(LNS_FIXED_ADVANCE_PC).u16(*v);
        }
        Ins::SetPrologueEnd => {
            e.u8(LNS_SET_PROLOGUE_END);
        }
        Ins::SetEpilogueBegin => {
            e.u8(LNS_SET_EPILOGUE_BEGIN);
        }
        Ins::SetIsa(v) => {
            e.u8(LNS_SET_ISA).uleb(*v);
        }
        Ins::UnknownStd { op, raw, .. } => {
            e.u8(*op).bytes(raw);
        }
        Ins::EndSequence { surplus } => {
            ext(e, LNE_END_SEQUENCE, &vec![0x5a; *surplus]);
        }
        Ins::SetAddress { addr, surplus } => {
            let mut p = Enc::new(h.big);
            p.addr(*addr, h.addr_size);
            p.bytes(&vec![0x5a; *surplus]);
            ext(e, LNE_SET_ADDRESS, &p.buf);
        }
        Ins::DefineFile { f, surplus } => {
            let mut p = Enc::new(h.big);
            p.cstr(&f.name).uleb(f.dir).uleb(f.mtime).uleb(f.len);
            p.bytes(&vec![0x5a; *surplus]);
            ext(e, LNE_DEFINE_FILE, &p.buf);
        }
        Ins::SetDiscriminator { v, surplus } => {
            let mut p = Enc::new(h.big);
            p.uleb(*v);
            p.bytes(&vec![0x5a; *surplus]);
            ext(e, LNE_SET_DISCRIMINATOR, &p.buf);
        }
        Ins::UnknownExt { op, payload } => {
            ext(e, *op, payload);
        }
    }
}

pub fn enc_prog(h: &Hdr, p: &[Ins]) -> Vec<u8> {
    let mut e = Enc::new(h.big);
    for i in p {
        enc_ins(&mut e, h, i);
    }
    e.buf
}

/// An unknown standard instruction with `vals` as operands.
pub fn unknown_std(op: u8, vals: &[u64]) -> Ins {
    let mut raw = vec![];
    for &v in vals {
        leb::enc_uleb(v, &mut raw);
    }
    Ins::UnknownStd { op, nargs: vals.len() as u8, raw, first: vals.first().copied().unwrap_or(0) }
}

#[derive(Clone, Debug, Default)]
pub struct Decoded {
    pub ins: Vec<Ins>,
    /// The byte stream is not a sequence of complete instructions.
    pub malformed: Option<&'static str>,
    /// Well-formed by the letter of the standard but outside what every
    /// consumer must agree on (LEB operands above 64 bits, over-long LEBs,
    /// set_address with surplus bytes ...): rows are not compared.
    pub latitude: Option<&'static str>,
}

fn rd_uleb(b: &[u8], pos: &mut usize, lat: &mut Option<&'static str>) -> Result<u64, &'static str> {
    match leb::uleb(&b[*pos..]) {
        Dec::Ok(v, n) => {
            *pos += n;
            if n > leb::uleb_len(v.min(u64::MAX as u128) as u64) {
                *lat = Some("over-long-leb");
            }
            if v > u64::MAX as u128 {
                *lat = Some("operand>64bit");
                Ok(v as u64)
            } else {
                Ok(v as u64)
            }
        }
        Dec::Huge(n) => {
            *pos += n;
            *lat = Some("operand>64bit");
            Ok(0)
        }
        Dec::Incomplete => Err("truncated-uleb"),
    }
}

fn rd_sleb(b: &[u8], pos: &mut usize, lat: &mut Option<&'static str>) -> Result<i64, &'static str> {
    match leb::sleb(&b[*pos..]) {
        Dec::Ok(v, n) => {
            *pos += n;
            if v < i64::MIN as i128 || v > i64::MAX as i128 {
                *lat = Some("operand>64bit");
                return Ok(0);
            }
            if n > leb::sleb_len(v as i64) {
                *lat = Some("over-long-leb");
            }
            Ok(v as i64)
        }
        Dec::Huge(n) => {
            *pos += n;
            *lat = Some("operand>64bit");
            Ok(0)
        }
        Dec::Incomplete => Err("truncated-sleb"),
    }
}

fn rd_uint(b: &[u8], big: bool) -> u64 {
    let mut v = 0u64;
    if big {
        for &x in b {
            v = (v << 8) | x as u64;
        }
    } else {
        for &x in b.iter().rev() {
            v = (v << 8) | x as u64;
        }
    }
    v
}

/// Reference instruction decoder (section 6.2.5).
pub fn decode(h: &Hdr, b: &[u8]) -> Decoded {
    let mut d = Decoded::default();
    let mut pos = 0usize;
    macro_rules! bail {
        ($why:expr) => {{
            d.malformed = Some($why);
            return d;
        }};
    }
    macro_rules! tri {
        ($e:expr) => {
            match $e {
                Ok(v) => v,
                Err(w) => bail!(w),
            }
        };
    }
    while pos < b.len() {
        let op = b[pos];
        pos += 1;
        if op >= h.opcode_base {
            d.ins.push(Ins::Special(op));
            continue;
        }
        if op == 0 {
            let len = tri!(rd_uleb(b, &mut pos, &mut d.latitude));
            if len == 0 {
                bail!("extended-length-0");
            }
            if len > (b.len() - pos) as u64 {
                bail!("extended-overruns-program");
            }
            let end = pos + len as usize;
            let sub = b[pos];
            let body = &b[pos + 1..end];
            let mut p = 0usize;
            let ins = match sub {
                LNE_END_SEQUENCE => Ins::EndSequence { surplus: body.len() },
                LNE_SET_ADDRESS => {
                    let n = h.addr_size as usize;
                    if body.len() < n {
                        bail!("set_address-short-operand");
                    }
                    Ins::SetAddress { addr: rd_uint(&body[..n], h.big), surplus: body.len() - n }
                }
                LNE_DEFINE_FILE if h.version <= 4 => {
                    let Some(nul) = body.iter().position(|&x| x == 0) else { bail!("define_file-no-nul") };
                    let name = body[..nul].to_vec();
                    p = nul + 1;
                    let dir = tri!(rd_uleb(body, &mut p, &mut d.latitude));
                    let mtime = tri!(rd_uleb(body, &mut p, &mut d.latitude));
                    let flen = tri!(rd_uleb(body, &mut p, &mut d.latitude));
                    Ins::DefineFile { f: FileV4 { name, dir, mtime, len: flen }, surplus: body.len() - p }
                }
                LNE_SET_DISCRIMINATOR => {
                    let v = tri!(rd_uleb(body, &mut p, &mut d.latitude));
                    Ins::SetDiscriminator { v, surplus: body.len() - p }
                }
                _ => Ins::UnknownExt { op: sub, payload: body.to_vec() },
            };
            let _ = p;
            d.ins.push(ins);
            pos = end;
            continue;
        }
        let ins = match op {
            LNS_COPY => Ins::Copy,
            LNS_ADVANCE_PC => Ins::AdvancePc(tri!(rd_uleb(b, &mut pos, &mut d.latitude))),
            LNS_ADVANCE_LINE => Ins::AdvanceLine(tri!(rd_sleb(b, &mut pos, &mut d.latitude))),
            LNS_SET_FILE => Ins::SetFile(tri!(rd_uleb(b, &mut pos, &mut d.latitude))),
            LNS_SET_COLUMN => Ins::SetColumn(tri!(rd_uleb(b, &mut pos, &mut d.latitude))),
            LNS_NEGATE_STMT => Ins::NegateStmt,
            LNS_SET_BASIC_BLOCK => Ins::SetBasicBlock,
            LNS_CONST_ADD_PC => Ins::ConstAddPc,
            LNS_FIXED_ADVANCE_PC => {
                if b.len() - pos < 2 {
                    bail!("truncated-uhalf");
                }
                let v = rd_uint(&b[pos..pos + 2], h.big) as u16;
                pos += 2;
                Ins::FixedAdvancePc(v)
            }
            LNS_SET_PROLOGUE_END => Ins::SetPrologueEnd,
            LNS_SET_EPILOGUE_BEGIN => Ins::SetEpilogueBegin,
            LNS_SET_ISA => Ins::SetIsa(tri!(rd_uleb(b, &mut pos, &mut d.latitude))),
            _ => {
                let nargs = h.std_lengths[op as usize - 1];
                let start = pos;
                let mut first = 0;
                for k in 0..nargs {
                    let v = tri!(rd_uleb(b, &mut pos, &mut d.latitude));
                    if k == 0 {
                        first = v;
                    }
                }
                Ins::UnknownStd { op, nargs, raw: b[start..pos].to_vec(), first }
            }
        };
        d.ins.push(ins);
    }
    d
}

// ---------------------------------------------------------------------------
// State machine

#[derive(Clone, Copy, Debug, PartialEq, Eq)]
pub struct Row {
    pub address: u64,
    pub op_index: u64,
    pub file: u64,
    pub line: u64,
    pub column: u64,
    pub is_stmt: bool,
    pub basic_block: bool,
    pub end_sequence: bool,
    pub prologue_end: bool,
    pub epilogue_begin: bool,
    pub isa: u64,
    pub discriminator: u64,
}

pub fn render_row(r: &Row) -> String {
    format!(
        "[{:#x}.{} f{} l{} c{} {}{}{}{}{} isa{} d{}]",
        r.address,
        r.op_index,
        r.file,
        r.line,
        r.column,
        if r.is_stmt { "S" } else { "s" },
        if r.basic_block { "B" } else { "b" },
        if r.end_sequence { "E" } else { "e" },
        if r.prologue_end { "P" } else { "p" },
        if r.epilogue_begin { "G" } else { "g" },
        r.isa,
        r.discriminator
    )
}
pub fn render_rows(rs: &[Row]) -> String {
    rs.iter().map(render_row).collect::<Vec<_>>().join(" ")
}

#[derive(Clone, Debug, PartialEq, Eq)]
pub struct SeqM {
    /// index of the first row of the sequence in `rows`, number of rows
    pub first: usize,
    pub n: usize,
    /// address of the first row (for a sequence that consists of the
    /// end_sequence row only: that row's address)
    pub start: u64,
    pub end: u64,
    pub bare: bool,
}

#[derive(Clone, Debug, Default)]
pub struct Outcome {
    /// Rows the machine appends (those under a tombstone are not appended:
    /// consumer extension, see `run`).
    pub rows: Vec<Row>,
    /// Terminated sequences among `rows`.
    pub seqs: Vec<SeqM>,
    /// Files appended by DW_LNE_define_file.
    pub defined: Vec<FileV4>,
    /// The program is ill-formed (register overflow / underflow): the
    /// machine stopped, rows are meaningless.
    pub ill: Option<&'static str>,
    /// A DW_LNE_set_address operand was a tombstone (lower than the current
    /// address of the sequence, or >= 2^(8*address_size) - 2): ill-formed by
    /// the standard; modelled with the suppression rule gimli documents.
    pub tombstoned: bool,
    /// An end_sequence row was suppressed by a tombstone after rows of the same
    /// sequence had been appended.
    pub suppressed_end_after_rows: bool,
    /// Rows were appended after the last end_sequence.
    pub unterminated: bool,
    pub n_special: u64,
    /// op_index + operation advance exceeded 2^64-1 somewhere (the address
    /// still fitted): a well-formed VLIW program needing > 64-bit arithmetic.
    pub opadvance_over_64bit: bool,
}

struct Regs {
    address: u128,
    op_index: u128,
    file: u64,
    line: i128,
    column: u64,
    is_stmt: bool,
    basic_block: bool,
    end_sequence: bool,
    prologue_end: bool,
    epilogue_begin: bool,
    isa: u64,
    discriminator: u64,
}

fn init(h: &Hdr) -> Regs {
    // Section 6.2.2, table 6.4
    Regs { address: 0, op_index: 0, file: 1, line: 1, column: 0, is_stmt: h.default_is_stmt(), basic_block: false, end_sequence: false, prologue_end: false, epilogue_begin: false, isa: 0, discriminator: 0 }
}

/// Execute `prog`. `tombstones`: apply the consumer extension "a
/// DW_LNE_set_address operand that is lower than the current address or one of
/// the two highest addresses marks dead code: registers address/op_index are
/// frozen and no rows are appended until the next acceptable set_address or
/// the end of the sequence".
pub fn run(h: &Hdr, prog: &[Ins]) -> Outcome {
    let mut o = Outcome::default();
    let mask = h.addr_mask() as u128;
    let min_inst = h.min_inst as u128;
    let max_ops = h.eff_max_ops() as u128;
    let line_base = h.line_base as i128;
    let line_range = h.line_range as u128;
    let mut r = init(h);
    let mut tomb = false;
    let mut seq_first = 0usize;

    // The line register left 0..2^64-1: ill-formed from here on. The machine
    // keeps running (with the register clamped) only so that the address and
    // tombstone bookkeeping used to classify any-input findings stays available.
    fn clamp_line(r: &mut Regs, o: &mut Outcome) {
        if r.line < 0 {
            o.ill.get_or_insert("line-underflow");
            r.line = 0;
        } else if r.line > u64::MAX as i128 {
            o.ill.get_or_insert("line-overflow");
            r.line = u64::MAX as i128;
        }
    }
    // returns false on overflow
    fn advance(r: &mut Regs, adv: u128, min_inst: u128, max_ops: u128, mask: u128, wide: &mut bool) -> bool {
        // Section 6.2.5.1
        let total = r.op_index + adv;
        if total > u64::MAX as u128 {
            *wide = true;
        }
        let new_addr = r.address + min_inst * (total / max_ops);
        if new_addr > mask {
            return false;
        }
        r.address = new_addr;
        r.op_index = total % max_ops;
        true
    }

    for ins in prog {
        let mut emit = false;
        match ins {
            Ins::Special(b) => {
                o.n_special += 1;
                let adj = (*b - h.opcode_base) as u128;
                let op_adv = adj / line_range;
                let line_inc = line_base + (adj % line_range) as i128;
                r.line += line_inc;
                clamp_line(&mut r, &mut o);
                if !tomb && !advance(&mut r, op_adv, min_inst, max_ops, mask, &mut o.opadvance_over_64bit) {
                    o.ill = Some("address-overflow");
                    return o;
                }
                emit = true;
            }
            Ins::Copy => emit = true,
            Ins::AdvancePc(v) => {
                if !tomb && !advance(&mut r, *v as u128, min_inst, max_ops, mask, &mut o.opadvance_over_64bit) {
                    o.ill = Some("address-overflow");
                    return o;
                }
            }
            Ins::AdvanceLine(v) => {
                r.line += *v as i128;
                clamp_line(&mut r, &mut o);
            }
            Ins::SetFile(v) => r.file = *v,
            Ins::SetColumn(v) => r.column = *v,
            Ins::NegateStmt => r.is_stmt = !r.is_stmt,
            Ins::SetBasicBlock => r.basic_block = true,
            Ins::ConstAddPc => {
                // "the increments corresponding to special opcode 255"
                let adj = (255 - h.opcode_base) as u128;
                if !tomb && !advance(&mut r, adj / line_range, min_inst, max_ops, mask, &mut o.opadvance_over_64bit) {
                    o.ill = Some("address-overflow");
                    return o;
                }
            }
            Ins::FixedAdvancePc(v) => {
                if !tomb {
                    let a = r.address + *v as u128;
                    if a > mask {
                        o.ill = Some("address-overflow");
                        return o;
                    }
                    r.address = a;
                    r.op_index = 0;
                }
            }
            Ins::SetPrologueEnd => r.prologue_end = true,
            Ins::SetEpilogueBegin => r.epilogue_begin = true,
            Ins::SetIsa(v) => r.isa = *v,
            Ins::UnknownStd { .. } | Ins::UnknownExt { .. } => {}
            Ins::EndSequence { .. } => {
                r.end_sequence = true;
                emit = true;
            }
            Ins::SetAddress { addr, .. } => {
                let a = *addr as u128;
                tomb = a < r.address || a + 2 > mask;
                if tomb {
                    o.tombstoned = true;
                } else {
                    r.address = a;
                    r.op_index = 0;
                }
            }
            Ins::DefineFile { f, .. } => o.defined.push(f.clone()),
            Ins::SetDiscriminator { v, .. } => r.discriminator = *v,
        }
        if emit {
            if !tomb {
                o.rows.push(Row {
                    address: r.address as u64,
                    op_index: r.op_index as u64,
                    file: r.file,
                    line: r.line as u64,
                    column: r.column,
                    is_stmt: r.is_stmt,
                    basic_block: r.basic_block,
                    end_sequence: r.end_sequence,
                    prologue_end: r.prologue_end,
                    epilogue_begin: r.epilogue_begin,
                    isa: r.isa,
                    discriminator: r.discriminator,
                });
                if r.end_sequence {
                    let n = o.rows.len() - seq_first;
                    let end = r.address as u64;
                    let bare = n == 1;
                    let start = o.rows[seq_first].address;
                    o.seqs.push(SeqM { first: seq_first, n, start, end, bare });
                    seq_first = o.rows.len();
                }
            } else if r.end_sequence && o.rows.len() > seq_first {
                o.suppressed_end_after_rows = true;
            }
            if r.end_sequence {
                r = init(h);
                tomb = false;
            } else {
                r.discriminator = 0;
                r.basic_block = false;
                r.prologue_end = false;
                r.epilogue_begin = false;
            }
        }
    }
    o.unterminated = o.rows.len() > seq_first;
    o
}
