//! C13: line programs written with gimli::write read back (with gimli::read,
//! decided by C04) to exactly the rows / tables handed to the writer.
use crate::model::{render_row, render_rows, Row};
use gimli::write::{Address, DebugLine, DebugLineStr, DebugStr, DirectoryId, EndianVec, FileId, FileInfo, LineProgram, LineString, LineStringTable, StringTable};
use gimli::{DebugLineOffset, Encoding, EndianSlice, Format, LineEncoding, RunTimeEndian};
use mcx::space::{seq_count, seq_decode, Mix};
use mcx::{guard, CheckDef, Ctx, Sub, Tier};

type R<'a> = EndianSlice<'a, RunTimeEndian>;

fn endian(big: bool) -> RunTimeEndian {
    if big {
        RunTimeEndian::Big
    } else {
        RunTimeEndian::Little
    }
}

fn le(min_inst: u8, max_ops: u8, stmt: bool, line_base: i8, line_range: u8) -> LineEncoding {
    LineEncoding { minimum_instruction_length: min_inst, maximum_operations_per_instruction: max_ops, default_is_stmt: stmt, line_base, line_range }
}

fn render_le(l: &LineEncoding) -> String {
    format!("LineEncoding{{min_inst={} max_ops={} default_is_stmt={} line_base={} line_range={}}}", l.minimum_instruction_length, l.maximum_operations_per_instruction, l.default_is_stmt, l.line_base, l.line_range)
}
fn render_enc(e: &Encoding, big: bool) -> String {
    format!("v{} {} addr{} {}", e.version, if e.format == Format::Dwarf64 { "dwarf64" } else { "dwarf32" }, e.address_size, if big { "BE" } else { "LE" })
}

/// The documented constructor contract: line_base <= 0 < line_base + line_range.
fn documented_valid(l: &LineEncoding) -> bool {
    l.line_base <= 0 && (l.line_base as i32 + l.line_range as i32) > 0
}

pub struct Sections {
    pub line: Vec<u8>,
    pub line_str: Vec<u8>,
    pub str_: Vec<u8>,
}

/// Serialise; Ok(Err(text)) = the writer refused with an error.
fn write_program(p: &LineProgram, enc: Encoding, big: bool, ls: &mut LineStringTable, st: &mut StringTable) -> Result<Result<Sections, String>, mcx::Panic> {
    guard(|| {
        let e = endian(big);
        let mut dl = DebugLine::from(EndianVec::new(e));
        if let Err(err) = p.write(&mut dl, enc, ls, st) {
            return Err(format!("{:?}", err));
        }
        let mut dls = DebugLineStr::from(EndianVec::new(e));
        let mut ds = DebugStr::from(EndianVec::new(e));
        ls.write(&mut dls).map_err(|e| format!("{:?}", e))?;
        st.write(&mut ds).map_err(|e| format!("{:?}", e))?;
        Ok(Sections { line: dl.slice().to_vec(), line_str: dls.slice().to_vec(), str_: ds.slice().to_vec() })
    })
}

fn grow(r: &gimli::LineRow) -> Row {
    Row {
        address: r.address(),
        op_index: r.op_index(),
        file: r.file_index(),
        line: r.line().map(|l| l.get()).unwrap_or(0),
        column: match r.column() {
            gimli::ColumnType::LeftEdge => 0,
            gimli::ColumnType::Column(c) => c.get(),
        },
        is_stmt: r.is_stmt(),
        basic_block: r.basic_block(),
        end_sequence: r.end_sequence(),
        prologue_end: r.prologue_end(),
        epilogue_begin: r.epilogue_begin(),
        isa: r.isa(),
        discriminator: r.discriminator(),
    }
}

/// Read all rows back. Err = reader error text.
fn read_rows(s: &Sections, enc: Encoding, big: bool) -> Result<Vec<Row>, String> {
    let dl = gimli::DebugLine::new(&s.line, endian(big));
    let prog = dl.program(DebugLineOffset(0), enc.address_size, None, None).map_err(|e| format!("header: {:?}", e))?;
    let h = prog.header();
    if h.version() != enc.version || h.format() != enc.format || h.address_size() != enc.address_size || h.unit_length() + enc.format.initial_length_size() as usize != s.line.len() {
        return Err(format!("header fields: version {} format {:?} address_size {} unit_length {} for a {}-byte section", h.version(), h.format(), h.address_size(), h.unit_length(), s.line.len()));
    }
    let mut rows = prog.rows();
    let mut out = vec![];
    loop {
        match rows.next_row() {
            Ok(Some((_, r))) => out.push(grow(r)),
            Ok(None) => return Ok(out),
            Err(e) => return Err(format!("rows: {:?} after {}", e, render_rows(&out))),
        }
    }
}

/// First differing field; an end_sequence row carries only address/op_index.
fn row_diff(g: &Row, w: &Row) -> Option<&'static str> {
    if g.end_sequence != w.end_sequence {
        return Some("end_sequence");
    }
    if g.address != w.address {
        return Some("address");
    }
    if g.op_index != w.op_index {
        return Some("op_index");
    }
    if w.end_sequence {
        return None;
    }
    if g.file != w.file {
        Some("file")
    } else if g.line != w.line {
        Some("line")
    } else if g.column != w.column {
        Some("column")
    } else if g.is_stmt != w.is_stmt {
        Some("is_stmt")
    } else if g.basic_block != w.basic_block {
        Some("basic_block")
    } else if g.prologue_end != w.prologue_end {
        Some("prologue_end")
    } else if g.epilogue_begin != w.epilogue_begin {
        Some("epilogue_begin")
    } else if g.isa != w.isa {
        Some("isa")
    } else if g.discriminator != w.discriminator {
        Some("discriminator")
    } else {
        None
    }
}

/// Compare; `Some((field, index))` of the first difference.
fn rows_diff(got: &[Row], want: &[Row]) -> Option<(&'static str, usize)> {
    for (k, (g, w)) in got.iter().zip(want).enumerate() {
        if let Some(f) = row_diff(g, w) {
            return Some((f, k));
        }
    }
    if got.len() != want.len() {
        return Some(("row-count", got.len().min(want.len())));
    }
    None
}

fn new_program(ctx: &mut Ctx, enc: Encoding, l: LineEncoding, case: &dyn Fn() -> String) -> Option<LineProgram> {
    match guard(|| LineProgram::new(enc, l, LineString::String(b"/wd".to_vec()), None, LineString::String(b"main.c".to_vec()), None)) {
        Ok(p) => Some(p),
        Err(p) => {
            // documented panics: line_base > 0, line_base + line_range <= 0
            if documented_valid(&l) {
                crate::fail_panic(ctx, "LineProgram::new", &p, case());
            } else {
                ctx.outcome("new:documented-panic");
            }
            None
        }
    }
}

/// Finish: write, read back, compare with `want`.
#[allow(clippy::too_many_arguments)]
fn finish(ctx: &mut Ctx, entry: &str, p: &LineProgram, enc: Encoding, big: bool, ls: &mut LineStringTable, st: &mut StringTable, want: &[Row], case: &dyn Fn() -> String) -> Option<Sections> {
    let secs = match write_program(p, enc, big, ls, st) {
        Err(pn) => {
            crate::fail_panic(ctx, "LineProgram::write", &pn, case());
            return None;
        }
        Ok(Err(e)) => {
            ctx.fail("LineProgram::write", "write", &format!("error:{}", e.split(|c: char| !c.is_alphanumeric()).next().unwrap_or("")), format!("{}: write returned Err({})", case(), e));
            return None;
        }
        Ok(Ok(s)) => s,
    };
    match guard(|| read_rows(&secs, enc, big)) {
        Err(pn) => crate::fail_panic(ctx, "read-back", &pn, format!("{} section={}", case(), mcx::hex(&secs.line))),
        Ok(Err(e)) => ctx.fail(entry, "read-back", "unreadable-output", format!("{}: section={} reader says {}", case(), mcx::hex(&secs.line), e)),
        Ok(Ok(got)) => {
            if let Some((f, k)) = rows_diff(&got, want) {
                ctx.fail(entry, "rows", &format!("wrong-{}", f), format!("{}: row {}: section={} read back {} want {}", case(), k, if secs.line.len() > 400 { "<long>".to_string() } else { mcx::hex(&secs.line) }, render_rows(&got[k.saturating_sub(2)..(k + 2).min(got.len())]), render_rows(&want[k.saturating_sub(2)..(k + 2).min(want.len())])));
            } else {
                ctx.outcome("rows:equal");
            }
        }
    }
    Some(secs)
}

// ---------------------------------------------------------------------------
// Parameter tuples

#[derive(Clone, Copy, Debug)]
struct Tuple {
    l: LineEncoding,
    version: u16,
}

fn quick_tuples() -> Vec<Tuple> {
    vec![
        Tuple { l: le(1, 1, true, -5, 14), version: 4 },
        Tuple { l: le(1, 1, true, -3, 12), version: 2 },
        Tuple { l: le(4, 1, false, -1, 4), version: 3 },
        Tuple { l: le(2, 2, true, -10, 14), version: 4 },
        Tuple { l: le(1, 4, true, 0, 1), version: 5 },
        Tuple { l: le(4, 4, false, -5, 127), version: 5 },
        Tuple { l: le(1, 1, true, -128, 255), version: 5 },
        Tuple { l: le(1, 1, true, -1, 128), version: 4 },
    ]
}

const T_LB: [i8; 6] = [-128, -10, -5, -3, -1, 0];
const T_LR: [u8; 8] = [1, 2, 10, 14, 127, 128, 200, 255];
const T_MI: [u8; 3] = [1, 2, 4];
const T_MO: [u8; 3] = [1, 2, 4];

fn thorough_tuples() -> Vec<Tuple> {
    let mut v = vec![];
    for &lb in &T_LB {
        for &lr in &T_LR {
            let l0 = le(1, 1, true, lb, lr);
            if !documented_valid(&l0) {
                continue;
            }
            for &mi in &T_MI {
                for &mo in &T_MO {
                    for version in [2u16, 3, 4, 5] {
                        if mo != 1 && version < 4 {
                            continue;
                        }
                        v.push(Tuple { l: le(mi, mo, (lb as i32 + lr as i32 + mi as i32) % 2 == 0, lb, lr), version });
                    }
                }
            }
        }
    }
    v
}

fn grid_encoding(k: usize, version: u16) -> (Encoding, bool) {
    // address size 8 everywhere (the grid's advances need room); format and byte order rotate
    (Encoding { version, format: if k % 2 == 0 { Format::Dwarf32 } else { Format::Dwarf64 }, address_size: 8 }, k % 4 >= 2)
}

const GRID_BASE: u64 = 0x10_0000;
const GRID_LINE: u64 = 300;

fn sub_grid(tier: Tier, subs: &mut Vec<Sub>) {
    let tuples: Vec<Tuple> = tier.pick(quick_tuples(), thorough_tuples());
    // (tuple index, starting op_index)
    let mut units: Vec<(usize, u64)> = vec![];
    for (k, t) in tuples.iter().enumerate() {
        let m = t.l.maximum_operations_per_instruction as u64;
        if tier == Tier::Quick {
            units.push((k, 0));
            if m > 1 {
                units.push((k, m - 1));
            }
        } else {
            for o0 in 0..m {
                units.push((k, o0));
            }
        }
    }
    let nu = units.len() as u64;
    let nt = tuples.len();
    push_sub(subs, Sub::new(
        "advance-grid",
        nu * 601,
        &format!("the full grid line advance -300..=300 x operation advance 0..=600 (361201 pairs; one case = one line advance x all 601 operation advances, each pair its own sequence begin_sequence(Some); row; row; end_sequence) for {} (LineEncoding, version) tuples x starting op_index {} = {} units: {}; address size 8, format/byte order rotating", nt, if tier == Tier::Quick { "{0, max_ops-1}" } else { "0..max_ops" }, nu, if tier == Tier::Quick { "line_base/line_range/min_inst/max_ops/version = (-5,14,1,1,v4) (-3,12,1,1,v2) (-1,4,4,1,v3) (-10,14,2,2,v4) (0,1,1,4,v5) (-5,127,4,4,v5) (-128,255,1,1,v5) (-1,128,1,1,v4)" } else { "line_base {-128,-10,-5,-3,-1,0} x line_range {1,2,10,14,127,128,200,255} (documented-valid pairs: line_base <= 0 < line_base+line_range) x min_inst {1,2,4} x max_ops {1,2,4} x versions 2-5 (max_ops > 1: versions 4,5)" }),
        move |ctx, i| {
            let la = (i % 601) as i64 - 300;
            let (k, o0) = units[(i / 601) as usize];
            let t = tuples[k];
            let (enc, big) = grid_encoding(k, t.version);
            let l = t.l;
            let case = || format!("{} {} line_advance={} start_op_index={} x operation advances 0..=600", render_enc(&enc, big), render_le(&l), la, o0);
            let Some(mut p) = new_program(ctx, enc, l, &case) else { return };
            let fid = p.add_file(LineString::String(b"f1.c".to_vec()), p.default_directory(), None);
            let m = l.maximum_operations_per_instruction as u64;
            let mi = l.minimum_instruction_length as u64;
            let mut want: Vec<Row> = Vec::with_capacity(601 * 3);
            let build = guard(|| {
                for oa in 0..=600u64 {
                    let a = GRID_BASE + oa * 0x1_0000;
                    p.begin_sequence(Some(Address::Constant(a)));
                    {
                        let r = p.row();
                        r.file = fid;
                        r.address_offset = 0;
                        r.op_index = o0;
                        r.line = GRID_LINE;
                    }
                    p.generate_row();
                    let total = o0 + oa;
                    let a1 = (total / m) * mi;
                    let o1 = total % m;
                    {
                        let r = p.row();
                        r.address_offset = a1;
                        r.op_index = o1;
                        r.line = (GRID_LINE as i64 + la) as u64;
                    }
                    p.generate_row();
                    let aend = a1 + mi * (oa % 3);
                    p.end_sequence(aend);
                    let base = Row { address: a, op_index: o0, file: 1, line: GRID_LINE, column: 0, is_stmt: l.default_is_stmt, basic_block: false, end_sequence: false, prologue_end: false, epilogue_begin: false, isa: 0, discriminator: 0 };
                    want.push(base);
                    want.push(Row { address: a + a1, op_index: o1, line: (GRID_LINE as i64 + la) as u64, ..base });
                    want.push(Row { address: a + aend, op_index: o1, end_sequence: true, ..base });
                }
            });
            ctx.eval(601);
            if let Err(pn) = build {
                crate::fail_panic(ctx, "LineProgram::generate_row", &pn, case());
                return;
            }
            let mut ls = LineStringTable::default();
            let mut st = StringTable::default();
            if finish(ctx, "LineProgram::generate_row", &p, enc, big, &mut ls, &mut st, &want, &case).is_some() {
                ctx.nontriv(601);
                ctx.outcome("grid:unit-row-compared");
            }
            if ctx.want_sample() {
                ctx.sample(format!("{} -> e.g. rows {}", case(), render_rows(&want[3 * 17..3 * 17 + 3])));
            }
        },
    ));
}

// ---------------------------------------------------------------------------
// Row-field sequences and sequence structure

#[derive(Clone, Copy, Debug)]
struct WState {
    off: u64,
    op: u64,
    file: usize, // 0 = f1, 1 = f2
    line: u64,
    column: u64,
    stmt: bool,
    isa: u64,
}

fn initial(l: &LineEncoding) -> WState {
    WState { off: 0, op: 0, file: 0, line: 1, column: 0, stmt: l.default_is_stmt, isa: 0 }
}

const N_DELTA: u64 = 18;
const DELTA_NAMES: [&str; 18] = ["same", "file", "column+3", "column=0", "negate-stmt", "basic_block", "prologue_end", "epilogue_begin", "isa+1", "discriminator=7", "op+1", "line+1", "line-1", "line+1000", "addr+1inst", "addr+0x1000inst", "all-fields", "line=0"];

#[derive(Clone, Copy, Default)]
struct Transient {
    bb: bool,
    pe: bool,
    eb: bool,
    disc: u64,
}

fn apply_delta(d: usize, s: &mut WState, t: &mut Transient, l: &LineEncoding) {
    let m = l.maximum_operations_per_instruction as u64;
    let mi = l.minimum_instruction_length as u64;
    match d {
        0 => {}
        1 => s.file ^= 1,
        2 => s.column += 3,
        3 => s.column = 0,
        4 => s.stmt = !s.stmt,
        5 => t.bb = true,
        6 => t.pe = true,
        7 => t.eb = true,
        8 => s.isa += 1,
        9 => t.disc = 7,
        10 => {
            s.op += 1;
            if s.op >= m {
                s.op = 0;
                s.off += mi;
            }
        }
        11 => s.line += 1,
        12 => s.line = s.line.saturating_sub(1),
        13 => s.line += 1000,
        14 => s.off += mi,
        15 => s.off += 0x1000 * mi,
        16 => {
            s.file ^= 1;
            s.column += 0x80;
            s.stmt = !s.stmt;
            s.isa += 0x80;
            s.line += 0x4000;
            *t = Transient { bb: true, pe: true, eb: true, disc: 0x3fff };
            s.off += 3 * mi;
        }
        _ => s.line = 0,
    }
}

const N_STRUCT: u64 = 9;
const STRUCT_NAMES: [&str; 9] = ["begin(Some);rows;end", "begin(None);rows;end", "set_address;rows;end", "rows;end", "two sequences", "mid set_address(same address)", "mid set_address(higher)", "bare end_sequence first", "end_sequence(offset+3inst)"];

struct RowProg {
    enc: Encoding,
    big: bool,
    l: LineEncoding,
    structure: usize,
    deltas: Vec<usize>,
    base: u64,
}

/// Drive the writer and build the expected rows. Returns (program, want, log,
/// alt) where alt = expectation under the alternative readings of a
/// mid-sequence set_address (offsets relative to the new address / to the
/// sequence start).
#[allow(clippy::type_complexity)]
fn drive(rp: &RowProg, p: &mut LineProgram, f: [FileId; 2], raw: [u64; 2], mid_op_nonzero: &mut bool) -> (Vec<Row>, Vec<String>, Option<Vec<Vec<Row>>>) {
    let l = rp.l;
    let mi = l.minimum_instruction_length as u64;
    let mut want = vec![];
    let mut log = vec![];
    let mut s = initial(&l);
    let mut base: u64 = 0; // address of offset `base_off`
    let mut base_off: u64 = 0;
    let n = rp.deltas.len();
    let split = if n == 0 { 0 } else { 1 };
    let a = rp.base;
    let mut alts: Option<(u64, u64, u64, usize)> = None; // (B, A, P, index of first row after)
    match rp.structure {
        0 | 4 | 5 | 6 | 8 => {
            p.begin_sequence(Some(Address::Constant(a)));
            base = a;
            log.push(format!("begin_sequence(Some({:#x}))", a));
        }
        1 => {
            p.begin_sequence(None);
            log.push("begin_sequence(None)".into());
        }
        2 => {
            p.set_address(Address::Constant(a));
            base = a;
            log.push(format!("set_address({:#x})", a));
        }
        7 => {
            p.end_sequence(0);
            want.push(Row { address: 0, op_index: 0, file: 1, line: 1, column: 0, is_stmt: l.default_is_stmt, basic_block: false, end_sequence: true, prologue_end: false, epilogue_begin: false, isa: 0, discriminator: 0 });
            p.begin_sequence(Some(Address::Constant(a)));
            base = a;
            log.push(format!("end_sequence(0); begin_sequence(Some({:#x}))", a));
        }
        _ => {}
    }
    for (k, &d) in rp.deltas.iter().enumerate() {
        if k == split && k > 0 {
            match rp.structure {
                4 => {
                    let e = s.off + mi;
                    p.end_sequence(e);
                    want.push(Row { address: base + (e - base_off), op_index: s.op, file: 0, line: 0, column: 0, is_stmt: false, basic_block: false, end_sequence: true, prologue_end: false, epilogue_begin: false, isa: 0, discriminator: 0 });
                    s = initial(&l);
                    let a2 = a - 0x800;
                    p.begin_sequence(Some(Address::Constant(a2)));
                    base = a2;
                    base_off = 0;
                    log.push(format!("end_sequence({:#x}); begin_sequence(Some({:#x}))", e, a2));
                }
                5 => {
                    *mid_op_nonzero = s.op != 0;
                    let b = base + (s.off - base_off);
                    p.set_address(Address::Constant(b));
                    log.push(format!("set_address({:#x})", b));
                    // all readings agree: same address
                }
                6 => {
                    *mid_op_nonzero = s.op != 0;
                    let b = base + (s.off - base_off) + 0x100 * mi;
                    p.set_address(Address::Constant(b));
                    log.push(format!("set_address({:#x})", b));
                    alts = Some((b, base, s.off, want.len()));
                    base = b;
                    base_off = s.off;
                }
                _ => {}
            }
        }
        let mut t = Transient::default();
        apply_delta(d, &mut s, &mut t, &l);
        {
            let r = p.row();
            r.address_offset = s.off;
            r.op_index = s.op;
            r.file = f[s.file];
            r.line = s.line;
            r.column = s.column;
            r.is_statement = s.stmt;
            r.isa = s.isa;
            r.basic_block = t.bb;
            r.prologue_end = t.pe;
            r.epilogue_begin = t.eb;
            r.discriminator = t.disc;
        }
        p.generate_row();
        log.push(format!("row[{}]", DELTA_NAMES[d]));
        want.push(Row { address: base + (s.off - base_off), op_index: s.op, file: raw[s.file], line: s.line, column: s.column, is_stmt: s.stmt, basic_block: t.bb, end_sequence: false, prologue_end: t.pe, epilogue_begin: t.eb, isa: s.isa, discriminator: t.disc });
    }
    let e = if rp.structure == 8 { s.off + 3 * mi } else { s.off };
    p.end_sequence(e);
    log.push(format!("end_sequence({:#x})", e));
    want.push(Row { address: base + (e - base_off), op_index: s.op, file: 0, line: 0, column: 0, is_stmt: false, basic_block: false, end_sequence: true, prologue_end: false, epilogue_begin: false, isa: 0, discriminator: 0 });
    let alt = alts.map(|(b, a0, pp, from)| {
        // reading 2: offsets from the sequence start A; reading 3: offsets from the new address B
        let mut v2 = want.clone();
        let mut v3 = want.clone();
        for r in v2[from..].iter_mut() {
            r.address = r.address - b + a0 + pp; // A + X
        }
        for r in v3[from..].iter_mut() {
            r.address = r.address + pp; // B + X
        }
        vec![v2, v3]
    });
    (want, log, alt)
}

fn run_rowprog(ctx: &mut Ctx, rp: &RowProg) {
    let case0 = || format!("{} {} structure='{}' deltas={:?}", render_enc(&rp.enc, rp.big), render_le(&rp.l), STRUCT_NAMES[rp.structure], rp.deltas.iter().map(|&d| DELTA_NAMES[d]).collect::<Vec<_>>());
    ctx.eval(1);
    let Some(mut p) = new_program(ctx, rp.enc, rp.l, &case0) else { return };
    let d0 = p.default_directory();
    let f1 = p.add_file(LineString::String(b"f1.c".to_vec()), d0, None);
    let f2 = p.add_file(LineString::String(b"f2.c".to_vec()), d0, None);
    // raw file numbers by the standard's numbering of the emitted table
    let pos = |id: FileId| p.files().position(|(i, _, _)| i == id).unwrap() as u64 + if rp.enc.version <= 4 { 1 } else { 0 };
    let raw = [pos(f1), pos(f2)];
    let mut res = None;
    let mut mid_op_nonzero = false;
    let built = guard(|| {
        res = Some(drive(rp, &mut p, [f1, f2], raw, &mut mid_op_nonzero));
    });
    if let Err(pn) = built {
        crate::fail_panic(ctx, "LineProgram::generate_row", &pn, case0());
        return;
    }
    let (want, log, alt) = res.unwrap();
    let case = || format!("{} calls=[{}]", case0(), log.join("; "));
    let mut ls = LineStringTable::default();
    let mut st = StringTable::default();
    if let Some(alts) = alt {
        // mid-sequence set_address to a different address: the API documentation
        // admits several readings of address_offset afterwards; any of them is accepted
        let secs = match write_program(&p, rp.enc, rp.big, &mut ls, &mut st) {
            Err(pn) => return crate::fail_panic(ctx, "LineProgram::write", &pn, case()),
            Ok(Err(e)) => return ctx.fail("LineProgram::write", "write", "error", format!("{}: Err({})", case(), e)),
            Ok(Ok(s)) => s,
        };
        match guard(|| read_rows(&secs, rp.enc, rp.big)) {
            Err(pn) => crate::fail_panic(ctx, "read-back", &pn, case()),
            Ok(Err(e)) => ctx.fail("LineProgram::set_address", "read-back", "unreadable-output", format!("{}: {}", case(), e)),
            Ok(Ok(got)) => {
                if rows_diff(&got, &want).is_none() {
                    ctx.outcome("mid-set_address:delta-reading");
                    ctx.nontriv(1);
                } else if alts.iter().any(|w| rows_diff(&got, w).is_none()) {
                    ctx.outcome("mid-set_address:other-reading");
                } else if mid_op_nonzero {
                    ctx.fail("LineProgram::set_address", "rows-after-mid-set_address", "op_index-not-reset", format!("{}: read back {} ; want {} (DW_LNE_set_address zeroes op_index; the writer keeps computing advances from the previous row's op_index)", case(), render_rows(&got), render_rows(&want)));
                } else {
                    ctx.fail("LineProgram::set_address", "rows", "matches-no-reading", format!("{}: read back {} ; delta reading {}", case(), render_rows(&got), render_rows(&want)));
                }
            }
        }
        return;
    }
    if mid_op_nonzero {
        // same address, but op_index was non-zero when set_address was called
        let secs = match write_program(&p, rp.enc, rp.big, &mut ls, &mut st) {
            Err(pn) => return crate::fail_panic(ctx, "LineProgram::write", &pn, case()),
            Ok(Err(e)) => return ctx.fail("LineProgram::write", "write", "error", format!("{}: Err({})", case(), e)),
            Ok(Ok(s)) => s,
        };
        match guard(|| read_rows(&secs, rp.enc, rp.big)) {
            Err(pn) => crate::fail_panic(ctx, "read-back", &pn, case()),
            Ok(Err(e)) => ctx.fail("LineProgram::set_address", "read-back", "unreadable-output", format!("{}: {}", case(), e)),
            Ok(Ok(got)) => {
                if rows_diff(&got, &want).is_none() {
                    ctx.outcome("mid-set_address:op_index-kept");
                } else {
                    ctx.fail("LineProgram::set_address", "rows-after-mid-set_address", "op_index-not-reset", format!("{}: section={} read back {} ; want {} (DW_LNE_set_address zeroes op_index; the writer keeps computing advances from the previous row's op_index)", case(), mcx::hex(&secs.line), render_rows(&got), render_rows(&want)));
                }
            }
        }
        return;
    }
    if finish(ctx, "LineProgram::generate_row", &p, rp.enc, rp.big, &mut ls, &mut st, &want, &case).is_some() {
        ctx.nontriv(1);
        ctx.outcome(match rp.structure {
            0 => "struct:begin-some",
            1 => "struct:begin-none",
            2 => "struct:set_address",
            3 => "struct:implicit",
            4 => "struct:two-sequences",
            5 => "struct:mid-set_address-same",
            7 => "struct:bare-end",
            _ => "struct:end-advance",
        });
    }
    if ctx.want_sample() {
        ctx.sample(format!("{} -> rows {}", case(), render_rows(&want)));
    }
}

fn field_tuples() -> Vec<LineEncoding> {
    vec![le(1, 1, true, -5, 14), le(4, 4, false, -3, 12), le(2, 1, true, -1, 4), le(1, 2, false, 0, 1)]
}

fn versions_for(l: &LineEncoding) -> Vec<u16> {
    if l.maximum_operations_per_instruction > 1 {
        vec![4, 5]
    } else {
        vec![2, 3, 4, 5]
    }
}

fn sub_rowfields(tier: Tier, subs: &mut Vec<Sub>) {
    let maxlen = tier.pick(3u32, 4u32);
    let nseq = seq_count(N_DELTA, 0, maxlen);
    let mut tv: Vec<(LineEncoding, u16)> = vec![];
    for l in field_tuples() {
        for v in versions_for(&l) {
            tv.push((l, v));
        }
    }
    let ntv = tv.len() as u64;
    const CH: u64 = 16;
    let nchunk = nseq.div_ceil(CH);
    push_sub(subs, Sub::new(
        "row-fields",
        ntv * N_STRUCT * nchunk,
        &format!("every sequence of 0..={} rows over 18 row deltas (same, file, column+3, column=0, negate is_stmt, basic_block, prologue_end, epilogue_begin, isa+1, discriminator, op_index+1, line+1, line-1, line+1000, address+1 instruction, address+0x1000 instructions, all fields at once, line=0) x 9 sequence structures (begin_sequence(Some)/(None), set_address without begin, implicit begin, two sequences with reset, mid-sequence set_address to the same / a higher address, bare end_sequence first, end_sequence with extra advance) x 4 LineEncodings (default; min_inst 4 max_ops 4 line_base -3 line_range 12; min_inst 2 line_base -1 line_range 4; max_ops 2 line_base 0 line_range 1) x every version the encoding is valid for ({} tuples); format/address size {{4,8}}/byte order rotate with the index", maxlen, ntv),
        move |ctx, i| {
            let mut m = Mix(i);
            let chunk = m.take(nchunk);
            let structure = m.take(N_STRUCT) as usize;
            let (l, version) = *m.pick(&tv);
            for s in chunk * CH..((chunk + 1) * CH).min(nseq) {
                let deltas = seq_decode(N_DELTA, 0, maxlen, s);
                let enc = Encoding { version, format: if s % 2 == 0 { Format::Dwarf32 } else { Format::Dwarf64 }, address_size: if (s / 2) % 2 == 0 { 8 } else { 4 } };
                let big = (s / 4) % 2 == 1;
                run_rowprog(ctx, &RowProg { enc, big, l, structure, deltas, base: 0x40_0000 });
            }
        },
    ));
}

fn sub_encodings(_tier: Tier, subs: &mut Vec<Sub>) {
    let nseq = seq_count(N_DELTA, 0, 2);
    let tvs: Vec<(LineEncoding, u16)> = field_tuples().into_iter().flat_map(|l| versions_for(&l).into_iter().map(move |v| (l, v))).collect();
    let ntv = tvs.len() as u64;
    push_sub(subs, Sub::new(
        "encodings",
        ntv * 2 * 4 * 2 * N_STRUCT,
        "every (LineEncoding, version) tuple of row-fields x DWARF32/64 x address size 1/2/4/8 x byte order x 9 sequence structures, each with every row sequence of length 0..=2 over the 18 deltas, sequence base address = 2^(8*address_size) - 0x10000 (0xa000 for 2-byte, 0x40 for 1-byte addresses): full product of the dimensions that meet in set_address / header emission",
        move |ctx, i| {
            let mut m = Mix(i);
            let structure = m.take(N_STRUCT) as usize;
            let big = m.flag();
            let asz = *m.pick(&[1u8, 2, 4, 8]);
            let fmt64 = m.flag();
            let (l, version) = *m.pick(&tvs);
            let enc = Encoding { version, format: if fmt64 { Format::Dwarf64 } else { Format::Dwarf32 }, address_size: asz };
            let top: u64 = if asz == 8 { u64::MAX } else { (1u64 << (8 * asz as u32)) - 1 };
            let base = match asz {
                1 => 0x40,
                2 => top - 0x5fff,
                _ => top - 0xffff,
            };
            for s in 0..nseq {
                let deltas = seq_decode(N_DELTA, 0, 2, s);
                // keep every address inside the address size: skip the big advance for narrow addresses
                if asz <= 2 && deltas.iter().any(|&d| d == 15) {
                    continue;
                }
                if asz == 1 && (structure == 4 || structure == 6) {
                    continue;
                }
                run_rowprog(ctx, &RowProg { enc, big, l, structure, deltas, base });
                ctx.outcome(match asz {
                    1 => "addr:1",
                    2 => "addr:2",
                    4 => "addr:4",
                    _ => "addr:8",
                });
            }
        },
    ));
}

// ---------------------------------------------------------------------------
// Boundary offsets / values

fn sub_boundary(_tier: Tier, subs: &mut Vec<Sub>) {
    let offs: Vec<u64> = vec![0, 4, 0x1_0000_0000, 1 << 56, 1 << 60, 1 << 61, 1 << 62, 1 << 63, 0xffff_ffff_8100_0000, u64::MAX - 7];
    let lines: Vec<u64> = vec![1, 0, 0x7fff_ffff, 0x8000_0000, 0xffff_ffff, 1 << 32];
    let tuples = field_tuples();
    let no = offs.len() as u64;
    let nl = lines.len() as u64;
    push_sub(subs, Sub::new(
        "boundary-values",
        tuples.len() as u64 * 2 * no * no * nl,
        "two-row sequences begin_sequence(None); row(offset a, line 1); row(offset b >= a, line L, column/isa/discriminator 2^64-1 on odd indices); end_sequence(b) for a, b in {0, 4, 2^32, 2^56, 2^60, 2^61, 2^62, 2^63, 0xffffffff81000000, 2^64-8} and L in {1, 0, 2^31-1, 2^31, 2^32-1, 2^32} x 4 LineEncodings x versions {4,5}; address size 8; every address stays below 2^64-2",
        move |ctx, i| {
            let mut m = Mix(i);
            let line = *m.pick(&lines);
            let b = *m.pick(&offs);
            let a = *m.pick(&offs);
            let v5 = m.flag();
            let l = *m.pick(&tuples);
            if b < a {
                ctx.outcome("boundary:skipped-decreasing");
                return;
            }
            ctx.eval(1);
            let enc = Encoding { version: if v5 { 5 } else { 4 }, format: Format::Dwarf32, address_size: 8 };
            let big = i % 2 == 1;
            let wide = i % 2 == 1;
            let case = || format!("{} {} begin_sequence(None); row(offset={:#x},line=1); row(offset={:#x},line={}{}); end_sequence({:#x})", render_enc(&enc, big), render_le(&l), a, b, line, if wide { ",column=isa=discriminator=2^64-1" } else { "" }, b);
            let Some(mut p) = new_program(ctx, enc, l, &case) else { return };
            let f1 = p.add_file(LineString::String(b"f1.c".to_vec()), p.default_directory(), None);
            let big_v = if wide { u64::MAX } else { 0 };
            let r = guard(|| {
                p.begin_sequence(None);
                {
                    let r = p.row();
                    r.file = f1;
                    r.address_offset = a;
                }
                p.generate_row();
                {
                    let r = p.row();
                    r.address_offset = b;
                    r.line = line;
                    r.column = big_v;
                    r.isa = big_v;
                    r.discriminator = big_v;
                }
                p.generate_row();
                p.end_sequence(b);
            });
            if let Err(pn) = r {
                crate::fail_panic(ctx, "LineProgram::generate_row", &pn, case());
                return;
            }
            let base = Row { address: a, op_index: 0, file: 1, line: 1, column: 0, is_stmt: l.default_is_stmt, basic_block: false, end_sequence: false, prologue_end: false, epilogue_begin: false, isa: 0, discriminator: 0 };
            let want = vec![base, Row { address: b, line, column: big_v, isa: big_v, discriminator: big_v, ..base }, Row { address: b, end_sequence: true, ..base }];
            let mut ls = LineStringTable::default();
            let mut st = StringTable::default();
            if finish(ctx, "LineProgram::generate_row", &p, enc, big, &mut ls, &mut st, &want, &case).is_some() {
                ctx.nontriv(1);
                ctx.outcome("boundary:compared");
            }
        },
    ));
}

// ---------------------------------------------------------------------------
// File and directory tables

#[derive(Clone, Copy, PartialEq, Eq, Debug)]
enum Form {
    Inline,
    LineStrp,
    Strp,
}

fn mk_string(form: Form, s: &[u8], ls: &mut LineStringTable, st: &mut StringTable) -> LineString {
    match form {
        Form::Inline => LineString::String(s.to_vec()),
        Form::LineStrp => LineString::LineStringRef(ls.add(s.to_vec())),
        Form::Strp => LineString::StringRef(st.add(s.to_vec())),
    }
}

#[derive(Clone, Debug, PartialEq, Eq)]
struct MInfo {
    timestamp: u64,
    size: u64,
    md5: [u8; 16],
    source: Option<Vec<u8>>,
}

fn info_of(k: u64) -> Option<MInfo> {
    match k {
        0 => None,
        1 => Some(MInfo { timestamp: 0x1234_5678, size: 0x80, md5: [0x11; 16], source: Some(b"int main(){}\n".to_vec()) }),
        _ => Some(MInfo { timestamp: u64::MAX, size: 1 << 40, md5: [0xfe, 0xdc, 0xba, 0x98, 0x76, 0x54, 0x32, 0x10, 0, 1, 2, 3, 4, 5, 6, 7], source: None }),
    }
}

/// One table operation: 0..3 add_directory(name k), 3.. add_file(name, dir choice, info)
const N_TOP: u64 = 3 + 2 * 2 * 3;

fn resolve<'a>(a: &gimli::AttributeValue<R<'a>>, s: &'a Sections, big: bool) -> Option<(&'static str, Vec<u8>)> {
    match a {
        gimli::AttributeValue::String(r) => Some(("string", r.slice().to_vec())),
        gimli::AttributeValue::DebugLineStrRef(o) => gimli::DebugLineStr::from(EndianSlice::new(&s.line_str[..], endian(big))).get_str(*o).ok().map(|r| ("line_strp", r.slice().to_vec())),
        gimli::AttributeValue::DebugStrRef(o) => gimli::DebugStr::new(&s.str_, endian(big)).get_str(*o).ok().map(|r| ("strp", r.slice().to_vec())),
        _ => None,
    }
}

/// Tables with many entries: the counts cross the one/two-byte ULEB128 boundary.
fn sub_file_counts(_tier: Tier, subs: &mut Vec<Sub>) {
    let counts: [usize; 9] = [1, 2, 126, 127, 128, 129, 255, 256, 300];
    push_sub(subs, Sub::new(
        "file-counts",
        counts.len() as u64 * 3 * 2 * 2,
        "N directories and N files (file k in directory k) for N in {1,2,126,127,128,129,255,256,300} x versions {2,4,5} x DWARF32/64 x byte order, inline strings, one row per first / middle / last file: every directory and every file entry of the header (name, directory index), and the rows' files, compared after read-back",
        move |ctx, i| {
            let mut m = Mix(i);
            let big = m.flag();
            let fmt64 = m.flag();
            let version = *m.pick(&[2u16, 4, 5]);
            let n = *m.pick(&counts);
            let enc = Encoding { version, format: if fmt64 { Format::Dwarf64 } else { Format::Dwarf32 }, address_size: 8 };
            let case = || format!("{} {} directories and files", render_enc(&enc, big), n);
            ctx.eval(1);
            let mut ls = LineStringTable::default();
            let mut st = StringTable::default();
            let mut p = match guard(|| LineProgram::new(enc, LineEncoding::default(), LineString::String(b"/wd".to_vec()), None, LineString::String(b"main.c".to_vec()), None)) {
                Ok(p) => p,
                Err(pn) => return crate::fail_panic(ctx, "LineProgram::new", &pn, case()),
            };
            let mut ids = vec![];
            let built = guard(|| {
                for k in 0..n {
                    let d = p.add_directory(LineString::String(format!("dir{}", k).into_bytes()));
                    ids.push(p.add_file(LineString::String(format!("f{}.c", k).into_bytes()), d, None));
                }
                p.begin_sequence(Some(Address::Constant(0x1000)));
                for (j, &k) in [0usize, n / 2, n - 1].iter().enumerate() {
                    let r = p.row();
                    r.file = ids[k];
                    r.address_offset = j as u64;
                    p.generate_row();
                }
                p.end_sequence(3);
            });
            if let Err(pn) = built {
                return crate::fail_panic(ctx, "LineProgram::add_file", &pn, case());
            }
            let secs = match write_program(&p, enc, big, &mut ls, &mut st) {
                Err(pn) => return crate::fail_panic(ctx, "LineProgram::write", &pn, case()),
                Ok(Err(e)) => return ctx.fail("LineProgram::write", "write", "unexpected-error", format!("{}: Err({})", case(), e)),
                Ok(Ok(s)) => s,
            };
            let res = guard(|| -> Result<(), String> {
                let dl = gimli::DebugLine::new(&secs.line, endian(big));
                let prog = dl.program(DebugLineOffset(0), 8, None, None).map_err(|e| format!("unreadable output: {:?}", e))?;
                let h = prog.header().clone();
                // version 5 lists the working directory and the primary file as entry 0
                let skip = if version >= 5 { 1 } else { 0 };
                if h.include_directories().len() != n + skip || h.file_names().len() != n + skip {
                    return Err(format!("{} directories and {} files read back, {} of each written", h.include_directories().len(), h.file_names().len(), n + skip));
                }
                for k in 0..n {
                    let d = &h.include_directories()[k + skip];
                    let f = &h.file_names()[k + skip];
                    let dn = match d {
                        gimli::AttributeValue::String(r) => r.slice().to_vec(),
                        other => return Err(format!("directory {} reads back as {:?}", k, other)),
                    };
                    let fnm = match f.path_name() {
                        gimli::AttributeValue::String(r) => r.slice().to_vec(),
                        other => return Err(format!("file {} reads back as {:?}", k, other)),
                    };
                    // directory index: version 5 counts from the working directory (0), earlier versions from 1
                    let want_dir = k as u64 + 1;
                    if dn != format!("dir{}", k).into_bytes() || fnm != format!("f{}.c", k).into_bytes() || f.directory_index() != want_dir {
                        return Err(format!("entry {}: directory {:?}, file {:?} in directory {} (expected dir{}, f{}.c, {})", k, String::from_utf8_lossy(&dn), String::from_utf8_lossy(&fnm), f.directory_index(), k, k, want_dir));
                    }
                }
                let mut rows = prog.rows();
                let mut got = vec![];
                while let Some((_, r)) = rows.next_row().map_err(|e| format!("rows: {:?}", e))? {
                    got.push((r.address(), r.file_index(), r.end_sequence()));
                }
                let fi = |k: usize| k as u64 + 1;
                let want = vec![(0x1000, fi(0), false), (0x1001, fi(n / 2), false), (0x1002, fi(n - 1), false), (0x1003, fi(n - 1), true)];
                if got != want {
                    return Err(format!("rows {:?}, expected {:?}", got, want));
                }
                Ok(())
            });
            match res {
                Err(pn) => crate::fail_panic(ctx, "read-back", &pn, case()),
                Ok(Err(e)) => ctx.fail("LineProgram::write", "file-tables", "wrong-table-with-many-entries", format!("{}: {}", case(), e)),
                Ok(Ok(())) => {
                    ctx.nontriv(1);
                    ctx.outcome("files:many-entries-compared");
                }
            }
        },
    ));
}

fn sub_files(tier: Tier, subs: &mut Vec<Sub>) {
    let maxops = tier.pick(2u32, 3u32);
    let nseq = seq_count(N_TOP, 0, maxops);
    // dims: version 4, fmt 2, form 3, flags 16, seq
    push_sub(subs, Sub::new(
        "file-tables",
        nseq * 4 * 2 * 3 * 16,
        &format!("every sequence of 0..={} table operations over {{add_directory of 3 names (one equal to the working directory), add_file of 2 names x (default directory | most recently added directory) x info (None | timestamp/size/md5/source | extreme values, no source)}} (duplicates re-use ids, later info overrides) x versions 2-5 x DWARF32/64 x string form (inline, .debug_line_str, .debug_str) x all 16 combinations of file_has_timestamp/size/md5/source; one row per file id; tables, optional fields, string sections and row->file resolution compared", maxops),
        move |ctx, i| {
            let mut m = Mix(i);
            let flags = m.take(16);
            let form = *m.pick(&[Form::Inline, Form::LineStrp, Form::Strp]);
            let fmt64 = m.flag();
            let version = *m.pick(&[2u16, 3, 4, 5]);
            let ops = seq_decode(N_TOP, 0, maxops, m.0);
            let big = i % 2 == 1;
            let enc = Encoding { version, format: if fmt64 { Format::Dwarf64 } else { Format::Dwarf32 }, address_size: 8 };
            let l = LineEncoding::default();
            ctx.eval(1);
            let mut ls = LineStringTable::default();
            let mut st = StringTable::default();
            let dnames: [&[u8]; 3] = [b"/wd", b"inc", b"/usr/include"];
            let fnames: [&[u8]; 2] = [b"a.c", b"main.c"];
            let mut log: Vec<String> = vec![];
            // model of the tables (insertion-ordered sets keyed by name / (name, dir))
            let mut mdirs: Vec<Vec<u8>> = vec![b"/wd".to_vec()];
            let mut mfiles: Vec<(Vec<u8>, usize, MInfo)> = vec![];
            if version >= 5 {
                mfiles.push((b"main.c".to_vec(), 0, MInfo { timestamp: 0, size: 0, md5: [0; 16], source: None }));
            }
            let wd = mk_string(form, b"/wd", &mut ls, &mut st);
            let sf = mk_string(form, b"main.c", &mut ls, &mut st);
            let mut p = match guard(|| LineProgram::new(enc, l, wd, None, sf, None)) {
                Ok(p) => p,
                Err(pn) => return crate::fail_panic(ctx, "LineProgram::new", &pn, format!("{} form {:?}", render_enc(&enc, big), form)),
            };
            p.file_has_timestamp = flags & 1 != 0;
            p.file_has_size = flags & 2 != 0;
            p.file_has_md5 = flags & 4 != 0;
            p.file_has_source = flags & 8 != 0;
            let mut last_dir: (DirectoryId, usize) = (p.default_directory(), 0);
            let mut ids: Vec<(FileId, usize)> = vec![];
            for &op in &ops {
                let op = op as u64;
                if op < 3 {
                    let name = dnames[op as usize];
                    let s = mk_string(form, name, &mut ls, &mut st);
                    let id = match guard(|| p.add_directory(s)) {
                        Ok(id) => id,
                        Err(pn) => return crate::fail_panic(ctx, "LineProgram::add_directory", &pn, log.join("; ")),
                    };
                    let idx = match mdirs.iter().position(|d| d == name) {
                        Some(k) => k,
                        None => {
                            mdirs.push(name.to_vec());
                            mdirs.len() - 1
                        }
                    };
                    last_dir = (id, idx);
                    log.push(format!("add_directory({:?})", String::from_utf8_lossy(name)));
                } else {
                    let mut mm = Mix(op - 3);
                    let name = fnames[mm.take(2) as usize];
                    let use_last = mm.flag();
                    let info = info_of(mm.take(3));
                    let (did, didx) = if use_last { last_dir } else { (p.default_directory(), 0) };
                    let s = mk_string(form, name, &mut ls, &mut st);
                    let winfo = info.as_ref().map(|x| FileInfo { timestamp: x.timestamp, size: x.size, md5: x.md5, source: x.source.as_ref().map(|b| mk_string(form, b, &mut ls, &mut st)) });
                    let id = match guard(|| p.add_file(s, did, winfo)) {
                        Ok(id) => id,
                        Err(pn) => return crate::fail_panic(ctx, "LineProgram::add_file", &pn, log.join("; ")),
                    };
                    let pos = match mfiles.iter().position(|f| f.0 == name && f.1 == didx) {
                        Some(k) => {
                            if let Some(x) = info.clone() {
                                mfiles[k].2 = x;
                            }
                            k
                        }
                        None => {
                            mfiles.push((name.to_vec(), didx, info.clone().unwrap_or(MInfo { timestamp: 0, size: 0, md5: [0; 16], source: None })));
                            mfiles.len() - 1
                        }
                    };
                    ids.push((id, pos));
                    log.push(format!("add_file({:?}, dir#{}, info#{})", String::from_utf8_lossy(name), didx, if info.is_none() { "None" } else { "Some" }));
                }
            }
            let case = || format!("{} form={:?} has(ts,size,md5,src)=({},{},{},{}) ops=[{}]", render_enc(&enc, big), form, flags & 1, (flags >> 1) & 1, (flags >> 2) & 1, (flags >> 3) & 1, log.join("; "));
            // identity: add_file must have returned the id of the model's entry
            for (id, pos) in &ids {
                let k = p.files().position(|(i, _, _)| i == *id);
                if k != Some(*pos) {
                    ctx.fail("LineProgram::add_file", "file-identity", "wrong-id", format!("{}: id maps to table position {:?}, model {}", case(), k, pos));
                    return;
                }
            }
            // one row per file id
            let mut want = vec![];
            let base_row = Row { address: 0x1000, op_index: 0, file: 0, line: 1, column: 0, is_stmt: true, basic_block: false, end_sequence: false, prologue_end: false, epilogue_begin: false, isa: 0, discriminator: 0 };
            let rws = guard(|| {
                p.begin_sequence(Some(Address::Constant(0x1000)));
                for (k, (id, pos)) in ids.iter().enumerate() {
                    let r = p.row();
                    r.file = *id;
                    r.address_offset = k as u64;
                    p.generate_row();
                    want.push(Row { address: 0x1000 + k as u64, file: *pos as u64 + if version <= 4 { 1 } else { 0 }, ..base_row });
                }
                p.end_sequence(ids.len() as u64);
                want.push(Row { address: 0x1000 + ids.len() as u64, end_sequence: true, ..base_row });
            });
            if let Err(pn) = rws {
                return crate::fail_panic(ctx, "LineProgram::generate_row", &pn, case());
            }
            // expected refusals
            let need_v5 = version <= 4 && form != Form::Inline && (mdirs.len() > 1 || !mfiles.is_empty());
            let secs = match write_program(&p, enc, big, &mut ls, &mut st) {
                Err(pn) => return crate::fail_panic(ctx, "LineProgram::write", &pn, case()),
                Ok(Err(e)) => {
                    if need_v5 && (e.contains("NeedVersion") || e.contains("LineStringFormMismatch")) {
                        ctx.outcome("files:refused-string-form-before-v5");
                    } else {
                        ctx.fail("LineProgram::write", "write", "unexpected-error", format!("{}: Err({})", case(), e));
                    }
                    return;
                }
                Ok(Ok(s)) => s,
            };
            if need_v5 {
                ctx.fail("LineProgram::write", "write", "accepted-string-form-before-v5", case());
                return;
            }
            // read back
            let res = guard(|| -> Result<(), (String, String, String)> {
                let dl = gimli::DebugLine::new(&secs.line, endian(big));
                let prog = dl.program(DebugLineOffset(0), 8, None, None).map_err(|e| ("read-back".to_string(), "unreadable-output".to_string(), format!("{:?}", e)))?;
                let h = prog.header().clone();
                let bad = |site: &str, kind: &str, d: String| Err((site.to_string(), kind.to_string(), d));
                // directories
                let want_dirs: Vec<&Vec<u8>> = if version <= 4 { mdirs.iter().skip(1).collect() } else { mdirs.iter().collect() };
                if h.include_directories().len() != want_dirs.len() {
                    return bad("directories", "wrong-count", format!("got {} want {}", h.include_directories().len(), want_dirs.len()));
                }
                let wform = match form {
                    Form::Inline => "string",
                    Form::LineStrp => "line_strp",
                    Form::Strp => "strp",
                };
                for (k, (g, w)) in h.include_directories().iter().zip(&want_dirs).enumerate() {
                    match resolve(g, &secs, big) {
                        Some((f, b)) if b == **w && f == wform => {}
                        other => return bad("directories", "wrong-entry", format!("dir {} = {:?} want {:?} as {}", k, other, String::from_utf8_lossy(w), wform)),
                    }
                }
                if h.file_names().len() != mfiles.len() {
                    return bad("files", "wrong-count", format!("got {} want {}", h.file_names().len(), mfiles.len()));
                }
                for (k, (g, w)) in h.file_names().iter().zip(&mfiles).enumerate() {
                    match resolve(&g.path_name(), &secs, big) {
                        Some((f, b)) if b == w.0 && f == wform => {}
                        other => return bad("files", "wrong-path", format!("file {} = {:?} want {:?}", k, other, String::from_utf8_lossy(&w.0))),
                    }
                    if g.directory_index() != w.1 as u64 {
                        return bad("files", "wrong-directory", format!("file {} dir {} want {}", k, g.directory_index(), w.1));
                    }
                    // the directory index must resolve (through the version's convention) to the directory
                    if w.1 != 0 || version >= 5 {
                        match g.directory(&h).and_then(|a| resolve(&a, &secs, big)) {
                            Some((_, b)) if b == mdirs[w.1] => {}
                            other => return bad("files", "directory-does-not-resolve", format!("file {} directory() = {:?} want {:?}", k, other, String::from_utf8_lossy(&mdirs[w.1]))),
                        }
                    }
                    let has = |bit: u64| version <= 4 && bit < 4 || version >= 5 && flags & bit != 0;
                    let wt = if has(1) { w.2.timestamp } else { 0 };
                    let ws = if has(2) { w.2.size } else { 0 };
                    if g.timestamp() != wt {
                        return bad("files", "wrong-timestamp", format!("file {} timestamp {} want {}", k, g.timestamp(), wt));
                    }
                    if g.size() != ws {
                        return bad("files", "wrong-size", format!("file {} size {} want {}", k, g.size(), ws));
                    }
                    let wm = if version >= 5 && flags & 4 != 0 { w.2.md5 } else { [0; 16] };
                    if *g.md5() != wm {
                        return bad("files", "wrong-md5", format!("file {} md5 {} want {}", k, mcx::hex(g.md5()), mcx::hex(&wm)));
                    }
                    if version >= 5 && flags & 8 != 0 {
                        let ws: Vec<u8> = w.2.source.clone().unwrap_or_default();
                        match g.source().and_then(|a| resolve(&a, &secs, big)) {
                            Some((_, b)) if b == ws => {}
                            other => return bad("files", "wrong-source", format!("file {} source {:?} want {:?}", k, other, String::from_utf8_lossy(&ws))),
                        }
                    } else if g.source().is_some() {
                        return bad("files", "wrong-source", format!("file {} has a source but none was requested", k));
                    }
                }
                // rows and their files
                let mut rows = prog.rows();
                let mut got = vec![];
                while let Some((hh, r)) = rows.next_row().map_err(|e| ("read-back".to_string(), "unreadable-output".to_string(), format!("{:?}", e)))? {
                    let row = grow(r);
                    if !row.end_sequence {
                        let k = got.len();
                        let (_, pos) = ids[k.min(ids.len() - 1)];
                        match r.file(hh).and_then(|f| resolve(&f.path_name(), &secs, big)) {
                            Some((_, b)) if b == mfiles[pos].0 => {}
                            other => return bad("rows", "row-file-does-not-resolve", format!("row {} file index {} resolves to {:?} want {:?}", k, row.file, other, String::from_utf8_lossy(&mfiles[pos].0))),
                        }
                    }
                    got.push(row);
                }
                if let Some((f, k)) = rows_diff(&got, &want) {
                    return bad("rows", &format!("wrong-{}", f), format!("row {}: got {} want {}", k, render_rows(&got), render_rows(&want)));
                }
                Ok(())
            });
            match res {
                Err(pn) => crate::fail_panic(ctx, "read-back", &pn, case()),
                Ok(Err((site, kind, d))) => ctx.fail("LineProgram::write", &site, &kind, format!("{}: {} ; .debug_line={}", case(), d, mcx::hex(&secs.line))),
                Ok(Ok(())) => {
                    ctx.nontriv(1);
                    ctx.outcome(match form {
                        Form::Inline => "files:inline",
                        Form::LineStrp => "files:line_strp",
                        Form::Strp => "files:strp",
                    });
                    if version >= 5 {
                        ctx.outcome("files:v5");
                    } else {
                        ctx.outcome("files:v2-4");
                    }
                    if flags == 15 && version >= 5 {
                        ctx.outcome("files:all-optional-fields");
                    }
                }
            }
            if ctx.want_sample() {
                ctx.sample(format!("{} -> .debug_line={}", case(), mcx::hex(&secs.line)));
            }
        },
    ));
    let _ = render_row;
}

/// A line program may be older than the unit that refers to it (a version 2-4 program in a
/// version 5 unit is accepted by `LineProgram::write`): the program must then still be
/// written in ITS OWN version, format and file numbering.
fn sub_unit_encoding_differs(_tier: Tier, subs: &mut Vec<Sub>) {
    push_sub(subs, Sub::new("unit-encoding-differs-from-program", 4 * 4 * 2 * 2 * 2 * 2, "line program version pv in {2,3,4,5} x unit version uv in {2,3,4,5} x program format {32,64} x unit format {32,64} x address size {4,8} x byte order: three files in two directories, four rows that switch file each time; LineProgram::write(unit encoding) must fail with an error when uv < 5 <= pv and otherwise emit a version-pv program whose rows resolve (through the header's own file table) to the files the rows were generated with", move |ctx, i| {
        let mut m = Mix(i);
        let big = m.flag();
        let asz = if m.flag() { 8u8 } else { 4 };
        let ufmt = if m.flag() { Format::Dwarf64 } else { Format::Dwarf32 };
        let pfmt = if m.flag() { Format::Dwarf64 } else { Format::Dwarf32 };
        let uv = [2u16, 3, 4, 5][m.take(4) as usize];
        let pv = [2u16, 3, 4, 5][m.take(4) as usize];
        let penc = Encoding { version: pv, format: pfmt, address_size: asz };
        let uenc = Encoding { version: uv, format: ufmt, address_size: asz };
        let case = || format!("program {} written for unit {}", render_enc(&penc, big), render_enc(&uenc, big));
        ctx.eval(1);
        let Ok(mut p) = guard(|| LineProgram::new(penc, LineEncoding::default(), LineString::String(b"/wd".to_vec()), None, LineString::String(b"main.c".to_vec()), None)) else {
            ctx.fail("LineProgram::new", "new", "panic", case());
            return;
        };
        let inc = p.add_directory(LineString::String(b"/inc".to_vec()));
        let wd = p.default_directory();
        let f_main = p.add_file(LineString::String(b"main.c".to_vec()), wd, None);
        let f_a = p.add_file(LineString::String(b"a.h".to_vec()), inc, None);
        let f_b = p.add_file(LineString::String(b"b.h".to_vec()), inc, None);
        let plan: [(FileId, &[u8], u64); 4] = [(f_a, b"a.h", 11), (f_b, b"b.h", 12), (f_main, b"main.c", 13), (f_a, b"a.h", 14)];
        p.begin_sequence(Some(Address::Constant(0x1000)));
        for (k, (f, _, line)) in plan.iter().enumerate() {
            p.row().address_offset = 4 * k as u64;
            p.row().file = *f;
            p.row().line = *line;
            p.generate_row();
        }
        p.end_sequence(0x20);
        let mut ls = LineStringTable::default();
        let mut st = StringTable::default();
        let r = guard(|| {
            let mut dl = DebugLine::from(EndianVec::new(endian(big)));
            p.write(&mut dl, uenc, &mut ls, &mut st).map(|_| dl.slice().to_vec())
        });
        let must_fail = uv < 5 && pv >= 5;
        let bytes = match r {
            Err(pn) => return crate::fail_panic(ctx, "LineProgram::write", &pn, case()),
            Ok(Err(_)) if must_fail => {
                ctx.outcome("unitenc:refused-v5-program-in-older-unit");
                return;
            }
            Ok(Err(e)) => {
                ctx.fail("LineProgram::write", "unit-encoding-differs", "unexpected-error", format!("{}: {:?}", case(), e));
                return;
            }
            Ok(Ok(b)) if must_fail => {
                ctx.fail("LineProgram::write", "unit-encoding-differs", "wrote-v5-program-for-older-unit", format!("{}: {}", case(), mcx::hex(&b)));
                return;
            }
            Ok(Ok(b)) => b,
        };
        ctx.nontriv(1);
        let res = guard(|| -> Result<(), String> {
            let dl = gimli::DebugLine::new(&bytes, endian(big));
            let prog = dl.program(DebugLineOffset(0), asz, None, None).map_err(|e| format!("header: {:?}", e))?;
            let h = prog.header().clone();
            if h.version() != pv || h.format() != pfmt || h.address_size() != asz {
                return Err(format!("header reads version {} format {:?} address size {}", h.version(), h.format(), h.address_size()));
            }
            let mut rows = prog.rows();
            let mut k = 0usize;
            while let Some((hh, r)) = rows.next_row().map_err(|e| format!("rows: {:?}", e))? {
                if r.end_sequence() {
                    if r.address() != 0x1020 {
                        return Err(format!("end of sequence at {:#x}", r.address()));
                    }
                    continue;
                }
                let (_, name, line) = plan.get(k).ok_or("more rows than generated")?;
                let f = r.file(hh).ok_or_else(|| format!("row {}: no file entry for index {}", k, r.file_index()))?;
                let got = match f.path_name() {
                    gimli::AttributeValue::String(s) => s.slice().to_vec(),
                    other => return Err(format!("row {}: path form {:?}", k, other)),
                };
                if got != *name || r.line().map(|l| l.get()) != Some(*line) || r.address() != 0x1000 + 4 * k as u64 {
                    return Err(format!("row {}: file {:?} line {:?} address {:#x}; generated with file {:?} line {} address {:#x}", k, String::from_utf8_lossy(&got), r.line(), r.address(), String::from_utf8_lossy(name), line, 0x1000 + 4 * k as u64));
                }
                k += 1;
            }
            if k != plan.len() {
                return Err(format!("{} rows read back, {} generated", k, plan.len()));
            }
            Ok(())
        });
        match res {
            Err(pn) => crate::fail_panic(ctx, "read-back", &pn, case()),
            Ok(Err(e)) => ctx.fail("LineProgram::write", "unit-encoding-differs", "rows-or-files-read-back-differently", format!("{}: {} section={}", case(), e, mcx::hex(&bytes))),
            Ok(Ok(())) => ctx.outcome(if pv != uv || pfmt != ufmt { "unitenc:differing-encodings-ok" } else { "unitenc:same-encoding-ok" }),
        }
    }));
}

/// The writer refuses what it cannot represent with an error.
fn sub_refusals(_tier: Tier, subs: &mut Vec<Sub>) {
    push_sub(subs, Sub::new("refusals", 4 * 3, "max_ops 2 under versions 2,3 (error NeedVersion(4)), mixed string forms in one version 5 table (error LineStringFormMismatch), unit encoding with another address size / older version than a version 5 program (error IncompatibleLineProgramEncoding): an error, never a silently different program", move |ctx, i| {
        ctx.eval(1);
        let kind = i / 4;
        let version = [2u16, 3, 4, 5][(i % 4) as usize];
        let enc = Encoding { version, format: Format::Dwarf32, address_size: 8 };
        let mut ls = LineStringTable::default();
        let mut st = StringTable::default();
        let l = if kind == 0 { le(1, 2, true, -5, 14) } else { LineEncoding::default() };
        let Ok(mut p) = guard(|| LineProgram::new(enc, l, LineString::String(b"/wd".to_vec()), None, LineString::String(b"m.c".to_vec()), None)) else {
            ctx.fail("LineProgram::new", "new", "panic", format!("v{}", version));
            return;
        };
        let mut unit_enc = enc;
        let expect_err = match kind {
            0 => version < 4,
            1 => {
                let s = LineString::LineStringRef(ls.add(b"x.c".to_vec()));
                let d = p.default_directory();
                p.add_file(s, d, None);
                // version 5: files[0] is an inline string, this one a reference -> mismatch;
                // before version 5 references cannot be written at all
                true
            }
            _ => {
                if version >= 5 {
                    unit_enc.version = 4;
                } else {
                    unit_enc.address_size = 4;
                }
                true
            }
        };
        p.begin_sequence(Some(Address::Constant(0x1000)));
        p.generate_row();
        p.end_sequence(4);
        let r = guard(|| {
            let mut dl = DebugLine::from(EndianVec::new(RunTimeEndian::Little));
            p.write(&mut dl, unit_enc, &mut ls, &mut st).map(|_| dl.slice().to_vec())
        });
        match r {
            Err(pn) => crate::fail_panic(ctx, "LineProgram::write", &pn, format!("refusal kind {} v{}", kind, version)),
            Ok(Err(_)) if expect_err => ctx.outcome("refusal:error"),
            Ok(Ok(_)) if !expect_err => ctx.outcome("refusal:not-needed"),
            Ok(Err(e)) => ctx.fail("LineProgram::write", "refusal", "unexpected-error", format!("kind {} v{}: {:?}", kind, version, e)),
            Ok(Ok(b)) => ctx.fail("LineProgram::write", "refusal", "wrote-unrepresentable-program", format!("kind {} v{}: {}", kind, version, mcx::hex(&b))),
        }
        ctx.nontriv(1);
    }));
}

/// Generous no-progress timeout: one case is at most a few hundred ms of CPU, but
/// the machine may be heavily oversubscribed by parallel sessions.
fn push_sub(subs: &mut Vec<Sub>, s: Sub) {
    subs.push(s.timeout(1800));
}

pub fn def(tier: Tier) -> CheckDef {
    let mut subs = vec![];
    sub_grid(tier, &mut subs);
    sub_rowfields(tier, &mut subs);
    sub_encodings(tier, &mut subs);
    sub_boundary(tier, &mut subs);
    sub_files(Tier::Thorough, &mut subs); // cheap: thorough bounds in both tiers
    sub_file_counts(tier, &mut subs);
    sub_refusals(tier, &mut subs);
    sub_unit_encoding_differs(tier, &mut subs);
    CheckDef {
        level: "exploration",
        rule: "exhaustive enumeration of the writer call sequences stated per sub-space in coverage.bounds; every case drives the real gimli::write::LineProgram, serialises it, reads the bytes back with gimli::read (decided by C04) and compares every row field / table entry with the values handed to the writer; evaluations = (line advance, operation advance) pairs resp. programs written; non-trivial = those whose read-back was compared completely; cases are distinct by construction of the index".into(),
        assumptions: vec![
            "gimli's line-program reader is the oracle for the emitted bytes; its own correctness is the subject of C04 (same binary)".into(),
            "caller contract respected: address offsets and (address, op_index) never decrease within a sequence, op_index < maximum_operations_per_instruction, offsets are multiples of minimum_instruction_length, strings non-empty without NUL, addresses stay below the tombstone values 2^(8*address_size)-2".into(),
            "LineProgram::new's documented panics (line_base > 0, line_base + line_range <= 0) are not violations; a panic for a LineEncoding inside the documented-valid set is".into(),
            "an end_sequence row carries only address and op_index ('other information in the same row is not meaningful')".into(),
            "mid-sequence set_address to a different address: the rustdoc admits three readings of address_offset afterwards (continuing deltas, offset from the sequence start, offset from the new address); a read-back matching any of them is accepted".into(),
            "line numbers above 2^32 and operation advances the reader cannot hold in 64 bits are outside the enumerated space".into(),
        ],
        subs,
        required_outcomes: ["rows:equal", "grid:unit-row-compared", "struct:begin-some", "struct:begin-none", "struct:set_address", "struct:implicit", "struct:two-sequences", "struct:mid-set_address-same", "struct:bare-end", "struct:end-advance", "mid-set_address:delta-reading", "addr:1", "addr:2", "addr:4", "addr:8", "boundary:compared", "files:inline", "files:line_strp", "files:strp", "files:v5", "files:v2-4", "files:all-optional-fields", "files:refused-string-form-before-v5", "refusal:error", "refusal:not-needed", "unitenc:differing-encodings-ok", "unitenc:refused-v5-program-in-older-unit"].iter().map(|s| s.to_string()).collect(),
    }
}
